(* C15: byte transforms invert exactly and match their definition. *)
From Coq Require Import ZArith NArith List Bool Lia ZifyBool ZifyN ZifyNat Arith.
From Coq Require Import Strings.Byte.
Require Import Bytes Value Expr Codec Float Stream Syntax Sizeof Parse Build BytesFacts StreamFacts PrimFacts.
Import ListNotations.

(* ---- every byte, for finite sweeps ---- *)
Definition all_bytes : list byte := map byte_of_N (map N.of_nat (seq 0 256)).

Lemma in_all_bytes b : existsb (Byte.eqb b) all_bytes = true.
Proof. destruct b; vm_compute; reflexivity. Qed.

Lemma forall_bytes (P : byte -> bool) : forallb P all_bytes = true -> forall b, P b = true.
Proof.
  intros H b. rewrite forallb_forall in H. pose proof (in_all_bytes b) as E.
  apply existsb_exists in E. destruct E as (x & Hin & Hx). apply Byte.byte_dec_bl in Hx. subst x. apply H, Hin.
Qed.

(* ---- XOR ---- *)
Lemma xor_byte_invol a k : xor_byte (xor_byte a k) k = a.
Proof.
  revert a. revert k.
  assert (H : forallb (fun k => forallb (fun a => Byte.eqb (xor_byte (xor_byte a k) k) a) all_bytes) all_bytes = true)
    by (vm_compute; reflexivity).
  intros k a. pose proof (forall_bytes _ H k) as Hk. cbv beta in Hk.
  pose proof (forall_bytes _ Hk a) as Ha. cbv beta in Ha. apply Byte.byte_dec_bl in Ha. exact Ha.
Qed.

Lemma xor_byte_zero a : xor_byte a x00 = a.
Proof.
  revert a. assert (H : forallb (fun a => Byte.eqb (xor_byte a x00) a) all_bytes = true) by (vm_compute; reflexivity).
  intros a. pose proof (forall_bytes _ H a) as Ha. cbv beta in Ha. apply Byte.byte_dec_bl in Ha. exact Ha.
Qed.

Lemma xor_cycle_aux_invol key : key <> [] -> forall data cur,
  xor_cycle_aux key cur (xor_cycle_aux key cur data) = data.
Proof.
  intros Hk. induction data as [|d t IH]; intros cur; cbn [xor_cycle_aux]; [reflexivity|].
  destruct cur as [|k cur'].
  - destruct key as [|k cur']; [congruence|]. cbn [xor_cycle_aux]. rewrite xor_byte_invol, IH. reflexivity.
  - cbn [xor_cycle_aux]. rewrite xor_byte_invol, IH. reflexivity.
Qed.

(* cyclic XOR with any non-empty key is an involution: what build applies is undone by parse *)
Theorem xor_cycle_involutive : forall key data, key <> [] -> xor_cycle key (xor_cycle key data) = data.
Proof. intros. unfold xor_cycle. apply xor_cycle_aux_invol. assumption. Qed.

Lemma xor_cycle_aux_length key : key <> [] -> forall data cur, length (xor_cycle_aux key cur data) = length data.
Proof.
  intros Hk. induction data as [|d t IH]; intros cur; cbn [xor_cycle_aux length]; [reflexivity|].
  destruct cur as [|k cur']; [destruct key as [|k cur']; [congruence|]|]; cbn [length]; rewrite IH; reflexivity.
Qed.

Lemma skipn_cons_nth {A} (d : A) : forall (l : list A) j k t, skipn j l = k :: t -> (j < length l)%nat /\ k = nth j l d /\ t = skipn (S j) l.
Proof.
  induction l as [|x l IH]; intros j k t H.
  - destruct j; discriminate.
  - destruct j as [|j]; cbn [skipn] in H.
    + injection H as <- <-. cbn [length nth skipn]. repeat split; lia.
    + destruct (IH j k t H) as (H1 & H2 & H3). cbn [length nth]. repeat split; [lia|exact H2|exact H3].
Qed.

Lemma skipn_nil_ge {A} : forall (l : list A) j, skipn j l = [] -> (length l <= j)%nat.
Proof.
  induction l as [|x l IH]; intros j H; [cbn; lia|]. destruct j as [|j]; [discriminate|]. cbn [skipn] in H. apply IH in H. cbn [length]. lia.
Qed.

Lemma xor_cycle_aux_nth key : key <> [] -> forall data j i,
  (j <= length key)%nat -> (i < length data)%nat ->
  nth i (xor_cycle_aux key (skipn j key) data) x00 =
  xor_byte (nth i data x00) (nth ((j + i) mod length key) key x00).
Proof.
  intros Hk. assert (HL : (0 < length key)%nat) by (destruct key; [congruence|cbn; lia]).
  induction data as [|d t IH]; intros j i Hj Hi; [cbn in Hi; lia|]. cbn [xor_cycle_aux].
  destruct (skipn j key) as [|k cur'] eqn:Es.
  - apply skipn_nil_ge in Es. assert (j = length key) by lia. subst j.
    destruct key as [|k0 key'] eqn:Ek; [congruence|]. rewrite <- Ek in *.
    assert (Es1 : skipn 0 key = k0 :: key') by (rewrite Ek; reflexivity).
    destruct i as [|i]; cbn [nth].
    + rewrite Nat.add_0_r, Nat.mod_same by lia. rewrite Ek. reflexivity.
    + change key' with (skipn 1 (k0 :: key')). rewrite <- Ek.
      rewrite IH by (cbn [length] in Hi; lia).
      f_equal. f_equal. replace (length key + S i)%nat with (1 + i + 1 * length key)%nat by lia. rewrite Nat.mod_add by lia. reflexivity.
  - destruct (skipn_cons_nth x00 _ _ _ _ Es) as (H1 & H2 & H3). subst k cur'.
    destruct i as [|i]; cbn [nth].
    + rewrite Nat.add_0_r, Nat.mod_small by exact H1. reflexivity.
    + rewrite IH by (cbn [length] in Hi; lia). f_equal. f_equal. f_equal. lia.
Qed.

(* the definition of the cycled XOR, byte by byte: output byte i is data byte i XOR key byte (i mod |key|), for data of ANY length *)
Theorem xor_cycle_nth : forall key data i, key <> [] -> (i < length data)%nat ->
  nth i (xor_cycle key data) x00 = xor_byte (nth i data x00) (nth (i mod length key) key x00).
Proof.
  intros key data i Hk Hi. unfold xor_cycle. change key with (skipn 0 key) at 2.
  rewrite xor_cycle_aux_nth by (try exact Hk; try exact Hi; lia). reflexivity.
Qed.

(* the single-byte shortcut is the general definition *)
Theorem xor_single_is_cycle : forall k data, xor_cycle [k] data = map (fun b => xor_byte b k) data.
Proof.
  intros k data. unfold xor_cycle.
  assert (H : forall cur, cur = [k] \/ cur = [] -> xor_cycle_aux [k] cur data = map (fun b => xor_byte b k) data).
  { induction data as [|d t IH]; intros cur Hc; cbn [xor_cycle_aux map]; [reflexivity|].
    destruct Hc as [-> | ->]; cbn [xor_cycle_aux]; (rewrite IH; [reflexivity|auto]). }
  apply H. auto.
Qed.

(* the all-zero shortcut is the general definition *)
Theorem xor_zero_is_identity : forall key data, key <> [] -> forallb (fun b => Byte.eqb b x00) key = true -> xor_cycle key data = data.
Proof.
  intros key data Hk Hz. unfold xor_cycle.
  assert (H : forall cur, forallb (fun b => Byte.eqb b x00) cur = true -> xor_cycle_aux key cur data = data).
  { induction data as [|d t IH]; intros cur Hc; cbn [xor_cycle_aux]; [reflexivity|].
    destruct cur as [|k cur'].
    - destruct key as [|k cur'] eqn:Ek; [congruence|]. rewrite <- Ek in *.
      rewrite Ek in Hz. cbn [forallb] in Hz. apply andb_prop in Hz as [H1 H2]. apply Byte.byte_dec_bl in H1. subst k.
      rewrite xor_byte_zero. rewrite Ek. rewrite <- Ek at 1. rewrite IH; [reflexivity|exact H2].
    - cbn [forallb] in Hc. apply andb_prop in Hc as [H1 H2]. apply Byte.byte_dec_bl in H1. subst k.
      rewrite xor_byte_zero, IH; [reflexivity|exact H2]. }
  apply H. exact Hz.
Qed.

(* xor_data: the integer-key and byte-key forms of ProcessXor *)
Theorem xor_data_involutive : forall k data p d1,
  xor_data k data p = Ok d1 -> xor_data k d1 p = Ok data.
Proof.
  intros k data p d1 H. unfold xor_data in *.
  set (k' := match k with VBytes [b] => VInt (Z.of_N (Byte.to_N b)) | _ => k end) in *.
  destruct k'; try discriminate.
  - destruct (negb ((0 <=? z)%Z && (z <? 256)%Z)); [discriminate|].
    destruct (Z.eqb z 0); [injection H as <-; reflexivity|]. injection H as <-.
    f_equal. rewrite map_map. rewrite <- (map_id data) at 2. apply map_ext. intros a. apply xor_byte_invol.
  - destruct (Nat.leb (length b) 64 && forallb (fun b0 => Byte.eqb b0 x00) b) eqn:Ez.
    + injection H as <-. reflexivity.
    + injection H as <-. f_equal. destruct b as [|k0 b].
      * cbn in Ez. discriminate.
      * apply xor_cycle_involutive. discriminate.
Qed.

(* build emits the transform of the inner bytes; parse presents the inverse transform of the stream *)
Theorem processxor_build : forall key c obj cx p o k,
  eval cx key = Ok k -> (exists z, k = VInt z) \/ (exists b, k = VBytes b) ->
  build (CProcessXor key c) obj cx p o =
  (let* _ := xor_data k [] p in
   let* (r, o2) := build c obj cx p ostream_new in
   let* d := xor_data k (odata o2) p in
   let* o' := owrite o d (Z.of_nat (length d)) p in Ok (r, o')).
Proof. intros key c obj cx p o k He [[z ->]|[b ->]]; cbn [build]; rewrite He; reflexivity. Qed.

Theorem processxor_parse : forall key c cx p s k,
  eval cx key = Ok k -> (exists z, k = VInt z) \/ (exists b, k = VBytes b) ->
  parse (CProcessXor key c) cx p s =
  (let '(d, s1) := iread_all s in
   let* d' := xor_data k d p in
   let* (v, _) := parse c cx p (substream d' (iabs s)) in Ok (v, s1)).
Proof. intros key c cx p s k He [[z ->]|[b ->]]; cbn [parse]; rewrite He; reflexivity. Qed.

(* ---- byte and bit order ---- *)
Theorem swapbytes_involutive : forall d, swapbytes (swapbytes d) = d.
Proof. intros. apply rev_involutive. Qed.

Lemma bitrev8_invol b : bitrev8 (bitrev8 b) = b.
Proof. destruct b; vm_compute; reflexivity. Qed.

Theorem swapbitsinbytes_involutive : forall d, swapbitsinbytes (swapbitsinbytes d) = d.
Proof.
  intros d. unfold swapbitsinbytes. rewrite map_map. rewrite <- (map_id d) at 2. apply map_ext. apply bitrev8_invol.
Qed.

(* the per-byte bit reversal is reversal of the 8-bit MSB-first bit list *)
Theorem bitrev8_spec : forall b, bits_of_N 8 (Byte.to_N (bitrev8 b)) = rev (bits_of_N 8 (Byte.to_N b)).
Proof. intros b. destruct b; vm_compute; reflexivity. Qed.

(* ---- rotation ---- *)
(* one byte rotated left by a then by 8 - a is itself: the group-size-1 branch, every amount *)
Theorem rotl8_inverse : forall a b, (0 < a < 8)%N -> rotl8 (8 - a) (rotl8 a b) = b.
Proof.
  intros a b Ha.
  assert (H : forallb (fun a => forallb (fun b => Byte.eqb (rotl8 (8 - a) (rotl8 a b)) b) all_bytes) [1;2;3;4;5;6;7]%N = true)
    by (vm_compute; reflexivity).
  rewrite forallb_forall in H.
  assert (Hin : In a [1;2;3;4;5;6;7]%N) by (cbn; lia).
  pose proof (forall_bytes _ (H a Hin) b) as Hb. cbv beta in Hb. apply Byte.byte_dec_bl in Hb. exact Hb.
Qed.

(* rotation by a multiple of the group width is the identity; lengths that are not a multiple of the
   group are rejected *)
Theorem rotate_left_zero : forall g d, (0 < g)%nat -> Nat.modulo (length d) g = 0%nat ->
  rotate_left 0 g d = Some (concat (chunksn g (length d) d)).
Proof.
  intros g d Hg Hm. unfold rotate_left. destruct g; [lia|]. rewrite Hm. cbn [Nat.eqb negb].
  f_equal. f_equal. rewrite <- (map_id (chunksn (S g) (length d) d)) at 2. apply map_ext. intros x. reflexivity.
Qed.

Theorem rotate_left_rejects : forall a g d, (0 < g)%nat -> Nat.modulo (length d) g <> 0%nat -> rotate_left a g d = None.
Proof.
  intros a g d Hg Hm. unfold rotate_left. destruct g; [lia|].
  destruct (Nat.eqb (Nat.modulo (length d) (S g)) 0) eqn:E; [apply Nat.eqb_eq in E; contradiction|reflexivity].
Qed.

(* build rotates by the negated amount, parse by the amount (both reduced modulo the group width in bits) *)
Theorem processrotl_amounts : forall a g, (0 < g)%Z ->
  (((a mod (g * 8)) + ((- a) mod (g * 8))) mod (g * 8) = 0)%Z.
Proof.
  intros a g Hg. rewrite <- Z.add_mod by lia. replace (a + - a)%Z with 0%Z by lia. apply Z.mod_0_l. lia.
Qed.
