(* C02: build-after-parse is stable.  For every construct of the closed sequential fragment whose Struct members are named or are
   anonymous constants / padding (members that build from nothing): when a
   value builds to some bytes, the value those bytes parse to builds to the SAME bytes again -- in any context, at any stream
   position.  So what the construct produced is reproduced exactly by build(parse(.)), and, whenever build accepts what parse
   returned for ANY accepted input, one more parse/build changes nothing (idempotence): the first re-encoding is canonical. *)
From Coq Require Import ZArith NArith List Bool Lia ZifyBool ZifyN ZifyNat.
From Coq Require Import Strings.Byte.
Require Import Bytes Value Expr Codec Float Stream Syntax Sizeof Parse Build BytesFacts StreamFacts PrimFacts ConInd RTFacts TruncFacts.
Import ListNotations.
Local Open Scope nat_scope.

(* rebuild: the value parsed from what was built builds the same bytes *)
Definition RB (c : con) : Prop :=
  forall v cxb pb o r out, app_mode o -> build c v cxb pb o = Ok (r, oapp o out) ->
  forall cxp pp pre rest base sk r' s', parse c cxp pp (at_pos pre (out ++ rest) base sk) = Ok (r', s') ->
  forall cxb2 pb2 o2, app_mode o2 -> exists r2, build c r' cxb2 pb2 o2 = Ok (r2, oapp o2 out).

(* at the end of a delimited region *)
Definition RBe (c : con) : Prop :=
  forall v cxb pb o r out, app_mode o -> build c v cxb pb o = Ok (r, oapp o out) ->
  forall cxp pp pre base sk r' s', parse c cxp pp (at_pos pre out base sk) = Ok (r', s') ->
  forall cxb2 pb2 o2, app_mode o2 -> exists r2, build c r' cxb2 pb2 o2 = Ok (r2, oapp o2 out).

Lemma RB_RBe c : RB c -> RBe c.
Proof.
  intros H v cxb pb o r out Ho Hb cxp pp pre base sk r' s' Hp. apply (H v cxb pb o r out Ho Hb cxp pp pre [] base sk r' s'). rewrite app_nil_r. exact Hp.
Qed.

Lemma ok_out_inj {A} (a r : A) o x y : @Ok (A * ostream) (a, oapp o x) = Ok (r, oapp o y) -> a = r /\ x = y.
Proof. intros H. assert (E1 : a = r) by congruence. assert (E2 : oapp o x = oapp o y) by congruence. split; [exact E1|apply (oapp_inj o), E2]. Qed.

(* ---- leaves ---- *)
Theorem RB_format_int en f : fcode_float f = false -> RB (CFormat en f).
Proof.
  intros Hf v cxb pb o r out Ho Hb cxp pp pre rest base sk r' s' Hp cxb2 pb2 o2 Ho2.
  rewrite format_int_build_gen in Hb by assumption. destruct (int_of_val v) as [z|] eqn:Ez; [|discriminate].
  destruct (in_range _ _ z) eqn:Hr; [|discriminate]. apply ok_out_inj in Hb as [_ <-].
  rewrite format_int_parse in Hp by (rewrite ?endian_fmt_length, ?be_encode_length; auto).
  rewrite endian_fmt_invol in Hp. rewrite be_roundtrip in Hp by (rewrite pow256_pow2; apply pattern_bound).
  pose proof (fcode_size_pos f). assert (Hpz : (0 < 8 * N.of_nat (fcode_size f))%N) by lia.
  rewrite unpattern_pattern in Hp; [|exact Hpz|exact Hr]. injection Hp as <- _.
  rewrite format_int_build_gen by assumption. cbn [int_of_val]. rewrite Hr. eexists. reflexivity.
Qed.

Theorem RB_bytesint n s sw : (0 < n <= 65536)%Z -> RB (CBytesInt (kint n) s sw).
Proof.
  intros Hn v cxb pb o r out Ho Hb cxp pp pre rest base sk r' s' Hp cxb2 pb2 o2 Ho2.
  rewrite bytesint_build_gen in Hb by assumption. destruct (int_of_val v) as [z|] eqn:Ez; [|discriminate].
  destruct (in_range s _ z) eqn:Hr; [|discriminate]. apply ok_out_inj in Hb as [_ <-].
  rewrite (bytesint_parse n) in Hp by (rewrite ?endian_of_length, ?be_encode_length; lia).
  rewrite endian_of_invol, endian_of_length, be_encode_length in Hp.
  rewrite be_roundtrip in Hp by (rewrite pow256_pow2; apply pattern_bound).
  assert (Hpz : (0 < 8 * N.of_nat (Z.to_nat n))%N) by lia.
  rewrite unpattern_pattern in Hp; [|exact Hpz|exact Hr]. injection Hp as <- _.
  rewrite bytesint_build_gen by assumption. cbn [int_of_val]. rewrite Hr. eexists. reflexivity.
Qed.

Theorem RB_varint : RB CVarInt.
Proof.
  intros v cxb pb o r out Ho Hb cxp pp pre rest base sk r' s' Hp cxb2 pb2 o2 Ho2.
  cbn [build] in Hb. destruct (int_of_val v) as [z|] eqn:Ez; [|discriminate]. destruct (z <? 0)%Z eqn:En; [discriminate|].
  rewrite owrite_app in Hb by exact Ho. cbn [bind] in Hb. apply ok_out_inj in Hb as [_ <-].
  cbn [parse] in Hp. rewrite (varint_parse_spec _ (Z.to_N z)) in Hp by apply varint_encode_leb. cbn [bind] in Hp. rewrite Z2N.id in Hp by lia. injection Hp as <- _.
  cbn [build int_of_val]. rewrite En. rewrite owrite_app by exact Ho2. cbn [bind]. eexists. reflexivity.
Qed.

Theorem RB_zigzag : RB CZigZag.
Proof.
  intros v cxb pb o r out Ho Hb cxp pp pre rest base sk r' s' Hp cxb2 pb2 o2 Ho2.
  cbn [build] in Hb. destruct (int_of_val v) as [z|] eqn:Ez; [|discriminate].
  rewrite owrite_app in Hb by exact Ho. cbn [bind] in Hb. apply ok_out_inj in Hb as [_ <-].
  cbn [parse] in Hp. rewrite (varint_parse_spec _ (zigzag_enc z)) in Hp by apply varint_encode_leb. cbn [bind] in Hp. rewrite zigzag_roundtrip in Hp. injection Hp as <- _.
  cbn [build int_of_val]. rewrite owrite_app by exact Ho2. cbn [bind]. eexists. reflexivity.
Qed.

Theorem RB_pass : RB CPass.
Proof.
  intros v cxb pb o r out Ho Hb cxp pp pre rest base sk r' s' Hp cxb2 pb2 o2 Ho2.
  cbn [build] in Hb. rewrite <- (oapp_nil o Ho) in Hb at 1. apply ok_out_inj in Hb as [_ <-].
  cbn [build]. eexists. rewrite oapp_nil by exact Ho2. reflexivity.
Qed.

Theorem RB_bytes n : (0 <= n)%Z -> RB (CBytes (kint n)).
Proof.
  intros Hn v cxb pb o r out Ho Hb cxp pp pre rest base sk r' s' Hp cxb2 pb2 o2 Ho2.
  cbn [build] in Hb. rewrite eval_int_kint in Hb. cbn [bind] in Hb.
  assert (G : Z.of_nat (length out) = n -> exists r2, build (CBytes (kint n)) r' cxb2 pb2 o2 = Ok (r2, oapp o2 out)).
  { intros Hl. cbn [parse] in Hp. rewrite eval_int_kint in Hp. cbn [bind] in Hp. rewrite <- Hl, iread_at in Hp. cbn [bind] in Hp. injection Hp as <- _.
    cbn [build]. rewrite eval_int_kint. cbn [bind int_of_val]. unfold write_val. rewrite <- Hl, owrite_app by exact Ho2. cbn [bind]. eexists. reflexivity. }
  destruct (int_of_val v) as [z|] eqn:Ez.
  - destruct (n <? 1)%Z eqn:E1; [discriminate|]. destruct (65536 <? n)%Z eqn:E2; [discriminate|].
    destruct (integer2bytes z (Z.to_nat n) false) as [d|] eqn:Ei; [|discriminate].
    pose proof (integer2bytes_length _ _ _ _ Ei) as Hl.
    replace n with (Z.of_nat (length d)) in Hb at 1 by lia. rewrite owrite_app in Hb by exact Ho. cbn [bind] in Hb.
    apply ok_out_inj in Hb as [_ <-]. apply G. lia.
  - destruct v; try discriminate. unfold write_val in Hb.
    destruct (owrite o b n pb) as [o1|] eqn:Ew; [|discriminate]. cbn [bind] in Hb.
    pose proof (owrite_len _ _ _ _ _ Ew) as Hl. subst n. rewrite owrite_app in Ew by exact Ho. injection Ew as <-.
    apply ok_out_inj in Hb as [_ <-]. apply G. reflexivity.
Qed.

Theorem RBe_greedybytes : RBe CGreedyBytes.
Proof.
  intros v cxb pb o r out Ho Hb cxp pp pre base sk r' s' Hp cxb2 pb2 o2 Ho2.
  cbn [build] in Hb. destruct v; try discriminate. rewrite owrite_app in Hb by exact Ho. cbn [bind] in Hb. apply ok_out_inj in Hb as [_ <-].
  cbn [parse] in Hp. rewrite iread_all_at in Hp. injection Hp as <- _.
  cbn [build]. rewrite owrite_app by exact Ho2. cbn [bind]. eexists. reflexivity.
Qed.

(* ---- wrappers ---- *)
Theorem RB_renamed n c : RB c -> RB (CRenamed n c).
Proof.
  intros H v cxb pb o r out Ho Hb cxp pp pre rest base sk r' s' Hp cxb2 pb2 o2 Ho2. cbn [build parse] in *.
  apply (H v cxb _ o r out Ho Hb cxp _ pre rest base sk r' s' Hp).  exact Ho2.
Qed.
Theorem RBe_renamed n c : RBe c -> RBe (CRenamed n c).
Proof.
  intros H v cxb pb o r out Ho Hb cxp pp pre base sk r' s' Hp cxb2 pb2 o2 Ho2. cbn [build parse] in *.
  apply (H v cxb _ o r out Ho Hb cxp _ pre base sk r' s' Hp). exact Ho2.
Qed.

Theorem RB_padded n c pat : (0 <= n)%Z -> RT c -> RB c -> RB (CPadded (kint n) c pat).
Proof.
  intros Hn HT HB v cxb pb o r out Ho Hb cxp pp pre rest base sk r' s' Hp cxb2 pb2 o2 Ho2.
  cbn [build] in Hb. rewrite eval_int_kint in Hb. cbn [bind] in Hb. destruct (n <? 0)%Z eqn:E0; [lia|].
  destruct (build c v cxb pb o) as [[r1 o1]|] eqn:Ec; [|discriminate]. cbn [bind] in Hb.
  destruct (HT v cxb pb o r1 o1 Ho Ec) as (out1 & -> & Hp1).
  rewrite otell_oapp in Hb by exact Ho.
  set (pad := (n - Z.of_nat (length out1))%Z) in *.
  destruct (pad <? 0)%Z eqn:E1; [discriminate|]. destruct (alloc_bound <? pad)%Z eqn:E2; [discriminate|].
  assert (Hl : pad = Z.of_nat (length (repeat pat (Z.to_nat pad)))) by (rewrite repeat_length; lia).
  rewrite Hl in Hb at 2. rewrite owrite_app in Hb by apply app_mode_oapp. cbn [bind] in Hb. rewrite oapp_app in Hb. apply ok_out_inj in Hb as [_ <-].
  (* the parse: the inner value is the inner parse of its own bytes *)
  rewrite <- app_assoc in Hp. destruct (Hp1 cxp pp pre (repeat pat (Z.to_nat pad) ++ rest) base sk) as (r1' & E & _).
  cbn [parse] in Hp. rewrite eval_int_kint in Hp. cbn [bind] in Hp. rewrite E0, E in Hp. cbn [bind] in Hp.
  rewrite itell_at_diff in Hp. fold pad in Hp. rewrite E1 in Hp.
  destruct (iread _ pad pp) as [[d s2]|]; [|discriminate]. cbn [bind] in Hp. injection Hp as <- _.
  destruct (HB v cxb pb o r1 out1 Ho Ec cxp pp pre (repeat pat (Z.to_nat pad) ++ rest) base sk r1' _ E cxb2 pb2 o2 Ho2) as (r2 & E2b).
  exists r2. cbn [build]. rewrite eval_int_kint. cbn [bind]. rewrite E0, E2b. cbn [bind]. rewrite otell_oapp by exact Ho2. fold pad. rewrite E1, E2.
  rewrite Hl at 2. rewrite owrite_app by apply app_mode_oapp. cbn [bind]. rewrite oapp_app. reflexivity.
Qed.

Theorem RB_aligned m c pat : (2 <= m)%Z -> RT c -> RB c -> RB (CAligned (kint m) c pat).
Proof.
  intros Hm HT HB v cxb pb o r out Ho Hb cxp pp pre rest base sk r' s' Hp cxb2 pb2 o2 Ho2.
  cbn [build] in Hb. rewrite eval_int_kint in Hb. cbn [bind] in Hb. destruct (m <? 2)%Z eqn:E0; [lia|].
  destruct (build c v cxb pb o) as [[r1 o1]|] eqn:Ec; [|discriminate]. cbn [bind] in Hb.
  destruct (HT v cxb pb o r1 o1 Ho Ec) as (out1 & -> & Hp1).
  rewrite otell_oapp in Hb by exact Ho.
  set (pad := ((- Z.of_nat (length out1)) mod m)%Z) in *.
  assert (Hpad : (0 <= pad)%Z) by (unfold pad; apply Z.mod_pos_bound; lia).
  destruct (alloc_bound <? pad)%Z eqn:E2; [discriminate|].
  assert (Hl : pad = Z.of_nat (length (repeat pat (Z.to_nat pad)))) by (rewrite repeat_length; lia).
  rewrite Hl in Hb at 2. rewrite owrite_app in Hb by apply app_mode_oapp. cbn [bind] in Hb. rewrite oapp_app in Hb. apply ok_out_inj in Hb as [_ <-].
  rewrite <- app_assoc in Hp. destruct (Hp1 cxp pp pre (repeat pat (Z.to_nat pad) ++ rest) base sk) as (r1' & E & _).
  cbn [parse] in Hp. rewrite eval_int_kint in Hp. cbn [bind] in Hp. rewrite E0, E in Hp. cbn [bind] in Hp.
  destruct (iread _ _ pp) as [[d s2]|]; [|discriminate]. cbn [bind] in Hp. injection Hp as <- _.
  destruct (HB v cxb pb o r1 out1 Ho Ec cxp pp pre (repeat pat (Z.to_nat pad) ++ rest) base sk r1' _ E cxb2 pb2 o2 Ho2) as (r2 & E2b).
  exists r2. cbn [build]. rewrite eval_int_kint. cbn [bind]. rewrite E0, E2b. cbn [bind]. rewrite otell_oapp by exact Ho2. fold pad. rewrite E2.
  rewrite Hl at 2. rewrite owrite_app by apply app_mode_oapp. cbn [bind]. rewrite oapp_app. reflexivity.
Qed.

Theorem RB_fixedsized n c : (0 <= n)%Z -> RT c -> RB c -> RB (CFixedSized (kint n) c).
Proof.
  intros Hn HT HB v cxb pb o r out Ho Hb cxp pp pre rest base sk r' s' Hp cxb2 pb2 o2 Ho2.
  cbn [build] in Hb. rewrite eval_int_kint in Hb. cbn [bind] in Hb. destruct (n <? 0)%Z eqn:E0; [lia|].
  destruct (build c v cxb pb ostream_new) as [[r1 o1]|] eqn:Ec; [|discriminate]. cbn [bind] in Hb.
  destruct (HT v cxb pb ostream_new r1 o1 app_mode_new Ec) as (data & -> & Hp1). rewrite odata_new_oapp in Hb.
  set (pad := (n - Z.of_nat (length data))%Z) in *.
  destruct (pad <? 0)%Z eqn:E1; [discriminate|]. destruct (alloc_bound <? pad)%Z eqn:E2; [discriminate|].
  rewrite owrite_app in Hb by exact Ho. cbn [bind] in Hb.
  assert (Hl : pad = Z.of_nat (length (zeros (Z.to_nat pad)))) by (unfold zeros; rewrite repeat_length; lia).
  rewrite Hl in Hb at 2. rewrite owrite_app in Hb by apply app_mode_oapp. cbn [bind] in Hb. rewrite oapp_app in Hb. apply ok_out_inj in Hb as [_ <-].
  cbn [parse] in Hp. rewrite eval_int_kint in Hp. cbn [bind] in Hp. rewrite E0 in Hp.
  replace n with (Z.of_nat (length (data ++ zeros (Z.to_nat pad)))) in Hp at 1.
  2:{ rewrite app_length. unfold zeros. rewrite repeat_length. unfold pad in *. lia. }
  rewrite iread_at in Hp. cbn [bind] in Hp. rewrite substream_at in Hp.
  destruct (Hp1 cxp pp [] (zeros (Z.to_nat pad)) (iabs (at_pos pre ((data ++ zeros (Z.to_nat pad)) ++ rest) base sk)) true) as (r1' & E & _).
  rewrite E in Hp. cbn [bind] in Hp. injection Hp as <- _.
  destruct (HB v cxb pb ostream_new r1 data app_mode_new Ec cxp pp [] (zeros (Z.to_nat pad)) _ true r1' _ E cxb2 pb2 ostream_new app_mode_new) as (r2 & E2b).
  exists r2. cbn [build]. rewrite eval_int_kint. cbn [bind]. rewrite E0, E2b. cbn [bind]. rewrite odata_new_oapp. fold pad. rewrite E1, E2.
  rewrite owrite_app by exact Ho2. cbn [bind]. rewrite Hl at 2. rewrite owrite_app by apply app_mode_oapp. cbn [bind]. rewrite oapp_app. reflexivity.
Qed.

(* an integer field builds the same bytes for the same integer in any context *)
Lemma int_leaf_build_det lc : int_leaf lc = true -> forall z cxb pb o r out cxb2 pb2 o2, app_mode o -> app_mode o2 ->
  build lc (VInt z) cxb pb o = Ok (r, oapp o out) -> build lc (VInt z) cxb2 pb2 o2 = Ok (VInt z, oapp o2 out).
Proof.
  intros Hl z cxb pb o r out cxb2 pb2 o2 Ho Ho2 Hb. destruct lc; try discriminate Hl.
  - assert (Hf : fcode_float f = false) by (cbn in Hl; destruct (fcode_float f); [discriminate|reflexivity]).
    rewrite format_int_build_gen in Hb |- * by assumption. cbn [int_of_val] in *. destruct (in_range _ _ z); [|discriminate].
    apply ok_out_inj in Hb as [_ <-]. reflexivity.
  - cbn [int_leaf] in Hl. destruct len; try discriminate Hl. destruct v; try discriminate Hl. assert (Hn : (0 < z0 <= 65536)%Z) by lia.
    fold (kint z0) in Hb |- *. rewrite bytesint_build_gen in Hb |- * by assumption. cbn [int_of_val] in *. destruct (in_range signed _ z); [|discriminate].
    apply ok_out_inj in Hb as [_ <-]. reflexivity.
  - cbn [build int_of_val] in Hb |- *. destruct (z <? 0)%Z; [discriminate|]. rewrite owrite_app in Hb |- * by assumption. cbn [bind] in *.
    apply ok_out_inj in Hb as [_ <-]. reflexivity.
  - cbn [build int_of_val] in Hb |- *. rewrite owrite_app in Hb |- * by assumption. cbn [bind] in *. apply ok_out_inj in Hb as [_ <-]. reflexivity.
Qed.

Theorem RB_prefixed lc c : int_leaf lc = true -> RTe c -> RBe c -> RB (CPrefixed lc c false).
Proof.
  intros Hil HT HB v cxb pb o r out Ho Hb cxp pp pre rest base sk r' s' Hp cxb2 pb2 o2 Ho2.
  pose proof (RTi_of_int_leaf lc Hil) as Hl.
  cbn [build] in Hb.
  destruct (build c v cxb pb ostream_new) as [[r1 o1]|] eqn:Ec; [|discriminate]. cbn [bind] in Hb.
  destruct (HT v cxb pb ostream_new r1 o1 app_mode_new Ec) as (data & -> & Hp1). rewrite odata_new_oapp in Hb.
  destruct (build lc (VInt (Z.of_nat (length data))) cxb pb o) as [[rl ol]|] eqn:El; [|discriminate]. cbn [bind] in Hb.
  destruct (Hl _ cxb pb o rl ol Ho El) as (_ & lenc & -> & Hlp).
  rewrite owrite_app in Hb by apply app_mode_oapp. cbn [bind] in Hb. rewrite oapp_app in Hb. apply ok_out_inj in Hb as [_ <-].
  cbn [parse] in Hp. rewrite <- app_assoc in Hp. rewrite Hlp in Hp. cbn [bind vint_of] in Hp.
  rewrite iread_at in Hp. cbn [bind] in Hp. rewrite substream_at in Hp.
  destruct (Hp1 cxp pp [] (iabs (at_pos (pre ++ lenc) (data ++ rest) base sk)) true) as (r1' & E & _). cbn [app] in E.
  rewrite E in Hp. cbn [bind] in Hp. injection Hp as <- _.
  destruct (HB v cxb pb ostream_new r1 data app_mode_new Ec cxp pp [] _ true r1' _ E cxb2 pb2 ostream_new app_mode_new) as (r2 & E2b).
  exists r2. cbn [build]. rewrite E2b. cbn [bind]. rewrite odata_new_oapp.
  rewrite (int_leaf_build_det lc Hil _ cxb pb o rl lenc cxb2 pb2 o2 Ho Ho2 El). cbn [bind].
  rewrite owrite_app by apply app_mode_oapp. cbn [bind]. rewrite oapp_app. reflexivity.
Qed.

Theorem RB_const_int z c : int_leaf c = true -> RB (CConst (VInt z) c).
Proof.
  intros Hil v cxb pb o r out Ho Hb cxp pp pre rest base sk r' s' Hp cxb2 pb2 o2 Ho2.
  assert (Hb' : build c (VInt z) cxb pb o = Ok (r, oapp o out)).
  { cbn [build] in Hb. destruct v; try exact Hb; destruct (val_eqb _ (VInt z)); (exact Hb || discriminate). }
  destruct (RTi_of_int_leaf c Hil z cxb pb o r _ Ho Hb') as (-> & out0 & Eo & Hpp). apply (oapp_inj o) in Eo. subst out0.
  cbn [parse] in Hp. rewrite Hpp in Hp. cbn [bind val_eqb] in Hp. rewrite Z.eqb_refl in Hp. injection Hp as <- _.
  exists (VInt z). cbn [build val_eqb]. rewrite Z.eqb_refl. apply (int_leaf_build_det c Hil z cxb pb o _ out cxb2 pb2 o2 Ho Ho2 Hb').
Qed.

Theorem RB_const_bytes d : RB (CConst (VBytes d) (CBytes (kint (Z.of_nat (length d))))).
Proof.
  intros v cxb pb o r out Ho Hb cxp pp pre rest base sk r' s' Hp cxb2 pb2 o2 Ho2.
  assert (Hb' : build (CBytes (kint (Z.of_nat (length d)))) (VBytes d) cxb pb o = Ok (r, oapp o out)).
  { cbn [build] in Hb |- *. destruct v; try exact Hb; destruct (val_eqb _ (VBytes d)); (exact Hb || discriminate). }
  assert (Hout : out = d).
  { cbn [build] in Hb'. rewrite eval_int_kint in Hb'. cbn [bind int_of_val] in Hb'. unfold write_val in Hb'. rewrite owrite_app in Hb' by exact Ho.
    cbn [bind] in Hb'. apply ok_out_inj in Hb' as [_ <-]. reflexivity. }
  subst out. cbn [parse] in Hp. rewrite eval_int_kint in Hp. cbn [bind] in Hp. rewrite iread_at in Hp. cbn [bind] in Hp.
  destruct (val_eqb (VBytes d) (VBytes d)) eqn:Ev; [|discriminate]. injection Hp as <- _.
  exists (VBytes d). cbn [build]. rewrite Ev. rewrite eval_int_kint. cbn [bind int_of_val]. unfold write_val. rewrite owrite_app by exact Ho2. reflexivity.
Qed.

(* ---- loops ---- *)
Lemma count_RB c : RT c -> RB c -> forall l i cxb pb o rs o', app_mode o ->
  count_bloop (build c) l i cxb pb o = Ok (rs, o') ->
  exists out, o' = oapp o out /\
    forall cxp pp pre rest base sk acc i' acc' s',
      miter (count_step (parse c) cxp pp) (length l) (i, acc, at_pos pre (out ++ rest) base sk) = Ok (i', acc', s') ->
      exists rs', acc' = rev rs' ++ acc /\ length rs' = length l /\
        forall j cxb2 pb2 o2, app_mode o2 -> exists rs2, count_bloop (build c) rs' j cxb2 pb2 o2 = Ok (rs2, oapp o2 out).
Proof.
  intros HT HB. induction l as [|e t IH]; intros i cxb pb o rs o' Ho Hb; cbn [count_bloop] in Hb.
  - injection Hb as <- <-. exists []. split; [symmetry; apply oapp_nil; exact Ho|].
    intros cxp pp pre rest base sk acc i' acc' s' Hm. cbn [length miter] in Hm. injection Hm as _ <- _. exists []. split; [reflexivity|]. split; [reflexivity|].
    intros j cxb2 pb2 o2 Ho2. exists []. cbn [count_bloop]. rewrite oapp_nil by exact Ho2. reflexivity.
  - destruct (build c e (ctx_set_index cxb i) pb o) as [[r o1]|] eqn:Ec; [|discriminate]. cbn [bind] in Hb.
    destruct (count_bloop (build c) t (i + 1)%Z cxb pb o1) as [[rs1 o2]|] eqn:Et; [|discriminate]. cbn [bind] in Hb. injection Hb as <- <-.
    destruct (HT e _ pb o r o1 Ho Ec) as (out1 & -> & Hp1).
    destruct (IH (i + 1)%Z cxb pb _ rs1 o2 (app_mode_oapp _ _) Et) as (out2 & -> & Hp2).
    exists (out1 ++ out2). split; [apply oapp_app|].
    intros cxp pp pre rest base sk acc i' acc' s' Hm. rewrite <- app_assoc in Hm. cbn [length miter] in Hm. unfold count_step at 1 in Hm.
    destruct (Hp1 (ctx_set_index cxp i) pp pre (out2 ++ rest) base sk) as (r' & E1 & _). rewrite E1 in Hm. cbn [bind] in Hm.
    destruct (Hp2 cxp pp (pre ++ out1) rest base sk (r' :: acc) i' acc' s' Hm) as (rs' & -> & Hlen & Hrb).
    exists (r' :: rs'). split; [cbn [rev]; rewrite <- app_assoc; reflexivity|]. split; [cbn [length]; rewrite Hlen; reflexivity|].
    intros j cxb2 pb2 o2 Ho2. cbn [count_bloop].
    destruct (HB e _ pb o r out1 Ho Ec (ctx_set_index cxp i) pp pre (out2 ++ rest) base sk r' _ E1 (ctx_set_index cxb2 j) pb2 o2 Ho2) as (r2 & E2). rewrite E2. cbn [bind].
    destruct (Hrb (j + 1)%Z cxb2 pb2 (oapp o2 out1) (app_mode_oapp _ _)) as (rs2 & E3). rewrite E3. cbn [bind]. rewrite oapp_app. eexists. reflexivity.
Qed.

Theorem RB_array n c : (0 <= n)%Z -> RT c -> RB c -> RB (CArray (kint n) c).
Proof.
  intros Hn HT HB v cxb pb o r out Ho Hb cxp pp pre rest base sk r' s' Hp cxb2 pb2 o2 Ho2.
  cbn [build] in Hb. rewrite eval_int_kint in Hb. cbn [bind] in Hb. destruct (n <? 0)%Z eqn:E0; [lia|]. destruct v; try discriminate.
  destruct (Z.of_nat (length l) =? n)%Z eqn:El; cbn [negb] in Hb; [|discriminate].
  destruct (count_bloop (build c) l 0%Z cxb pb o) as [[rs o1]|] eqn:Ec; [|discriminate]. cbn [bind] in Hb.
  destruct (count_RB c HT HB l 0%Z cxb pb o rs o1 Ho Ec) as (out0 & -> & Hl). apply ok_out_inj in Hb as [_ <-].
  cbn [parse] in Hp. rewrite eval_int_kint in Hp. cbn [bind] in Hp. rewrite E0 in Hp. unfold count_loop in Hp. rewrite iter_N_miter in Hp.
  replace (N.to_nat (Z.to_N n)) with (length l) in Hp by lia.
  destruct (miter _ (length l) _) as [[[i' acc'] s1]|] eqn:Em; [|discriminate]. cbn [bind] in Hp. injection Hp as <- _.
  destruct (Hl cxp pp pre rest base sk [] i' acc' s1 Em) as (rs' & -> & Hlen & Hrb). rewrite app_nil_r, rev_involutive.
  destruct (Hrb 0%Z cxb2 pb2 o2 Ho2) as (rs2 & E2). exists (VList rs2).
  cbn [build]. rewrite eval_int_kint. cbn [bind]. rewrite E0. rewrite Hlen, El. cbn [negb]. rewrite E2. reflexivity.
Qed.

Lemma seq_RB : forall cs, Forall RT cs -> Forall RB cs -> no_stopif cs -> forall objs cxb pb o rs o', app_mode o ->
  seq_bloop build cs objs cxb pb o = Ok (rs, o') ->
  exists out, o' = oapp o out /\
    forall cxp pp pre rest base sk rs' s', seq_loop parse cs cxp pp (at_pos pre (out ++ rest) base sk) = Ok (rs', s') ->
      forall cxb2 pb2 o2, app_mode o2 -> exists rs2, seq_bloop build cs rs' cxb2 pb2 o2 = Ok (rs2, oapp o2 out).
Proof.
  induction cs as [|c t IH]; intros HT HB Hns objs cxb pb o rs o' Ho Hb; cbn [seq_bloop] in Hb.
  - injection Hb as <- <-. exists []. split; [symmetry; apply oapp_nil; exact Ho|].
    intros cxp pp pre rest base sk rs' s' Hp cxb2 pb2 o2 Ho2. cbn [seq_loop] in Hp. injection Hp as <- _. exists []. cbn [seq_bloop]. rewrite oapp_nil by exact Ho2. reflexivity.
  - inversion HT as [|? ? Hc Ht]; subst. inversion HB as [|? ? Hcb Htb]; subst. inversion Hns as [|? ? Hs1 Hs2]; subst. destruct objs as [|subobj objs']; [discriminate|].
    set (cx1 := match name_of c with Some n => ctx_set cxb n subobj | None => cxb end) in *.
    destruct (build c subobj cx1 pb o) as [[r o1]|e q] eqn:Ec.
    2:{ destruct e; try discriminate. rewrite Hs1 in Hb. discriminate. }
    set (cx2 := match name_of c with Some n => ctx_set cx1 n r | None => cx1 end) in *.
    destruct (seq_bloop build t objs' cx2 pb o1) as [[rs1 o2]|] eqn:Et; [|discriminate]. cbn [bind] in Hb. injection Hb as <- <-.
    destruct (Hc subobj cx1 pb o r o1 Ho Ec) as (out1 & -> & Hp1).
    destruct (IH Ht Htb Hs2 objs' cx2 pb _ rs1 o2 (app_mode_oapp _ _) Et) as (out2 & -> & Hp2).
    exists (out1 ++ out2). split; [apply oapp_app|].
    intros cxp pp pre rest base sk rs' s' Hp cxb2 pb2 o2' Ho2. rewrite <- app_assoc in Hp. cbn [seq_loop] in Hp.
    destruct (Hp1 cxp pp pre (out2 ++ rest) base sk) as (r' & E1 & _). rewrite E1 in Hp.
    match type of Hp with bind ?x _ = _ => destruct x as [[vs s2]|] eqn:E2 end; [|discriminate]. cbn [bind] in Hp. injection Hp as <- _.
    cbn [seq_bloop].
    match goal with |- exists rs2, match build c r' ?cxx pb2 o2' with _ => _ end = _ =>
      destruct (Hcb subobj cx1 pb o r out1 Ho Ec cxp pp pre (out2 ++ rest) base sk r' _ E1 cxx pb2 o2' Ho2) as (r2 & E3); rewrite E3 end.
    match goal with |- exists rs2, bind (seq_bloop build t vs ?cxx pb2 _) _ = _ =>
      destruct (Hp2 _ pp (pre ++ out1) rest base sk vs s2 E2 cxx pb2 (oapp o2' out1) (app_mode_oapp _ _)) as (rs2 & E4); rewrite E4 end.
    cbn [bind]. rewrite oapp_app. eexists. reflexivity.
Qed.

Theorem RB_sequence cs : Forall RT cs -> Forall RB cs -> no_stopif cs -> RB (CSequence cs).
Proof.
  intros HT HB Hns v cxb pb o r out Ho Hb cxp pp pre rest base sk r' s' Hp cxb2 pb2 o2 Ho2. cbn [build] in Hb.
  destruct (match v with VNone => Ok (map (fun _ => VNone) cs) | VList l => Ok l | _ => unsupported end) as [objs|] eqn:Eo; [|discriminate]. cbn [bind] in Hb.
  destruct (seq_bloop build cs objs (push_scope cxb) pb o) as [[rs o1]|] eqn:Es; [|discriminate]. cbn [bind] in Hb.
  destruct (seq_RB cs HT HB Hns objs _ pb o rs o1 Ho Es) as (out0 & -> & Hl). apply ok_out_inj in Hb as [_ <-].
  cbn [parse] in Hp. destruct (seq_loop parse cs (push_scope cxp) pp _) as [[vs s1]|] eqn:El; [|discriminate]. cbn [bind] in Hp. injection Hp as <- _.
  destruct (Hl _ pp pre rest base sk vs s1 El (push_scope cxb2) pb2 o2 Ho2) as (rs2 & E2). exists (VList rs2). cbn [build bind]. rewrite E2. reflexivity.
Qed.

(* ---- anonymous members that build from nothing: Const, Padding, Pass ---- *)
Definition anon (c : con) : bool :=
  match c with
  | CPass => true
  | CConst (VInt _) c' => int_leaf c'
  | CConst (VBytes d) (CBytes (XConst (VInt n))) => (n =? Z.of_nat (length d))%Z
  | CPadded (XConst (VInt n)) CPass _ => (0 <=? n)%Z
  | _ => false
  end.

Lemma anon_name c : anon c = true -> name_of c = None.
Proof. destruct c; try discriminate; reflexivity. Qed.

(* what such a member builds does not depend on the context it is built in *)
Lemma anon_det c : anon c = true -> forall v cxb pb o r out cxb2 pb2 o2, app_mode o -> app_mode o2 ->
  build c v cxb pb o = Ok (r, oapp o out) -> exists r2, build c v cxb2 pb2 o2 = Ok (r2, oapp o2 out).
Proof.
  intros Ha v cxb pb o r out cxb2 pb2 o2 Ho Ho2 Hb. destruct c; try discriminate Ha.
  - (* Pass *) cbn [build] in Hb |- *. rewrite <- (oapp_nil o Ho) in Hb at 1. apply ok_out_inj in Hb as [_ <-].
    eexists. rewrite oapp_nil by exact Ho2. reflexivity.
  - (* Const *) cbn [anon] in Ha. destruct v0; try discriminate Ha.
    + assert (Hb' : build c (VInt z) cxb pb o = Ok (r, oapp o out)).
      { cbn [build] in Hb. destruct v; try exact Hb; destruct (val_eqb _ (VInt z)); (exact Hb || discriminate). }
      assert (Hg : build (CConst (VInt z) c) v cxb2 pb2 o2 = build c (VInt z) cxb2 pb2 o2).
      { cbn [build] in Hb |- *. destruct v; try reflexivity; destruct (val_eqb _ (VInt z)); (reflexivity || discriminate). }
      rewrite Hg. exists (VInt z). apply (int_leaf_build_det c Ha z cxb pb o _ out cxb2 pb2 o2 Ho Ho2 Hb').
    + destruct c; try discriminate Ha. destruct len; try discriminate Ha. destruct v0; try discriminate Ha.
      apply Z.eqb_eq in Ha. subst z. fold (kint (Z.of_nat (length b))) in *.
      assert (Hb' : build (CBytes (kint (Z.of_nat (length b)))) (VBytes b) cxb pb o = Ok (r, oapp o out)).
      { cbn [build] in Hb |- *. destruct v; try exact Hb; destruct (val_eqb _ (VBytes b)); (exact Hb || discriminate). }
      assert (Hg : build (CConst (VBytes b) (CBytes (kint (Z.of_nat (length b))))) v cxb2 pb2 o2 = build (CBytes (kint (Z.of_nat (length b)))) (VBytes b) cxb2 pb2 o2).
      { cbn [build] in Hb |- *. destruct v; try reflexivity; destruct (val_eqb _ (VBytes b)); (reflexivity || discriminate). }
      rewrite Hg. cbn [build] in Hb' |- *. rewrite eval_int_kint in Hb' |- *. cbn [bind int_of_val] in Hb' |- *. unfold write_val in *.
      rewrite owrite_app in Hb' by exact Ho. rewrite owrite_app by exact Ho2. cbn [bind] in *. apply ok_out_inj in Hb' as [_ <-]. eexists. reflexivity.
  - (* Padding *) cbn [anon] in Ha. destruct len; try discriminate Ha. destruct v0; try discriminate Ha. destruct c; try discriminate Ha.
    fold (kint z) in *. cbn [build] in Hb |- *. rewrite eval_int_kint in Hb |- *. cbn [bind] in Hb |- *.
    rewrite !Z.sub_diag, !Z.sub_0_r in *. destruct (z <? 0)%Z eqn:E0; [discriminate|].
    destruct (alloc_bound <? z)%Z eqn:E2; [discriminate|].
    assert (W : forall o0, app_mode o0 -> owrite o0 (repeat pat (Z.to_nat z)) z pb = Ok (oapp o0 (repeat pat (Z.to_nat z)))).
    { intros o0 H0. assert (Hl : z = Z.of_nat (length (repeat pat (Z.to_nat z)))) by (rewrite repeat_length; lia).
      rewrite Hl at 2. apply owrite_app, H0. }
    assert (W2 : forall o0, app_mode o0 -> owrite o0 (repeat pat (Z.to_nat z)) z pb2 = Ok (oapp o0 (repeat pat (Z.to_nat z)))).
    { intros o0 H0. assert (Hl : z = Z.of_nat (length (repeat pat (Z.to_nat z)))) by (rewrite repeat_length; lia).
      rewrite Hl at 2. apply owrite_app, H0. }
    rewrite W in Hb by exact Ho. cbn [bind] in Hb. apply ok_out_inj in Hb as [_ <-].
    rewrite W2 by exact Ho2. cbn [bind]. eexists. reflexivity.
Qed.

(* ---- Struct: every member named ---- *)
Definition named (c : con) : bool := match c with CRenamed _ _ => true | _ => false end.

Lemma names_cons_r c t : names (c :: t) = match name_of c with Some n => [n] | None => [] end ++ names t.
Proof. reflexivity. Qed.

Lemma loop_preserves : forall cs cx p acc s acc' cx' s',
  struct_loop parse cs cx p acc s = Ok (acc', cx', s') -> forall k, ~ In k (names cs) -> lookup k acc' = lookup k acc.
Proof.
  induction cs as [|c t IH]; intros cx p acc s acc' cx' s' H k Hk; cbn [struct_loop] in H.
  - injection H as <- _ _. reflexivity.
  - destruct (parse c cx p s) as [[v s1]|e q].
    + destruct (name_of c) as [n|] eqn:En.
      * rewrite (IH _ _ _ _ _ _ _ H k) by (intros Hin; apply Hk; rewrite names_cons_r; apply in_or_app; right; exact Hin).
        apply lookup_dict_set_other. intros ->. apply Hk. unfold names. cbn [flat_map]. rewrite En. left. reflexivity.
      * apply (IH _ _ _ _ _ _ _ H k). intros Hin. apply Hk. unfold names. cbn [flat_map]. rewrite En. exact Hin.
    + destruct e; try discriminate. destruct (is_stopif c); [|discriminate]. injection H as <- _ _. reflexivity.
Qed.

Definition memberok (c : con) : bool := named c || anon c.

Lemma struct_RB : forall cs, Forall RT cs -> Forall RB cs -> NoDup (names cs) -> no_stopif cs -> forallb memberok cs = true ->
  forall kv cxb pb o cxb' o', app_mode o -> struct_bloop build kv cs cxb pb o = Ok (cxb', o') ->
  exists out, o' = oapp o out /\
    forall cxp pp acc pre rest base sk acc' cxp' s',
      struct_loop parse cs cxp pp acc (at_pos pre (out ++ rest) base sk) = Ok (acc', cxp', s') ->
      forall kv2, (forall n, In n (names cs) -> lookup n kv2 = lookup n acc') ->
      forall cxb2 pb2 o2, app_mode o2 -> exists cxb2', struct_bloop build kv2 cs cxb2 pb2 o2 = Ok (cxb2', oapp o2 out).
Proof.
  induction cs as [|c t IH]; intros HT HB Hnd Hns Hnm kv cxb pb o cxb' o' Ho Hb; cbn [struct_bloop] in Hb.
  - injection Hb as _ <-. exists []. split; [symmetry; apply oapp_nil; exact Ho|].
    intros. eexists. cbn [struct_bloop]. rewrite oapp_nil by assumption. reflexivity.
  - inversion HT as [|? ? Hc Ht]; subst. inversion HB as [|? ? Hcb Htb]; subst. inversion Hns as [|? ? Hs1 Hs2]; subst.
    cbn [forallb] in Hnm. apply andb_prop in Hnm as [Hn1 Hn2]. unfold memberok in Hn1. destruct (named c) eqn:Enamed.
    + (* a named member *)
      destruct c as [| | | | | | | | | | | | | | | | | | | | | | | | | | | | | | | | | | | | |n c0| | | | | | | | | | | | | | | | | | | | | ]; try discriminate Enamed.
      cbn [name_of] in Hb.
      match type of Hb with context [bind ?X _] => destruct X as [subobj|] eqn:Es end; [|discriminate]. cbn [bind] in Hb.
      destruct (build (CRenamed n c0) subobj (ctx_set cxb n subobj) pb o) as [[r o1]|e q] eqn:Ec.
      2:{ destruct e; try discriminate. rewrite Hs1 in Hb. discriminate. }
      assert (Hn_t : ~ In n (names t)) by (rewrite names_cons_r in Hnd; cbn [name_of app] in Hnd; inversion Hnd; assumption).
      assert (Hnd' : NoDup (names t)) by (rewrite names_cons_r in Hnd; cbn [name_of app] in Hnd; inversion Hnd; assumption).
      destruct (Hc subobj _ pb o r o1 Ho Ec) as (out1 & -> & Hp1).
      destruct (IH Ht Htb Hnd' Hs2 Hn2 kv _ pb _ cxb' o' (app_mode_oapp _ _) Hb) as (out2 & -> & Hp2).
      exists (out1 ++ out2). split; [apply oapp_app|].
      intros cxp pp acc pre rest base sk acc' cxp' s' Hp kv2 Hkv cxb2 pb2 o2 Ho2. rewrite <- app_assoc in Hp. cbn [struct_loop] in Hp.
      destruct (Hp1 cxp pp pre (out2 ++ rest) base sk) as (r' & E1 & _). rewrite E1 in Hp. cbn [name_of] in Hp.
      (* the member's entry in the parsed value is what it parsed to *)
      assert (Hl : lookup n kv2 = Some r').
      { rewrite (Hkv n) by (rewrite names_cons_r; cbn [name_of app]; left; reflexivity).
        rewrite (loop_preserves _ _ _ _ _ _ _ _ Hp n Hn_t). apply lookup_dict_set_same. }
      cbn [struct_bloop name_of]. rewrite Hl. cbn [bind].
      destruct (Hcb subobj _ pb o r out1 Ho Ec cxp pp pre (out2 ++ rest) base sk r' _ E1 (ctx_set cxb2 n r') pb2 o2 Ho2) as (r2 & E2). rewrite E2.
      assert (Hkv' : forall m, In m (names t) -> lookup m kv2 = lookup m acc').
      { intros m Hm. apply Hkv. rewrite names_cons_r. apply in_or_app. right. exact Hm. }
      destruct (Hp2 _ pp _ (pre ++ out1) rest base sk acc' cxp' s' Hp kv2 Hkv' (ctx_set (ctx_set cxb2 n r') n r2) pb2 (oapp o2 out1) (app_mode_oapp _ _)) as (cxf & E3).
      rewrite E3. rewrite oapp_app. eexists. reflexivity.
    + (* an anonymous member that builds from nothing: the same bytes again, whatever the context *)
      cbn [orb] in Hn1. pose proof (anon_name c Hn1) as En. rewrite En in Hb.
      destruct (buildnone c) eqn:Ebn; [|discriminate]. cbn [bind] in Hb.
      destruct (build c VNone cxb pb o) as [[r o1]|e q] eqn:Ec.
      2:{ destruct e; try discriminate. rewrite Hs1 in Hb. discriminate. }
      assert (Hnd' : NoDup (names t)) by (rewrite names_cons_r, En in Hnd; exact Hnd).
      destruct (Hc VNone _ pb o r o1 Ho Ec) as (out1 & -> & Hp1).
      destruct (IH Ht Htb Hnd' Hs2 Hn2 kv _ pb _ cxb' o' (app_mode_oapp _ _) Hb) as (out2 & -> & Hp2).
      exists (out1 ++ out2). split; [apply oapp_app|].
      intros cxp pp acc pre rest base sk acc' cxp' s' Hp kv2 Hkv cxb2 pb2 o2 Ho2. rewrite <- app_assoc in Hp. cbn [struct_loop] in Hp.
      destruct (Hp1 cxp pp pre (out2 ++ rest) base sk) as (r' & E1 & _). rewrite E1, En in Hp.
      cbn [struct_bloop]. rewrite En, Ebn. cbn [bind].
      destruct (anon_det c Hn1 VNone cxb pb o r out1 cxb2 pb2 o2 Ho Ho2 Ec) as (r2 & E2). rewrite E2.
      assert (Hkv' : forall m, In m (names t) -> lookup m kv2 = lookup m acc').
      { intros m Hm. apply Hkv. rewrite names_cons_r, En. exact Hm. }
      destruct (Hp2 _ pp _ (pre ++ out1) rest base sk acc' cxp' s' Hp kv2 Hkv' cxb2 pb2 (oapp o2 out1) (app_mode_oapp _ _)) as (cxf & E3).
      rewrite E3. rewrite oapp_app. eexists. reflexivity.
Qed.

Theorem RB_struct cs : Forall RT cs -> Forall RB cs -> NoDup (names cs) -> no_stopif cs -> forallb memberok cs = true -> RB (CStruct cs).
Proof.
  intros HT HB Hnd Hns Hnm v cxb pb o r out Ho Hb cxp pp pre rest base sk r' s' Hp cxb2 pb2 o2 Ho2. cbn [build] in Hb.
  destruct (match v with VNone => Ok [] | VDict kv => Ok kv | _ => unsupported end) as [kv|] eqn:Ek; [|discriminate]. cbn [bind] in Hb.
  destruct (struct_bloop build kv cs (ctx_update (push_scope cxb) kv) pb o) as [[cxb' o1]|] eqn:Es; [|discriminate]. cbn [bind] in Hb.
  destruct (struct_RB cs HT HB Hnd Hns Hnm kv _ pb o cxb' o1 Ho Es) as (out0 & -> & Hl). apply ok_out_inj in Hb as [_ <-].
  cbn [parse] in Hp. destruct (struct_loop parse cs (push_scope cxp) pp [] _) as [[[acc' cxp'] s1]|] eqn:El; [|discriminate]. cbn [bind] in Hp. injection Hp as <- _.
  destruct (Hl _ pp [] pre rest base sk acc' cxp' s1 El acc' (fun _ _ => eq_refl) (ctx_update (push_scope cxb2) acc') pb2 o2 Ho2) as (cxf & E2).
  eexists. cbn [build bind]. rewrite E2. reflexivity.
Qed.

(* ---- the fragment and the theorem ---- *)
Fixpoint sfrag (e : bool) (c : con) : bool :=
  match c with
  | CFormat _ f => negb (fcode_float f)
  | CBytesInt (XConst (VInt n)) _ _ => ((0 <? n) && (n <=? 65536))%Z
  | CVarInt | CZigZag | CPass => true
  | CBytes (XConst (VInt n)) => (0 <=? n)%Z
  | CGreedyBytes => e
  | CRenamed _ c' => sfrag e c'
  | CConst (VInt _) c' => int_leaf c'
  | CConst (VBytes d) (CBytes (XConst (VInt n))) => (n =? Z.of_nat (length d))%Z
  | CStruct cs => forallb (sfrag false) cs && nodupb (names cs) && forallb memberok cs
  | CSequence cs => forallb (sfrag false) cs
  | CArray (XConst (VInt n)) c' => (0 <=? n)%Z && sfrag false c'
  | CPrefixed lc c' false => int_leaf lc && sfrag true c'
  | CPadded (XConst (VInt n)) c' _ => (0 <=? n)%Z && sfrag false c'
  | CAligned (XConst (VInt m)) c' _ => (2 <=? m)%Z && sfrag false c'
  | CFixedSized (XConst (VInt n)) c' => (0 <=? n)%Z && sfrag false c'
  | _ => false
  end.

Lemma sfrag_frag : forall c e, sfrag e c = true -> frag e c = true.
Proof.
  induction c using con_ind2; intros e Hf; try discriminate Hf; cbn [sfrag] in Hf; cbn [frag]; try exact Hf;
    try (apply IHc; exact Hf);
    try (destruct a0 as [| | |v| | |]; try discriminate Hf; destruct v; try discriminate Hf;
         apply andb_prop in Hf as [H1 H2]; rewrite H1, (IHc false H2); reflexivity);
    try (destruct a2; try discriminate Hf; apply andb_prop in Hf as [H1 H2]; rewrite H1, (IHc2 true H2); reflexivity).
  - apply andb_prop in Hf as [Hf _]. apply andb_prop in Hf as [Hm Hn]. rewrite Hn, andb_true_r.
    rewrite forallb_forall in Hm |- *. intros c Hin. rewrite Forall_forall in H. apply (H c Hin false), Hm, Hin.
  - rewrite forallb_forall in Hf |- *. intros c Hin. rewrite Forall_forall in H. apply (H c Hin false), Hf, Hin.
Qed.

Theorem rebuild_fragment : forall c, (sfrag false c = true -> RB c) /\ (sfrag true c = true -> RBe c).
Proof.
  assert (Both : forall c, (sfrag false c = true -> RB c) -> (forall e, sfrag e c = sfrag false c) ->
                 (sfrag false c = true -> RB c) /\ (sfrag true c = true -> RBe c)).
  { intros c H E. split; [exact H|]. intros Ht. apply RB_RBe, H. rewrite <- (E true). exact Ht. }
  assert (RTof : forall c, sfrag false c = true -> RT c) by (intros c Hc; apply C01_roundtrip_closed, sfrag_frag, Hc).
  assert (RTeof : forall c, sfrag true c = true -> RTe c) by (intros c Hc; apply C01_roundtrip_closed_tail, sfrag_frag, Hc).
  induction c using con_ind2; try (split; intros Hfr; discriminate Hfr).
  - apply Both; [|reflexivity]. intros Hfr. cbn in Hfr. apply RB_format_int. apply negb_true_iff. exact Hfr.
  - apply Both; [|reflexivity]. intros Hfr. cbn in Hfr. destruct a0; try discriminate. destruct v; try discriminate. apply RB_bytesint. lia.
  - apply Both; [|reflexivity]. intros _. apply RB_varint.
  - apply Both; [|reflexivity]. intros _. apply RB_zigzag.
  - apply Both; [|reflexivity]. intros Hfr. cbn in Hfr. destruct a0; try discriminate. destruct v; try discriminate. apply RB_bytes. lia.
  - split; intros Hfr; [discriminate|]. apply RBe_greedybytes.
  - apply Both; [|reflexivity]. intros _. apply RB_pass.
  - (* Struct *) apply Both; [|reflexivity]. intros Hfr. cbn [sfrag] in Hfr. apply andb_prop in Hfr as [Hfr Hnm]. apply andb_prop in Hfr as [Hm Hn].
    apply RB_struct; [| |apply nodupb_NoDup; exact Hn|apply frag_no_stopif|exact Hnm].
    + apply Forall_forall. intros c Hin. apply RTof. rewrite forallb_forall in Hm. apply Hm, Hin.
    + rewrite Forall_forall in H |- *. intros c Hin. apply (H c Hin). rewrite forallb_forall in Hm. apply Hm, Hin.
    + rewrite forallb_forall in Hm |- *. intros c Hin. apply sfrag_frag, Hm, Hin.
  - (* Sequence *) apply Both; [|reflexivity]. intros Hfr. cbn [sfrag] in Hfr.
    apply RB_sequence; [| |apply frag_no_stopif].
    + apply Forall_forall. intros c Hin. apply RTof. rewrite forallb_forall in Hfr. apply Hfr, Hin.
    + rewrite Forall_forall in H |- *. intros c Hin. apply (H c Hin). rewrite forallb_forall in Hfr. apply Hfr, Hin.
    + rewrite forallb_forall in Hfr |- *. intros c Hin. apply sfrag_frag, Hfr, Hin.
  - (* Array *) apply Both; [|reflexivity]. intros Hfr. cbn [sfrag] in Hfr. destruct a0; try discriminate. destruct v; try discriminate.
    apply andb_prop in Hfr as [Hn Hc]. apply RB_array; [lia|apply RTof, Hc|apply IHc, Hc].
  - (* Renamed *) destruct IHc as [I1 I2]. split; intros Hfr; cbn [sfrag] in Hfr; [apply RB_renamed, I1, Hfr|apply RBe_renamed, I2, Hfr].
  - (* Const *) apply Both; [|intros e; destruct a0; reflexivity]. intros Hfr. cbn [sfrag] in Hfr. destruct a0; try discriminate.
    + apply RB_const_int. exact Hfr.
    + destruct c; try discriminate. destruct len; try discriminate. destruct v; try discriminate.
      apply Z.eqb_eq in Hfr. subst z. apply RB_const_bytes.
  - (* Padded *) apply Both; [|intros e; destruct a0 as [| | |v| | |]; try reflexivity; destruct v; reflexivity].
    intros Hfr. cbn [sfrag] in Hfr. destruct a0; try discriminate. destruct v; try discriminate.
    apply andb_prop in Hfr as [Hn Hc]. apply RB_padded; [lia|apply RTof, Hc|apply IHc, Hc].
  - (* Aligned *) apply Both; [|intros e; destruct a0 as [| | |v| | |]; try reflexivity; destruct v; reflexivity].
    intros Hfr. cbn [sfrag] in Hfr. destruct a0; try discriminate. destruct v; try discriminate.
    apply andb_prop in Hfr as [Hn Hc]. apply RB_aligned; [lia|apply RTof, Hc|apply IHc, Hc].
  - (* Prefixed *) apply Both; [|intros e; destruct a2; reflexivity]. intros Hfr. cbn [sfrag] in Hfr. destruct a2; [discriminate|].
    apply andb_prop in Hfr as [Hl Hc]. apply RB_prefixed; [exact Hl|apply RTeof, Hc|apply IHc2, Hc].
  - (* FixedSized *) apply Both; [|intros e; destruct a0 as [| | |v| | |]; try reflexivity; destruct v; reflexivity].
    intros Hfr. cbn [sfrag] in Hfr. destruct a0; try discriminate. destruct v; try discriminate.
    apply andb_prop in Hfr as [Hn Hc]. apply RB_fixedsized; [lia|apply RTof, Hc|apply IHc, Hc].
Qed.

(* C02 on the public entry points: what build emits, parse accepts, and the parsed value builds the same bytes again *)
Theorem C02_reproduced_exactly : forall c v kw r out, sfrag false c = true ->
  build_bytes c v kw = Ok (r, out) ->
  forall kw1 kw2, exists v1 r2, parse_bytes c kw1 out = Ok v1 /\ vle v1 r = true /\ build_bytes c v1 kw2 = Ok (r2, out).
Proof.
  intros c v kw r out Hf Hb kw1 kw2. unfold build_bytes in Hb.
  destruct (build c v (top_ctx kw MBuild) [] ostream_new) as [[r0 o]|] eqn:E; [|discriminate]. cbn [bind] in Hb. injection Hb as <- <-.
  destruct (C01_roundtrip_closed c (sfrag_frag c false Hf) v _ [] ostream_new r0 o app_mode_new E) as (out & -> & Hp).
  destruct (Hp (top_ctx kw1 MParse) [] [] [] 0%N true) as (r' & Ep & L).
  destruct (proj1 (rebuild_fragment c) Hf v _ [] ostream_new r0 out app_mode_new E (top_ctx kw1 MParse) [] [] [] 0%N true r' _ Ep (top_ctx kw2 MBuild) [] ostream_new app_mode_new) as (r2 & E2).
  exists r', r2. rewrite odata_new_oapp. split; [|split; [exact L|]].
  - unfold parse_bytes, istream_of. rewrite app_nil_r in Ep. unfold at_pos in Ep. cbn [app nlen length N.of_nat] in Ep. rewrite Ep. reflexivity.
  - unfold build_bytes. rewrite E2. cbn [bind]. rewrite odata_new_oapp. reflexivity.
Qed.

(* idempotence: for ANY accepted input (canonical or not), once build has accepted what parse returned, parsing and building
   again changes nothing *)
Theorem C02_reencoding_is_idempotent : forall c kw data v r out, sfrag false c = true ->
  parse_bytes c kw data = Ok v -> build_bytes c v kw = Ok (r, out) ->
  exists v1 r2, parse_bytes c kw out = Ok v1 /\ vle v1 r = true /\ build_bytes c v1 kw = Ok (r2, out).
Proof. intros c kw data v r out Hf _ Hb. apply (C02_reproduced_exactly c v kw r out Hf Hb kw kw). Qed.

Definition ex_stable : con :=
  CStruct [CConst (VBytes [x4d; x5a]) (CBytes (kint 2));
           CRenamed [x61] (CFormat Little FH);
           CRenamed [x62] (CPrefixed CVarInt CGreedyBytes false);
           CRenamed [x78] (CArray (kint 2) (CBytesInt (kint 3) true true));
           CRenamed [x63] (CPadded (kint 4) (CConst (VInt 7) (CFormat Big FB)) x00);
           CPadded (kint 2) CPass x00;
           CRenamed [x64] CVarInt].

Lemma ex_stable_in_fragment : sfrag false ex_stable = true.
Proof. reflexivity. Qed.

(* a non-canonical input (a VarInt with a redundant continuation byte, padding bytes that are not zero, also in the anonymous
   Padding member) is normalised by the
   first re-encoding and then stays *)
Definition stable_run (c : con) (data : list byte) : option (bool * bool) :=
  match parse_bytes c [] data with
  | Ok v => match build_bytes c v [] with
            | Ok (_, out) => match parse_bytes c [] out with
                             | Ok v1 => match build_bytes c v1 [] with
                                        | Ok (_, out2) => Some (bytes_eqb out data, bytes_eqb out2 out)
                                        | _ => None end
                             | _ => None end
            | _ => None end
  | _ => None end.

Lemma ex_stable_normalises :
  stable_run ex_stable [x4d; x5a; x01; x00; x82; x00; x41; x42; x01; x00; x00; x02; x00; x00; x07; xff; xee; xdd; xaa; xbb; x85; x00] = Some (false, true).
Proof. vm_compute. reflexivity. Qed.
