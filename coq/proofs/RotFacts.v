(* C15: ProcessRotateLeft matches its definition for EVERY amount and EVERY group size: the bits of a rotated group are the
   bits of the group, rotated left by the amount.  Hence rotating by a and then by (8G - a) is the identity. *)
From Coq Require Import ZArith NArith List Bool Lia ZifyBool ZifyN ZifyNat.
From Coq Require Import Strings.Byte.
Require Import Bytes Value Expr Codec Float Stream Syntax Sizeof Parse Build BytesFacts StreamFacts PrimFacts TransformFacts BitFacts.
Import ListNotations.
Local Open Scope nat_scope.

Definition rotl {A} (n : nat) (l : list A) : list A := skipn n l ++ firstn n l.
Definition bits8 (b : byte) : bytes := bits_of_N 8 (Byte.to_N b).

Lemma bits8_length b : length (bits8 b) = 8.
Proof. destruct b; reflexivity. Qed.

Lemma bytes2bits_cons b t : bytes2bits (b :: t) = bits8 b ++ bytes2bits t.
Proof. reflexivity. Qed.

(* bit 8i+j of the bits of a byte string is bit j of byte i *)
Lemma nth_bytes2bits : forall g i j, i < length g -> j < 8 -> nth (8 * i + j) (bytes2bits g) x00 = nth j (bits8 (nth i g x00)) x00.
Proof.
  induction g as [|b t IH]; intros i j Hi Hj; [cbn in Hi; lia|]. rewrite bytes2bits_cons. destruct i as [|i].
  - rewrite app_nth1 by (rewrite bits8_length; lia). replace (8 * 0 + j) with j by lia. reflexivity.
  - rewrite app_nth2 by (rewrite bits8_length; lia). rewrite bits8_length. replace (8 * S i + j - 8) with (8 * i + j) by lia.
    cbn [nth]. apply IH; [cbn in Hi; lia|exact Hj].
Qed.

Lemma nth_skipn' {A} (d : A) : forall n l i, nth i (skipn n l) d = nth (n + i) l d.
Proof. induction n as [|n IH]; intros l i; [reflexivity|]. destruct l as [|x t]; [destruct i; reflexivity|]. cbn [skipn Nat.add nth]. apply IH. Qed.

Lemma nth_rotl {A} (d : A) n l i : n <= length l -> i < length l -> nth i (rotl n l) d = nth ((i + n) mod length l) l d.
Proof.
  intros Hn Hi. unfold rotl. destruct (Nat.lt_ge_cases i (length l - n)) as [H|H].
  - rewrite app_nth1 by (rewrite skipn_length; exact H). rewrite nth_skipn'. rewrite Nat.mod_small by lia. f_equal. lia.
  - rewrite app_nth2 by (rewrite skipn_length; exact H). rewrite skipn_length.
    assert (E : (i + n) mod length l = i - (length l - n)).
    { symmetry. apply (Nat.mod_unique _ _ 1); lia. }
    rewrite E. set (k := i - (length l - n)). assert (Hk : k < n) by (unfold k; lia).
    rewrite <- (firstn_skipn n l) at 2. rewrite app_nth1 by (rewrite firstn_length; lia). reflexivity.
Qed.

Lemma beqb_eq a : forall b, bytes_eqb a b = true -> a = b.
Proof.
  induction a as [|x a IH]; intros [|y b]; cbn [bytes_eqb]; try discriminate; [reflexivity|].
  intros H. apply andb_true_iff in H. destruct H as [H1 H2]. apply Byte.byte_dec_bl in H1. subst. f_equal. apply IH, H2.
Qed.

(* one output byte of the general branch *)
Definition comb (a1 : N) (x y : byte) : byte :=
  byte_of_N (N.lor (N.land (N.shiftl (Byte.to_N x) a1) 255) (N.shiftr (Byte.to_N y) (8 - a1))).

Lemma comb_bits : forall a1 x y, (0 < a1 < 8)%N -> bits8 (comb a1 x y) = skipn (N.to_nat a1) (bits8 x) ++ firstn (N.to_nat a1) (bits8 y).
Proof.
  intros a1 x y Ha.
  assert (H : forallb (fun a => forallb (fun x => forallb (fun y =>
                 bytes_eqb (bits8 (comb a x y)) (skipn (N.to_nat a) (bits8 x) ++ firstn (N.to_nat a) (bits8 y))) all_bytes) all_bytes) [1;2;3;4;5;6;7]%N = true)
    by (vm_cast_no_check (eq_refl true)).
  rewrite forallb_forall in H. assert (Hin : In a1 [1;2;3;4;5;6;7]%N) by (cbn; lia).
  pose proof (forall_bytes _ (H a1 Hin) x) as Hx. cbv beta in Hx. pose proof (forall_bytes _ Hx y) as Hy. cbv beta in Hy.
  apply beqb_eq in Hy. exact Hy.
Qed.

Lemma rotl8_bits : forall a b, (0 < a < 8)%N -> bits8 (rotl8 a b) = rotl (N.to_nat a) (bits8 b).
Proof. intros a b Ha. change (rotl8 a b) with (comb a b b). rewrite comb_bits by exact Ha. reflexivity. Qed.

Lemma mod8 m r G : 0 < G -> r < 8 -> (8 * m + r) mod (8 * G) = 8 * (m mod G) + r.
Proof.
  intros HG Hr. symmetry. apply (Nat.mod_unique _ _ (m / G)).
  - pose proof (Nat.mod_upper_bound m G). lia.
  - pose proof (Nat.div_mod m G). lia.
Qed.

Lemma nth_skip_first (a j : nat) (p q : bytes) : length p = 8 -> length q = 8 -> a < 8 -> j < 8 ->
  nth j (skipn a p ++ firstn a q) x00 = if j + a <? 8 then nth (j + a) p x00 else nth (j + a - 8) q x00.
Proof.
  intros Hp Hq Ha Hj. destruct (j + a <? 8) eqn:E.
  - apply Nat.ltb_lt in E. rewrite app_nth1 by (rewrite skipn_length; lia). rewrite nth_skipn'. f_equal. lia.
  - apply Nat.ltb_ge in E. rewrite app_nth2 by (rewrite skipn_length; lia). rewrite skipn_length, Hp.
    replace (j - (8 - a)) with (j + a - 8) by lia.
    rewrite <- (firstn_skipn a q) at 2. rewrite app_nth1 by (rewrite firstn_length; lia). reflexivity.
Qed.

(* the group, byte by byte *)
Lemma rot_group_length a g : length (rot_group a g) = length g.
Proof.
  unfold rot_group. destruct (a =? 0)%N; [reflexivity|]. destruct (Nat.eqb (length g) 1); [apply map_length|].
  destruct (a mod 8 =? 0)%N; rewrite map_length, seq_length; reflexivity.
Qed.

Lemma rot_group_nth a g i : (0 < a < 8 * N.of_nat (length g))%N -> i < length g ->
  let G := length g in
  let ab := N.to_nat (a / 8) in
  let a1 := (a mod 8)%N in
  nth i (rot_group a g) x00 =
    if (a1 =? 0)%N then nth ((i + ab) mod G) g x00
    else comb a1 (nth ((i + ab) mod G) g x00) (nth ((i + 1 + ab) mod G) g x00).
Proof.
  intros Ha Hi G ab a1. unfold rot_group. fold G. fold ab. fold a1.
  destruct (a =? 0)%N eqn:E0; [lia|]. destruct (Nat.eqb G 1) eqn:E1.
  - apply Nat.eqb_eq in E1. assert (i = 0) by lia. subst i. assert (Hab : ab = 0) by (unfold ab; lia).
    rewrite Hab. rewrite E1. cbn [Nat.add Nat.modulo Nat.divmod fst snd Nat.sub].
    assert (Ea : a1 = a) by (unfold a1; apply N.mod_small; lia). rewrite Ea. replace (a =? 0)%N with false by lia.
    destruct g as [|b [|c t]]; try (cbn in E1; lia). cbn [map nth]. reflexivity.
  - destruct (a1 =? 0)%N eqn:E8.
    + rewrite (nth_indep _ x00 (nth_byte g ((0 + ab) mod G))) by (rewrite map_length, seq_length; exact Hi).
      rewrite (map_nth (fun i0 => nth_byte g ((i0 + ab) mod G))). rewrite seq_nth by exact Hi. reflexivity.
    + rewrite (nth_indep _ x00 ((fun i0 => byte_of_N (N.lor (N.land (N.shiftl (Byte.to_N (nth_byte g ((i0 + ab) mod G))) a1) 255)
                  (N.shiftr (Byte.to_N (nth_byte g ((i0 + 1 + ab) mod G))) (8 - a1)))) 0)) by (rewrite map_length, seq_length; exact Hi).
      rewrite (map_nth (fun i0 => byte_of_N (N.lor (N.land (N.shiftl (Byte.to_N (nth_byte g ((i0 + ab) mod G))) a1) 255)
                  (N.shiftr (Byte.to_N (nth_byte g ((i0 + 1 + ab) mod G))) (8 - a1))))). rewrite seq_nth by exact Hi. reflexivity.
Qed.

(* THE definition: the bits of the rotated group are the bits of the group rotated left by the amount *)
Theorem rot_group_spec : forall a g, (a < 8 * N.of_nat (length g))%N ->
  bytes2bits (rot_group a g) = rotl (N.to_nat a) (bytes2bits g).
Proof.
  intros a g Ha. destruct (N.eq_dec a 0) as [->|Hnz].
  - unfold rot_group, rotl. cbn. rewrite app_nil_r. reflexivity.
  - set (G := length g). assert (HG : 0 < G) by (unfold G; lia).
    apply (nth_ext _ _ x00 x00).
    + unfold rotl. rewrite app_length, skipn_length, firstn_length, !bytes2bits_length, rot_group_length. lia.
    + intros k Hk. rewrite bytes2bits_length, rot_group_length in Hk. fold G in Hk.
      set (i := k / 8). set (j := k mod 8).
      assert (Ek : k = 8 * i + j) by (unfold i, j; apply Nat.div_mod; lia).
      assert (Hj : j < 8) by (unfold j; apply Nat.mod_upper_bound; lia).
      assert (Hi : i < G) by (unfold i; apply Nat.div_lt_upper_bound; lia).
      rewrite Ek at 1. rewrite nth_bytes2bits by (rewrite ?rot_group_length; assumption).
      rewrite nth_rotl by (rewrite bytes2bits_length; fold G; lia). rewrite bytes2bits_length. fold G.
      rewrite (rot_group_nth a g i) by (fold G; lia). fold G.
      set (ab := N.to_nat (a / 8)). set (a1 := (a mod 8)%N).
      assert (Ea : N.to_nat a = 8 * ab + N.to_nat a1) by (unfold ab, a1; pose proof (N.div_mod a 8); lia).
      assert (Ha1 : N.to_nat a1 < 8) by (unfold a1; pose proof (N.mod_upper_bound a 8); lia).
      destruct (a1 =? 0)%N eqn:E8.
      * assert (N.to_nat a1 = 0) by lia. replace (k + N.to_nat a) with (8 * (i + ab) + j) by lia.
        rewrite mod8 by assumption. rewrite nth_bytes2bits by (try apply Nat.mod_upper_bound; lia). reflexivity.
      * rewrite comb_bits by lia. rewrite nth_skip_first by (rewrite ?bits8_length; lia || reflexivity).
        destruct (j + N.to_nat a1 <? 8) eqn:E.
        -- apply Nat.ltb_lt in E. replace (k + N.to_nat a) with (8 * (i + ab) + (j + N.to_nat a1)) by lia.
           rewrite mod8 by assumption. rewrite nth_bytes2bits by (try apply Nat.mod_upper_bound; lia). reflexivity.
        -- apply Nat.ltb_ge in E. replace (k + N.to_nat a) with (8 * (i + 1 + ab) + (j + N.to_nat a1 - 8)) by lia.
           rewrite mod8 by (assumption || lia). rewrite nth_bytes2bits by (try apply Nat.mod_upper_bound; lia). reflexivity.
Qed.

Lemma bytes2bits_inj a b : bytes2bits a = bytes2bits b -> a = b.
Proof. intros H. pose proof (bits2bytes_bytes2bits a) as Ha. rewrite H, bits2bytes_bytes2bits in Ha. congruence. Qed.

Lemma rotl_rotl {A} (l : list A) n m : n + m = length l -> rotl m (rotl n l) = l.
Proof.
  intros H. unfold rotl.
  assert (E1 : skipn m (skipn n l ++ firstn n l) = firstn n l).
  { rewrite skipn_app, skipn_length. replace (m - (length l - n)) with 0 by lia. rewrite skipn_all2 by (rewrite skipn_length; lia). reflexivity. }
  assert (E2 : firstn m (skipn n l ++ firstn n l) = skipn n l).
  { rewrite firstn_app, skipn_length. replace (m - (length l - n)) with 0 by lia. rewrite firstn_all2 by (rewrite skipn_length; lia). cbn. apply app_nil_r. }
  rewrite E1, E2. apply firstn_skipn.
Qed.

(* rotating a group by a and then by the complementary amount is the identity: every amount, every group size *)
Theorem rot_group_inverse : forall a g, (0 < a < 8 * N.of_nat (length g))%N ->
  rot_group (8 * N.of_nat (length g) - a) (rot_group a g) = g.
Proof.
  intros a g Ha. apply bytes2bits_inj. rewrite rot_group_spec by (rewrite rot_group_length; lia). rewrite rot_group_spec by lia.
  apply rotl_rotl. rewrite bytes2bits_length. lia.
Qed.

(* a rotation by a whole number of bytes moves bytes: the branch without shifts agrees with the definition too *)
Lemma rot_group_examples :
  rot_group 12 [x12; x34; x56] = [x45; x61; x23] /\ rot_group 8 [x12; x34; x56] = [x34; x56; x12] /\
  rot_group 3 [xa5] = [x2d] /\ rot_group (24 - 12) (rot_group 12 [x12; x34; x56]) = [x12; x34; x56].
Proof. repeat split; vm_compute; reflexivity. Qed.

(* ---- whole data: groups are rotated independently ---- *)
Lemma chunksn_concat G : 0 < G -> forall chunks, Forall (fun c : bytes => length c = G) chunks -> forall fuel, length chunks <= fuel ->
  chunksn G fuel (concat chunks) = chunks.
Proof.
  intros HG. induction 1 as [|c t Hc Ht IH]; intros fuel Hf.
  - destruct fuel; reflexivity.
  - destruct fuel as [|f]; [cbn in Hf; lia|]. cbn [concat chunksn].
    destruct (c ++ concat t) as [|x r] eqn:E; [destruct c; [cbn in Hc; lia|discriminate]|]. rewrite <- E.
    rewrite firstn_app, firstn_all2 by lia. replace (G - length c) with 0 by lia. cbn [firstn]. rewrite app_nil_r.
    rewrite skipn_app, skipn_all2 by lia. replace (G - length c) with 0 by lia. cbn [skipn app]. rewrite IH by (cbn in Hf; lia). reflexivity.
Qed.

Lemma chunksn_ok G : 0 < G -> forall fuel d, length d <= fuel -> length d mod G = 0 ->
  Forall (fun c : bytes => length c = G) (chunksn G fuel d) /\ concat (chunksn G fuel d) = d /\ length (chunksn G fuel d) <= length d.
Proof.
  intros HG. induction fuel as [|f IH]; intros d Hf Hm.
  - destruct d; [|cbn in Hf; lia]. cbn. auto.
  - cbn [chunksn]. destruct d as [|x r] eqn:Ed; [cbn; auto|]. rewrite <- Ed in *. assert (Hlen : 0 < length d) by (rewrite Ed; cbn; lia).
    assert (HGd : G <= length d).
    { destruct (Nat.lt_ge_cases (length d) G) as [Hlt|Hge]; [|exact Hge]. rewrite Nat.mod_small in Hm by exact Hlt. lia. }
    assert (Hs : length (skipn G d) = length d - G) by apply skipn_length.
    assert (Hm' : length (skipn G d) mod G = 0).
    { rewrite Hs. pose proof (Nat.div_mod (length d) G). rewrite Hm in H. 
      replace (length d - G) with (G * (length d / G - 1)) by nia. rewrite Nat.mul_comm. apply Nat.mod_mul. lia. }
    destruct (IH (skipn G d) ltac:(lia) Hm') as (F & C & L). split; [|split].
    + constructor; [rewrite firstn_length; lia|exact F].
    + cbn [concat]. rewrite C. apply firstn_skipn.
    + cbn [length]. lia.
Qed.

Theorem rotate_left_inverse : forall a G d d', (0 < a < 8 * N.of_nat G)%N ->
  rotate_left a G d = Some d' -> rotate_left (8 * N.of_nat G - a) G d' = Some d.
Proof.
  intros a G d d' Ha H. unfold rotate_left in *. destruct G as [|G0]; [discriminate|]. set (G := S G0) in *.
  destruct (Nat.eqb (length d mod G) 0) eqn:Em; cbn [negb] in H; [|discriminate]. apply Nat.eqb_eq in Em. injection H as <-.
  destruct (chunksn_ok G ltac:(unfold G; lia) (length d) d (le_n _) Em) as (F & C & L).
  set (chunks := chunksn G (length d) d) in *. clearbody chunks.
  assert (F' : Forall (fun c : bytes => length c = G) (map (rot_group a) chunks)).
  { apply Forall_forall. intros c Hin. apply in_map_iff in Hin as (c0 & <- & Hin0). rewrite rot_group_length. rewrite Forall_forall in F. apply F, Hin0. }
  assert (Hlen : length (concat (map (rot_group a) chunks)) = length d).
  { rewrite <- C. clear. induction chunks as [|c t IH]; [reflexivity|]. cbn [map concat]. rewrite !app_length, rot_group_length, IH. reflexivity. }
  rewrite Hlen, Em. cbn [Nat.eqb negb]. f_equal.
  rewrite chunksn_concat; [|unfold G; lia|exact F'|rewrite map_length; exact L].
  rewrite map_map. rewrite <- C. f_equal. rewrite <- (map_id chunks) at 2. apply map_ext_in. intros c Hin.
  rewrite Forall_forall in F. pose proof (F c Hin) as Hc. rewrite <- Hc. apply rot_group_inverse. rewrite Hc. exact Ha.
Qed.

(* what ProcessRotateLeft's parse does to the bytes its build wrote: build rotates by (-a) mod 8g, parse by a mod 8g *)
Theorem processrotl_parse_undoes_build : forall a g d d', (1 <= g)%Z ->
  rotate_left (Z.to_N ((- a) mod (g * 8))) (Z.to_nat g) d = Some d' ->
  rotate_left (Z.to_N (a mod (g * 8))) (Z.to_nat g) d' = Some d.
Proof.
  intros a g d d' Hg H. set (G := Z.to_nat g) in *. assert (HG : 0 < G) by (unfold G; lia).
  destruct (Z.eq_dec (a mod (g * 8)) 0) as [E0|Hnz].
  - assert (E1 : ((- a) mod (g * 8) = 0)%Z) by (apply Z.mod_opp_l_z; [lia|exact E0]).
    rewrite E0. rewrite E1 in H. change (Z.to_N 0) with 0%N in *.
    destruct (Nat.eq_dec (length d mod G) 0) as [Em|Em].
    + rewrite (rotate_left_zero G d HG Em) in H. destruct (chunksn_ok G HG (length d) d (le_n _) Em) as (_ & C & _). rewrite C in H. injection H as <-.
      rewrite (rotate_left_zero G d HG Em). rewrite C. reflexivity.
    + rewrite (rotate_left_rejects _ G d HG Em) in H. discriminate.
  - assert (E1 : ((- a) mod (g * 8) = g * 8 - a mod (g * 8))%Z) by (apply Z.mod_opp_l_nz; lia).
    pose proof (Z.mod_pos_bound a (g * 8) ltac:(lia)) as Hb.
    replace (Z.to_N (a mod (g * 8))) with (8 * N.of_nat G - Z.to_N ((- a) mod (g * 8)))%N by (unfold G; lia).
    apply rotate_left_inverse; [unfold G; lia|exact H].
Qed.
