(* C19: the emission half of KsyNest, generic in the kind of leaf members: whatever the leaves are (constant-size fields,
   fields sized by an expression, ...), Structs nested in Structs get helper types with fresh names, never shadowed. *)
From Coq Require Import ZArith NArith List Bool Lia ZifyBool ZifyN ZifyNat.
From Coq Require Import Strings.Byte.
Require Import Bytes Value Expr Codec Float Stream Syntax Sizeof Parse Build BytesFacts StreamFacts PrimFacts ConInd RTFacts Ksy KsyFacts KsyNest.
Import ListNotations.
Local Open Scope nat_scope.

Section Gen.
  Variable leaf : con -> bool.
  Variable lfield : name -> con -> kfield.
  Hypothesis leaf_struct : forall cs, leaf (CStruct cs) = false.
  Hypothesis leaf_emit : forall n m g, leaf m = true -> compile_full (emit (CRenamed n m)) g false = Done (lfield n m) g.
  Hypothesis lfield_id : forall n m, f_id (lfield n m) = Some n.
  Hypothesis leaf_nostop : forall n m, leaf m = true -> is_stopif (CRenamed n m) = false.

  Fixpoint gmem (c : con) : bool :=
    match c with
    | CRenamed _ (CStruct cs) => forallb gmem cs
    | CRenamed _ m => leaf m
    | _ => false
    end.

  Lemma gmem_leaf n m : (forall cs, m <> CStruct cs) -> gmem (CRenamed n m) = leaf m.
  Proof. intros H. destruct m; try reflexivity. exfalso. eapply H. reflexivity. Qed.

  Lemma gmem_ind (P : con -> Prop) :
    (forall n m, leaf m = true -> P (CRenamed n m)) ->
    (forall n cs, forallb gmem cs = true -> Forall P cs -> P (CRenamed n (CStruct cs))) ->
    forall c, gmem c = true -> P c.
  Proof.
    intros H1 H2.
    assert (Q : forall c, (gmem c = true -> P c) /\ (forall n, gmem (CRenamed n c) = true -> P (CRenamed n c))).
    { induction c using con_ind2; try (split; [intros X; discriminate X|intros n X; apply H1; exact X]).
      - (* Struct *) split; [intros X; discriminate X|]. intros n X. cbn [gmem] in X. apply H2; [exact X|].
        rewrite Forall_forall in H |- *. intros c Hin. apply (H c Hin). rewrite forallb_forall in X. apply X, Hin.
      - (* Renamed *) split; [intros X; apply IHc; exact X|]. intros n X. apply H1. exact X. }
    intros c. apply Q.
  Qed.

  Fixpoint gdesc (T : list (name * list kfield)) (f : kfield) (c : con) {struct c} : Prop :=
    match c with
    | CRenamed n (CStruct cs) =>
        exists nm l, f = ufield n nm /\ tfind T nm = Some (nm, l) /\
          (fix all (l : list kfield) (cs : list con) {struct cs} : Prop :=
             match l, cs with
             | [], [] => True
             | f' :: l', c' :: cs' => gdesc T f' c' /\ all l' cs'
             | _, _ => False
             end) l cs
    | CRenamed n m => f = lfield n m
    | _ => False
    end.

  Fixpoint gdescs (T : list (name * list kfield)) (l : list kfield) (cs : list con) {struct cs} : Prop :=
    match l, cs with
    | [], [] => True
    | f :: l', c :: cs' => gdesc T f c /\ gdescs T l' cs'
    | _, _ => False
    end.

  Lemma gdesc_struct T f n cs : gdesc T f (CRenamed n (CStruct cs)) <-> exists nm l, f = ufield n nm /\ tfind T nm = Some (nm, l) /\ gdescs T l cs.
  Proof.
    cbn [gdesc]. split; intros (nm & l & E & F & H); exists nm, l; (split; [exact E|split; [exact F|]]).
    - clear F E. revert l H. induction cs as [|c t IH]; intros [|f' l'] H; try exact H. destruct H as [H1 H2]. split; [exact H1|apply IH, H2].
    - clear F E. revert l H. induction cs as [|c t IH]; intros [|f' l'] H; try exact H. destruct H as [H1 H2]. split; [exact H1|apply IH, H2].
  Qed.

  Lemma gdesc_leaf T f n m : leaf m = true -> (gdesc T f (CRenamed n m) <-> f = lfield n m).
  Proof. intros H. destruct m; try reflexivity. rewrite leaf_struct in H. discriminate H. Qed.

  Lemma gdesc_ext T X : forall c, gmem c = true -> forall f, gdesc T f c -> gdesc (T ++ X) f c.
  Proof.
    apply (gmem_ind (fun c => forall f, gdesc T f c -> gdesc (T ++ X) f c)).
    - intros n m Hm f H. rewrite gdesc_leaf in H |- * by exact Hm. exact H.
    - intros n cs Hn IH f H. rewrite gdesc_struct in H |- *. destruct H as (nm & l & E & F & D). exists nm, l.
      split; [exact E|]. split; [apply tfind_app, F|].
      clear F E. revert l D. induction IH as [|c t Hc Ht IHt]; intros [|f' l'] D; try exact D.
      destruct D as [D1 D2]. cbn [forallb] in Hn. apply andb_prop in Hn as [_ Hn]. split; [apply Hc, D1|apply (IHt Hn), D2].
  Qed.

  Lemma gdescs_ext T X cs : forallb gmem cs = true -> forall l, gdescs T l cs -> gdescs (T ++ X) l cs.
  Proof.
    induction cs as [|c t IH]; intros Hn [|f l] D; try exact D. cbn [forallb] in Hn. apply andb_prop in Hn as [H1 H2].
    destruct D as [D1 D2]. split; [apply gdesc_ext; assumption|apply IH; assumption].
  Qed.

  Definition GEM (c : con) : Prop :=
    forall g, exists f g', compile_full (emit c) g false = Done f g' /\ grows g g' /\ (bounded g -> gdesc (g_types g') f c).

  Lemma gemit_members cs : Forall GEM cs -> forallb gmem cs = true -> forall g, exists l g',
    full_all emit cs g false = Done l g' /\ grows g g' /\ (bounded g -> gdescs (g_types g') l cs).
  Proof.
    induction 1 as [|c t Hc Ht IH]; intros Hn g; cbn [full_all].
    - exists [], g. split; [reflexivity|]. split; [apply grows_refl|]. intros _. exact I.
    - cbn [forallb] in Hn. apply andb_prop in Hn as [Hn1 Hn2].
      destruct (Hc g) as (f & g1 & E1 & G1 & D1). rewrite E1.
      destruct (IH Hn2 g1) as (l & g2 & E2 & G2 & D2). rewrite E2.
      exists (f :: l), g2. split; [reflexivity|]. split; [eapply grows_trans; eassumption|].
      intros Hb. destruct G2 as (H2 & E & new & T & B). split.
      + rewrite T. apply gdesc_ext; [exact Hn1|apply D1, Hb].
      + apply D2. eapply bounded_grows; eassumption.
  Qed.

  Theorem gemit_nested : forall c, gmem c = true -> GEM c.
  Proof.
    apply (gmem_ind GEM).
    - intros n m Hm g. exists (lfield n m), g. split; [apply leaf_emit, Hm|]. split; [apply grows_refl|].
      intros _. apply gdesc_leaf; [exact Hm|reflexivity].
    - intros n cs Hn IH g. rewrite compile_struct_member.
      set (g1 := mkGen (S (g_next g)) (g_types g) (g_enums g)).
      destruct (gemit_members cs IH Hn g1) as (l & g2 & E & (H2 & E2 & new & T & B) & D). rewrite E.
      eexists _, _. split; [reflexivity|]. unfold g1 in *. cbn [g_next g_types g_enums] in *. split.
      + unfold grows. cbn [g_next g_types g_enums]. split; [lia|]. split; [exact E2|]. exists (new ++ [(tname (S (g_next g)), l)]). split; [rewrite T, app_assoc; reflexivity|].
        intros nm l' Hin. apply in_app_or in Hin as [Hin|[Hin|[]]].
        * destruct (B nm l' Hin) as (j & Hj & ->). exists j. split; [lia|reflexivity].
        * injection Hin as <- _. exists (S (g_next g)). split; [lia|reflexivity].
      + intros Hb. apply gdesc_struct. exists (tname (S (g_next g))), l. split; [reflexivity|]. split.
        * apply tfind_last. intros l' Hin. rewrite T in Hin. apply in_app_or in Hin as [Hin|Hin].
          -- destruct (Hb _ _ Hin) as (j & Hj & Ej). apply tname_inj in Ej. lia.
          -- destruct (B _ _ Hin) as (j & Hj & Ej). apply tname_inj in Ej. lia.
        * apply gdescs_ext; [exact Hn|]. apply D. intros nm l' Hin. destruct (Hb nm l' Hin) as (j & Hj & ->). exists j. split; [cbn; lia|reflexivity].
  Qed.

  Lemma gmem_not_stopif c : gmem c = true -> is_stopif c = false.
  Proof.
    destruct c; try discriminate. intros H. destruct c; try (apply leaf_nostop; exact H). reflexivity.
  Qed.

  Lemma gdesc_id T f c : gmem c = true -> gdesc T f c -> f_id f = name_of c.
  Proof.
    destruct c; try discriminate. intros Hn H. cbn [name_of].
    destruct c; try (cbn [gdesc] in H; subst f; apply lfield_id).
    apply gdesc_struct in H as (nm & l & -> & _). reflexivity.
  Qed.
End Gen.
