(* C20: hexundump inverts hexdump for every byte string and every line size (character-level model). *)
From Coq Require Import ZArith NArith List Bool Lia.
From Coq Require Import Strings.Byte.
Require Import Bytes Hex BytesFacts TransformFacts.
Import ListNotations.
Local Open Scope nat_scope.

(* ---- split / join ---- *)
Lemma split_on_nosep c s : forall t cur, ~ In c s -> split_on c (s ++ t) cur = split_on c t (rev s ++ cur).
Proof.
  induction s as [|x s IH]; intros t cur Hn; [reflexivity|]. cbn [app split_on].
  destruct (Byte.eqb x c) eqn:E; [apply Byte.byte_dec_bl in E; subst; exfalso; apply Hn; left; reflexivity|].
  rewrite IH by (intros H; apply Hn; right; exact H). cbn [rev]. rewrite <- app_assoc. reflexivity.
Qed.

Lemma eqb_refl_byte c : Byte.eqb c c = true.
Proof. destruct c; reflexivity. Qed.

Theorem split_join : forall c ls, ls <> [] -> Forall (fun l => ~ In c l) ls -> split_on c (join [c] ls) [] = ls.
Proof.
  intros c. induction ls as [|x t IH]; intros Hne Hf; [congruence|].
  inversion Hf as [|? ? Hx Ht]; subst. destruct t as [|y t'].
  - cbn [join]. rewrite <- (app_nil_r x) at 1. rewrite split_on_nosep by exact Hx. cbn [split_on].
    rewrite app_nil_r, rev_involutive. reflexivity.
  - cbn [join]. rewrite split_on_nosep by exact Hx. cbn [app split_on]. rewrite eqb_refl_byte.
    rewrite app_nil_r, rev_involutive. f_equal. apply IH; [discriminate|exact Ht].
Qed.

Lemma middle_spec {A} (a : A) (l : list A) (y z : A) : middle ([a] ++ l ++ [y; z]) = l.
Proof.
  unfold middle. cbn [app skipn length]. rewrite app_length. cbn [length].
  replace (S (length l + 2) - 3) with (length l) by lia.
  rewrite firstn_app, firstn_all, Nat.sub_diag. cbn [firstn]. apply app_nil_r.
Qed.

(* ---- characters ---- *)
Definition hexchar (b : byte) : Prop := exists n, (n < 16)%N /\ b = hexdigit n.

Lemma hexdigit_cases n : In (hexdigit n) [x30;x31;x32;x33;x34;x35;x36;x37;x38;x39;x41;x42;x43;x44;x45;x46].
Proof.
  unfold hexdigit. destruct n as [|p]; [cbn; auto|].
  do 4 (destruct p as [p|p|]; try (cbn; tauto)).
Qed.

Lemma hexdigit_not_ws n : is_ws (hexdigit n) = false.
Proof. pose proof (hexdigit_cases n) as H. cbn in H. repeat (destruct H as [<-|H]; [reflexivity|]). contradiction. Qed.
Lemma hexdigit_not_sp n : hexdigit n <> sp.
Proof. pose proof (hexdigit_cases n) as H. cbn in H. repeat (destruct H as [<-|H]; [discriminate|]). contradiction. Qed.
Lemma hexdigit_not_nl n : hexdigit n <> nl.
Proof. pose proof (hexdigit_cases n) as H. cbn in H. repeat (destruct H as [<-|H]; [discriminate|]). contradiction. Qed.

Lemma printable_not_nl b : printable b <> nl.
Proof. destruct b; cbn; discriminate. Qed.

Lemma token_hexpair b : token_byte (hexpair b) = Some b.
Proof.
  revert b. assert (H : forallb (fun b => match token_byte (hexpair b) with Some x => Byte.eqb x b | None => false end) all_bytes = true)
    by (vm_compute; reflexivity).
  intros b. pose proof (forall_bytes _ H b) as Hb. cbv beta in Hb.
  destruct (token_byte (hexpair b)) as [x|]; [|discriminate]. apply Byte.byte_dec_bl in Hb. subst. reflexivity.
Qed.

Lemma all_some_tokens chunk : all_some (map token_byte (map hexpair chunk)) = Some chunk.
Proof. induction chunk as [|b t IH]; [reflexivity|]. cbn [map all_some]. rewrite token_hexpair, IH. reflexivity. Qed.

(* ---- whitespace splitting of  "XX XX XX" followed by spaces ---- *)
Definition nows (s : str) : Prop := forallb (fun b => negb (is_ws b)) s = true.

Lemma hexpair_nows b : nows (hexpair b).
Proof. unfold nows, hexpair. cbn [forallb]. rewrite !hexdigit_not_ws. reflexivity. Qed.

Lemma split_ws_word w : forall cur t, nows w ->
  split_ws (w ++ t) cur = split_ws t (rev w ++ cur).
Proof.
  induction w as [|x w IH]; intros cur t Hw; [reflexivity|]. unfold nows in Hw. cbn [forallb] in Hw.
  apply andb_prop in Hw as [Hx Hw]. apply negb_true_iff in Hx. cbn [app split_ws]. rewrite Hx.
  rewrite IH by exact Hw. cbn [rev]. rewrite <- app_assoc. reflexivity.
Qed.

Lemma split_ws_spaces m : split_ws (repeat sp m) [] = [].
Proof. induction m as [|m IH]; [reflexivity|]. cbn [repeat split_ws is_ws sp]. exact IH. Qed.

Lemma split_ws_pairs : forall ps m, Forall (fun p => nows p /\ p <> []) ps ->
  split_ws (join [sp] ps ++ repeat sp m) [] = ps.
Proof.
  induction ps as [|p t IH]; intros m Hf; [apply split_ws_spaces|].
  inversion Hf as [|? ? [Hp Hne] Ht]; subst. destruct t as [|q t'].
  - cbn [join]. rewrite split_ws_word by exact Hp. rewrite app_nil_r.
    destruct m as [|m].
    + cbn [repeat split_ws]. destruct (rev p) eqn:E; [apply (f_equal (@rev byte)) in E; rewrite rev_involutive in E; cbn in E; congruence|].
      rewrite <- E, rev_involutive. reflexivity.
    + cbn [repeat split_ws is_ws sp]. destruct (rev p) eqn:E; [apply (f_equal (@rev byte)) in E; rewrite rev_involutive in E; cbn in E; congruence|].
      rewrite <- E, rev_involutive. rewrite split_ws_spaces. reflexivity.
  - cbn [join]. rewrite <- !app_assoc. rewrite split_ws_word by exact Hp. rewrite app_nil_r.
    cbn [app split_ws is_ws sp]. destruct (rev p) eqn:E; [apply (f_equal (@rev byte)) in E; rewrite rev_involutive in E; cbn in E; congruence|].
    rewrite <- E, rev_involutive. f_equal. apply IH. exact Ht.
Qed.

(* ---- one line ---- *)
Lemma hexnum_chars w : forall n, Forall (fun c => c <> sp /\ c <> nl) (hexnum w n).
Proof.
  induction w as [|w IH]; intros n; cbn [hexnum]; [constructor|].
  apply Forall_app. split; [apply IH|]. constructor; [|constructor]. split; [apply hexdigit_not_sp|apply hexdigit_not_nl].
Qed.

Lemma from_first_space_skip s t : Forall (fun c => c <> sp) s -> from_first_space (s ++ sp :: t) = Some (sp :: t).
Proof.
  induction s as [|x s IH]; intros Hf; [reflexivity|]. inversion Hf as [|? ? Hx Hs]; subst. cbn [app from_first_space].
  destruct (Byte.eqb x sp) eqn:E; [apply Byte.byte_dec_bl in E; congruence|]. apply IH, Hs.
Qed.

Lemma join_cons2 (sep p q : str) t : join sep (p :: q :: t) = p ++ sep ++ join sep (q :: t).
Proof. reflexivity. Qed.

Lemma join_pairs_length chunk : chunk <> [] -> length (join [sp] (map hexpair chunk)) = 3 * length chunk - 1.
Proof.
  induction chunk as [|b t IH]; intros Hne; [congruence|]. destruct t as [|c t'].
  - reflexivity.
  - change (map hexpair (b :: c :: t')) with (hexpair b :: hexpair c :: map hexpair t').
    rewrite join_cons2, !app_length.
    change (hexpair c :: map hexpair t') with (map hexpair (c :: t')). rewrite IH by discriminate.
    cbn [length hexpair]. lia.
Qed.

Lemma join_pairs_head chunk : chunk <> [] -> exists d rest, join [sp] (map hexpair chunk) = hexdigit d :: rest.
Proof.
  destruct chunk as [|b [|c t]]; intros H; [congruence| |].
  - eexists; eexists; reflexivity.
  - change (map hexpair (b :: c :: t)) with (hexpair b :: hexpair c :: map hexpair t). rewrite join_cons2.
    unfold hexpair at 1. cbn [app]. eexists; eexists; reflexivity.
Qed.

Lemma lstrip_ws_head x t : is_ws x = false -> lstrip_ws (x :: t) = x :: t.
Proof. intros H. cbn [lstrip_ws]. rewrite H. reflexivity. Qed.

Theorem undump_dump_line : forall offw n off chunk, chunk <> [] -> length chunk <= n ->
  undump_line n (dump_line offw n off chunk) = Some chunk.
Proof.
  intros offw n off chunk Hne Hl. unfold undump_line, dump_line, after_offset.
  set (H := join [sp] (map hexpair chunk)).
  rewrite from_first_space_skip with (t := [sp; sp] ++ ljust (3 * n - 1) H ++ [sp; sp; sp] ++ map printable chunk).
  2:{ eapply Forall_impl; [|apply hexnum_chars]. cbn. tauto. }
  pose proof (join_pairs_length chunk Hne) as LH. fold H in LH.
  assert (Hk : 1 <= length chunk) by (destruct chunk; [congruence|cbn; lia]).
  set (m := 3 * n - 1 - length H).
  assert (Lj : length (H ++ repeat sp m) = 3 * n - 1) by (rewrite app_length, repeat_length; unfold m; lia).
  assert (Estrip : lstrip_ws (sp :: [sp; sp] ++ ljust (3 * n - 1) H ++ [sp; sp; sp] ++ map printable chunk)
                   = (H ++ repeat sp m) ++ [sp; sp; sp] ++ map printable chunk).
  { cbn [app lstrip_ws is_ws sp]. unfold ljust. fold m.
    destruct (join_pairs_head chunk Hne) as (d & rest & EH). fold H in EH. rewrite EH. cbn [app].
    apply lstrip_ws_head. apply hexdigit_not_ws. }
  rewrite Estrip.
  replace (firstn (3 * n) ((H ++ repeat sp m) ++ [sp; sp; sp] ++ map printable chunk)) with (H ++ repeat sp (S m)).
  2:{ rewrite firstn_app, Lj. replace (3 * n - (3 * n - 1)) with 1 by lia. rewrite firstn_all2 by lia.
      cbn [app firstn]. rewrite <- app_assoc. f_equal. clear. induction m; cbn; [reflexivity|]. f_equal. exact IHm. }
  unfold H. rewrite split_ws_pairs.
  - apply all_some_tokens.
  - apply Forall_forall. intros p Hin. apply in_map_iff in Hin. destruct Hin as (b & <- & _). split; [apply hexpair_nows|discriminate].
Qed.

Lemma dump_line_no_nl offw n off chunk : ~ In nl (dump_line offw n off chunk).
Proof.
  unfold dump_line, ljust. rewrite !in_app_iff. intros [H|[H|[[H|H]|[H|H]]]].
  - pose proof (hexnum_chars offw off) as F. rewrite Forall_forall in F. apply (F nl H). reflexivity.
  - cbn in H. repeat (destruct H as [H|H]; [discriminate|]). contradiction.
  - revert H. clear. induction chunk as [|b t IH]; intros H; [contradiction|]. destruct t as [|c t'].
    + cbn in H. destruct H as [H|[H|[]]]; revert H; apply hexdigit_not_nl.
    + change (map hexpair (b :: c :: t')) with (hexpair b :: hexpair c :: map hexpair t') in H.
      rewrite join_cons2 in H. rewrite !in_app_iff in H. destruct H as [H|[H|H]].
      * cbn in H. destruct H as [H|[H|[]]]; revert H; apply hexdigit_not_nl.
      * cbn in H. destruct H as [H|[]]; discriminate.
      * apply IH, H.
  - apply repeat_spec in H. discriminate.
  - cbn in H. repeat (destruct H as [H|H]; [discriminate|]). contradiction.
  - apply in_map_iff in H. destruct H as (b & E & _). revert E. apply printable_not_nl.
Qed.

(* ---- all lines ---- *)
Lemma dump_lines_undump offw n : 0 < n -> forall fuel off data, length data <= fuel ->
  exists cs, all_some (map (undump_line n) (dump_lines offw n fuel off data)) = Some cs /\ concat cs = data /\
             Forall (fun l => ~ In nl l) (dump_lines offw n fuel off data).
Proof.
  intros Hn. induction fuel as [|f IH]; intros off data Hl.
  - destruct data; [|cbn in Hl; lia]. exists []. repeat split. constructor.
  - destruct data as [|b t]; [exists []; repeat split; constructor|].
    cbn [dump_lines]. set (data := b :: t) in *.
    destruct (IH (N.add off (N.of_nat n)) (skipn n data)) as (cs & E & C & F).
    { rewrite skipn_length. cbn [length] in *. unfold data in *. cbn [length] in *. lia. }
    exists (firstn n data :: cs). cbn [map all_some].
    rewrite undump_dump_line.
    + rewrite E. repeat split; [cbn [concat]; rewrite C; apply firstn_skipn|].
      constructor; [apply dump_line_no_nl|exact F].
    + unfold data. destruct n; [lia|]. cbn. discriminate.
    + rewrite firstn_length. lia.
Qed.

Lemma header_no_nl : ~ In nl header. Proof. cbn. intros H. repeat (destruct H as [H|H]; [discriminate|]). contradiction. Qed.
Lemma footer_no_nl : ~ In nl footer. Proof. cbn. intros H. repeat (destruct H as [H|H]; [discriminate|]). contradiction. Qed.

(* C20: hexundump inverts hexdump for every byte string and every positive line size *)
Theorem hexundump_hexdump : forall data n text, hexdump data n = Some text -> hexundump text n = Some data.
Proof.
  intros data n text H. unfold hexdump in H. destruct n as [|n']; [discriminate|]. set (n := S n') in *.
  assert (Hn : 0 < n) by (unfold n; lia).
  assert (G : forall offw, hexundump (join [nl] ([header] ++ dump_lines offw n (length data) 0%N data ++ [footer; []])) n = Some data).
  { intros offw. destruct (dump_lines_undump offw n Hn (length data) 0%N data (Nat.le_refl _)) as (cs & E & C & F).
    unfold hexundump. rewrite split_join.
    - rewrite middle_spec. rewrite E, C. reflexivity.
    - discriminate.
    - constructor; [apply header_no_nl|]. apply Forall_app. split; [exact F|].
      constructor; [apply footer_no_nl|]. constructor; [intros []|constructor]. }
  destruct (N.of_nat (length data) <? 65536)%N; [injection H as <-; apply G|].
  destruct (N.of_nat (length data) <? 4294967296)%N; [injection H as <-; apply G|discriminate].
Qed.
