(* A construct that never names _index (no Index field, no expression mentioning _index) parses identically in two contexts
   that differ only in the _index entries of their scopes -- for every construct of the fragment ixfrag, by induction over the
   syntax.  This discharges, for composites of any depth, the side condition under which the loops emitted by compile()
   (which do not maintain _index) and LazyArray (which does not set it) agree with Array / RepeatUntil. *)
From Coq Require Import ZArith NArith List Bool Lia.
From Coq Require Import Strings.Byte.
Require Import Bytes Value Expr Codec Float Stream Syntax Sizeof Parse Build ConInd RTFacts CompiledFacts.
Import ListNotations.
Local Open Scope nat_scope.

(* same values everywhere, _index entries unconstrained *)
Definition R (cx cx' : ctx) : Prop :=
  c_top cx = c_top cx' /\ c_mode cx = c_mode cx' /\ c_opaque cx = c_opaque cx' /\
  Forall2 (fun a b => s_vals a = s_vals b) (c_scopes cx) (c_scopes cx').

Lemma F2_refl {A} (P : A -> A -> Prop) l : (forall a, P a a) -> Forall2 P l l.
Proof. intros H. induction l; constructor; auto. Qed.

Lemma R_refl cx : R cx cx.
Proof. repeat split. apply F2_refl. reflexivity. Qed.

Lemma R_sym cx cx' : R cx cx' -> R cx' cx.
Proof.
  intros (H1 & H2 & H3 & H4). repeat split; try congruence.
  induction H4; constructor; [congruence|assumption].
Qed.

Lemma R_trans a b c : R a b -> R b c -> R a c.
Proof.
  intros (H1 & H2 & H3 & H4) (G1 & G2 & G3 & G4). repeat split; try congruence.
  revert G4. generalize (c_scopes c). induction H4 as [|x y l l' Hxy Hl IH]; intros l'' G4; inversion G4; subst; constructor; [congruence|].
  apply IH. assumption.
Qed.

Lemma R_set_index_l cx i : R (ctx_set_index cx i) cx.
Proof.
  unfold R, ctx_set_index. destruct cx as [scs top ti m op]. cbn. destruct scs as [|s t]; cbn; repeat split.
  - constructor.
  - constructor; [reflexivity|]. apply F2_refl. reflexivity.
Qed.

Lemma R_set_index cx cx' i j : R cx cx' -> R (ctx_set_index cx i) (ctx_set_index cx' j).
Proof.
  intros H. eapply R_trans; [apply R_set_index_l|]. eapply R_trans; [exact H|]. apply R_sym, R_set_index_l.
Qed.

Lemma R_ctx_set cx cx' k v : R cx cx' -> R (ctx_set cx k v) (ctx_set cx' k v).
Proof.
  intros (H1 & H2 & H3 & H4). unfold R, ctx_set. revert H4.
  destruct (c_scopes cx) as [|x l], (c_scopes cx') as [|y l']; intros H4; inversion H4; subst; cbn [c_top c_mode c_opaque c_scopes].
  - rewrite H1. repeat split; auto.
  - repeat split; auto. constructor; [cbn [s_vals]; congruence|assumption].
Qed.

Lemma R_push cx cx' : R cx cx' -> R (push_scope cx) (push_scope cx').
Proof.
  intros (H1 & H2 & H3 & H4). unfold R, push_scope. cbn [c_top c_mode c_opaque c_scopes]. repeat split; auto.
Qed.

Lemma F2_length {A} (P : A -> A -> Prop) l l' : Forall2 P l l' -> length l = length l'.
Proof. induction 1; cbn; congruence. Qed.

Lemma F2_nth {A} (P : A -> A -> Prop) l l' : Forall2 P l l' -> forall d,
  match nth_error l d, nth_error l' d with Some a, Some b => P a b | None, None => True | _, _ => False end.
Proof. induction 1 as [|x y l l' Hxy Hl IH]; intros [|d]; cbn; auto. apply IH. Qed.

Lemma item_R cx cx' c k : R cx cx' -> (match k with KName n => not_index n = true | KIdx _ => True end) ->
  item cx c k = item cx' c k.
Proof.
  intros (H1 & H2 & H3 & H4) Hk. destruct c as [d| |v]; destruct k as [n|j]; try reflexivity; apply negb_true_iff in Hk.
  - unfold item, item_scope. pose proof (F2_nth _ _ _ H4 d) as Hn. pose proof (F2_length _ _ _ H4) as Hl.
    destruct (nth_error (c_scopes cx) d) as [a|], (nth_error (c_scopes cx') d) as [b|]; try contradiction; [|reflexivity].
    rewrite Hn. destruct (lookup n (s_vals b)); [reflexivity|]. rewrite H2. destruct (mode_flag (c_mode cx') n); [reflexivity|].
    rewrite Hl, Hk. reflexivity.
  - unfold item, item_top. rewrite H1. destruct (lookup n (c_top cx')); [reflexivity|]. rewrite H2.
    destruct (mode_flag (c_mode cx') n); [reflexivity|]. rewrite Hk, H3. reflexivity.
Qed.

Lemma eval_cur_R : forall e cx cx' first second, R cx cx' -> no_index e = true ->
  eval_cur cx first second e = eval_cur cx' first second e.
Proof.
  induction e as [r| |e IH k|v|op a IHa b IHb|op a IHa|f a IHa]; intros cx cx' first second HR H; cbn [eval_cur no_index] in *; try reflexivity.
  - destruct k as [n|j].
    + apply andb_prop in H as [H1 H2]. rewrite (IH cx cx' first second HR H2).
      destruct (eval_cur cx' first second e) as [c|]; cbn [bind]; [|reflexivity]. apply item_R; assumption.
    + rewrite (IH cx cx' first second HR H). destruct (eval_cur cx' first second e) as [c|]; cbn [bind]; [|reflexivity].
      apply item_R; [assumption|exact I].
  - apply andb_prop in H as [H1 H2]. rewrite (IHa cx cx' first second HR H1), (IHb cx cx' first second HR H2). reflexivity.
  - rewrite (IHa cx cx' first second HR H). reflexivity.
  - rewrite (IHa cx cx' first second HR H). reflexivity.
Qed.

Lemma first_R cx cx' : R cx cx' ->
  match c_scopes cx with [] => CurTop | _ => CurScope 0 end = match c_scopes cx' with [] => CurTop | _ => CurScope 0 end.
Proof. intros (_ & _ & _ & H4). inversion H4; reflexivity. Qed.

Lemma eval_R e cx cx' : R cx cx' -> no_index e = true -> eval cx e = eval cx' e.
Proof. intros HR H. unfold eval. rewrite (first_R cx cx' HR), (eval_cur_R e cx cx' _ _ HR H). reflexivity. Qed.
Lemma eval_int_R e cx cx' : R cx cx' -> no_index e = true -> eval_int cx e = eval_int cx' e.
Proof. intros HR H. unfold eval_int. rewrite (eval_R e cx cx' HR H). reflexivity. Qed.
Lemma eval_obj_R e cx cx' v l : R cx cx' -> no_index e = true -> eval_obj cx v l e = eval_obj cx' v l e.
Proof. intros HR H. unfold eval_obj. rewrite (eval_cur_R e cx cx' _ _ HR H). reflexivity. Qed.

(* ---- the fragment: nothing names _index ---- *)
Fixpoint ixfrag (c : con) : bool :=
  match c with
  | CFormat _ _ | CVarInt | CZigZag | CGreedyBytes | CFlag | CPass | CTerminated | CError | CTell => true
  | CBytesInt e _ _ | CBitsInt e _ _ | CBytes e | CComputed e | CCheck e | CStopIf e => no_index e
  | CSeek a w => no_index a && no_index w
  | CExprValidator c' e => no_index e && ixfrag c'
  | CExprAdapter c' d _ => no_index d && ixfrag c'
  | CStringEncoded c' _ | CEnum c' _ | CFlagsEnum c' _ | CMapping c' _ | CHexDump c' | COneOf c' _ | CNoneOf c' _
  | CRenamed _ c' | CConst _ c' | CRebuild c' _ | CDefault c' _ | CGreedyRange c'
  | CPeek c' | CRawCopy c' | CNullStripped c' _ | CNullTerminated c' _ _ _ _ => ixfrag c'
  | CStruct cs | CSequence cs | CFocusedSeq _ cs => forallb ixfrag cs
  | CIfThenElse e a b => no_index e && ixfrag a && ixfrag b
  | CSwitch e cases d => no_index e && forallb (fun vc => ixfrag (snd vc)) cases && ixfrag d
  | CArray e c' | CRepeatUntil e c' | CPadded e c' _ | CAligned e c' _ | CPointer e c' | CFixedSized e c' => no_index e && ixfrag c'
  | CPrefixed lc c' false => ixfrag lc && ixfrag c'
  | _ => false
  end.

Definition PR (c : con) : Prop := forall cx cx' p s, R cx cx' -> parse c cx p s = parse c cx' p s.

(* ---- loops ---- *)
Definition rel3 (a b : res (list (name * val) * ctx * istream)) : Prop :=
  match a, b with
  | Ok (kv, c1, s1), Ok (kv', c2, s2) => kv = kv' /\ s1 = s2 /\ R c1 c2
  | Err e q, Err e' q' => e = e' /\ q = q'
  | _, _ => False
  end.

Lemma struct_loop_R cs : Forall PR cs -> forall cx cx' p acc s, R cx cx' ->
  rel3 (struct_loop parse cs cx p acc s) (struct_loop parse cs cx' p acc s).
Proof.
  induction 1 as [|c t Hc Ht IH]; intros cx cx' p acc s HR; cbn [struct_loop].
  - split; [reflexivity|split; [reflexivity|exact HR]].
  - rewrite (Hc cx cx' p s HR). destruct (parse c cx' p s) as [[v s']|e q].
    + destruct (name_of c); apply IH; [apply R_ctx_set|]; assumption.
    + destruct e; try (split; reflexivity). destruct (is_stopif c); [split; [reflexivity|split; [reflexivity|exact HR]]|split; reflexivity].
Qed.

Lemma seq_loop_R cs : Forall PR cs -> forall cx cx' p s, R cx cx' -> seq_loop parse cs cx p s = seq_loop parse cs cx' p s.
Proof.
  induction 1 as [|c t Hc Ht IH]; intros cx cx' p s HR; cbn [seq_loop]; [reflexivity|].
  rewrite (Hc cx cx' p s HR). destruct (parse c cx' p s) as [[v s']|e q]; [|reflexivity].
  rewrite (IH _ (match name_of c with Some n => ctx_set cx' n v | None => cx' end)); [reflexivity|].
  destruct (name_of c); [apply R_ctx_set|]; assumption.
Qed.

Lemma focus_loop_R sel cs : Forall PR cs -> forall cx cx' p fin s, R cx cx' ->
  focus_loop parse sel cs cx p fin s = focus_loop parse sel cs cx' p fin s.
Proof.
  induction 1 as [|c t Hc Ht IH]; intros cx cx' p fin s HR; cbn [focus_loop]; [reflexivity|].
  rewrite (Hc cx cx' p s HR). destruct (parse c cx' p s) as [[v s']|e q]; [cbn [bind]|reflexivity].
  destruct (name_of c); apply IH; [apply R_ctx_set|]; assumption.
Qed.

Lemma miter_ext {A} (f g : A -> res A) : (forall a, f a = g a) -> forall k a, miter f k a = miter g k a.
Proof. intros H. induction k as [|k IH]; intros a; cbn [miter]; [reflexivity|]. rewrite H. destruct (g a); cbn [bind]; [apply IH|reflexivity]. Qed.

Lemma count_loop_R c : PR c -> forall n cx cx' p s, R cx cx' -> count_loop (parse c) n cx p s = count_loop (parse c) n cx' p s.
Proof.
  intros Hc n cx cx' p s HR. unfold count_loop. rewrite !iter_N_miter.
  rewrite (miter_ext (count_step (parse c) cx p) (count_step (parse c) cx' p)); [reflexivity|].
  intros [[i acc] s0]. unfold count_step. rewrite (Hc (ctx_set_index cx i) (ctx_set_index cx' i) p s0); [reflexivity|]. apply R_set_index, HR.
Qed.

Lemma greedy_loop_R c : PR c -> forall fuel i cx cx' p s, R cx cx' ->
  greedy_loop (parse c) fuel i cx p s = greedy_loop (parse c) fuel i cx' p s.
Proof.
  intros Hc. induction fuel as [|f IH]; intros i cx cx' p s HR; cbn [greedy_loop]; [reflexivity|].
  rewrite (Hc (ctx_set_index cx i) (ctx_set_index cx' i) p s) by (apply R_set_index, HR).
  destruct (parse c (ctx_set_index cx' i) p s) as [[v s1]|e q]; [|reflexivity]. rewrite (IH _ cx cx' p s1 HR). reflexivity.
Qed.

Lemma until_loop_R c pred : PR c -> no_index pred = true -> forall fuel i acc cx cx' p s, R cx cx' ->
  until_loop (parse c) pred fuel i acc cx p s = until_loop (parse c) pred fuel i acc cx' p s.
Proof.
  intros Hc Hp. induction fuel as [|f IH]; intros i acc cx cx' p s HR; cbn [until_loop]; [reflexivity|].
  rewrite (Hc (ctx_set_index cx i) (ctx_set_index cx' i) p s) by (apply R_set_index, HR).
  destruct (parse c (ctx_set_index cx' i) p s) as [[v s1]|e q]; [cbn [bind]|reflexivity].
  rewrite (eval_obj_R pred (ctx_set_index cx i) (ctx_set_index cx' i)) by (try apply R_set_index; assumption).
  destruct (eval_obj _ v _ pred) as [t|e q]; [cbn [bind]|reflexivity]. destruct (truthy t); [reflexivity|apply IH, HR].
Qed.

Lemma forallb_Forall {A} (f : A -> bool) (P : A -> Prop) l : Forall (fun a => f a = true -> P a) l -> forallb f l = true -> Forall P l.
Proof. induction 1 as [|a t Ha Ht IH]; cbn [forallb]; [constructor|]. intros H. apply andb_prop in H as [H1 H2]. constructor; auto. Qed.

(* ---- the theorem ---- *)
Ltac spl H := repeat match type of H with (_ && _) = true => let H1 := fresh H in apply andb_prop in H as [H H1] end.

Theorem parse_index_irrelevant : forall c, ixfrag c = true -> PR c.
Proof.
  induction c using con_ind2; intros Hf; try discriminate Hf; intros cx cx' p s HR; cbn [ixfrag] in Hf; cbn [parse]; try reflexivity.
  - (* BytesInt *) rewrite (eval_int_R _ cx cx' HR Hf). reflexivity.
  - rewrite (eval_int_R _ cx cx' HR Hf). reflexivity.
  - (* Bytes *) rewrite (eval_int_R _ cx cx' HR Hf). reflexivity.
  - (* Computed *) rewrite (eval_R _ cx cx' HR Hf). reflexivity.
  - rewrite (eval_R _ cx cx' HR Hf). reflexivity.
  - rewrite (eval_R _ cx cx' HR Hf). reflexivity.
  - (* Seek *) spl Hf. rewrite (eval_int_R _ cx cx' HR Hf), (eval_int_R _ cx cx' HR Hf0). reflexivity.
  - rewrite (IHc Hf cx cx' p s HR). reflexivity.
  - rewrite (IHc Hf cx cx' p s HR). reflexivity.
  - rewrite (IHc Hf cx cx' p s HR). reflexivity.
  - rewrite (IHc Hf cx cx' p s HR). reflexivity.
  - apply (IHc Hf cx cx' p s HR).
  - (* ExprValidator *) spl Hf. rewrite (IHc Hf0 cx cx' p s HR). destruct (parse c cx' p s) as [[v s']|]; [cbn [bind]|reflexivity].
    rewrite (eval_obj_R _ cx cx' _ _ HR Hf). reflexivity.
  - rewrite (IHc Hf cx cx' p s HR). reflexivity.
  - rewrite (IHc Hf cx cx' p s HR). reflexivity.
  - (* ExprAdapter *) spl Hf. rewrite (IHc Hf0 cx cx' p s HR). destruct (parse c cx' p s) as [[v s']|]; [cbn [bind]|reflexivity].
    rewrite (eval_obj_R _ cx cx' _ _ HR Hf). reflexivity.
  - (* Struct *) pose proof (struct_loop_R a0 (forallb_Forall _ _ _ H Hf) (push_scope cx) (push_scope cx') p [] s (R_push _ _ HR)) as Hl.
    destruct (struct_loop parse a0 (push_scope cx) p [] s) as [[[kv c1] s1]|e q], (struct_loop parse a0 (push_scope cx') p [] s) as [[[kv' c2] s2]|e' q'];
      cbn in Hl; try contradiction; cbn [bind].
    + destruct Hl as (-> & -> & _). reflexivity.
    + destruct Hl as (-> & ->). reflexivity.
  - (* Sequence *) rewrite (seq_loop_R a0 (forallb_Forall _ _ _ H Hf) (push_scope cx) (push_scope cx') p s (R_push _ _ HR)). reflexivity.
  - (* FocusedSeq *) rewrite (focus_loop_R a0 a1 (forallb_Forall _ _ _ H Hf) (push_scope cx) (push_scope cx') p None s (R_push _ _ HR)). reflexivity.
  - (* IfThenElse *) spl Hf. rewrite (eval_R _ cx cx' HR Hf). destruct (eval cx' a0) as [v|]; [cbn [bind]|reflexivity].
    destruct (truthy v); [apply IHc1|apply IHc2]; assumption.
  - (* Switch *) spl Hf. rewrite (eval_R _ cx cx' HR Hf). destruct (eval cx' a0) as [k|]; [cbn [bind]|reflexivity].
    destruct (negb (hashable k)); [reflexivity|].
    match goal with HF : Forall _ ?l |- _ => induction l as [|[kc c'] t IHt] end; [apply IHc; assumption|].
    inversion H as [|? ? Hc Ht]; subst. cbn [forallb snd] in Hf1. apply andb_prop in Hf1 as [Hc' Hcs].
    destruct (val_eqb k kc); [apply Hc; assumption|apply IHt; assumption].
  - (* Array *) spl Hf. rewrite (eval_int_R _ cx cx' HR Hf). destruct (eval_int cx' a0) as [n|]; [cbn [bind]|reflexivity].
    destruct (n <? 0)%Z; [reflexivity|]. rewrite (count_loop_R c (IHc Hf0) _ cx cx' p s HR). reflexivity.
  - (* GreedyRange *) rewrite (greedy_loop_R c (IHc Hf) _ _ cx cx' p s HR). reflexivity.
  - (* RepeatUntil *) spl Hf. rewrite (until_loop_R c a0 (IHc Hf0) Hf _ _ _ cx cx' p s HR). reflexivity.
  - (* Renamed *) apply (IHc Hf cx cx' _ s HR).
  - (* Const *) rewrite (IHc Hf cx cx' p s HR). reflexivity.
  - apply (IHc Hf cx cx' p s HR).
  - apply (IHc Hf cx cx' p s HR).
  - (* Padded *) spl Hf. rewrite (eval_int_R _ cx cx' HR Hf). destruct (eval_int cx' a0) as [n|]; [cbn [bind]|reflexivity].
    destruct (n <? 0)%Z; [reflexivity|]. rewrite (IHc Hf0 cx cx' p s HR). reflexivity.
  - (* Aligned *) spl Hf. rewrite (eval_int_R _ cx cx' HR Hf). destruct (eval_int cx' a0) as [n|]; [cbn [bind]|reflexivity].
    destruct (n <? 2)%Z; [reflexivity|]. rewrite (IHc Hf0 cx cx' p s HR). reflexivity.
  - (* Pointer *) spl Hf. rewrite (eval_int_R _ cx cx' HR Hf). destruct (eval_int cx' a0) as [o|]; [cbn [bind]|reflexivity].
    destruct (iseek_user s o _ p) as [[r s1]|]; [cbn [bind]|reflexivity]. rewrite (IHc Hf0 cx cx' p s1 HR). reflexivity.
  - (* Peek *) rewrite (IHc Hf cx cx' p s HR). reflexivity.
  - (* RawCopy *) rewrite (IHc Hf cx cx' p s HR). reflexivity.
  - (* Prefixed *) destruct a2; [discriminate|]. spl Hf. rewrite (IHc1 Hf cx cx' p s HR).
    destruct (parse c1 cx' p s) as [[lv s1]|]; [cbn [bind]|reflexivity]. destruct (vint_of lv) as [n|]; [cbn [bind]|reflexivity].
    destruct (iread s1 n p) as [[d s2]|]; [cbn [bind]|reflexivity]. rewrite (IHc2 Hf0 cx cx' p _ HR). reflexivity.
  - (* FixedSized *) spl Hf. rewrite (eval_int_R _ cx cx' HR Hf). destruct (eval_int cx' a0) as [n|]; [cbn [bind]|reflexivity].
    destruct (n <? 0)%Z; [reflexivity|]. destruct (iread s n p) as [[d s1]|]; [cbn [bind]|reflexivity]. rewrite (IHc Hf0 cx cx' p _ HR). reflexivity.
  - (* NullTerminated *) destruct a1; [reflexivity|].
    match goal with |- context [nullterm_scan ?a ?b ?c ?d ?e ?f s p] => destruct (nullterm_scan a b c d e f s p) as [[d0 s1]|] end; [cbn [bind]|reflexivity].
    rewrite (IHc Hf cx cx' p _ HR). reflexivity.
  - (* NullStripped *) destruct a1; [reflexivity|]. destruct (iread_all s) as [d s1]. rewrite (IHc Hf cx cx' p _ HR). reflexivity.
Qed.

(* hence: every construct of the fragment satisfies the side condition of the emitted / lazy loops *)
Lemma ixfrag_index_free c : ixfrag c = true -> index_free c.
Proof. intros H i cx p s. apply (parse_index_irrelevant c H). apply R_set_index_l. Qed.

Example ixfrag_example :
  ixfrag (CStruct [CRenamed [x6e] (CFormat Big FB); CRenamed [x64] (CBytes (XItem (XRoot RThis) (KName [x6e])));
                   CRenamed [x61] (CArray (XItem (XItem (XRoot RThis) (KName [x5f])) (KName [x6b])) (CStruct [CRenamed [x78] CVarInt]))]) = true.
Proof. reflexivity. Qed.

(* the side conditions of compiled_parse_agrees for Array / RepeatUntil, discharged syntactically at any depth *)
Lemma cfrag_array c e : cfrag c -> ixfrag c = true -> cfrag (CArray e c).
Proof. intros H1 H2. cbn [cfrag]. split; [exact H1|apply ixfrag_index_free, H2]. Qed.
Lemma cfrag_until c pr : cfrag c -> ixfrag c = true -> no_index pr = true -> cfrag (CRepeatUntil pr c).
Proof. intros H1 H2 H3. cbn [cfrag]. repeat split; [exact H1|apply ixfrag_index_free, H2|apply pred_index_free_no_index, H3]. Qed.

(* first half of LazyArray's side condition (LazyFacts.elem_ok), likewise *)
Lemma ixfrag_elem_index c : ixfrag c = true -> forall i cx p s, parse c (ctx_set_index cx i) p s = parse c cx p s.
Proof. intros H i cx p s. apply (ixfrag_index_free c H). Qed.
