(* C06, build direction: no FIELD class lets a foreign exception out of build, whatever value it is handed - an integer that does not fit, a
   float, a string, bytes of the wrong length, None, a list, a container.  (Composites given a value of the wrong shape raise the KeyError /
   TypeError of the lookup on that value, which the build docstring allows; they are not in this statement.)  After the repairs F36-F38
   (Bytes from an integer that does not fit, GreedyBytes from a non-bytes value, Enum from an unhashable value) this holds for every field
   class of the model. *)
From Coq Require Import ZArith NArith List Bool Lia.
From Coq Require Import Strings.Byte.
Require Import Bytes Value Expr Codec Float Stream Syntax Sizeof Parse Build ConInd PrimFacts RTFacts ErrFacts.
Import ListNotations.

Lemma okc_unsupported {A} : okc (@unsupported A). Proof. reflexivity. Qed.

Lemma okc_owrite_raw o d : okc (owrite_raw o d).
Proof. unfold owrite_raw. destruct (_ <=? _)%N; [exact I|]. destruct (_ <? _)%Z; [reflexivity|exact I]. Qed.

Lemma okc_owrite o d n p : okc (owrite o d n p).
Proof. unfold owrite. destruct (n <? 0)%Z; [reflexivity|]. destruct (negb _); [reflexivity|apply okc_owrite_raw]. Qed.

Lemma okc_write_val o v n p : okc (write_val o v n p).
Proof. unfold write_val. destruct v; try reflexivity. apply okc_owrite. Qed.

Lemma okc_build_format en f obj p o : okc (build_format en f obj p o).
Proof.
  unfold build_format.
  assert (E : forall n, okc (let* o' := owrite o (match en with Big => be_encode (fcode_size f) n | Little => rev (be_encode (fcode_size f) n) end)
                                              (Z.of_nat (fcode_size f)) p in Ok (obj, o'))).
  { intros n. apply okc_bind; [apply okc_owrite|intros; exact I]. }
  destruct (fcode_float f).
  - destruct obj; try reflexivity.
    + cbn [int_of_val]. destruct (f64_of_Z _); [|reflexivity]. destruct (narrow _ _); [apply E|reflexivity].
    + cbn [int_of_val]. destruct (f64_of_Z _); [|reflexivity]. destruct (narrow _ _); [apply E|reflexivity].
    + destruct (narrow _ _); [apply E|reflexivity].
  - destruct (int_of_val obj); [|reflexivity]. destruct (in_range _ _ _); [apply E|reflexivity].
Qed.

Lemma okc_flags_fold table p : forall parts acc, okc acc ->
  okc (fold_left (fun acc part => let* a := acc in
         match strip part with
         | [] => Ok a
         | _ => match label_value table (strip part), a with Some z, VInt f => Ok (VInt (Z.lor f z)) | _, _ => raise EMapping p end
         end) parts acc).
Proof.
  induction parts as [|x t IH]; intros acc Ha; cbn [fold_left]; [exact Ha|]. apply IH.
  apply okc_bind; [exact Ha|intros a]. destruct (strip x); [exact I|]. destruct (label_value _ _); [|reflexivity]. destruct a; (exact I || reflexivity).
Qed.

Lemma okc_flags_dict table p : forall kv acc, okc acc ->
  okc (fold_left (fun acc e => let* a := acc in
         if is_private (fst e) then Ok a
         else if truthy (snd e) then
           match label_value table (cps_of_name (fst e)), a with Some z, VInt f => Ok (VInt (Z.lor f z)) | _, _ => raise EMapping p end
         else Ok a) kv acc).
Proof.
  induction kv as [|x t IH]; intros acc Ha; cbn [fold_left]; [exact Ha|]. apply IH.
  apply okc_bind; [exact Ha|intros a]. destruct (is_private _); [exact I|]. destruct (truthy _); [|exact I].
  destruct (label_value _ _); [|reflexivity]. destruct a; (exact I || reflexivity).
Qed.

Lemma okc_flags_encode table obj p : okc (flags_encode table obj p).
Proof.
  unfold flags_encode. destruct obj; try reflexivity; try exact I.
  - apply (okc_flags_fold table p). exact I.
  - apply (okc_flags_dict table p). exact I.
  - apply (okc_flags_fold table p). exact I.
Qed.

(* the field classes: leaves with constant parameters, and the label / string adapters over them *)
Fixpoint field (c : con) : bool :=
  match c with
  | CFormat _ _ | CVarInt | CZigZag | CGreedyBytes | CFlag => true
  | CBytesInt (XConst (VInt _)) _ _ | CBitsInt (XConst (VInt _)) _ _ | CBytes (XConst (VInt _)) => true
  | CEnum c' _ | CFlagsEnum c' _ | CMapping c' _ | CStringEncoded c' _ | CHex c' | CHexDump c' | CRenamed _ c' => field c'
  | _ => false
  end.

Definition Bokc (c : con) : Prop := forall obj cx p o, okc (build c obj cx p o).

Ltac okc_step :=
  first [ exact I | reflexivity | apply okc_unsupported | apply okc_owrite | apply okc_write_val | apply okc_flags_encode
        | apply okc_bind; [|intros]
        | match goal with |- okc (match ?x with _ => _ end) => destruct x end
        | match goal with |- okc (if ?x then _ else _) => destruct x end
        | match goal with |- okc (let '(_, _) := ?x in _) => destruct x end ].

Theorem build_fields_only_construct_errors : forall c, field c = true -> Bokc c.
Proof.
  induction c using con_ind2; intros Hf; cbn [field] in Hf; try discriminate; intros obj cx p o; cbn [build].
  all: try solve [apply okc_build_format].
  all: try solve [repeat okc_step].
  all: try solve [destruct a0; try discriminate Hf; match type of Hf with match ?v with _ => _ end = true => destruct v; try discriminate Hf end;
                  match goal with |- context [XConst (VInt ?z)] => change (XConst (VInt z)) with (kint z) end;
                  repeat (rewrite eval_int_kint || cbn [bind] || okc_step)].
  all: try solve [repeat (okc_step || match goal with IH : field ?c = true -> Bokc ?c |- okc (build ?c _ _ _ _) => apply IH; assumption end)].
Qed.

(* stated on the result: a build of a field class that fails, fails with a ConstructError subclass (or with one of the model's two meta outcomes,
   which are not behaviours of the code) - never with KeyError, TypeError, ValueError, OverflowError or any other foreign exception *)
Theorem C06_field_build_errors_are_construct_errors : forall c obj cx p o e q,
  field c = true -> build c obj cx p o = Err e q -> is_construct_error e = true \/ is_meta e = true.
Proof.
  intros c obj cx p o e q Hf H. pose proof (build_fields_only_construct_errors c Hf obj cx p o) as K. rewrite H in K.
  unfold okc, cerr in K. apply orb_true_iff in K. exact K.
Qed.

Example field_examples :
  field (CBytes (XConst (VInt 2))) = true /\ field CGreedyBytes = true /\ field (CEnum (CFormat Big FB) [([x61], 1%Z)]) = true /\
  field (CFormat Little Ff) = true /\ field (CStringEncoded CGreedyBytes EncUtf8) = true /\ field (CFlagsEnum (CBytesInt (XConst (VInt 3)) true true) []) = true.
Proof. repeat split. Qed.

