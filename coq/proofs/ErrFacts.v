(* C06, error classes: for EVERY construct of the closed sequential fragment and EVERY input -- any bytes, any position,
   truncated or not -- parsing returns a value or fails with a ConstructError subclass; no foreign exception (KeyError,
   TypeError, ValueError, IndexError, ZeroDivisionError, OverflowError, anything else) can come out.  By induction over the
   syntax.  (The model's own meta outcomes -- fuel exhausted, outside the model -- are not behaviours of the code and
   are allowed by the statement; the correspondence runs show where they occur.) *)
From Coq Require Import ZArith NArith List Bool Lia.
From Coq Require Import Strings.Byte.
Require Import Bytes Value Expr Codec Float Stream Syntax Sizeof Parse Build ConInd PrimFacts RTFacts.
Import ListNotations.
Local Open Scope nat_scope.

Definition cerr (e : err) : bool := is_construct_error e || is_meta e.
Definition okc {A} (r : res A) : Prop := match r with Err e _ => cerr e = true | Ok _ => True end.

Lemma okc_bind {A B} (x : res A) (f : A -> res B) : okc x -> (forall a, okc (f a)) -> okc (bind x f).
Proof. destruct x as [a|e q]; cbn; auto. Qed.
Lemma okc_raise {A} e p : cerr e = true -> okc (@raise A e p). Proof. auto. Qed.

Lemma okc_iread s n p : okc (iread s n p).
Proof. unfold iread. destruct (n <? 0)%Z; [reflexivity|]. destruct (_ <? n)%Z; [reflexivity|exact I]. Qed.
Lemma okc_iseek s off w p : okc (iseek s off w p).
Proof. unfold iseek. repeat match goal with |- okc (if ?x then _ else _) => destruct x end; try exact I; reflexivity. Qed.

Lemma okc_varint_loop fuel : forall s p, okc (varint_loop fuel s p).
Proof.
  induction fuel as [|f IH]; intros s p; cbn [varint_loop]; [reflexivity|].
  apply okc_bind; [apply okc_iread|intros [d s']]. destruct d as [|b t]; [reflexivity|].
  destruct (_ <? 128)%N; [exact I|]. apply okc_bind; [apply IH|intros [hi s'']; exact I].
Qed.

Definition Pokc (c : con) : Prop := forall cx p s, okc (parse c cx p s).

Lemma okc_struct_loop cs : Forall Pokc cs -> Forall (fun c => is_stopif c = false) cs ->
  forall cx p acc s, okc (struct_loop parse cs cx p acc s).
Proof.
  induction 1 as [|c t Hc Ht IH]; intros Hs cx p acc s; cbn [struct_loop]; [exact I|].
  inversion Hs as [|? ? Hs1 Hs2]; subst.
  pose proof (Hc cx p s) as Hp. destruct (parse c cx p s) as [[v s']|e q].
  - destruct (name_of c); apply IH; assumption.
  - destruct e; try exact Hp. rewrite Hs1. reflexivity.
Qed.

Lemma okc_seq_loop cs : Forall Pokc cs -> Forall (fun c => is_stopif c = false) cs ->
  forall cx p s, okc (seq_loop parse cs cx p s).
Proof.
  induction 1 as [|c t Hc Ht IH]; intros Hs cx p s; cbn [seq_loop]; [exact I|].
  inversion Hs as [|? ? Hs1 Hs2]; subst.
  pose proof (Hc cx p s) as Hp. destruct (parse c cx p s) as [[v s']|e q].
  - apply okc_bind; [apply IH; assumption|intros [vs s'']; exact I].
  - destruct e; try exact Hp. rewrite Hs1. reflexivity.
Qed.

Lemma okc_miter {A} (f : A -> res A) : (forall a, okc (f a)) -> forall k a, okc (miter f k a).
Proof.
  intros Hf. induction k as [|k IH]; intros a; cbn [miter]; [exact I|]. apply okc_bind; [apply Hf|apply IH].
Qed.

Lemma okc_count_loop c : Pokc c -> forall n cx p s, okc (count_loop (parse c) n cx p s).
Proof.
  intros Hc n cx p s. unfold count_loop. rewrite iter_N_miter. apply okc_bind; [|intros [[i acc] s']; exact I].
  apply okc_miter. intros [[i acc] s0]. unfold count_step. apply okc_bind; [apply Hc|intros [v s1]; exact I].
Qed.

Lemma frag_stop' e cs : forallb (frag e) cs = true -> Forall (fun c => is_stopif c = false) cs.
Proof. intros H. apply Forall_forall. intros c Hin. rewrite forallb_forall in H. apply (frag_not_stopif e), H, Hin. Qed.

Theorem parse_only_construct_errors : forall c e, frag e c = true -> Pokc c.
Proof.
  induction c using con_ind2; intros e Hf; try discriminate Hf; intros cx p s; cbn [parse].
  - (* Format *) unfold parse_format. apply okc_bind; [apply okc_iread|intros [d s']]. destruct (fcode_float _); exact I.
  - (* BytesInt *) cbn in Hf. destruct a0; try discriminate. destruct v; try discriminate.
    change (XConst (VInt z)) with (kint z). rewrite eval_int_kint. cbn [bind]. destruct (z <=? 0)%Z; [reflexivity|].
    apply okc_bind; [apply okc_iread|intros [d s']]. destruct (bytes2integer _ _); [exact I|reflexivity].
  - (* VarInt *) unfold parse_varint. apply okc_bind; [apply okc_varint_loop|intros [n s']; exact I].
  - (* ZigZag *) unfold parse_varint. apply okc_bind; [apply okc_varint_loop|intros [n s']; exact I].
  - (* Bytes *) cbn in Hf. destruct a0; try discriminate. destruct v; try discriminate.
    change (XConst (VInt z)) with (kint z). rewrite eval_int_kint. cbn [bind]. apply okc_bind; [apply okc_iread|intros [d s']; exact I].
  - (* GreedyBytes *) destruct (iread_all s); exact I.
  - (* Pass *) exact I.
  - (* Struct *) cbn [frag] in Hf. apply andb_prop in Hf as [Hm _].
    apply okc_bind; [|intros [[kv cx'] s']; exact I]. apply okc_struct_loop; [|apply (frag_stop' false), Hm].
    rewrite Forall_forall in H |- *. intros c Hin. apply (H c Hin false). rewrite forallb_forall in Hm. apply Hm, Hin.
  - (* Sequence *) cbn [frag] in Hf.
    apply okc_bind; [|intros [vs s']; exact I]. apply okc_seq_loop; [|apply (frag_stop' false), Hf].
    rewrite Forall_forall in H |- *. intros c Hin. apply (H c Hin false). rewrite forallb_forall in Hf. apply Hf, Hin.
  - (* Array *) cbn [frag] in Hf. destruct a0; try discriminate. destruct v; try discriminate. apply andb_prop in Hf as [_ Hc].
    change (XConst (VInt z)) with (kint z). rewrite eval_int_kint. cbn [bind]. destruct (z <? 0)%Z; [reflexivity|].
    apply okc_bind; [apply okc_count_loop, (IHc false Hc)|intros [vs s']; exact I].
  - (* Renamed *) cbn [frag] in Hf. apply (IHc e Hf).
  - (* Const *) cbn [frag] in Hf.
    assert (Hc : Pokc c).
    { destruct a0; try discriminate.
      - destruct c; try discriminate; cbn [int_leaf] in Hf; [apply (IHc false); exact Hf| |apply (IHc false); reflexivity|apply (IHc false); reflexivity].
        destruct len; try discriminate. destruct v; try discriminate. apply (IHc false). exact Hf.
      - destruct c; try discriminate. destruct len; try discriminate. destruct v; try discriminate.
        apply (IHc false). cbn [frag]. apply Z.leb_le. apply Z.eqb_eq in Hf. lia. }
    apply okc_bind; [apply Hc|intros [w s']]. destruct (val_eqb w a0); [exact I|reflexivity].
  - (* Padded *) cbn [frag] in Hf. destruct a0; try discriminate. destruct v; try discriminate. apply andb_prop in Hf as [_ Hc].
    change (XConst (VInt z)) with (kint z). rewrite eval_int_kint. cbn [bind]. destruct (z <? 0)%Z; [reflexivity|].
    apply okc_bind; [apply (IHc false Hc)|intros [v s1]]. destruct (_ <? 0)%Z; [reflexivity|].
    apply okc_bind; [apply okc_iread|intros [d s2]; exact I].
  - (* Aligned *) cbn [frag] in Hf. destruct a0; try discriminate. destruct v; try discriminate. apply andb_prop in Hf as [_ Hc].
    change (XConst (VInt z)) with (kint z). rewrite eval_int_kint. cbn [bind]. destruct (z <? 2)%Z; [reflexivity|].
    apply okc_bind; [apply (IHc false Hc)|intros [v s1]]. apply okc_bind; [apply okc_iread|intros [d s2]; exact I].
  - (* Prefixed *) cbn [frag] in Hf. destruct a2; try discriminate. apply andb_prop in Hf as [Hl Hc].
    assert (Hleaf : frag false c1 = true) by (destruct c1; try discriminate Hl; cbn [int_leaf frag] in *; exact Hl).
    assert (Hint : forall cx p s, match parse c1 cx p s with Ok (VInt _, _) => True | Ok _ => False | Err _ _ => True end).
    { intros cx0 p0 s0. destruct c1; try discriminate Hl; cbn [parse].
      - unfold parse_format. destruct (iread _ _ _) as [[d s']|]; [cbn [bind]|exact I]. cbn [int_leaf] in Hl. apply negb_true_iff in Hl. rewrite Hl. exact I.
      - cbn [int_leaf] in Hl. destruct len; try discriminate. destruct v; try discriminate.
        change (XConst (VInt z)) with (kint z). rewrite eval_int_kint. cbn [bind]. destruct (z <=? 0)%Z; [exact I|].
        destruct (iread _ _ _) as [[d s']|]; [cbn [bind]|exact I]. destruct (bytes2integer _ _); exact I.
      - unfold parse_varint. destruct (varint_loop _ _ _) as [[k s']|]; exact I.
      - unfold parse_varint. destruct (varint_loop _ _ _) as [[k s']|]; exact I. }
    pose proof (IHc1 false Hleaf cx p s) as H1. pose proof (Hint cx p s) as H2.
    destruct (parse c1 cx p s) as [[lv s1]|e0 q]; [cbn [bind]|exact H1].
    destruct lv; try contradiction. cbn [vint_of bind].
    apply okc_bind; [apply okc_iread|intros [d s2]]. apply okc_bind; [apply (IHc2 true Hc)|intros [v s3]; exact I].
  - (* FixedSized *) cbn [frag] in Hf. destruct a0; try discriminate. destruct v; try discriminate. apply andb_prop in Hf as [_ Hc].
    change (XConst (VInt z)) with (kint z). rewrite eval_int_kint. cbn [bind]. destruct (z <? 0)%Z; [reflexivity|].
    apply okc_bind; [apply okc_iread|intros [d s1]]. apply okc_bind; [apply (IHc false Hc)|intros [v s2]; exact I].
Qed.

(* on the public entry point: whatever the bytes *)
Theorem C06_only_construct_errors c kw data e q : frag false c = true ->
  parse_bytes c kw data = Err e q -> is_construct_error e = true \/ is_meta e = true.
Proof.
  intros Hf. unfold parse_bytes. pose proof (parse_only_construct_errors c false Hf (top_ctx kw MParse) [] (istream_of data)) as H.
  destruct (parse c _ [] (istream_of data)) as [[v s']|e0 q0]; [discriminate|]. cbn [bind]. intros E. injection E as <- <-.
  unfold okc, cerr in H. apply orb_true_iff in H. exact H.
Qed.
