(* C04: the emitted code (model/Compiled.v) against the interpreter, by induction over the construct syntax.
   For every construct of the fragment cfrag -- every leaf with ANY context expressions as parameters, every class
   without an emitter (linked back to the interpreter), and their closure under Struct, Sequence, FocusedSeq, Union(None),
   IfThenElse, Switch, Renamed, Const, Rebuild, Default, Enum, Mapping, Hex, HexDump, Pointer, Prefixed, FixedSized, Array,
   RepeatUntil, Padded, Aligned, to any depth -- on every input on which the interpreter's parse succeeds the emitted code
   returns the same value and leaves the stream at the same place.
   The side conditions are exactly what the emitters assume: elements of Array / RepeatUntil do not read _index (the emitted
   loops do not maintain it), the static size of what Padded / Aligned wrap is what it consumes, and a length field
   that includes itself has a context-independent size. *)
From Coq Require Import ZArith NArith List Bool Lia.
From Coq Require Import Strings.Byte.
Require Import Bytes Value Expr Codec Float Stream Syntax Sizeof Parse Build Compiled ConInd RTFacts.
Import ListNotations.
Local Open Scope nat_scope.

Definition Pc (c : con) : Prop := forall cx p s r, parse c cx p s = Ok r -> cparse c cx p s = Ok r.

(* ---- side conditions ---- *)
Definition index_free (c : con) : Prop := forall i cx p s, parse c (ctx_set_index cx i) p s = parse c cx p s.
Definition pred_index_free (e : expr) : Prop := forall i cx v l, eval_obj (ctx_set_index cx i) v l e = eval_obj cx v l e.
Definition size_exact (c : con) : Prop :=
  exists sz, static_size c = Ok sz /\ forall cx p s v s', parse c cx p s = Ok (v, s') -> (itell s' - itell s)%Z = sz.
Definition static_len (c : con) : Prop := forall cx p, sizeof c cx p = static_size c.

Definition allP (P : con -> Prop) := fix go (cs : list con) : Prop := match cs with [] => True | c :: t => P c /\ go t end.
Definition allP2 (P : con -> Prop) := fix go (cs : list (val * con)) : Prop := match cs with [] => True | (_, c) :: t => P c /\ go t end.

Fixpoint cfrag (c : con) : Prop :=
  match c with
  (* emitted leaves, any expressions *)
  | CFormat _ _ | CBytesInt _ _ _ | CBitsInt _ _ _ | CBytes _ | CGreedyBytes | CFlag | CPass | CError | CTell
  | CComputed _ | CCheck _ | CStopIf _ | CSeek _ _ => True
  (* no emitter: linked to the interpreter, whatever is inside *)
  | CVarInt | CZigZag | CTerminated | CIndex | CStringEncoded _ _ | CExprValidator _ _ | COneOf _ _ | CNoneOf _ _
  | CExprAdapter _ _ _ | CSelect _ | CGreedyRange _ | COffsettedEnd _ _ | CRawCopy _ | CNullTerminated _ _ _ _ _
  | CNullStripped _ _ | CTransformed _ _ _ _ _ | CRestreamed _ _ _ _ _ _ | CProcessXor _ _ | CProcessRotl _ _ _
  | CChecksum _ _ _ | CLazy _ | CLazyStruct _ | CLazyArray _ _ => True
  (* emitted wrappers and composites *)
  | CEnum c' _ | CMapping c' _ | CHex c' | CHexDump c' | CRenamed _ c' | CConst _ c' | CRebuild c' _ | CDefault c' _
  | CPointer _ c' | CFixedSized _ c' => cfrag c'
  | CStruct cs | CSequence cs | CFocusedSeq _ cs => allP cfrag cs
  | CUnion sel cs => sel = USNone /\ allP cfrag cs
  | CIfThenElse _ a b => cfrag a /\ cfrag b
  | CSwitch _ cases d => allP2 cfrag cases /\ cfrag d
  | CArray _ c' => cfrag c' /\ index_free c'
  | CRepeatUntil pred c' => cfrag c' /\ index_free c' /\ pred_index_free pred
  | CPadded _ c' _ | CAligned _ c' _ => cfrag c' /\ size_exact c'
  | CPrefixed lc c' incl => cfrag lc /\ cfrag c' /\ (incl = true -> static_len lc)
  (* the emitted FlagsEnum drops the private marker key (equal as containers, not as terms); Peek is the documented
     exclusion (look-ahead over truncated data) *)
  | CFlagsEnum _ _ | CPeek _ => False
  end.

(* ---- reading ---- *)
Lemma cread_iread s n p d s' : iread s n p = Ok (d, s') -> cread s n = (d, s').
Proof.
  unfold iread, cread. destruct (n <? 0)%Z eqn:E0; [discriminate|].
  destruct (Z.of_nat (length (iavail s)) <? n)%Z eqn:E1; [discriminate|].
  intros E. injection E as <- <-.
  assert (Hk : Nat.min (Z.to_nat n) (length (iavail s)) = Z.to_nat n) by lia.
  rewrite Hk. f_equal. f_equal. lia.
Qed.

Lemma iread_length s n p d s' : iread s n p = Ok (d, s') -> length d = Z.to_nat n.
Proof.
  unfold iread. destruct (n <? 0)%Z eqn:E0; [discriminate|].
  destruct (Z.of_nat (length (iavail s)) <? n)%Z eqn:E1; [discriminate|].
  intros E. injection E as <- _. rewrite firstn_length. lia.
Qed.

Lemma stopif_same c cx p s : is_stopif c = true -> cparse c cx p s = parse c cx p s.
Proof. destruct c; try discriminate; [reflexivity|]. destruct c; try discriminate. reflexivity. Qed.

(* ---- loops: the recursive parser is a parameter, so agreement lifts ---- *)
Lemma allP_Forall (P Q : con -> Prop) cs : Forall (fun c => P c -> Q c) cs -> allP P cs -> Forall Q cs.
Proof. induction 1 as [|c t Hc Ht IH]; cbn; [constructor|]. intros [H1 H2]. constructor; auto. Qed.

Lemma struct_loop_agree cs : Forall Pc cs -> forall cx p acc s r,
  struct_loop parse cs cx p acc s = Ok r -> struct_loop cparse cs cx p acc s = Ok r.
Proof.
  induction 1 as [|c t Hc Ht IH]; intros cx p acc s r; cbn [struct_loop]; [auto|].
  destruct (parse c cx p s) as [[v s']|e q] eqn:E.
  - rewrite (Hc _ _ _ _ E). destruct (name_of c); apply IH.
  - destruct e; try discriminate. destruct (is_stopif c) eqn:Es; [|discriminate]. rewrite (stopif_same c cx p s Es), E. auto.
Qed.

Lemma seq_loop_agree cs : Forall Pc cs -> forall cx p s r,
  seq_loop parse cs cx p s = Ok r -> seq_loop cparse cs cx p s = Ok r.
Proof.
  induction 1 as [|c t Hc Ht IH]; intros cx p s r; cbn [seq_loop]; [auto|].
  destruct (parse c cx p s) as [[v s']|e q] eqn:E.
  - rewrite (Hc _ _ _ _ E).
    match goal with |- context [seq_loop parse t ?cx' p s'] => destruct (seq_loop parse t cx' p s') as [[vs s'']|e q] eqn:E2 end; [|discriminate].
    rewrite (IH _ _ _ _ E2). auto.
  - destruct e; try discriminate. destruct (is_stopif c) eqn:Es; [|discriminate]. rewrite (stopif_same c cx p s Es), E. auto.
Qed.

Lemma focus_loop_agree sel cs : Forall Pc cs -> forall cx p fin s r,
  focus_loop parse sel cs cx p fin s = Ok r -> focus_loop cparse sel cs cx p fin s = Ok r.
Proof.
  induction 1 as [|c t Hc Ht IH]; intros cx p fin s r; cbn [focus_loop]; [auto|].
  destruct (parse c cx p s) as [[v s']|e q] eqn:E; [|discriminate]. rewrite (Hc _ _ _ _ E). cbn [bind].
  destruct (name_of c); apply IH.
Qed.

Lemma union_loop_agree cs : Forall Pc cs -> forall i cx p acc fw s r,
  union_loop parse cs i cx p acc fw s = Ok r -> union_loop cparse cs i cx p acc fw s = Ok r.
Proof.
  induction 1 as [|c t Hc Ht IH]; intros i cx p acc fw s r; cbn [union_loop]; [auto|].
  destruct (parse c cx p s) as [[v s1]|e q] eqn:E; [|discriminate]. rewrite (Hc _ _ _ _ E). cbn [bind].
  destruct (name_of c); (destruct (iseek s1 (itell s) 0 p) as [[r0 s2]|e q]; [cbn [bind]; apply IH|discriminate]).
Qed.

Lemma miter_agree {A} (f g : A -> res A) : (forall a r, f a = Ok r -> g a = Ok r) ->
  forall k a r, miter f k a = Ok r -> miter g k a = Ok r.
Proof.
  intros H. induction k as [|k IH]; intros a r; cbn [miter]; [auto|].
  destruct (f a) as [a1|e q] eqn:E; [|discriminate]. rewrite (H _ _ E). cbn [bind]. apply IH.
Qed.

Lemma count_loop_agree (P1 P2 : parser) n cx p s r :
  (forall i p s r, P1 (ctx_set_index cx i) p s = Ok r -> P2 (ctx_set_index cx i) p s = Ok r) ->
  count_loop P1 n cx p s = Ok r -> count_loop P2 n cx p s = Ok r.
Proof.
  intros H. unfold count_loop. rewrite !iter_N_miter.
  destruct (miter (count_step P1 cx p) (N.to_nat n) (0%Z, [], s)) as [[[i acc] s']|e q] eqn:E; [|discriminate].
  erewrite (miter_agree (count_step P1 cx p) (count_step P2 cx p)); [|clear E|exact E]; [auto|].
  intros [[i0 a0] s0] r0. unfold count_step.
  destruct (P1 (ctx_set_index cx i0) p s0) as [[v s1]|e q] eqn:E1; [|discriminate]. rewrite (H _ _ _ _ E1). auto.
Qed.

Lemma until_loop_agree c pred : Pc c -> index_free c -> pred_index_free pred ->
  forall fuel i acc cx p s r,
  until_loop (parse c) pred fuel i acc cx p s = Ok r -> cuntil_loop (cparse c) pred fuel acc cx p s = Ok r.
Proof.
  intros Hc Hi Hp. induction fuel as [|f IH]; intros i acc cx p s r; cbn [until_loop cuntil_loop]; [discriminate|].
  rewrite Hi. destruct (parse c cx p s) as [[v s1]|e q] eqn:E; [|discriminate]. rewrite (Hc _ _ _ _ E). cbn [bind].
  rewrite Hp. destruct (eval_obj cx v (Some (VList (acc ++ [v]))) pred) as [t|e q]; [cbn [bind]|discriminate].
  destruct (truthy t); [auto|apply IH].
Qed.

(* ---- the theorem ---- *)
Tactic Notation "bind_ok" hyp(H) "as" simple_intropattern(pat) "eqn" ident(E) :=
  match type of H with
  | bind ?x _ = Ok _ => destruct x as [pat|] eqn:E; [cbn [bind] in H |- *|discriminate H]
  end.

Theorem compiled_parse_agrees : forall c, cfrag c -> Pc c.
Proof.
  induction c using con_ind2; intros Hf cx p s r; cbn [cfrag] in Hf; try contradiction; cbn [parse cparse]; try solve [auto].
  - (* Format *) unfold parse_format. intros H. bind_ok H as [d s'] eqn E.
    rewrite (cread_iread _ _ _ _ _ E). rewrite (iread_length _ _ _ _ _ E), Nat2Z.id, Nat.eqb_refl.
    unfold decode_format. destruct (fcode_float _); exact H.
  - (* BytesInteger *) intros H. bind_ok H as n eqn En. destruct (n <=? 0)%Z; [discriminate|]. bind_ok H as [d s'] eqn E.
    rewrite (cread_iread _ _ _ _ _ E). destruct (bytes2integer _ _); [exact H|discriminate].
  - (* BitsInteger *) intros H. bind_ok H as n eqn En. destruct (n <=? 0)%Z; [discriminate|]. bind_ok H as [d s'] eqn E.
    rewrite (cread_iread _ _ _ _ _ E).
    match goal with |- context [if ?b then swapbytesinbits d else Some d] => destruct (if b then swapbytesinbits d else Some d) end; [|discriminate].
    destruct (bits2integer _ _); [exact H|discriminate].
  - (* Bytes *) intros H. bind_ok H as n eqn En. bind_ok H as [d s'] eqn E. rewrite (cread_iread _ _ _ _ _ E). exact H.
  - (* Flag *) intros H. bind_ok H as [d s'] eqn E. rewrite (cread_iread _ _ _ _ _ E). exact H.
  - (* Enum *) intros H. bind_ok H as [v s'] eqn E. rewrite (IHc Hf _ _ _ _ E). exact H.
  - (* Mapping *) intros H. bind_ok H as [v s'] eqn E. rewrite (IHc Hf _ _ _ _ E). cbn [bind].
    destruct (negb (hashable v)); [discriminate|].
    match goal with |- context [mapping_decode v ?t None] => destruct (mapping_decode v t None) end; [exact H|discriminate].
  - (* Hex *) intros H. bind_ok H as [v s'] eqn E. rewrite (IHc Hf _ _ _ _ E).
    destruct v; try exact H; (destruct (sizeof c cx p) as [n|e q]; [exact H|destruct e; first [exact H|discriminate]]).
  - (* HexDump *) apply IHc, Hf.
  - (* Struct *) intros H1. bind_ok H1 as [[kv cx'] s'] eqn E.
    match goal with HF : Forall _ ?cs |- _ => rewrite (struct_loop_agree cs (allP_Forall _ _ _ HF Hf) _ _ _ _ _ E) end. exact H1.
  - (* Sequence *) intros H1. bind_ok H1 as [vs s'] eqn E.
    match goal with HF : Forall _ ?cs |- _ => rewrite (seq_loop_agree cs (allP_Forall _ _ _ HF Hf) _ _ _ _ E) end. exact H1.
  - (* FocusedSeq *) intros H1. bind_ok H1 as [fin s'] eqn E.
    match goal with HF : Forall _ ?cs |- context [focus_loop cparse ?sel ?cs] => rewrite (focus_loop_agree sel cs (allP_Forall _ _ _ HF Hf) _ _ _ _ _ E) end. cbn [bind].
    destruct fin; [exact H1|discriminate].
  - (* Union(None) *) destruct Hf as [-> Hf]. intros H1. bind_ok H1 as [[[kv cx''] fw] s'] eqn E.
    match goal with HF : Forall _ ?cs |- _ => rewrite (union_loop_agree cs (allP_Forall _ _ _ HF Hf) _ _ _ _ _ _ _ E) end. exact H1.
  - (* IfThenElse *) destruct Hf as [Ha Hb]. intros H. bind_ok H as v eqn E. destruct (truthy v); [apply IHc1|apply IHc2]; assumption.
  - (* Switch *) destruct Hf as [Hcs Hd]. intros H1. bind_ok H1 as k eqn E. destruct (negb (hashable k)); [discriminate|].
    revert H1. match goal with HF : Forall _ ?l |- _ => induction l as [|[kc c'] t IHt] end; [apply IHc, Hd|].
    inversion H as [|? ? Hc Ht]; subst. cbn in Hcs. destruct Hcs as [Hc' Hcs].
    destruct (val_eqb k kc); [apply Hc, Hc'|apply IHt; assumption].
  - (* Array *) destruct Hf as [Hc Hi]. intros H. bind_ok H as n eqn En. destruct (n <? 0)%Z; [discriminate|]. bind_ok H as [vs s'] eqn E.
    rewrite (count_loop_agree (parse c) (fun _ p s => cparse c cx p s) _ _ _ _ (vs, s')); [exact H| |exact E].
    intros i p1 s1 r1 E1. apply IHc; [exact Hc|]. rewrite <- (Hi i). exact E1.
  - (* RepeatUntil *) destruct Hf as (Hc & Hi & Hp). intros H. bind_ok H as [vs s'] eqn E.
    rewrite (until_loop_agree c _ (IHc Hc) Hi Hp _ _ _ _ _ _ _ E). exact H.
  - (* Renamed *) apply IHc, Hf.
  - (* Const *) intros H. bind_ok H as [w s'] eqn E. rewrite (IHc Hf _ _ _ _ E). exact H.
  - (* Rebuild *) apply IHc, Hf.
  - (* Default *) apply IHc, Hf.
  - (* Padded *) destruct Hf as (Hc & sz & Hs & Hx). intros H. bind_ok H as n eqn En. destruct (n <? 0)%Z; [discriminate|].
    bind_ok H as [v s1] eqn E. rewrite Hs. cbn [bind]. rewrite (IHc Hc _ _ _ _ E). cbn [bind].
    rewrite <- (Hx _ _ _ _ _ E). destruct (_ <? 0)%Z; [discriminate|]. bind_ok H as [d s2] eqn E1.
    rewrite (cread_iread _ _ _ _ _ E1). exact H.
  - (* Aligned *) destruct Hf as (Hc & sz & Hs & Hx). intros H. bind_ok H as n eqn En. destruct (n <? 2)%Z eqn:Ez; [discriminate|].
    bind_ok H as [v s1] eqn E. rewrite Hs. cbn [bind]. rewrite (IHc Hc _ _ _ _ E). cbn [bind].
    destruct (n =? 0)%Z eqn:Ez0; [lia|]. rewrite <- (Hx _ _ _ _ _ E). bind_ok H as [d s2] eqn E1.
    rewrite (cread_iread _ _ _ _ _ E1). exact H.
  - (* Pointer *) intros H. bind_ok H as o eqn Eo. bind_ok H as [r0 s1] eqn E1. bind_ok H as [v s2] eqn E2.
    rewrite (IHc Hf _ _ _ _ E2). exact H.
  - (* Prefixed *) destruct Hf as (Hl & Hc & Hs). intros H. bind_ok H as [lv s1] eqn E. bind_ok H as n eqn En.
    match goal with |- context [if ?b then static_size c1 else _] => destruct b end.
    + specialize (Hs eq_refl). rewrite <- (Hs cx p). bind_ok H as n' eqn En'. bind_ok En' as k eqn Ek. injection En' as <-.
      cbn [bind]. rewrite (IHc1 Hl _ _ _ _ E). cbn [bind]. rewrite En. cbn [bind].
      bind_ok H as [d s2] eqn E2. rewrite (cread_iread _ _ _ _ _ E2). bind_ok H as [v s3] eqn E3. rewrite (IHc2 Hc _ _ _ _ E3). exact H.
    + cbn [bind] in H |- *. rewrite (IHc1 Hl _ _ _ _ E). cbn [bind]. rewrite En. cbn [bind]. rewrite Z.sub_0_r.
      bind_ok H as [d s2] eqn E2. rewrite (cread_iread _ _ _ _ _ E2). bind_ok H as [v s3] eqn E3. rewrite (IHc2 Hc _ _ _ _ E3). exact H.
  - (* FixedSized *) intros H. bind_ok H as n eqn En. destruct (n <? 0)%Z; [discriminate|]. bind_ok H as [d s1] eqn E.
    rewrite (cread_iread _ _ _ _ _ E). bind_ok H as [v s2] eqn E2. rewrite (IHc Hf _ _ _ _ E2). exact H.
Qed.

(* ---- the side conditions are satisfiable: expressions that do not name _index ---- *)
Definition not_index (k : name) : bool := negb (name_eqb k n_index).

Fixpoint no_index (e : expr) : bool :=
  match e with
  | XRoot _ | XList | XConst _ => true
  | XItem e' (KName n) => not_index n && no_index e'
  | XItem e' (KIdx _) => no_index e'
  | XBin _ a b => no_index a && no_index b
  | XUn _ a | XFunc _ a => no_index a
  end.

Lemma item_set_index cx i c k : (match k with KName n => not_index n = true | KIdx _ => True end) ->
  item (ctx_set_index cx i) c k = item cx c k.
Proof.
  intros H. destruct c as [d| |v]; destruct k as [n|j]; try reflexivity; apply negb_true_iff in H;
    destruct cx as [scs top ti m op]; unfold item, item_scope, item_top, ctx_set_index; cbn [c_scopes c_top c_mode c_topindex c_opaque].
  - destruct scs as [|s0 t]; cbn [c_scopes c_mode]; [reflexivity|].
    destruct d as [|d]; cbn [nth_error length s_vals s_index]; [|reflexivity].
    destruct (lookup n (s_vals s0)); [reflexivity|]. destruct (mode_flag m n); [reflexivity|].
    rewrite H. reflexivity.
  - destruct scs as [|s0 t]; cbn [c_top c_mode c_topindex c_opaque]; [|reflexivity].
    destruct (lookup n top); [reflexivity|]. destruct (mode_flag m n); [reflexivity|].
    rewrite H. reflexivity.
Qed.

Lemma eval_cur_set_index : forall e cx i first second, no_index e = true ->
  eval_cur (ctx_set_index cx i) first second e = eval_cur cx first second e.
Proof.
  induction e as [r| |e IH k|v|op a IHa b IHb|op a IHa|f a IHa]; intros cx i first second H; cbn [eval_cur no_index] in *; try reflexivity.
  - destruct k as [n|j].
    + apply andb_prop in H as [H1 H2]. rewrite (IH cx i first second H2).
      destruct (eval_cur cx first second e) as [c|]; cbn [bind]; [|reflexivity]. apply item_set_index. exact H1.
    + rewrite (IH cx i first second H). destruct (eval_cur cx first second e) as [c|]; cbn [bind]; [|reflexivity].
      apply item_set_index. exact I.
  - apply andb_prop in H as [H1 H2]. rewrite (IHa cx i first second H1), (IHb cx i first second H2). reflexivity.
  - rewrite (IHa cx i first second H). reflexivity.
  - rewrite (IHa cx i first second H). reflexivity.
Qed.

Lemma scopes_set_index_empty cx i : match c_scopes (ctx_set_index cx i) with [] => CurTop | _ => CurScope 0 end
                                    = match c_scopes cx with [] => CurTop | _ => CurScope 0 end.
Proof. unfold ctx_set_index. destruct (c_scopes cx); reflexivity. Qed.

Lemma eval_set_index e cx i : no_index e = true -> eval (ctx_set_index cx i) e = eval cx e.
Proof. intros H. unfold eval. rewrite scopes_set_index_empty, eval_cur_set_index by exact H. reflexivity. Qed.

Lemma eval_int_set_index e cx i : no_index e = true -> eval_int (ctx_set_index cx i) e = eval_int cx e.
Proof. intros H. unfold eval_int. rewrite eval_set_index by exact H. reflexivity. Qed.

Lemma pred_index_free_no_index e : no_index e = true -> pred_index_free e.
Proof. intros H i cx v l. unfold eval_obj. rewrite eval_cur_set_index by exact H. reflexivity. Qed.

Lemma index_free_format en f : index_free (CFormat en f). Proof. intros i cx p s. reflexivity. Qed.
Lemma index_free_flag : index_free CFlag. Proof. intros i cx p s. reflexivity. Qed.
Lemma index_free_varint : index_free CVarInt. Proof. intros i cx p s. reflexivity. Qed.
Lemma index_free_bytes e : no_index e = true -> index_free (CBytes e).
Proof. intros H i cx p s. cbn [parse]. rewrite eval_int_set_index by exact H. reflexivity. Qed.
Lemma index_free_bytesint e sg sw : no_index e = true -> index_free (CBytesInt e sg sw).
Proof. intros H i cx p s. cbn [parse]. rewrite eval_int_set_index by exact H. reflexivity. Qed.

Lemma size_exact_format en f : size_exact (CFormat en f).
Proof.
  exists (Z.of_nat (fcode_size f)). split; [reflexivity|]. intros cx p s v s'. cbn [parse]. unfold parse_format, iread.
  destruct (Z.of_nat (fcode_size f) <? 0)%Z eqn:E0; [discriminate|].
  destruct (Z.of_nat (length (iavail s)) <? Z.of_nat (fcode_size f))%Z; [discriminate|]. cbn [bind].
  destruct (fcode_float f); intros E; injection E as _ <-; unfold itell, iset_pos; cbn; lia.
Qed.

Lemma size_exact_flag : size_exact CFlag.
Proof.
  exists 1%Z. split; [reflexivity|]. intros cx p s v s'. cbn [parse]. unfold iread.
  destruct (1 <? 0)%Z eqn:E0; [discriminate|]. destruct (Z.of_nat (length (iavail s)) <? 1)%Z; [discriminate|]. cbn [bind].
  intros E; injection E as _ <-; unfold itell, iset_pos; cbn; lia.
Qed.

Lemma static_len_format en f : static_len (CFormat en f). Proof. intros cx p. reflexivity. Qed.

(* a concrete member of the fragment, with every kind of side condition discharged *)
Definition ex_compilable : con :=
  CStruct [CRenamed [x6e] (CFormat Big FB);
           CRenamed [x64] (CBytes (XItem (XRoot RThis) (KName [x6e])));
           CRenamed [x61] (CArray (XBin OMod (XItem (XRoot RThis) (KName [x6e])) (XConst (VInt 3))) (CFormat Little FH));
           CRenamed [x70] (CPadded (XConst (VInt 4)) (CFormat Big FB) x00);
           CRenamed [x71] (CPrefixed (CFormat Big FB) CGreedyBytes true);
           CRenamed [x72] (CRepeatUntil (XBin OEq (XRoot RObj) (XConst (VInt 0))) (CFormat Big FB));
           CRenamed [x73] (CIfThenElse (XBin OGt (XItem (XRoot RThis) (KName [x6e])) (XConst (VInt 1))) CVarInt (CFormat Big FH))].

Lemma ex_compilable_in_fragment : cfrag ex_compilable.
Proof.
  cbn. repeat split; auto using index_free_format, size_exact_format, static_len_format.
  all: try (apply pred_index_free_no_index; reflexivity).
Qed.

Example ex_compilable_runs :
  let data := [x02; x41; x42; x01; x00; x02; x00; x07; x00; x00; x00; x03; x58; x59; x05; x00; x81; x01] in
  parse_at ex_compilable [] data 0%N = cparse_at ex_compilable [] data 0%N /\
  exists v, parse_at ex_compilable [] data 0%N = Ok (v, 18%Z).
Proof. split; [vm_compute; reflexivity|eexists; vm_compute; reflexivity]. Qed.

(* ================= building ================= *)
Definition Bc (c : con) : Prop := forall obj cx p o r, build c obj cx p o = Ok r -> cbuild c obj cx p o = Ok r.

Definition bindex_free (c : con) : Prop := forall i obj cx p o, build c obj (ctx_set_index cx i) p o = build c obj cx p o.
Definition bsize_exact (c : con) : Prop :=
  exists sz, static_size c = Ok sz /\ forall obj cx p o r o', build c obj cx p o = Ok (r, o') -> (otell o' - otell o)%Z = sz.

Fixpoint bfrag (c : con) : Prop :=
  match c with
  | CFormat _ _ | CBytesInt _ _ _ | CBitsInt _ _ _ | CBytes _ | CGreedyBytes | CFlag | CPass | CError | CTell
  | CComputed _ | CCheck _ | CStopIf _ | CSeek _ _ | CPeek _ => True
  (* no _emitbuild: linked to the interpreter *)
  | CVarInt | CZigZag | CTerminated | CIndex | CStringEncoded _ _ | CFlagsEnum _ _ | CHex _ | CHexDump _ | CExprValidator _ _
  | COneOf _ _ | CNoneOf _ _ | CExprAdapter _ _ _ | CSelect _ | CGreedyRange _ | COffsettedEnd _ _ | CRawCopy _
  | CPrefixed _ _ _ | CFixedSized _ _ | CNullTerminated _ _ _ _ _ | CNullStripped _ _ | CTransformed _ _ _ _ _
  | CRestreamed _ _ _ _ _ _ | CProcessXor _ _ | CProcessRotl _ _ _ | CChecksum _ _ _ | CLazy _ | CLazyStruct _ | CLazyArray _ _ => True
  | CEnum c' _ | CMapping c' _ | CRenamed _ c' | CConst _ c' | CRebuild c' _ | CDefault c' _ | CPointer _ c' => bfrag c'
  | CStruct cs | CSequence cs | CFocusedSeq _ cs | CUnion _ cs => allP bfrag cs
  | CIfThenElse _ a b => bfrag a /\ bfrag b
  | CSwitch _ cases d => allP2 bfrag cases /\ bfrag d
  | CArray _ c' => bfrag c' /\ bindex_free c'
  | CRepeatUntil pred c' => bfrag c' /\ bindex_free c' /\ pred_index_free pred
  | CPadded _ c' _ | CAligned _ c' _ => bfrag c' /\ bsize_exact c'
  end.

Lemma owrite_raw_of o d len p o' : owrite o d len p = Ok o' -> owrite_raw o d = Ok o'.
Proof. unfold owrite. destruct (len <? 0)%Z; [discriminate|]. destruct (negb _); [discriminate|]. auto. Qed.

Lemma owrite_len o d len p o' : owrite o d len p = Ok o' -> Z.of_nat (length d) = len.
Proof.
  unfold owrite. destruct (len <? 0)%Z; [discriminate|]. destruct (Z.of_nat (length d) =? len)%Z eqn:E; [|discriminate].
  intros _. apply Z.eqb_eq. exact E.
Qed.

Lemma stopif_same_b c obj cx p o : is_stopif c = true -> cbuild c obj cx p o = build c obj cx p o.
Proof. destruct c; try discriminate; [reflexivity|]. destruct c; try discriminate. reflexivity. Qed.

Lemma struct_bloop_agree kv cs : Forall Bc cs -> forall cx p o r,
  struct_bloop build kv cs cx p o = Ok r -> struct_bloop cbuild kv cs cx p o = Ok r.
Proof.
  induction 1 as [|c t Hc Ht IH]; intros cx p o r; cbn [struct_bloop]; [auto|].
  match goal with |- bind ?x _ = _ -> _ => destruct x as [subobj|e q] end; [cbn [bind]|discriminate].
  match goal with |- match build c subobj ?cx1 p o with _ => _ end = _ -> _ => destruct (build c subobj cx1 p o) as [[r0 o']|e q] eqn:E end.
  - rewrite (Hc _ _ _ _ _ E). apply IH.
  - destruct e; try discriminate. destruct (is_stopif c) eqn:Es; [|discriminate]. rewrite (stopif_same_b c _ _ _ _ Es), E. auto.
Qed.

Lemma seq_bloop_agree cs : Forall Bc cs -> forall objs cx p o r,
  seq_bloop build cs objs cx p o = Ok r -> seq_bloop cbuild cs objs cx p o = Ok r.
Proof.
  induction 1 as [|c t Hc Ht IH]; intros objs cx p o r; cbn [seq_bloop]; [auto|].
  destruct objs as [|subobj objs']; [auto|].
  match goal with |- match build c subobj ?cx1 p o with _ => _ end = _ -> _ => destruct (build c subobj cx1 p o) as [[r0 o']|e q] eqn:E end.
  - rewrite (Hc _ _ _ _ _ E).
    match goal with |- bind ?x _ = _ -> _ => destruct x as [[rs o'']|e q] eqn:E2 end; [|discriminate].
    rewrite (IH _ _ _ _ _ E2). auto.
  - destruct e; try discriminate. destruct (is_stopif c) eqn:Es; [|discriminate]. rewrite (stopif_same_b c _ _ _ _ Es), E. auto.
Qed.

Lemma focus_bloop_agree sel obj cs : Forall Bc cs -> forall cx p fin o r,
  focus_bloop build sel obj cs cx p fin o = Ok r -> focus_bloop cbuild sel obj cs cx p fin o = Ok r.
Proof.
  induction 1 as [|c t Hc Ht IH]; intros cx p fin o r; cbn [focus_bloop]; [auto|].
  match goal with |- bind ?x _ = _ -> _ => destruct x as [[r0 o']|e q] eqn:E end; [|discriminate].
  rewrite (Hc _ _ _ _ _ E). cbn [bind]. apply IH.
Qed.

Lemma count_bloop_agree c : Bc c -> bindex_free c -> forall l i cx p o r,
  count_bloop (build c) l i cx p o = Ok r -> ccount_bloop (cbuild c) (length l) l cx p o = Ok r.
Proof.
  intros Hc Hi. induction l as [|e t IH]; intros i cx p o r; cbn [count_bloop ccount_bloop length]; [auto|].
  rewrite Hi. destruct (build c e cx p o) as [[r0 o1]|e0 q] eqn:E; [|discriminate]. rewrite (Hc _ _ _ _ _ E). cbn [bind].
  destruct (count_bloop (build c) t (i + 1)%Z cx p o1) as [[rs o2]|e0 q] eqn:E2; [|discriminate].
  rewrite (IH _ _ _ _ _ E2). auto.
Qed.

Lemma until_bloop_agree c pred : Bc c -> bindex_free c -> pred_index_free pred -> forall l i acc cx p o r,
  until_bloop (build c) pred l i acc cx p o = Ok r -> cuntil_bloop (cbuild c) pred l acc cx p o = Ok r.
Proof.
  intros Hc Hi Hp. induction l as [|e t IH]; intros i acc cx p o r; cbn [until_bloop cuntil_bloop]; [discriminate|].
  rewrite Hi. destruct (build c e cx p o) as [[r0 o1]|e0 q] eqn:E; [|discriminate]. rewrite (Hc _ _ _ _ _ E). cbn [bind].
  rewrite Hp. destruct (eval_obj cx e (Some (VList (acc ++ [r0]))) pred) as [tv|e0 q]; [cbn [bind]|discriminate].
  destruct (truthy tv); [auto|apply IH].
Qed.

Theorem compiled_build_agrees : forall c, bfrag c -> Bc c.
Proof.
  induction c using con_ind2; intros Hf obj cx p o r; cbn [bfrag] in Hf; try contradiction; cbn [build cbuild]; try solve [auto].
  - (* Format *) intros H. rewrite H. reflexivity.
  - (* BytesInteger *) destruct (int_of_val obj) as [z|]; [|discriminate]. intros H. bind_ok H as n eqn En.
    destruct (n <=? 0)%Z eqn:E0; [discriminate|]. assert (En0 : (n <? 0)%Z = false) by lia. rewrite En0.
    destruct (65536 <? n)%Z; [exact H|]. destruct (integer2bytes z (Z.to_nat n) _) as [d|]; [|discriminate].
    bind_ok H as o' eqn E. rewrite (owrite_raw_of _ _ _ _ _ E). exact H.
  - (* BitsInteger *) destruct (int_of_val obj) as [z|]; [|discriminate]. intros H. bind_ok H as n eqn En.
    destruct (n <=? 0)%Z eqn:E0; [discriminate|]. assert (En0 : (n <? 0)%Z = false) by lia. rewrite En0.
    destruct (65536 <? n)%Z; [exact H|]. destruct (integer2bits z (Z.to_nat n) _) as [d|]; [|discriminate].
    match goal with |- context [if ?b then swapbytesinbits d else Some d] => destruct (if b then swapbytesinbits d else Some d) as [d'|] end; [|discriminate].
    bind_ok H as o' eqn E. rewrite (owrite_raw_of _ _ _ _ _ E). exact H.
  - (* Bytes *) intros H. bind_ok H as n eqn En. destruct (int_of_val obj) as [z|].
    + destruct (n <? 1)%Z; [discriminate H|]. destruct (65536 <? n)%Z; [exact H|].
      destruct (integer2bytes z (Z.to_nat n) false) as [d|]; [|discriminate H].
      bind_ok H as o' eqn E. rewrite (owrite_raw_of _ _ _ _ _ E). exact H.
    + bind_ok H as o' eqn E. unfold write_val in E. unfold craw_write. destruct obj; try discriminate.
      rewrite (owrite_raw_of _ _ _ _ _ E). exact H.
  - (* GreedyBytes *) intros H. unfold craw_write. destruct obj; try discriminate.
    bind_ok H as o' eqn E. rewrite (owrite_raw_of _ _ _ _ _ E). exact H.
  - (* Enum *) intros H. bind_ok H as obj2 eqn E2. bind_ok H as [r0 o'] eqn E.
    assert (Hh : hashable obj = true /\ obj2 =
        match obj with
        | VStr cps => match label_value a1 cps with Some z => VInt z | None => obj end
        | VEnum l _ => match label_value a1 (cps_of_name l) with Some z => VInt z | None => obj end
        | _ => obj end).
    { destruct obj; try discriminate; cbn in E2 |- *; try (injection E2 as <-; split; reflexivity);
        match goal with E2 : match ?x with _ => _ end = _ |- _ => destruct x; [injection E2 as <-; split; reflexivity|discriminate] end. }
    destruct Hh as [Hh ->]. rewrite Hh. cbn [negb]. rewrite (IHc Hf _ _ _ _ _ E). exact H.
  - (* Mapping *) destruct (negb (hashable obj)); [discriminate|]. destruct (find_case obj a1) as [v|]; [|discriminate].
    intros H. bind_ok H as [r0 o'] eqn E. rewrite (IHc Hf _ _ _ _ _ E). exact H.
  - (* Struct *) intros H1. bind_ok H1 as kv eqn Ek. bind_ok H1 as [cx'' o'] eqn E.
    match goal with HF : Forall _ ?cs |- _ => rewrite (struct_bloop_agree kv cs (allP_Forall _ _ _ HF Hf) _ _ _ _ E) end. exact H1.
  - (* Sequence *) intros H1. bind_ok H1 as objs eqn Ek. bind_ok H1 as [rs o'] eqn E.
    match goal with HF : Forall _ ?cs |- _ => rewrite (seq_bloop_agree cs (allP_Forall _ _ _ HF Hf) _ _ _ _ _ E) end. exact H1.
  - (* FocusedSeq *) intros H1. bind_ok H1 as [fin o'] eqn E.
    match goal with HF : Forall _ ?cs |- context [focus_bloop cbuild ?sel ?ob ?cs] => rewrite (focus_bloop_agree sel ob cs (allP_Forall _ _ _ HF Hf) _ _ _ _ _ E) end.
    cbn [bind]. destruct fin; [exact H1|discriminate].
  - (* Union *) destruct obj; try solve [auto].
    match goal with HF : Forall _ ?cs |- _ => pose proof (allP_Forall _ _ _ HF Hf) as HB; clear HF Hf; induction HB as [|c' t Hc Ht IHt] end; [auto|].
    match goal with |- context [match ?pick with Some _ => _ | None => _ end] => destruct pick as [subobj|] end; [|exact IHt].
    intros H1. bind_ok H1 as [r0 o'] eqn E. rewrite (Hc _ _ _ _ _ E). exact H1.
  - (* IfThenElse *) destruct Hf as [Ha Hb]. intros H. bind_ok H as v eqn E. destruct (truthy v); [apply IHc1|apply IHc2]; assumption.
  - (* Switch *) destruct Hf as [Hcs Hd]. intros H1. bind_ok H1 as k eqn E. destruct (negb (hashable k)); [discriminate|].
    revert H1. match goal with HF : Forall _ ?l |- _ => induction l as [|[kc c'] t IHt] end; [apply IHc, Hd|].
    inversion H as [|? ? Hc Ht]; subst. cbn in Hcs. destruct Hcs as [Hc' Hcs].
    destruct (val_eqb k kc); [apply Hc, Hc'|apply IHt; assumption].
  - (* Array *) destruct Hf as [Hc Hi]. intros H. bind_ok H as n eqn En. destruct (n <? 0)%Z eqn:En0; [discriminate|].
    destruct obj; try discriminate; try exact H.
    destruct (negb (Z.of_nat (length l) =? n)%Z) eqn:El; [discriminate|]. bind_ok H as [rs o'] eqn E.
    assert (Hn : Z.to_nat n = length l) by (apply negb_false_iff, Z.eqb_eq in El; lia). rewrite Hn.
    rewrite (count_bloop_agree c (IHc Hc) Hi _ _ _ _ _ _ E). exact H.
  - (* RepeatUntil *) destruct Hf as (Hc & Hi & Hp). destruct obj; try solve [auto].
    intros H. bind_ok H as [rs o'] eqn E. rewrite (until_bloop_agree c _ (IHc Hc) Hi Hp _ _ _ _ _ _ _ E). exact H.
  - (* Renamed *) apply IHc, Hf.
  - (* Const *) intros H.
    assert (Hb : build c a0 cx p o = Ok r).
    { destruct obj; try exact H; (destruct (val_eqb _ a0); [exact H|discriminate]). }
    clear H. destruct a0; try (apply IHc; assumption). destruct c; try (apply IHc; assumption).
    cbn [build] in Hb. bind_ok Hb as n eqn En. cbn [int_of_val] in Hb. bind_ok Hb as o' eqn E. unfold write_val in E.
    rewrite (owrite_raw_of _ _ _ _ _ E). exact Hb.
  - (* Rebuild *) intros H. bind_ok H as v eqn E. apply IHc; assumption.
  - (* Default *) destruct obj; try (apply IHc; assumption). intros H. bind_ok H as v eqn E. apply IHc; assumption.
  - (* Padded *) destruct Hf as (Hc & sz & Hs & Hx). intros H. bind_ok H as n eqn En. destruct (n <? 0)%Z; [discriminate|].
    bind_ok H as [r0 o1] eqn E. rewrite Hs. cbn [bind]. rewrite (IHc Hc _ _ _ _ _ E). cbn [bind].
    rewrite <- (Hx _ _ _ _ _ _ E). destruct (_ <? 0)%Z; [discriminate|]. destruct (alloc_bound <? _)%Z; [exact H|].
    bind_ok H as o2 eqn E1. rewrite (owrite_raw_of _ _ _ _ _ E1). exact H.
  - (* Aligned *) destruct Hf as (Hc & sz & Hs & Hx). intros H. bind_ok H as n eqn En. destruct (n <? 2)%Z eqn:Ez; [discriminate|].
    bind_ok H as [r0 o1] eqn E. rewrite Hs. cbn [bind]. rewrite (IHc Hc _ _ _ _ _ E). cbn [bind].
    destruct (n =? 0)%Z eqn:Ez0; [lia|]. rewrite <- (Hx _ _ _ _ _ _ E). destruct (alloc_bound <? _)%Z; [exact H|].
    bind_ok H as o2 eqn E1. rewrite (owrite_raw_of _ _ _ _ _ E1). exact H.
  - (* Pointer *) intros H. bind_ok H as a eqn Ea. bind_ok H as [r0 o1] eqn E1. bind_ok H as [r1 o2] eqn E2.
    rewrite (IHc Hf _ _ _ _ _ E2). exact H.
Qed.

(* the build-side conditions are satisfiable *)
Lemma owrite_raw_pos o d o' : owrite_raw o d = Ok o' -> opos o' = (opos o + nlen d)%N.
Proof.
  unfold owrite_raw. destruct (opos o <=? nlen (odata o))%N; [intros E; injection E as <-; reflexivity|].
  destruct (alloc_bound <? _)%Z; [discriminate|]. intros E; injection E as <-; reflexivity.
Qed.

Lemma bindex_free_format en f : bindex_free (CFormat en f). Proof. intros i obj cx p o. reflexivity. Qed.

Lemma bsize_exact_format en f : bsize_exact (CFormat en f).
Proof.
  exists (Z.of_nat (fcode_size f)). split; [reflexivity|]. intros obj cx p o r o'. cbn [build]. unfold build_format.
  assert (Hemit : forall n, (let* o'0 := owrite o (match en with Big => be_encode (fcode_size f) n | Little => rev (be_encode (fcode_size f) n) end)
                                       (Z.of_nat (fcode_size f)) p in Ok (obj, o'0)) = Ok (r, o') ->
                            (otell o' - otell o)%Z = Z.of_nat (fcode_size f)).
  { intros n H. destruct (owrite o _ _ p) as [o1|e q] eqn:E; [cbn [bind] in H|discriminate]. injection H as _ <-.
    pose proof (owrite_len _ _ _ _ _ E) as Hl. apply owrite_raw_of, owrite_raw_pos in E. unfold otell. rewrite E. unfold nlen. lia. }
  destruct (fcode_float f).
  - destruct obj; try discriminate;
      repeat match goal with |- match ?x with _ => _ end = _ -> _ => destruct x; try discriminate end; apply Hemit.
  - destruct (int_of_val obj); [|discriminate]. destruct (in_range _ _ _); [apply Hemit|discriminate].
Qed.

Definition ex_buildable : con :=
  CStruct [CRenamed [x6e] (CRebuild (CFormat Big FB) (XFunc FLen (XItem (XRoot RThis) (KName [x64]))));
           CRenamed [x64] (CBytes (XItem (XRoot RThis) (KName [x6e])));
           CRenamed [x61] (CArray (XConst (VInt 2)) (CFormat Little FH));
           CRenamed [x70] (CPadded (XConst (VInt 4)) (CFormat Big FB) xaa);
           CRenamed [x63] (CConst (VBytes [x4d; x5a]) (CBytes (XConst (VInt 2))));
           CRenamed [x65] (CEnum (CFormat Big FB) [([x6f; x6e; x65], 1%Z)])].

Lemma ex_buildable_in_fragment : bfrag ex_buildable.
Proof. cbn. repeat split; auto using bindex_free_format, bsize_exact_format. Qed.

Example ex_buildable_runs :
  let obj := VDict [([x64], VBytes [x41; x42; x43]); ([x61], VList [VInt 1; VInt 513]); ([x70], VInt 7); ([x65], VStr [111%N; 110%N; 101%N])] in
  build_bytes ex_buildable obj [] = cbuild_bytes ex_buildable obj [] /\
  exists r, build_bytes ex_buildable obj [] = Ok (r, [x03; x41; x42; x43; x01; x00; x01; x02; x07; xaa; xaa; xaa; x4d; x5a; x01]).
Proof. split; [vm_compute; reflexivity|eexists; vm_compute; reflexivity]. Qed.
