(* C17: statelessness as a frame property of call histories.
   - effects_ok (over gen/Effects.v, i.e. over the CURRENT source): no call-time method of any Construct or
     expression class and no module-level function of the package writes an attribute of self, a class attribute
     or a module global, except the documented Rebuffered.stream2 and Debugger.retval, and three print-option
     setters that nothing in the package calls;
   - frame: hence after ANY history of such executions - any length, any order, successful or failing calls, any
     interleaving of any number of workers - every object of the pool has exactly the state it started with
     (outside the two documented attributes), and every observation that reads only that state gives the same
     answer at every point of every history. *)
From Coq Require Import ZArith NArith List Bool Lia.
From Coq Require Import Strings.Byte.
Require Import Bytes Value History BytesFacts.
Require Import Effects.
Import ListNotations.
Local Open Scope nat_scope.

(* "self.stream2", "self.retval" *)
Definition d_stream2 : descr := [x73; x65; x6c; x66; x2e; x73; x74; x72; x65; x61; x6d; x32].
Definition d_retval : descr := [x73; x65; x6c; x66; x2e; x72; x65; x74; x76; x61; x6c].
Definition n_Rebuffered : list byte := [x52; x65; x62; x75; x66; x66; x65; x72; x65; x64].
Definition n_Debugger : list byte := [x44; x65; x62; x75; x67; x67; x65; x72].
Definition n_parse_ : list byte := [x5f; x70; x61; x72; x73; x65].
Definition n_build_ : list byte := [x5f; x62; x75; x69; x6c; x64].
(* "global globalPrint": prefix of the three print options of lib/containers.py *)
Definition d_printopt : descr := [x67; x6c; x6f; x62; x61; x6c; x20; x67; x6c; x6f; x62; x61; x6c; x50; x72; x69; x6e; x74].
Definition n_containers : list byte := [x6d; x6f; x64; x75; x6c; x65; x20; x6c; x69; x62; x2f; x63; x6f; x6e; x74; x61; x69; x6e; x65; x72; x73].

Fixpoint is_prefix (p l : list byte) : bool :=
  match p, l with
  | [], _ => true
  | a :: p', b :: l' => Byte.eqb a b && is_prefix p' l'
  | _, [] => false
  end.

(* the documented exceptions (property text: Rebuffered.stream2, Debugger.retval) *)
Definition exempt (d : descr) : bool := descr_eqb d d_stream2 || descr_eqb d d_retval || is_prefix d_printopt d.

Definition write_allowed (owner fn : list byte) (called : bool) (d : descr) : bool :=
  (bytes_eqb owner n_Rebuffered && (bytes_eqb fn n_parse_ || bytes_eqb fn n_build_) && descr_eqb d d_stream2) ||
  (bytes_eqb owner n_Debugger && bytes_eqb fn n_parse_ && descr_eqb d d_retval) ||
  (bytes_eqb owner n_containers && negb called && is_prefix d_printopt d).

Definition row_ok (r : row) : bool := let '(o, f, ws, called) := r in forallb (write_allowed o f called) ws.

(* finite, kernel-evaluated over the table regenerated from the current source *)
Theorem effects_ok : forallb row_ok effects = true.
Proof. vm_compute. reflexivity. Qed.

Theorem effects_cover : (400 <=? length effects)%nat = true.
Proof. vm_compute. reflexivity. Qed.

(* ---- the frame ---- *)
Lemma write_allowed_exempt o f c d : write_allowed o f c d = true -> exempt d = true.
Proof.
  unfold write_allowed, exempt. intros H.
  apply orb_true_iff in H. destruct H as [H|H].
  - apply orb_true_iff in H. destruct H as [H|H].
    + apply andb_true_iff in H. destruct H as [_ H]. rewrite H. reflexivity.
    + apply andb_true_iff in H. destruct H as [_ H]. rewrite H. rewrite orb_true_r. reflexivity.
  - apply andb_true_iff in H. destruct H as [_ H]. rewrite H. rewrite orb_true_r. reflexivity.
Qed.

Lemma upd_other st o d v o' d' : descr_eqb d' d = false -> upd st o d v o' d' = st o' d'.
Proof. intros H. unfold upd. rewrite H, andb_false_r. reflexivity. Qed.

Lemma bytes_eqb_eq a : forall b, bytes_eqb a b = true -> a = b.
Proof.
  induction a as [|x a IH]; intros [|y b]; cbn [bytes_eqb]; try discriminate; [reflexivity|].
  intros H. apply andb_true_iff in H. destruct H as [H1 H2]. apply Byte.byte_dec_bl in H1. subst. f_equal. apply IH, H2.
Qed.

Lemma descr_eqb_exempt d d' : descr_eqb d' d = true -> exempt d = exempt d'.
Proof. unfold descr_eqb. intros H. apply bytes_eqb_eq in H. subst. reflexivity. Qed.

Lemma apply_writes_frame o : forall ws st o' d', (forall w, In w ws -> exempt (fst w) = true) -> exempt d' = false ->
  fold_left (fun s w => upd s o (fst w) (snd w)) ws st o' d' = st o' d'.
Proof.
  induction ws as [|w t IH]; intros st o' d' Hw Hd; cbn [fold_left]; [reflexivity|].
  rewrite IH; [|intros x Hx; apply Hw; right; exact Hx|exact Hd].
  apply upd_other. destruct (descr_eqb d' (fst w)) eqn:E; [|reflexivity].
  apply descr_eqb_exempt in E. rewrite (Hw w (or_introl eq_refl)) in E. congruence.
Qed.

Lemma event_in_writes tbl e : forallb row_ok tbl = true -> event_in tbl e = true ->
  forall w, In w (e_writes e) -> exempt (fst w) = true.
Proof.
  intros Hok Hin w Hw. unfold event_in in Hin. apply existsb_exists in Hin. destruct Hin as ([[[o f] ws] c] & Hr & H).
  apply andb_true_iff in H. destruct H as [_ H]. rewrite forallb_forall in H. specialize (H w Hw).
  unfold mem_descr in H. apply existsb_exists in H. destruct H as (d & Hd & Heq).
  rewrite forallb_forall in Hok. specialize (Hok _ Hr). cbn in Hok. rewrite forallb_forall in Hok. specialize (Hok d Hd).
  apply write_allowed_exempt in Hok. rewrite (descr_eqb_exempt _ _ Heq) in Hok. exact Hok.
Qed.

(* any history of executions of functions of an admissible table leaves every non-exempt part of every object as it was *)
Theorem history_frame tbl : forallb row_ok tbl = true ->
  forall h st, forallb (event_in tbl) h = true ->
  forall o d, exempt d = false -> run h st o d = st o d.
Proof.
  intros Hok. induction h as [|e t IH]; intros st Hh o d Hd; [reflexivity|].
  cbn [forallb] in Hh. apply andb_true_iff in Hh. destruct Hh as [He Ht].
  unfold run. cbn [fold_left]. fold (run t (apply_event st e)). rewrite IH by assumption.
  unfold apply_event. apply apply_writes_frame; [|exact Hd]. apply (event_in_writes tbl e Hok He).
Qed.

(* the instance for the table of the current source *)
Theorem C17_objects_unchanged h st :
  forallb (event_in effects) h = true -> forall o d, exempt d = false -> run h st o d = st o d.
Proof. apply history_frame, effects_ok. Qed.

(* results: whatever is computed from the non-exempt state is the same at every point of every history *)
Definition reads_only_state {query answer : Type} (observe : store -> query -> answer) : Prop :=
  forall st st' q, (forall o d, exempt d = false -> st o d = st' o d) -> observe st q = observe st' q.

Theorem C17_results_history_independent (query answer : Type) (observe : store -> query -> answer) h st q :
  reads_only_state observe ->
  forallb (event_in effects) h = true -> observe (run h st) q = observe st q.
Proof. intros Hr Hh. apply Hr. intros o d Hd. apply C17_objects_unchanged; assumption. Qed.

(* two points of one history: the prefix run and the whole run agree *)
Theorem C17_results_same_at_every_point (query answer : Type) (observe : store -> query -> answer) h1 h2 st q :
  reads_only_state observe ->
  forallb (event_in effects) (h1 ++ h2) = true -> observe (run (h1 ++ h2) st) q = observe (run h1 st) q.
Proof.
  intros Hr Hh. rewrite forallb_app in Hh. apply andb_true_iff in Hh. destruct Hh as [H1 H2].
  unfold run. rewrite fold_left_app. fold (run h1 st). fold (run h2 (run h1 st)).
  apply Hr. intros o d Hd. apply C17_objects_unchanged; assumption.
Qed.

(* interleavings: any schedule of any number of workers is again a history of admissible executions *)
Lemma interleave_events tbl ts h : interleave ts h ->
  Forall (fun t => forallb (event_in tbl) t = true) ts -> forallb (event_in tbl) h = true.
Proof.
  induction 1 as [ts Hn|pre e t post h Hi IH]; intros Hall; [reflexivity|].
  cbn [forallb]. apply Forall_app in Hall. destruct Hall as [Hpre Hrest]. inversion Hrest as [|x l Het Hpost]; subst.
  cbn [forallb] in Het. apply andb_true_iff in Het. destruct Het as [He Ht]. rewrite He. cbn [andb].
  apply IH. apply Forall_app. split; [exact Hpre|]. constructor; assumption.
Qed.

Theorem C17_any_schedule ts h st :
  interleave ts h -> Forall (fun t => forallb (event_in effects) t = true) ts ->
  forall o d, exempt d = false -> run h st o d = st o d.
Proof. intros Hi Hall. apply C17_objects_unchanged. eapply interleave_events; eassumption. Qed.

(* non-vacuity: the documented exception does change its attribute, and only it; an ordinary execution writes nothing *)
Definition n_Struct : list byte := [x53; x74; x72; x75; x63; x74].
Example C17_ex_history :
  let st : store := fun _ _ => None in
  let h := [mkEv 1 n_Struct n_parse_ []; mkEv 2 n_Rebuffered n_parse_ [(d_stream2, Some (VInt 5))]; mkEv 1 n_Struct n_parse_ []] in
  forallb (event_in effects) h = true /\ run h st 2 d_stream2 = Some (VInt 5) /\ exempt d_stream2 = true /\
  event_in effects (mkEv 1 n_Struct n_parse_ [([x73; x65; x6c; x66; x2e; x78], Some (VInt 1))]) = false.
Proof. vm_compute. repeat split. Qed.
