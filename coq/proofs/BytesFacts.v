(* Facts about the byte-level algorithms: big-endian digits, two's complement, LEB128, ZigZag. *)
From Coq Require Import ZArith NArith List Bool Lia ZifyBool ZifyN ZifyNat.
From Coq Require Import Strings.Byte.
Require Import Bytes.
Import ListNotations.
Open Scope N_scope.

Lemma to_N_byte_of_N n : Byte.to_N (byte_of_N n) = n mod 256.
Proof.
  unfold byte_of_N.
  destruct (Byte.of_N (n mod 256)) eqn:E.
  - apply Byte.to_of_N in E. exact E.
  - apply Byte.of_N_None_iff in E. pose proof (N.mod_lt n 256). lia.
Qed.

Lemma byte_of_N_to_N b : byte_of_N (Byte.to_N b) = b.
Proof.
  unfold byte_of_N. pose proof (Byte.to_N_bounded b).
  rewrite N.mod_small by lia. rewrite Byte.of_to_N. reflexivity.
Qed.

Lemma to_N_byte_of_N_small n : n < 256 -> Byte.to_N (byte_of_N n) = n.
Proof. intros H. rewrite to_N_byte_of_N. apply N.mod_small. exact H. Qed.

(* ---- big endian ---- *)

Lemma be_decode_app a b :
  be_decode (a ++ b) = fold_left (fun acc b => acc * 256 + Byte.to_N b) b (be_decode a).
Proof. unfold be_decode. apply fold_left_app. Qed.

Lemma be_decode_snoc a x : be_decode (a ++ [x]) = be_decode a * 256 + Byte.to_N x.
Proof. rewrite be_decode_app. reflexivity. Qed.

Lemma be_encode_length w n : length (be_encode w n) = w.
Proof.
  revert n; induction w as [|w IH]; intros n; cbn [be_encode]; [reflexivity|].
  rewrite app_length, IH. cbn [length]. lia.
Qed.

Lemma pow256_succ w : 256 ^ N.of_nat (S w) = 256 * 256 ^ N.of_nat w.
Proof. rewrite Nat2N.inj_succ, N.pow_succ_r'. reflexivity. Qed.

Lemma be_roundtrip w : forall n, n < 256 ^ N.of_nat w -> be_decode (be_encode w n) = n.
Proof.
  induction w as [|w IH]; intros n Hn.
  - change (256 ^ N.of_nat 0) with 1 in Hn. cbn [be_encode]. unfold be_decode. cbn [fold_left]. lia.
  - cbn [be_encode]. rewrite be_decode_snoc, IH.
    + rewrite to_N_byte_of_N. pose proof (N.div_mod n 256). lia.
    + rewrite pow256_succ in Hn. apply N.div_lt_upper_bound; lia.
Qed.

Lemma be_decode_bound bs : be_decode bs < 256 ^ N.of_nat (length bs).
Proof.
  induction bs as [|x bs IH] using rev_ind.
  - vm_compute. reflexivity.
  - rewrite be_decode_snoc, app_length. cbn [length].
    replace (length bs + 1)%nat with (S (length bs)) by lia.
    rewrite pow256_succ. pose proof (Byte.to_N_bounded x). lia.
Qed.

Lemma be_encode_decode bs : be_encode (length bs) (be_decode bs) = bs.
Proof.
  induction bs as [|x bs IH] using rev_ind.
  - reflexivity.
  - rewrite app_length. cbn [length]. replace (length bs + 1)%nat with (S (length bs)) by lia.
    cbn [be_encode]. rewrite be_decode_snoc.
    pose proof (Byte.to_N_bounded x).
    replace ((be_decode bs * 256 + Byte.to_N x) / 256) with (be_decode bs).
    2:{ apply N.div_unique with (r := Byte.to_N x); lia. }
    rewrite IH. f_equal. f_equal.
    unfold byte_of_N.
    replace ((be_decode bs * 256 + Byte.to_N x) mod 256) with (Byte.to_N x).
    2:{ apply N.mod_unique with (q := be_decode bs); lia. }
    rewrite Byte.of_to_N. reflexivity.
Qed.

(* ---- two's complement ---- *)

Lemma pow2_pos b : 0 < 2 ^ b.
Proof. apply N.neq_0_lt_0. apply N.pow_nonzero. lia. Qed.

Lemma pattern_bound bits z : pattern bits z < 2 ^ bits.
Proof.
  unfold pattern. pose proof (pow2_pos bits).
  pose proof (Z.mod_pos_bound z (Z.of_N (2 ^ bits))). lia.
Qed.

Lemma half_double bits : 0 < bits -> 2 * (2 ^ bits / 2) = 2 ^ bits.
Proof.
  intros H. replace bits with (N.succ (N.pred bits)) by lia.
  rewrite N.pow_succ_r'. set (k := 2 ^ N.pred bits).
  replace (2 * k / 2) with k; [reflexivity|]. apply N.div_unique with (r := 0); lia.
Qed.

Lemma unpattern_pattern signed bits z :
  0 < bits -> in_range signed bits z = true -> unpattern signed bits (pattern bits z) = z.
Proof.
  intros Hb Hr. unfold in_range in Hr. unfold unpattern, pattern.
  pose proof (pow2_pos bits) as Hp. pose proof (half_double bits Hb) as Hh.
  set (M := 2 ^ bits) in *. set (H := M / 2) in *.
  destruct signed; cbn [andb].
  - destruct (Z.ltb_spec z 0).
    + assert (E : (z mod Z.of_N M = z + Z.of_N M)%Z).
      { symmetry. apply Z.mod_unique with (q := (-1)%Z); lia. }
      rewrite E. destruct (H <=? Z.to_N (z + Z.of_N M)) eqn:C; lia.
    + assert (E : (z mod Z.of_N M = z)%Z) by (apply Z.mod_small; lia).
      rewrite E. destruct (H <=? Z.to_N z) eqn:C; lia.
  - assert (E : (z mod Z.of_N M = z)%Z) by (apply Z.mod_small; lia).
    rewrite E. lia.
Qed.

Lemma pattern_unpattern signed bits n :
  0 < bits -> n < 2 ^ bits ->
  in_range signed bits (unpattern signed bits n) = true /\ pattern bits (unpattern signed bits n) = n.
Proof.
  intros Hb Hn. unfold in_range, unpattern, pattern.
  pose proof (pow2_pos bits) as Hp. pose proof (half_double bits Hb) as Hh.
  set (M := 2 ^ bits) in *. set (H := M / 2) in *.
  destruct signed; cbn [andb].
  - destruct (H <=? n) eqn:C.
    + split; [lia|].
      assert (E : ((Z.of_N n - Z.of_N M) mod Z.of_N M = Z.of_N n)%Z).
      { symmetry. apply Z.mod_unique with (q := (-1)%Z); lia. }
      rewrite E. lia.
    + split; [lia|]. rewrite Z.mod_small by lia. lia.
  - split; [lia|]. rewrite Z.mod_small by lia. lia.
Qed.

(* ---- integer2bytes / bytes2integer ---- *)

Lemma some_inj {A} (a b : A) : Some a = Some b -> a = b.
Proof. congruence. Qed.

Lemma integer2bytes_S z w s :
  integer2bytes z (S w) s =
  if in_range s (8 * N.of_nat (S w)) z then Some (be_encode (S w) (pattern (8 * N.of_nat (S w)) z)) else None.
Proof. reflexivity. Qed.

Lemma integer2bytes_length z w s bs : integer2bytes z w s = Some bs -> length bs = w.
Proof.
  destruct w as [|w]; [discriminate|]. rewrite integer2bytes_S.
  destruct (in_range s _ z); [|discriminate]. intros H. apply some_inj in H. subst bs. apply be_encode_length.
Qed.

Lemma pow256_pow2 w : 256 ^ N.of_nat w = 2 ^ (8 * N.of_nat w).
Proof. rewrite N.pow_mul_r. reflexivity. Qed.

Theorem bytes2integer_integer2bytes z w s bs :
  integer2bytes z w s = Some bs -> bytes2integer bs s = Some z.
Proof.
  intros H. pose proof (integer2bytes_length _ _ _ _ H) as Hl.
  destruct w as [|w]; [discriminate|]. rewrite integer2bytes_S in H.
  destruct (in_range s (8 * N.of_nat (S w)) z) eqn:Hr; [|discriminate].
  apply some_inj in H. subst bs. unfold bytes2integer.
  destruct (be_encode (S w) (pattern (8 * N.of_nat (S w)) z)) eqn:E.
  - cbn in Hl. discriminate Hl.
  - rewrite <- E. rewrite be_encode_length. rewrite be_roundtrip.
    + rewrite unpattern_pattern; [reflexivity|lia|exact Hr].
    + rewrite pow256_pow2. apply pattern_bound.
Qed.

Lemma bytes2integer_ne bs s :
  bs <> [] -> bytes2integer bs s = Some (unpattern s (8 * N.of_nat (length bs)) (be_decode bs)).
Proof. destruct bs; [congruence|reflexivity]. Qed.

Theorem integer2bytes_bytes2integer bs s z :
  bytes2integer bs s = Some z -> integer2bytes z (length bs) s = Some bs.
Proof.
  intros H. assert (Hne : bs <> []) by (destruct bs; [discriminate|congruence]).
  rewrite (bytes2integer_ne _ _ Hne) in H. apply some_inj in H. subst z.
  assert (Hl : (0 < length bs)%nat) by (destruct bs; [congruence|cbn; lia]).
  pose proof (be_decode_bound bs) as Hb. rewrite pow256_pow2 in Hb.
  destruct (pattern_unpattern s (8 * N.of_nat (length bs)) (be_decode bs)) as [H1 H2]; [lia|exact Hb|].
  pose proof (be_encode_decode bs) as Hed.
  destruct (length bs) eqn:El; [lia|]. rewrite integer2bytes_S.
  rewrite H1, H2, Hed. reflexivity.
Qed.

(* ---- LEB128 ---- *)

(* The wire format, stated independently of the algorithms: a well-formed LEB128 string for n *)
Inductive leb128 : N -> bytes -> Prop :=
| leb_last b : Byte.to_N b < 128 -> leb128 (Byte.to_N b) [b]
| leb_more b hi t : 128 <= Byte.to_N b -> leb128 hi t -> leb128 (hi * 128 + (Byte.to_N b - 128)) (b :: t).

(* minimal: the last byte is not a superfluous zero *)
Definition leb_minimal (bs : bytes) : Prop :=
  match rev bs with
  | last :: _ :: _ => last <> x00
  | _ => True
  end.

Lemma varint_decode_spec bs n rest :
  varint_decode bs = Some (n, rest) -> exists enc, bs = enc ++ rest /\ leb128 n enc.
Proof.
  revert n rest. induction bs as [|b t IH]; intros n rest H; cbn [varint_decode] in H; [discriminate|].
  destruct (Byte.to_N b <? 128) eqn:C.
  - injection H as <- <-. exists [b]. split; [reflexivity|]. constructor. lia.
  - destruct (varint_decode t) as [[hi r]|] eqn:E; [|discriminate].
    injection H as <- <-. destruct (IH _ _ eq_refl) as (enc & -> & Hl).
    exists (b :: enc). split; [reflexivity|]. constructor; [lia|exact Hl].
Qed.

Lemma varint_decode_complete n enc : leb128 n enc -> forall rest, varint_decode (enc ++ rest) = Some (n, rest).
Proof.
  induction 1 as [b Hb|b hi t Hb Hl IH]; intros rest; cbn [app varint_decode].
  - destruct (Byte.to_N b <? 128) eqn:C; [reflexivity|lia].
  - destruct (Byte.to_N b <? 128) eqn:C; [lia|]. rewrite IH. reflexivity.
Qed.

Lemma pow128_succ w : 128 ^ N.of_nat (S w) = 128 * 128 ^ N.of_nat w.
Proof. rewrite Nat2N.inj_succ, N.pow_succ_r'. reflexivity. Qed.

Lemma varint_enc_fuel_leb fuel : forall x, x < 128 ^ N.of_nat (S fuel) -> leb128 x (varint_enc_fuel fuel x).
Proof.
  induction fuel as [|f IH]; intros x Hf.
  - change (128 ^ N.of_nat 1) with 128 in Hf. cbn [varint_enc_fuel].
    replace x with (Byte.to_N (byte_of_N x)) at 1 by (apply to_N_byte_of_N_small; lia).
    constructor. rewrite to_N_byte_of_N_small; lia.
  - cbn [varint_enc_fuel]. destruct (127 <? x) eqn:C.
    + assert (Hm : x mod 128 < 128) by (apply N.mod_lt; lia).
      assert (E : Byte.to_N (byte_of_N (128 + x mod 128)) = 128 + x mod 128).
      { apply to_N_byte_of_N_small. lia. }
      replace x with ((x / 128) * 128 + (Byte.to_N (byte_of_N (128 + x mod 128)) - 128)) at 1.
      2:{ rewrite E. pose proof (N.div_mod x 128). lia. }
      constructor; [lia|]. apply IH.
      rewrite pow128_succ in Hf. apply N.div_lt_upper_bound; lia.
    + replace x with (Byte.to_N (byte_of_N x)) at 1 by (apply to_N_byte_of_N_small; lia).
      constructor. rewrite to_N_byte_of_N_small; lia.
Qed.

Theorem varint_encode_leb x : leb128 x (varint_encode x).
Proof.
  apply varint_enc_fuel_leb.
  pose proof (N.size_gt x) as Hs.
  apply N.lt_le_trans with (1 := Hs).
  change 128 with (2 ^ 7). rewrite <- N.pow_mul_r.
  apply N.pow_le_mono_r; lia.
Qed.

Theorem varint_roundtrip x rest : varint_decode (varint_encode x ++ rest) = Some (x, rest).
Proof. apply varint_decode_complete, varint_encode_leb. Qed.

(* ---- ZigZag ---- *)

Theorem zigzag_roundtrip z : zigzag_dec (zigzag_enc z) = z.
Proof.
  unfold zigzag_dec, zigzag_enc. destruct (0 <=? z)%Z eqn:C.
  - replace (Z.to_N (2 * z)) with (2 * Z.to_N z) by lia.
    rewrite N.even_mul. cbn [N.even orb]. rewrite N.mul_comm, N.div_mul by lia. lia.
  - replace (Z.to_N (2 * Z.abs z - 1)) with (2 * (Z.to_N (Z.abs z) - 1) + 1) by lia.
    rewrite N.add_comm, N.even_add_mul_2. change (N.even 1) with false. cbv iota.
    replace ((1 + 2 * (Z.to_N (Z.abs z) - 1)) / 2) with (Z.to_N (Z.abs z) - 1).
    2:{ apply N.div_unique with (r := 1); lia. }
    lia.
Qed.

Theorem zigzag_spec z : Z.of_N (zigzag_enc z) = (if (0 <=? z)%Z then 2 * z else - 2 * z - 1)%Z.
Proof. unfold zigzag_enc. destruct (0 <=? z)%Z eqn:C; lia. Qed.

Theorem zigzag_surj n : zigzag_enc (zigzag_dec n) = n.
Proof.
  unfold zigzag_dec, zigzag_enc. pose proof (N.div_mod n 2).
  destruct (N.even n) eqn:E.
  - assert (n mod 2 = 0) by (apply N.even_spec in E; destruct E as [k ->]; rewrite N.mul_comm, N.mod_mul; lia).
    destruct (0 <=? Z.of_N (n / 2))%Z eqn:C; lia.
  - assert (n mod 2 = 1).
    { assert (N.odd n = true) by (rewrite <- N.negb_even, E; reflexivity).
      apply N.odd_spec in H0. destruct H0 as [k ->].
      rewrite N.add_comm, N.mul_comm, N.mod_add by lia. reflexivity. }
    destruct (0 <=? - (Z.of_N (n / 2) + 1))%Z eqn:C; lia.
Qed.
