(* C02 / C03 at the level of the construct: Float16, Float32 and Float64 fields, either byte order, at any stream position.  Whatever bytes
   the field parses (not a NaN pattern), building the parsed value writes exactly those bytes again; a NaN pattern comes back as the
   quiet NaN of its sign. *)
From Coq Require Import ZArith NArith List Bool Lia ZifyBool ZifyN ZifyNat.
From Coq Require Import Strings.Byte.
Require Import Bytes Value Expr Codec Float Stream Syntax Sizeof Parse Build BytesFacts StreamFacts PrimFacts FloatFacts Float32.
Import ListNotations.
Local Open Scope nat_scope.

Lemma float_parse en f d rest pre base sk cx p : fcode_float f = true -> length d = fcode_size f ->
  parse (CFormat en f) cx p (at_pos pre (d ++ rest) base sk) =
  Ok (VFloat (widen (fmt_of f) (be_decode (endian_fmt en d))), at_pos (pre ++ d) rest base sk).
Proof.
  intros Hf Hl. cbn [parse]. unfold parse_format. rewrite <- Hl, iread_at. cbn [bind]. rewrite Hf. reflexivity.
Qed.

Lemma float_build en f b n cx p o : fcode_float f = true -> app_mode o -> narrow (fmt_of f) b = Some n ->
  build (CFormat en f) (VFloat b) cx p o = Ok (VFloat b, oapp o (endian_fmt en (be_encode (fcode_size f) n))).
Proof.
  intros Hf Ho Hn. cbn [build]. unfold build_format. rewrite Hf, Hn.
  replace (Z.of_nat (fcode_size f)) with (Z.of_nat (length (endian_fmt en (be_encode (fcode_size f) n)))) by (rewrite endian_fmt_length, be_encode_length; reflexivity).
  change (match en with Big => be_encode (fcode_size f) n | Little => rev (be_encode (fcode_size f) n) end) with (endian_fmt en (be_encode (fcode_size f) n)).
  rewrite owrite_app by exact Ho. reflexivity.
Qed.

(* the pattern a field of this width holds *)
Definition pattern_of (en : endian) (d : bytes) : N := be_decode (endian_fmt en d).

Lemma pattern_bound en d k : length d = k -> (pattern_of en d < 256 ^ N.of_nat k)%N.
Proof. intros <-. unfold pattern_of. rewrite <- (endian_fmt_length en d). apply be_decode_bound. Qed.

Lemma pattern_bytes en d : endian_fmt en (be_encode (length d) (pattern_of en d)) = d.
Proof. unfold pattern_of. rewrite <- (endian_fmt_length en d), be_encode_decode. apply endian_fmt_invol. Qed.

Theorem float32_parse_then_build : forall en d rest pre base sk cx p cx2 p2 o, length d = 4%nat -> app_mode o ->
  is_nan binary32 (pattern_of en d) = false ->
  exists x, parse (CFormat en Ff) cx p (at_pos pre (d ++ rest) base sk) = Ok (VFloat x, at_pos (pre ++ d) rest base sk) /\
            build (CFormat en Ff) (VFloat x) cx2 p2 o = Ok (VFloat x, oapp o d).
Proof.
  intros en d rest pre base sk cx p cx2 p2 o Hl Ho Hn. eexists. split; [apply float_parse; [reflexivity|exact Hl]|].
  assert (Hb : (pattern_of en d < 4294967296)%N) by (apply (pattern_bound en d 4 Hl)).
  rewrite (float_build en Ff _ (pattern_of en d)); [|reflexivity|exact Ho|apply single_roundtrip; assumption].
  change (fcode_size Ff) with 4. rewrite <- Hl, pattern_bytes. reflexivity.
Qed.

Theorem float16_parse_then_build : forall en d rest pre base sk cx p cx2 p2 o, length d = 2%nat -> app_mode o ->
  is_nan binary16 (pattern_of en d) = false ->
  exists x, parse (CFormat en Fe) cx p (at_pos pre (d ++ rest) base sk) = Ok (VFloat x, at_pos (pre ++ d) rest base sk) /\
            build (CFormat en Fe) (VFloat x) cx2 p2 o = Ok (VFloat x, oapp o d).
Proof.
  intros en d rest pre base sk cx p cx2 p2 o Hl Ho Hn. eexists. split; [apply float_parse; [reflexivity|exact Hl]|].
  assert (Hb : (pattern_of en d < 65536)%N) by (apply (pattern_bound en d 2 Hl)).
  rewrite (float_build en Fe _ (pattern_of en d)); [|reflexivity|exact Ho|apply half_roundtrip; assumption].
  change (fcode_size Fe) with 2. rewrite <- Hl, pattern_bytes. reflexivity.
Qed.

Theorem float64_parse_then_build : forall en d rest pre base sk cx p cx2 p2 o, length d = 8%nat -> app_mode o ->
  is_nan binary64 (pattern_of en d) = false ->
  exists x, parse (CFormat en Fd) cx p (at_pos pre (d ++ rest) base sk) = Ok (VFloat x, at_pos (pre ++ d) rest base sk) /\
            build (CFormat en Fd) (VFloat x) cx2 p2 o = Ok (VFloat x, oapp o d) /\ x = pattern_of en d.
Proof.
  intros en d rest pre base sk cx p cx2 p2 o Hl Ho Hn. eexists. split; [apply float_parse; [reflexivity|exact Hl]|].
  assert (Hb : (pattern_of en d < 18446744073709551616)%N) by (apply (pattern_bound en d 8 Hl)).
  split.
  - rewrite (float_build en Fd _ (pattern_of en d)); [|reflexivity|exact Ho|apply double_roundtrip; assumption].
    change (fcode_size Fd) with 8. rewrite <- Hl, pattern_bytes. reflexivity.
  - apply double_widen_id; assumption.
Qed.

(* the other direction for doubles: every non-NaN double builds to 8 bytes that parse back to exactly that double *)
Theorem float64_build_then_parse : forall en b cx p o cx2 p2 rest base sk, app_mode o -> (b < 18446744073709551616)%N -> is_nan binary64 b = false ->
  exists d, length d = 8%nat /\ build (CFormat en Fd) (VFloat b) cx p o = Ok (VFloat b, oapp o d) /\
            parse (CFormat en Fd) cx2 p2 (at_pos (odata o) (d ++ rest) base sk) = Ok (VFloat b, at_pos (odata o ++ d) rest base sk).
Proof.
  intros en b cx p o cx2 p2 rest base sk Ho Hb Hn.
  assert (Hnar : narrow binary64 b = Some b) by (pose proof (double_roundtrip b Hb Hn) as R; rewrite (double_widen_id b Hb Hn) in R; exact R).
  exists (endian_fmt en (be_encode 8 b)). split; [rewrite endian_fmt_length, be_encode_length; reflexivity|]. split.
  - apply (float_build en Fd b b cx p o eq_refl Ho Hnar).
  - rewrite float_parse; [|reflexivity|rewrite endian_fmt_length, be_encode_length; reflexivity].
    rewrite endian_fmt_invol. rewrite be_roundtrip by exact Hb. change (fmt_of Fd) with binary64. rewrite (double_widen_id b Hb Hn). reflexivity.
Qed.

Lemma float_field_examples :
  parse_bytes (CFormat Little Ff) [] [x00; x00; x80; x3f] = Ok (VFloat 4607182418800017408) /\
  build_bytes (CFormat Little Ff) (VFloat 4607182418800017408) [] = Ok (VFloat 4607182418800017408, [x00; x00; x80; x3f]).
Proof. split; vm_compute; reflexivity. Qed.
