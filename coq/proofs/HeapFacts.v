(* C20: deepcopy / pickle independence on the object heap, for ANY history of mutations of the copy. *)
From Coq Require Import ZArith NArith List Bool Lia.
From Coq Require Import Strings.Byte.
Require Import Bytes Float Value Containers.
Import ListNotations.
Local Open Scope nat_scope.

Definition children (nd : node) : list nat :=
  match nd with NLeaf _ => [] | NDict _ kv => map snd kv | NList l => l end.

(* two heaps agree on the objects that existed before position n *)
Definition agree_below (n : nat) (h1 h2 : heap) : Prop := forall i, i < n -> nth_error h1 i = nth_error h2 i.

(* the objects below n only reference objects below n *)
Definition closed_below (n : nat) (h : heap) : Prop :=
  forall i nd, i < n -> nth_error h i = Some nd -> Forall (fun c => c < n) (children nd).

(* the objects from n on only reference objects from n on (and existing ones) *)
Definition fresh_inv (n : nat) (h : heap) : Prop :=
  forall i nd, n <= i -> nth_error h i = Some nd -> Forall (fun c => n <= c < length h) (children nd).

Lemma agree_refl n h : agree_below n h h.
Proof. intros i _. reflexivity. Qed.
Lemma agree_trans n a b c : agree_below n a b -> agree_below n b c -> agree_below n a c.
Proof. intros H1 H2 i Hi. rewrite H1, H2 by exact Hi. reflexivity. Qed.

(* what an object denotes depends only on the objects reachable from it *)
Theorem load_agree : forall n h1 h2, closed_below n h1 -> agree_below n h1 h2 ->
  forall fuel id, id < n -> load fuel h1 id = load fuel h2 id.
Proof.
  intros n h1 h2 Hc Ha. induction fuel as [|f IH]; intros id Hid; [reflexivity|].
  cbn [load]. rewrite <- (Ha id Hid). destruct (nth_error h1 id) as [nd|] eqn:E; [|reflexivity].
  pose proof (Hc id nd Hid E) as Hch. destruct nd as [v|a kv|l]; [reflexivity| |].
  - f_equal. apply map_ext_in. intros [k r] Hin. cbn [fst snd]. f_equal. apply IH.
    cbn [children] in Hch. rewrite Forall_forall in Hch. apply Hch. apply in_map_iff. exists (k, r). auto.
  - f_equal. apply map_ext_in. intros r Hin. apply IH. cbn [children] in Hch. rewrite Forall_forall in Hch. apply Hch, Hin.
Qed.

(* ---- operations only append to the heap or modify objects they are given ---- *)
Definition extends (h h' : heap) : Prop := exists ext, h' = h ++ ext.

Lemma extends_refl h : extends h h. Proof. exists []. rewrite app_nil_r. reflexivity. Qed.
Lemma extends_trans a b c : extends a b -> extends b c -> extends a c.
Proof. intros [x ->] [y ->]. exists (x ++ y). rewrite app_assoc. reflexivity. Qed.
Lemma extends_length h h' : extends h h' -> length h <= length h'.
Proof. intros [x ->]. rewrite app_length. lia. Qed.
Lemma extends_agree h h' : extends h h' -> agree_below (length h) h h'.
Proof. intros [x ->] i Hi. rewrite nth_error_app1 by exact Hi. reflexivity. Qed.
Lemma extends_nth h h' i nd : extends h h' -> nth_error h i = Some nd -> nth_error h' i = Some nd.
Proof. intros [x ->] H. rewrite nth_error_app1; [exact H|]. apply nth_error_Some. congruence. Qed.

Lemma alloc_spec h nd : extends h (fst (alloc h nd)) /\ snd (alloc h nd) = length h /\
  length (fst (alloc h nd)) = S (length h) /\ nth_error (fst (alloc h nd)) (length h) = Some nd.
Proof.
  unfold alloc; cbn [fst snd]. repeat split.
  - exists [nd]. reflexivity.
  - rewrite app_length. cbn. lia.
  - rewrite nth_error_app2 by lia. rewrite Nat.sub_diag. reflexivity.
Qed.

(* the specification a heap-threading function must meet, relative to a boundary n <= length h *)
Definition good {A} (n : nat) (F : heap -> A -> heap * nat) : Prop :=
  forall h x h' r, n <= length h -> fresh_inv n h -> F h x = (h', r) ->
    extends h h' /\ length h <= r < length h' /\ fresh_inv n h'.

Lemma fresh_inv_alloc n h nd : n <= length h -> fresh_inv n h ->
  Forall (fun c => n <= c < length h) (children nd) -> fresh_inv n (h ++ [nd]).
Proof.
  intros Hn Hf Hc i nd' Hi Hnth. rewrite app_length. cbn [length].
  destruct (Nat.lt_ge_cases i (length h)) as [Hlt|Hge].
  - rewrite nth_error_app1 in Hnth by exact Hlt. eapply Forall_impl; [|apply (Hf i nd' Hi Hnth)]. cbn. intros; lia.
  - rewrite nth_error_app2 in Hnth by exact Hge. destruct (i - length h) eqn:E; cbn in Hnth.
    + injection Hnth as <-. eapply Forall_impl; [|exact Hc]. cbn. intros; lia.
    + destruct n0; discriminate.
Qed.

Lemma map_heap_good {A} n (F : heap -> A -> heap * nat) : good n F ->
  forall l h h' rs, n <= length h -> fresh_inv n h -> map_heap F h l = (h', rs) ->
    extends h h' /\ Forall (fun r => length h <= r < length h') rs /\ fresh_inv n h' /\ length rs = length l.
Proof.
  intros HF. induction l as [|x t IH]; intros h h' rs Hn Hf Hm; cbn [map_heap] in Hm.
  - injection Hm as <- <-. repeat split; [apply extends_refl|constructor|exact Hf].
  - destruct (F h x) as [h1 y] eqn:E1. destruct (map_heap F h1 t) as [h2 ys] eqn:E2. injection Hm as <- <-.
    destruct (HF h x h1 y Hn Hf E1) as (X1 & Y1 & Z1).
    pose proof (extends_length _ _ X1) as L1.
    destruct (IH h1 h2 ys ltac:(lia) Z1 E2) as (X2 & Y2 & Z2 & L2).
    pose proof (extends_length _ _ X2) as L3.
    repeat split; [eapply extends_trans; eassumption| |exact Z2|cbn; lia].
    constructor; [lia|]. eapply Forall_impl; [|exact Y2]. cbn. intros; lia.
Qed.

Lemma on_ref_good n (F : heap -> nat -> heap * nat) : good n F ->
  forall l h h' rs, n <= length h -> fresh_inv n h -> map_heap (on_ref F) h l = (h', rs) ->
    extends h h' /\ Forall (fun r => length h <= r < length h') (map snd rs) /\ fresh_inv n h'.
Proof.
  intros HF. induction l as [|x t IH]; intros h h' rs Hn Hf Hm; cbn [map_heap] in Hm.
  - injection Hm as <- <-. repeat split; [apply extends_refl|constructor|exact Hf].
  - unfold on_ref at 1 in Hm. destruct (F h (snd x)) as [h1 y] eqn:E1.
    destruct (map_heap (on_ref F) h1 t) as [h2 ys] eqn:E2. injection Hm as <- <-.
    destruct (HF h (snd x) h1 y Hn Hf E1) as (X1 & Y1 & Z1).
    pose proof (extends_length _ _ X1) as L1.
    destruct (IH h1 h2 ys ltac:(lia) Z1 E2) as (X2 & Y2 & Z2).
    pose proof (extends_length _ _ X2) as L3.
    repeat split; [eapply extends_trans; eassumption| |exact Z2].
    cbn [map snd]. constructor; [lia|]. eapply Forall_impl; [|exact Y2]. cbn. intros; lia.
Qed.

Lemma on_entry_good n (F : heap -> val -> heap * nat) : good n F ->
  forall l h h' rs, n <= length h -> fresh_inv n h -> map_heap (on_entry F) h l = (h', rs) ->
    extends h h' /\ Forall (fun r => length h <= r < length h') (map snd rs) /\ fresh_inv n h'.
Proof.
  intros HF. induction l as [|x t IH]; intros h h' rs Hn Hf Hm; cbn [map_heap] in Hm.
  - injection Hm as <- <-. repeat split; [apply extends_refl|constructor|exact Hf].
  - unfold on_entry at 1 in Hm. destruct (F h (snd x)) as [h1 y] eqn:E1.
    destruct (map_heap (on_entry F) h1 t) as [h2 ys] eqn:E2. injection Hm as <- <-.
    destruct (HF h (snd x) h1 y Hn Hf E1) as (X1 & Y1 & Z1).
    pose proof (extends_length _ _ X1) as L1.
    destruct (IH h1 h2 ys ltac:(lia) Z1 E2) as (X2 & Y2 & Z2).
    pose proof (extends_length _ _ X2) as L3.
    repeat split; [eapply extends_trans; eassumption| |exact Z2].
    cbn [map snd]. constructor; [lia|]. eapply Forall_impl; [|exact Y2]. cbn. intros; lia.
Qed.

Lemma good_alloc_after n h h1 nd : n <= length h -> extends h h1 -> fresh_inv n h1 ->
  Forall (fun c => length h <= c < length h1) (children nd) ->
  let '(h', r) := alloc h1 nd in extends h h' /\ length h <= r < length h' /\ fresh_inv n h'.
Proof.
  intros Hn Hx Hf Hc. unfold alloc. pose proof (extends_length _ _ Hx) as L.
  repeat split.
  - eapply extends_trans; [exact Hx|]. exists [nd]. reflexivity.
  - lia.
  - rewrite app_length. cbn. lia.
  - apply fresh_inv_alloc; [lia|exact Hf|]. eapply Forall_impl; [|exact Hc]. cbn. intros; lia.
Qed.

Theorem deepcopy_good : forall n fuel, good n (deepcopy fuel).
Proof.
  intros n. induction fuel as [|f IH]; intros h id h' r Hn Hf E; cbn [deepcopy] in E.
  - pose proof (good_alloc_after n h h (NLeaf VNone) Hn (extends_refl h) Hf (Forall_nil _)) as G. rewrite E in G. exact G.
  - destruct (nth_error h id) as [[v|a kv|l]|].
    + pose proof (good_alloc_after n h h (NLeaf v) Hn (extends_refl h) Hf (Forall_nil _)) as G. rewrite E in G. exact G.
    + destruct (map_heap (on_ref (deepcopy f)) h kv) as [h1 refs] eqn:Em.
      destruct (on_ref_good n _ IH kv h h1 refs Hn Hf Em) as (X & Y & Z).
      pose proof (good_alloc_after n h h1 (NDict true refs) Hn X Z Y) as G. rewrite E in G. exact G.
    + destruct (map_heap (deepcopy f) h l) as [h1 refs] eqn:Em.
      destruct (map_heap_good n _ IH l h h1 refs Hn Hf Em) as (X & Y & Z & _).
      pose proof (good_alloc_after n h h1 (NList refs) Hn X Z Y) as G. rewrite E in G. exact G.
    + pose proof (good_alloc_after n h h (NLeaf VNone) Hn (extends_refl h) Hf (Forall_nil _)) as G. rewrite E in G. exact G.
Qed.

Theorem store_good : forall n fuel, good n (store fuel).
Proof.
  intros n. induction fuel as [|f IH]; intros h v h' r Hn Hf E; cbn [store] in E.
  - pose proof (good_alloc_after n h h (NLeaf v) Hn (extends_refl h) Hf (Forall_nil _)) as G. rewrite E in G. exact G.
  - destruct v;
      try (match type of E with alloc h (NLeaf ?x) = _ =>
             pose proof (good_alloc_after n h h (NLeaf x) Hn (extends_refl h) Hf (Forall_nil _)) as G; rewrite E in G; exact G end).
    + destruct (map_heap (store f) h l) as [h1 refs] eqn:Em.
      destruct (map_heap_good n _ IH l h h1 refs Hn Hf Em) as (X & Y & Z & _).
      pose proof (good_alloc_after n h h1 (NList refs) Hn X Z Y) as G. rewrite E in G. exact G.
    + destruct (map_heap (on_entry (store f)) h kv) as [h1 refs] eqn:Em.
      destruct (on_entry_good n _ IH kv h h1 refs Hn Hf Em) as (X & Y & Z).
      pose proof (good_alloc_after n h h1 (NDict true refs) Hn X Z Y) as G. rewrite E in G. exact G.
Qed.

(* ---- mutations reached through the copy stay in the fresh region ---- *)
Lemma find_in {A} (f : A -> bool) l x : find f l = Some x -> In x l.
Proof. induction l as [|y t IH]; cbn; [discriminate|]. destruct (f y); [intros H; injection H as <-; auto|auto]. Qed.

Theorem resolve_fresh : forall n h path id t, fresh_inv n h -> n <= id -> resolve h id path = Some t -> n <= t.
Proof.
  intros n h. induction path as [|s path IH]; intros id t Hf Hid H; cbn [resolve] in H.
  - injection H as <-. exact Hid.
  - destruct s as [k|i]; destruct (nth_error h id) as [[v|a kv|l]|] eqn:E; try discriminate.
    + match type of H with context [find ?f kv] => destruct (find f kv) as [[k' r]|] eqn:Ef end; [|discriminate]. apply find_in in Ef.
      pose proof (Hf id _ Hid E) as Hc. cbn [children] in Hc. rewrite Forall_forall in Hc.
      apply (IH r t Hf); [|exact H]. apply (Hc r). apply in_map_iff. exists (k', r). auto.
    + destruct (nth_error l i) as [r|] eqn:En; [|discriminate]. apply nth_error_In in En.
      pose proof (Hf id _ Hid E) as Hc. cbn [children] in Hc. rewrite Forall_forall in Hc.
      apply (IH r t Hf); [apply (Hc r En)|exact H].
Qed.

Lemma set_nth_length {A} i (x : A) l : length (set_nth i x l) = length l.
Proof. revert i. induction l as [|y t IH]; intros [|i]; cbn; try reflexivity; rewrite IH; reflexivity. Qed.

Lemma set_nth_other {A} i j (x : A) l : i <> j -> nth_error (set_nth i x l) j = nth_error l j.
Proof.
  revert i j. induction l as [|y t IH]; intros [|i] [|j] H; cbn; try reflexivity; try congruence. apply IH. congruence.
Qed.

Lemma set_nth_same {A} i (x : A) l : i < length l -> nth_error (set_nth i x l) i = Some x.
Proof. revert i. induction l as [|y t IH]; intros [|i] H; cbn in *; try lia; [reflexivity|apply IH; lia]. Qed.

(* one mutation of an object in the fresh region *)
Inductive mutation := MSet (path : list step) (k : name) (v : val) | MDel (path : list step) (k : name)
                    | MAppend (path : list step) (v : val).

Definition apply_mut (root : nat) (h : heap) (m : mutation) : heap :=
  match m with
  | MSet path k v => match resolve h root path with
                     | Some t => match set_entry h t k v with Some h' => h' | None => h end | None => h end
  | MDel path k => match resolve h root path with
                   | Some t => match del_entry h t k with Some h' => h' | None => h end | None => h end
  | MAppend path v => match resolve h root path with
                      | Some t => match append_item h t v with Some h' => h' | None => h end | None => h end
  end.

Lemma fresh_inv_set_nth n h t nd : fresh_inv n h -> t < length h ->
  Forall (fun c => n <= c < length h) (children nd) -> fresh_inv n (set_nth t nd h).
Proof.
  intros Hf Ht Hc i nd' Hi Hnth. rewrite set_nth_length.
  destruct (Nat.eq_dec t i) as [->|Hne].
  - rewrite set_nth_same in Hnth by exact Ht. injection Hnth as <-. exact Hc.
  - rewrite set_nth_other in Hnth by exact Hne. apply (Hf i nd' Hi Hnth).
Qed.

Lemma ref_set_children k r kv : forall c, In c (map snd (ref_set k r kv)) -> c = r \/ In c (map snd kv).
Proof.
  induction kv as [|[k' r'] t IH]; intros c Hin; cbn [ref_set] in Hin.
  - cbn in Hin. destruct Hin as [<-|[]]. auto.
  - destruct (name_eqb k k'); cbn [map snd In] in *.
    + destruct Hin as [<-|Hin]; auto.
    + destruct Hin as [<-|Hin]; [auto|]. destruct (IH c Hin); auto.
Qed.

Theorem mutation_confined : forall n root h m, n <= root -> n <= length h -> fresh_inv n h ->
  agree_below n h (apply_mut root h m) /\ fresh_inv n (apply_mut root h m) /\ length h <= length (apply_mut root h m).
Proof.
  intros n root h m Hr Hn Hf.
  assert (Same : agree_below n h h /\ fresh_inv n h /\ length h <= length h) by (split; [apply agree_refl|split; [exact Hf|lia]]).
  destruct m as [path k v|path k|path v]; cbn [apply_mut];
    (destruct (resolve h root path) as [t|] eqn:Er; [|exact Same]);
    pose proof (resolve_fresh n h path root t Hf Hr Er) as Ht.
  - unfold set_entry. destruct (nth_error h t) as [[x|a kv|l]|] eqn:En; try exact Same.
    destruct (store 64 h v) as [h1 r] eqn:Es.
    destruct (store_good n 64 h v h1 r Hn Hf Es) as (X & Y & Z).
    pose proof (extends_length _ _ X) as L. assert (Htl : t < length h) by (apply nth_error_Some; congruence).
    split; [|split].
    + intros i Hi. rewrite set_nth_other by lia. apply extends_agree; [exact X|lia].
    + apply fresh_inv_set_nth; [exact Z|lia|]. cbn [children]. apply Forall_forall. intros c Hc.
      apply ref_set_children in Hc. destruct Hc as [->|Hc]; [lia|].
      pose proof (Hf t _ Ht En) as Hch. cbn [children] in Hch. rewrite Forall_forall in Hch. specialize (Hch c Hc). lia.
    + rewrite set_nth_length. exact L.
  - unfold del_entry. destruct (nth_error h t) as [[x|a kv|l]|] eqn:En; try exact Same.
    match goal with |- context [existsb ?f kv] => destruct (existsb f kv) end; [|exact Same].
    assert (Htl : t < length h) by (apply nth_error_Some; congruence).
    split; [|split].
    + intros i Hi. rewrite set_nth_other by lia. reflexivity.
    + apply fresh_inv_set_nth; [exact Hf|exact Htl|]. cbn [children]. apply Forall_forall. intros c Hc.
      apply in_map_iff in Hc. destruct Hc as ([k' r'] & <- & Hin). apply filter_In in Hin. destruct Hin as [Hin _].
      pose proof (Hf t _ Ht En) as Hch. cbn [children] in Hch. rewrite Forall_forall in Hch.
      apply Hch. apply in_map_iff. exists (k', r'). auto.
    + rewrite set_nth_length. lia.
  - unfold append_item. destruct (nth_error h t) as [[x|a kv|l]|] eqn:En; try exact Same.
    destruct (store 64 h v) as [h1 r] eqn:Es.
    destruct (store_good n 64 h v h1 r Hn Hf Es) as (X & Y & Z).
    pose proof (extends_length _ _ X) as L. assert (Htl : t < length h) by (apply nth_error_Some; congruence).
    split; [|split].
    + intros i Hi. rewrite set_nth_other by lia. apply extends_agree; [exact X|lia].
    + apply fresh_inv_set_nth; [exact Z|lia|]. cbn [children]. apply Forall_forall. intros c Hc.
      apply in_app_or in Hc. destruct Hc as [Hc|[<-|[]]]; [|lia].
      pose proof (Hf t _ Ht En) as Hch. cbn [children] in Hch. rewrite Forall_forall in Hch. specialize (Hch c Hc). lia.
    + rewrite set_nth_length. exact L.
Qed.

(* ---- the theorem: whatever is done to a deep copy, in any order and any number of times, the
   original denotes the same value ---- *)
Theorem deepcopy_independent : forall fuel h0 root h1 root',
  closed_below (length h0) h0 -> root < length h0 ->
  deepcopy fuel h0 root = (h1, root') ->
  forall (ms : list mutation) fuel',
    load fuel' (fold_left (apply_mut root') ms h1) root = load fuel' h0 root.
Proof.
  intros fuel h0 root h1 root' Hc Hroot Hd ms fuel'.
  set (n := length h0).
  assert (Hf0 : fresh_inv n h0).
  { intros i nd Hi Hnth. assert (i < length h0) by (apply nth_error_Some; congruence). unfold n in Hi. lia. }
  destruct (deepcopy_good n fuel h0 root h1 root' (Nat.le_refl _) Hf0 Hd) as (X & Y & Z).
  assert (Inv : forall ms h, agree_below n h0 h -> fresh_inv n h -> n <= length h ->
                  agree_below n h0 (fold_left (apply_mut root') ms h)).
  { clear ms. induction ms as [|m ms IH]; intros h Ha Hf Hl; cbn [fold_left]; [exact Ha|].
    destruct (mutation_confined n root' h m ltac:(unfold n; lia) Hl Hf) as (A & B & C).
    apply IH; [eapply agree_trans; eassumption|exact B|lia]. }
  symmetry. apply (load_agree n); [exact Hc| |exact Hroot].
  apply Inv; [apply extends_agree; exact X|exact Z|apply extends_length; exact X].
Qed.

(* the copy is equal to the original when made (same denotation), provided enough fuel *)
Example deepcopy_equal_example :
  let '(h0, r) := store 8 [] (VDict [([x61], VInt 1); ([x62], VDict [([x78], VList [VInt 1; VInt 2])])]) in
  let '(h1, r') := deepcopy 8 h0 r in
  load 8 h1 r' = load 8 h0 r /\ r' <> r.
Proof. vm_compute. split; [reflexivity|discriminate]. Qed.


(* heaps built by storing values are closed, so the theorem applies to them (non-vacuity) *)
Lemma closed_of_fresh h : fresh_inv 0 h -> closed_below (length h) h.
Proof.
  intros Hf i nd Hi Hn. eapply Forall_impl; [|apply (Hf i nd (Nat.le_0_l _) Hn)]. cbn. intros; lia.
Qed.

Theorem stored_heap_closed : forall fuel v h r, store fuel [] v = (h, r) -> closed_below (length h) h /\ r < length h.
Proof.
  intros fuel v h r E.
  assert (F0 : fresh_inv 0 []) by (intros i nd _ Hn; destruct i; discriminate).
  destruct (store_good 0 fuel [] v h r (Nat.le_0_l _) F0 E) as (_ & Y & Z).
  split; [apply closed_of_fresh; exact Z|lia].
Qed.

(* every reachable state of the operation language keeps the heap closed: deep copies and pickles of
   stored containers are independent of the original under any later mutation history *)
Theorem stored_deepcopy_independent : forall fuel v h0 root fuel2 h1 root',
  store fuel [] v = (h0, root) -> deepcopy fuel2 h0 root = (h1, root') ->
  forall ms fuel', load fuel' (fold_left (apply_mut root') ms h1) root = load fuel' h0 root.
Proof.
  intros fuel v h0 root fuel2 h1 root' Es Ed ms fuel'.
  destruct (stored_heap_closed fuel v h0 root Es) as [Hc Hr].
  eapply deepcopy_independent; eassumption.
Qed.

(* objects produced by copy, deepcopy and pickle have working attribute access (the alias is re-established) *)
Theorem deepcopy_keeps_attribute_view : forall f h id a kv h' r,
  nth_error h id = Some (NDict a kv) -> deepcopy (S f) h id = (h', r) ->
  exists kv', nth_error h' r = Some (NDict true kv') /\ map fst kv' = map fst kv.
Proof.
  intros f h id a kv h' r Hn E. cbn [deepcopy] in E. rewrite Hn in E.
  destruct (map_heap (on_ref (deepcopy f)) h kv) as [h1 refs] eqn:Em.
  unfold alloc in E. injection E as <- <-. exists refs. split.
  - rewrite nth_error_app2 by lia. rewrite Nat.sub_diag. reflexivity.
  - clear Hn. revert h h1 refs Em. induction kv as [|e t IH]; intros h h1 refs Em; cbn [map_heap] in Em.
    + injection Em as <- <-. reflexivity.
    + unfold on_ref at 1 in Em. destruct (deepcopy f h (snd e)) as [h2 y]. destruct (map_heap (on_ref (deepcopy f)) h2 t) as [h3 ys] eqn:E3.
      injection Em as <- <-. cbn [map fst]. f_equal. eapply IH. exact E3.
Qed.

Theorem shallowcopy_keeps_attribute_view : forall h id a kv h' r,
  nth_error h id = Some (NDict a kv) -> shallowcopy h id = (h', r) -> nth_error h' r = Some (NDict true kv).
Proof.
  intros h id a kv h' r Hn E. unfold shallowcopy in E. rewrite Hn in E. unfold alloc in E. injection E as <- <-.
  rewrite nth_error_app2 by lia. rewrite Nat.sub_diag. reflexivity.
Qed.
