(* C01 over DEPENDENT layouts: a Struct whose later members are sized by the integer fields that come before them --
   "n"/Int8ub, "data"/Bytes(this.n), "items"/Array(this.n, x), Padded(this.n, x), FixedSized(this.n, x) -- the canonical use
   of the library.  Build puts the member's built value in the context, parse the parsed one; the theorem shows they agree
   wherever a later member reads them, so what build emits parses back to what was built, at any position, for every value,
   to any nesting depth of such structs (a dependent struct only reads its own scope, so it is closed again). *)
From Coq Require Import ZArith NArith List Bool Lia ZifyBool ZifyN ZifyNat.
From Coq Require Import Strings.Byte.
Require Import Bytes Value Expr Codec Float Stream Syntax Sizeof Parse Build BytesFacts StreamFacts PrimFacts ConInd RTFacts.
Import ListNotations.
Local Open Scope nat_scope.

(* ---- integer fields: what is built is (the integer value of) what was given, and parses back as that integer ---- *)
Definition RTi2 (c : con) : Prop :=
  forall v cxb pb o r o', app_mode o -> build c v cxb pb o = Ok (r, o') ->
    exists z, int_of_val r = Some z /\ exists out, o' = oapp o out /\
      forall cxp pp pre rest base sk,
        parse c cxp pp (at_pos pre (out ++ rest) base sk) = Ok (VInt z, at_pos (pre ++ out) rest base sk).

Lemma RTi2_of_int_leaf c : int_leaf c = true -> RTi2 c.
Proof.
  intros Hu v cxb pb o r o' Ho Hb.
  destruct c; try discriminate Hu.
  - (* Format *)
    assert (Hf : fcode_float f = false) by (cbn in Hu; destruct (fcode_float f); [discriminate|reflexivity]).
    rewrite format_int_build_gen in Hb by assumption. destruct (int_of_val v) as [z|] eqn:Ez; [|discriminate].
    destruct (in_range _ _ z) eqn:Hr; [|discriminate]. injection Hb as <- <-. exists z. split; [exact Ez|].
    eexists. split; [reflexivity|]. intros cxp pp pre rest base sk.
    rewrite format_int_parse by (rewrite ?endian_fmt_length, ?be_encode_length; auto).
    rewrite endian_fmt_invol. rewrite be_roundtrip by (rewrite pow256_pow2; apply pattern_bound).
    pose proof (fcode_size_pos f). assert (Hp : (0 < 8 * N.of_nat (fcode_size f))%N) by lia.
    rewrite unpattern_pattern; [reflexivity|exact Hp|exact Hr].
  - (* BytesInt *)
    cbn [int_leaf] in Hu. destruct len; try discriminate Hu. destruct v0; try discriminate Hu.
    assert (Hn : (0 < z <= 65536)%Z) by lia. fold (kint z) in Hb |- *.
    rewrite bytesint_build_gen in Hb by assumption. destruct (int_of_val v) as [x|] eqn:Ez; [|discriminate].
    destruct (in_range signed _ x) eqn:Hr; [|discriminate]. injection Hb as <- <-. exists x. split; [exact Ez|].
    eexists. split; [reflexivity|]. intros cxp pp pre rest base sk.
    rewrite (bytesint_parse z) by (rewrite ?endian_of_length, ?be_encode_length; lia).
    rewrite endian_of_invol, endian_of_length, be_encode_length.
    rewrite be_roundtrip by (rewrite pow256_pow2; apply pattern_bound).
    assert (Hp : (0 < 8 * N.of_nat (Z.to_nat z))%N) by lia.
    rewrite unpattern_pattern; [reflexivity|exact Hp|exact Hr].
  - (* VarInt *)
    cbn [build] in Hb. destruct (int_of_val v) as [z|] eqn:Ez; [|discriminate]. destruct (z <? 0)%Z eqn:En; [discriminate|].
    rewrite owrite_app in Hb by exact Ho. cbn [bind] in Hb. injection Hb as <- <-. exists z. split; [exact Ez|].
    eexists. split; [reflexivity|]. intros cxp pp pre rest base sk.
    cbn [parse]. rewrite (varint_parse_spec _ (Z.to_N z)) by apply varint_encode_leb. cbn [bind]. rewrite Z2N.id by lia. reflexivity.
  - (* ZigZag *)
    cbn [build] in Hb. destruct (int_of_val v) as [z|] eqn:Ez; [|discriminate].
    rewrite owrite_app in Hb by exact Ho. cbn [bind] in Hb. injection Hb as <- <-. exists z. split; [exact Ez|].
    eexists. split; [reflexivity|]. intros cxp pp pre rest base sk.
    cbn [parse]. rewrite (varint_parse_spec _ (zigzag_enc z)) by apply varint_encode_leb. cbn [bind]. rewrite zigzag_roundtrip. reflexivity.
Qed.

(* ---- what the current scope knows ---- *)
Definition this_ (n : name) : expr := XItem (XRoot RThis) (KName n).

Definition knows (cx : ctx) (G : list (name * Z)) : Prop :=
  c_scopes cx <> [] /\ forall n z, In (n, z) G -> exists w, lookup n (ctx_vals cx) = Some w /\ int_of_val w = Some z.

Lemma eval_this cx G n z : knows cx G -> In (n, z) G -> eval_int cx (this_ n) = Ok z.
Proof.
  intros [Hs Hk] Hin. destruct (Hk n z Hin) as (w & Hl & Hw).
  unfold eval_int, eval, this_, ctx_vals in *. destruct (c_scopes cx) as [|s t] eqn:Es; [contradiction|].
  cbn [eval_cur bind item]. unfold item_scope. rewrite Es. cbn [nth_error]. rewrite Hl. cbn [bind cur_val].
  destruct w; try discriminate Hw; cbn [int_of_val] in Hw; injection Hw as <-; reflexivity.
Qed.

Lemma knows_set_other cx G k v : knows cx G -> (forall z, ~ In (k, z) G) -> knows (ctx_set cx k v) G.
Proof.
  intros [Hs Hk] Hn. split.
  - unfold ctx_set. destruct (c_scopes cx); [contradiction|discriminate].
  - intros n z Hin. destruct (Hk n z Hin) as (w & Hl & Hw). exists w. split; [|exact Hw].
    rewrite ctx_vals_set, lookup_dict_set_other; [exact Hl|]. intros ->. exact (Hn z Hin).
Qed.

Lemma knows_set_new cx G k v z : knows cx G -> (forall z', ~ In (k, z') G) -> int_of_val v = Some z -> knows (ctx_set cx k v) ((k, z) :: G).
Proof.
  intros HK Hn Hv. destruct (knows_set_other cx G k v HK Hn) as [Hs Hk]. split; [exact Hs|].
  intros n z0 [E|Hin]; [|apply Hk, Hin]. injection E as <- <-. exists v. split; [|exact Hv].
  rewrite ctx_vals_set. apply lookup_dict_set_same.
Qed.

Lemma knows_index cx G i : knows cx G -> knows (ctx_set_index cx i) G.
Proof.
  intros [Hs Hk]. unfold knows, ctx_set_index, ctx_vals in *. destruct cx as [scs top ti m op]. cbn in *.
  destruct scs as [|s t]; [contradiction|]. cbn. split; [discriminate|exact Hk].
Qed.

Lemma knows_push cx : knows (push_scope cx) [].
Proof. split; [unfold push_scope; cbn; discriminate|]. intros n z []. Qed.

(* ---- members sized by a known field behave as the member with that size written out ---- *)
Inductive sized : expr -> con -> (expr -> con) -> Prop :=
| sz_bytes e : sized e (CBytes e) CBytes
| sz_array e el : RT el -> sized e (CArray e el) (fun x => CArray x el)
| sz_padded e el pat : RT el -> sized e (CPadded e el pat) (fun x => CPadded x el pat)
| sz_fixed e el : RT el -> sized e (CFixedSized e el) (fun x => CFixedSized x el).

Lemma sized_subst e c K : sized e c K -> forall cx z, eval_int cx e = Ok z ->
  (forall v p o, build c v cx p o = build (K (kint z)) v cx p o) /\ (forall p s, parse c cx p s = parse (K (kint z)) cx p s).
Proof.
  intros H cx z He. destruct H; (split; [intros v p o; cbn [build]|intros p s; cbn [parse]]); rewrite He, eval_int_kint; reflexivity.
Qed.

(* any size: a negative one makes the build fail, so nothing is claimed *)
Lemma RT_bytes_any n : RT (CBytes (kint n)).
Proof.
  destruct (Z.leb_spec 0 n) as [H|H]; [apply RT_bytes, H|].
  intros v cxb pb o r o' Ho Hb. exfalso. cbn [build] in Hb. rewrite eval_int_kint in Hb. cbn [bind] in Hb.
  destruct (int_of_val v).
  - destruct (n <? 1)%Z eqn:E; [discriminate|lia].
  - destruct v; try discriminate. unfold write_val, owrite in Hb. destruct (n <? 0)%Z eqn:E; [discriminate|lia].
Qed.
Lemma RT_array_any n el : RT el -> RT (CArray (kint n) el).
Proof.
  intros Hel. destruct (Z.leb_spec 0 n) as [H|H]; [apply RT_array; assumption|].
  intros v cxb pb o r o' Ho Hb. exfalso. cbn [build] in Hb. rewrite eval_int_kint in Hb. cbn [bind] in Hb.
  destruct (n <? 0)%Z eqn:E; [discriminate|lia].
Qed.
Lemma RT_padded_any n el pat : RT el -> RT (CPadded (kint n) el pat).
Proof.
  intros Hel. destruct (Z.leb_spec 0 n) as [H|H]; [apply RT_padded; assumption|].
  intros v cxb pb o r o' Ho Hb. exfalso. cbn [build] in Hb. rewrite eval_int_kint in Hb. cbn [bind] in Hb.
  destruct (n <? 0)%Z eqn:E; [discriminate|lia].
Qed.
Lemma RT_fixed_any n el : RT el -> RT (CFixedSized (kint n) el).
Proof.
  intros Hel. destruct (Z.leb_spec 0 n) as [H|H]; [apply RT_fixedsized; assumption|].
  intros v cxb pb o r o' Ho Hb. exfalso. cbn [build] in Hb. rewrite eval_int_kint in Hb. cbn [bind] in Hb.
  destruct (n <? 0)%Z eqn:E; [discriminate|lia].
Qed.

Lemma sized_RT e c K : sized e c K -> forall z, RT (K (kint z)).
Proof. intros H z. destruct H; [apply RT_bytes_any|apply RT_array_any|apply RT_padded_any|apply RT_fixed_any]; assumption. Qed.

(* round trip of a member under what the scope knows *)
Definition RTG (G : list (name * Z)) (c : con) : Prop :=
  forall v cxb pb o r o', app_mode o -> knows cxb G -> build c v cxb pb o = Ok (r, o') ->
    exists out, o' = oapp o out /\
      forall cxp pp pre rest base sk, knows cxp G ->
        exists r', parse c cxp pp (at_pos pre (out ++ rest) base sk) = Ok (r', at_pos (pre ++ out) rest base sk) /\ vle r' r = true.

Lemma RTG_of_RT G c : RT c -> RTG G c.
Proof. intros H v cxb pb o r o' Ho _ Hb. destruct (H v cxb pb o r o' Ho Hb) as (out & -> & Hp). exists out. split; [reflexivity|]. intros. apply Hp. Qed.

Lemma RTG_sized G n c K : sized (this_ n) c K -> (exists z, In (n, z) G) -> RTG G c.
Proof.
  intros Hs (z & Hin) v cxb pb o r o' Ho Hk Hb.
  destruct (sized_subst _ _ _ Hs cxb z (eval_this _ _ _ _ Hk Hin)) as [Eb _]. rewrite Eb in Hb.
  destruct (sized_RT _ _ _ Hs z v cxb pb o r o' Ho Hb) as (out & -> & Hp). exists out. split; [reflexivity|].
  intros cxp pp pre rest base sk Hk'. destruct (sized_subst _ _ _ Hs cxp z (eval_this _ _ _ _ Hk' Hin)) as [_ Ep]. rewrite Ep. apply Hp.
Qed.

Lemma RTG_renamed G nm c : RTG G c -> RTG G (CRenamed nm c).
Proof.
  intros H v cxb pb o r o' Ho Hk Hb. cbn [build] in Hb. destruct (H v cxb _ o r o' Ho Hk Hb) as (out & -> & Hp).
  exists out. split; [reflexivity|]. intros. cbn [parse]. apply Hp. assumption.
Qed.

(* ---- members CHOSEN by a known field: Switch(this.k, {...}, default) and IfThenElse(this.k, a, b) ---- *)
Lemma eval_this_val cx G n z : knows cx G -> In (n, z) G -> exists w, eval cx (this_ n) = Ok w /\ int_of_val w = Some z.
Proof.
  intros [Hs Hk] Hin. destruct (Hk n z Hin) as (w & Hl & Hw). exists w. split; [|exact Hw].
  unfold eval, this_, ctx_vals in *. destruct (c_scopes cx) as [|s t] eqn:Es; [contradiction|].
  cbn [eval_cur bind item]. unfold item_scope. rewrite Es. cbn [nth_error]. rewrite Hl. cbn [bind cur_val].
  destruct w; try discriminate Hw; reflexivity.
Qed.

Lemma int_val_eqb w z v : int_of_val w = Some z -> val_eqb w v = val_eqb (VInt z) v.
Proof.
  destruct w; try discriminate; cbn [int_of_val]; intros E; injection E as <-; try reflexivity.
  destruct v; cbn [val_eqb]; try reflexivity; [destruct b, b0; reflexivity|apply Z.eqb_sym].
Qed.
Lemma int_truthy w z : int_of_val w = Some z -> truthy w = truthy (VInt z).
Proof. destruct w; try discriminate; cbn [int_of_val]; intros E; injection E as <-; try reflexivity. destruct b; reflexivity. Qed.
Lemma int_hashable w z : int_of_val w = Some z -> hashable w = true.
Proof. destruct w; try discriminate; reflexivity. Qed.

Lemma RTG_ite G n a b : (exists z, In (n, z) G) -> RTG G a -> RTG G b -> RTG G (CIfThenElse (this_ n) a b).
Proof.
  intros (z & Hin) Ha Hb0 v cxb pb o r o' Ho Hk Hb. cbn [build] in Hb.
  destruct (eval_this_val _ _ _ _ Hk Hin) as (w & Ew & Hw). rewrite Ew in Hb. cbn [bind] in Hb. rewrite (int_truthy _ _ Hw) in Hb.
  assert (Par : forall cxp pp s, knows cxp G -> parse (CIfThenElse (this_ n) a b) cxp pp s = if truthy (VInt z) then parse a cxp pp s else parse b cxp pp s).
  { intros cxp pp s Hkp. cbn [parse]. destruct (eval_this_val _ _ _ _ Hkp Hin) as (w' & Ew' & Hw'). rewrite Ew'. cbn [bind]. rewrite (int_truthy _ _ Hw'). reflexivity. }
  destruct (truthy (VInt z)).
  - destruct (Ha v cxb pb o r o' Ho Hk Hb) as (out & -> & Hp). exists out. split; [reflexivity|]. intros cxp pp pre rest base sk Hkp. rewrite Par by exact Hkp. apply Hp, Hkp.
  - destruct (Hb0 v cxb pb o r o' Ho Hk Hb) as (out & -> & Hp). exists out. split; [reflexivity|]. intros cxp pp pre rest base sk Hkp. rewrite Par by exact Hkp. apply Hp, Hkp.
Qed.

(* the branch a Switch on a known field takes: the same one when building and when parsing *)
Lemma switch_pick G n z cases d v cxb pb o r o' : In (n, z) G -> knows cxb G ->
  build (CSwitch (this_ n) cases d) v cxb pb o = Ok (r, o') ->
  exists c', (c' = d \/ In c' (map snd cases)) /\ build c' v cxb pb o = Ok (r, o') /\
    forall cxp pp s, knows cxp G -> parse (CSwitch (this_ n) cases d) cxp pp s = parse c' cxp pp s.
Proof.
  intros Hin Hk Hb. cbn [build] in Hb.
  destruct (eval_this_val _ _ _ _ Hk Hin) as (w & Ew & Hw). rewrite Ew in Hb. cbn [bind] in Hb.
  rewrite (int_hashable _ _ Hw) in Hb. cbn [negb] in Hb.
  revert Hb. induction cases as [|[kv c'] t IH]; intros Hb.
  - exists d. split; [left; reflexivity|]. split; [exact Hb|]. intros cxp pp s Hkp. cbn [parse].
    destruct (eval_this_val _ _ _ _ Hkp Hin) as (w' & Ew' & Hw'). rewrite Ew'. cbn [bind]. rewrite (int_hashable _ _ Hw'). reflexivity.
  - destruct (val_eqb w kv) eqn:E.
    + exists c'. split; [right; left; reflexivity|]. split; [exact Hb|]. intros cxp pp s Hkp. cbn [parse].
      destruct (eval_this_val _ _ _ _ Hkp Hin) as (w' & Ew' & Hw'). rewrite Ew'. cbn [bind]. rewrite (int_hashable _ _ Hw'). cbn [negb].
      rewrite (int_val_eqb _ _ kv Hw'), <- (int_val_eqb _ _ kv Hw), E. reflexivity.
    + destruct (IH Hb) as (c0 & H0 & B0 & P0). exists c0. split; [destruct H0 as [H0|H0]; [left; exact H0|right; right; exact H0]|].
      split; [exact B0|]. intros cxp pp s Hkp.
      rewrite <- (P0 cxp pp s Hkp). cbn [parse].
      destruct (eval_this_val _ _ _ _ Hkp Hin) as (w' & Ew' & Hw'). rewrite Ew'. cbn [bind]. rewrite (int_hashable _ _ Hw'). cbn [negb].
      rewrite (int_val_eqb _ _ kv Hw'), <- (int_val_eqb _ _ kv Hw), E. reflexivity.
Qed.

Lemma ite_pick G n z a b v cxb pb o r o' : In (n, z) G -> knows cxb G ->
  build (CIfThenElse (this_ n) a b) v cxb pb o = Ok (r, o') ->
  exists c', (c' = a \/ c' = b) /\ build c' v cxb pb o = Ok (r, o') /\
    forall cxp pp s, knows cxp G -> parse (CIfThenElse (this_ n) a b) cxp pp s = parse c' cxp pp s.
Proof.
  intros Hin Hk Hb. cbn [build] in Hb.
  destruct (eval_this_val _ _ _ _ Hk Hin) as (w & Ew & Hw). rewrite Ew in Hb. cbn [bind] in Hb. rewrite (int_truthy _ _ Hw) in Hb.
  assert (Par : forall cxp pp s, knows cxp G -> parse (CIfThenElse (this_ n) a b) cxp pp s = if truthy (VInt z) then parse a cxp pp s else parse b cxp pp s).
  { intros cxp pp s Hkp. cbn [parse]. destruct (eval_this_val _ _ _ _ Hkp Hin) as (w' & Ew' & Hw'). rewrite Ew'. cbn [bind]. rewrite (int_truthy _ _ Hw'). reflexivity. }
  destruct (truthy (VInt z)); [exists a|exists b]; (split; [auto|]; split; [exact Hb|exact Par]).
Qed.

(* ... as a function of the field's integer value *)
Fixpoint pick (z : Z) (cases : list (val * con)) (d : con) : con :=
  match cases with [] => d | (kv, c') :: t => if val_eqb (VInt z) kv then c' else pick z t d end.

Lemma pick_in z cases d : pick z cases d = d \/ In (pick z cases d) (map snd cases).
Proof.
  induction cases as [|[kv c'] t IH]; [left; reflexivity|]. cbn [pick map snd]. destruct (val_eqb (VInt z) kv); [right; left; reflexivity|].
  destruct IH as [IH|IH]; [left; exact IH|right; right; exact IH].
Qed.

Lemma build_switch G n z cases d cx : knows cx G -> In (n, z) G ->
  forall v p o, build (CSwitch (this_ n) cases d) v cx p o = build (pick z cases d) v cx p o.
Proof.
  intros Hk Hin v p o. cbn [build]. destruct (eval_this_val _ _ _ _ Hk Hin) as (w & Ew & Hw). rewrite Ew. cbn [bind].
  rewrite (int_hashable _ _ Hw). cbn [negb].
  induction cases as [|[kv c'] t IH]; [reflexivity|]. cbn [pick]. rewrite (int_val_eqb _ _ kv Hw). destruct (val_eqb (VInt z) kv); [reflexivity|exact IH].
Qed.

Lemma parse_switch G n z cases d cx : knows cx G -> In (n, z) G ->
  forall p s, parse (CSwitch (this_ n) cases d) cx p s = parse (pick z cases d) cx p s.
Proof.
  intros Hk Hin p s. cbn [parse]. destruct (eval_this_val _ _ _ _ Hk Hin) as (w & Ew & Hw). rewrite Ew. cbn [bind].
  rewrite (int_hashable _ _ Hw). cbn [negb].
  induction cases as [|[kv c'] t IH]; [reflexivity|]. cbn [pick]. rewrite (int_val_eqb _ _ kv Hw). destruct (val_eqb (VInt z) kv); [reflexivity|exact IH].
Qed.

Lemma build_ite G n z a b cx : knows cx G -> In (n, z) G ->
  forall v p o, build (CIfThenElse (this_ n) a b) v cx p o = build (if truthy (VInt z) then a else b) v cx p o.
Proof.
  intros Hk Hin v p o. cbn [build]. destruct (eval_this_val _ _ _ _ Hk Hin) as (w & Ew & Hw). rewrite Ew. cbn [bind].
  rewrite (int_truthy _ _ Hw). destruct (truthy (VInt z)); reflexivity.
Qed.

Lemma parse_ite G n z a b cx : knows cx G -> In (n, z) G ->
  forall p s, parse (CIfThenElse (this_ n) a b) cx p s = parse (if truthy (VInt z) then a else b) cx p s.
Proof.
  intros Hk Hin p s. cbn [parse]. destruct (eval_this_val _ _ _ _ Hk Hin) as (w & Ew & Hw). rewrite Ew. cbn [bind].
  rewrite (int_truthy _ _ Hw). destruct (truthy (VInt z)); reflexivity.
Qed.

Lemma RTG_switch G n cases d : (exists z, In (n, z) G) -> Forall (fun vc => RTG G (snd vc)) cases -> RTG G d -> RTG G (CSwitch (this_ n) cases d).
Proof.
  intros (z & Hin) Hcs Hd v cxb pb o r o' Ho Hk Hb.
  destruct (switch_pick G n z cases d v cxb pb o r o' Hin Hk Hb) as (c' & Hc & Bc & Pc).
  assert (Hc' : RTG G c').
  { destruct Hc as [->|Hc]; [exact Hd|]. apply in_map_iff in Hc as (vc & <- & Hvc). rewrite Forall_forall in Hcs. apply Hcs, Hvc. }
  destruct (Hc' v cxb pb o r o' Ho Hk Bc) as (out & -> & Hp).
  exists out. split; [reflexivity|]. intros cxp pp pre rest base sk Hkp. rewrite Pc by exact Hkp. apply Hp, Hkp.
Qed.

(* ---- the member list of a dependent struct ---- *)
Inductive dmem : list name -> list con -> Prop :=
| dm_nil Gn : dmem Gn []
| dm_def Gn n c' t : RTi2 c' -> is_stopif (CRenamed n c') = false -> dmem (n :: Gn) t -> dmem Gn (CRenamed n c' :: t)
| dm_use Gn c t : (forall G, map fst G = Gn -> RTG G c) -> is_stopif c = false -> dmem Gn t -> dmem Gn (c :: t).

Lemma names_cons c t : names (c :: t) = match name_of c with Some n => [n] | None => [] end ++ names t.
Proof. reflexivity. Qed.

Lemma not_in_map_fst (G : list (name * Z)) k : ~ In k (map fst G) -> forall z, ~ In (k, z) G.
Proof. intros H z Hin. apply H. apply (in_map fst) in Hin. exact Hin. Qed.

Lemma dloop_RT : forall Gn cs, dmem Gn cs -> NoDup (names cs) -> (forall k, In k Gn -> ~ In k (names cs)) ->
  forall G kv cxb pb o cxb' o', map fst G = Gn -> app_mode o -> knows cxb G ->
  struct_bloop build kv cs cxb pb o = Ok (cxb', o') ->
  exists out, o' = oapp o out /\
    forall cxp pp acc pre rest base sk, knows cxp G ->
      exists acc' cxp', struct_loop parse cs cxp pp acc (at_pos pre (out ++ rest) base sk) = Ok (acc', cxp', at_pos (pre ++ out) rest base sk) /\
        forall k v, In (k, v) acc' -> In (k, v) acc \/ (exists w, lookup k (ctx_vals cxb') = Some w /\ vle v w = true).
Proof.
  induction 1 as [Gn|Gn n c' t Hc Hst Ht IH|Gn c t Hc Hst Ht IH]; intros Hnd Hfresh G kv cxb pb o cxb' o' HG Ho Hk Hb; cbn [struct_bloop] in Hb.
  - injection Hb as <- <-. exists []. split; [symmetry; apply oapp_nil; exact Ho|].
    intros. exists acc, cxp. cbn [struct_loop app]. rewrite app_nil_r. split; [reflexivity|auto].
  - (* an integer field: defines n for the members after it *)
    cbn [name_of] in Hb.
    match type of Hb with context [bind ?X _] => destruct X as [subobj|] eqn:Es end; [|discriminate]. cbn [bind] in Hb.
    destruct (build (CRenamed n c') subobj (ctx_set cxb n subobj) pb o) as [[r o1]|e q] eqn:Ec.
    2:{ destruct e; try discriminate. rewrite Hst in Hb. discriminate. }
    assert (Hn_t : ~ In n (names t)) by (rewrite names_cons in Hnd; cbn [name_of app] in Hnd; inversion Hnd; assumption).
    assert (Hnd' : NoDup (names t)) by (rewrite names_cons in Hnd; cbn [name_of app] in Hnd; inversion Hnd; assumption).
    assert (Hn_G : ~ In n Gn) by (intros Hin; apply (Hfresh n Hin); rewrite names_cons; cbn [name_of app]; left; reflexivity).
    cbn [build] in Ec. destruct (Hc subobj _ _ o r o1 Ho Ec) as (z & Hz & out1 & -> & Hp1).
    assert (Hk2 : knows (ctx_set (ctx_set cxb n subobj) n r) ((n, z) :: G)).
    { apply knows_set_new; [apply knows_set_other; [exact Hk|]| |exact Hz]; apply not_in_map_fst; rewrite HG; exact Hn_G. }
    assert (Hfresh' : forall k, In k (n :: Gn) -> ~ In k (names t)).
    { intros k [<-|Hin]; [exact Hn_t|]. intros Hin'. apply (Hfresh k Hin). rewrite names_cons. apply in_or_app. right. exact Hin'. }
    destruct (IH Hnd' Hfresh' ((n, z) :: G) kv _ pb _ cxb' o' ltac:(cbn [map fst]; rewrite HG; reflexivity) (app_mode_oapp _ _) Hk2 Hb) as (out2 & -> & Hp2).
    exists (out1 ++ out2). split; [apply oapp_app|].
    intros cxp pp acc pre rest base sk Hkp. rewrite <- app_assoc. cbn [struct_loop parse]. rewrite Hp1. cbn [name_of].
    assert (Hkp2 : knows (ctx_set cxp n (VInt z)) ((n, z) :: G)).
    { apply knows_set_new; [exact Hkp| |reflexivity]. apply not_in_map_fst. rewrite HG. exact Hn_G. }
    destruct (Hp2 (ctx_set cxp n (VInt z)) pp (dict_set n (VInt z) acc) (pre ++ out1) rest base sk Hkp2) as (acc' & cxp' & E2 & I2).
    exists acc', cxp'. rewrite E2, <- app_assoc. split; [reflexivity|].
    intros k v Hin. destruct (I2 k v Hin) as [Hold|Hnew]; [|right; exact Hnew].
    apply in_dict_set in Hold. destruct Hold as [[-> ->]|Hold]; [|left; exact Hold].
    right. exists r. split; [|apply vle_int_obj; exact Hz].
    rewrite (bloop_preserves kv t _ pb _ cxb' _ Hb n Hn_t). rewrite ctx_vals_set. apply lookup_dict_set_same.
  - (* a member that only reads what is known *)
    match type of Hb with context [bind ?X _] => destruct X as [subobj|] eqn:Es end; [|discriminate]. cbn [bind] in Hb.
    set (cx1 := match name_of c with Some n => ctx_set cxb n subobj | None => cxb end) in *.
    destruct (build c subobj cx1 pb o) as [[r o1]|e q] eqn:Ec.
    2:{ destruct e; try discriminate. rewrite Hst in Hb. discriminate. }
    set (cx2 := match name_of c with Some n => ctx_set cx1 n r | None => cx1 end) in *.
    assert (Hnd' : NoDup (names t)) by (rewrite names_cons in Hnd; apply nodup_app_r in Hnd; exact Hnd).
    assert (Hfresh' : forall k, In k Gn -> ~ In k (names t)).
    { intros k Hin Hin'. apply (Hfresh k Hin). rewrite names_cons. apply in_or_app. right. exact Hin'. }
    assert (Hname : forall n, name_of c = Some n -> forall z, ~ In (n, z) G).
    { intros n En. apply not_in_map_fst. rewrite HG. intros Hin. apply (Hfresh n Hin). rewrite names_cons, En. left. reflexivity. }
    assert (Hk1 : knows cx1 G) by (unfold cx1; destruct (name_of c) as [n|] eqn:En; [apply knows_set_other; [exact Hk|apply Hname; reflexivity]|exact Hk]).
    assert (Hk2 : knows cx2 G) by (unfold cx2; destruct (name_of c) as [n|] eqn:En; [apply knows_set_other; [exact Hk1|apply Hname; reflexivity]|exact Hk1]).
    destruct (Hc G HG subobj cx1 pb o r o1 Ho Hk1 Ec) as (out1 & -> & Hp1).
    destruct (IH Hnd' Hfresh' G kv cx2 pb _ cxb' o' HG (app_mode_oapp _ _) Hk2 Hb) as (out2 & -> & Hp2).
    exists (out1 ++ out2). split; [apply oapp_app|].
    intros cxp pp acc pre rest base sk Hkp. rewrite <- app_assoc.
    destruct (Hp1 cxp pp pre (out2 ++ rest) base sk Hkp) as (r' & E1 & L1).
    cbn [struct_loop]. rewrite E1.
    destruct (name_of c) as [n|] eqn:En.
    + assert (Hkp2 : knows (ctx_set cxp n r') G) by (apply knows_set_other; [exact Hkp|apply Hname; reflexivity]).
      destruct (Hp2 (ctx_set cxp n r') pp (dict_set n r' acc) (pre ++ out1) rest base sk Hkp2) as (acc' & cxp' & E2 & I2).
      exists acc', cxp'. rewrite E2, <- app_assoc. split; [reflexivity|].
      intros k v Hin. destruct (I2 k v Hin) as [Hold|Hnew]; [|right; exact Hnew].
      apply in_dict_set in Hold. destruct Hold as [[-> ->]|Hold]; [|left; exact Hold].
      right. exists r. split; [|exact L1].
      assert (Hnot : ~ In n (names t)) by (rewrite names_cons, En in Hnd; cbn [app] in Hnd; inversion Hnd; assumption).
      rewrite (bloop_preserves kv t cx2 pb _ cxb' _ Hb n Hnot). unfold cx2. rewrite ctx_vals_set. apply lookup_dict_set_same.
    + destruct (Hp2 cxp pp acc (pre ++ out1) rest base sk Hkp) as (acc' & cxp' & E2 & I2).
      exists acc', cxp'. rewrite E2, <- app_assoc. split; [reflexivity|exact I2].
Qed.

Lemma knows_update_push cxb kv : knows (ctx_update (push_scope cxb) kv) [].
Proof.
  split; [|intros n z []]. unfold ctx_update.
  assert (H : forall l c, c_scopes c <> [] -> c_scopes (fold_left (fun c e => ctx_set c (fst e) (snd e)) l c) <> []).
  { induction l as [|x t IH]; intros c Hc; cbn [fold_left]; [exact Hc|]. apply IH. unfold ctx_set. destruct (c_scopes c); [contradiction|discriminate]. }
  apply H. unfold push_scope. cbn. discriminate.
Qed.

Theorem RT_dstruct : forall cs, dmem [] cs -> NoDup (names cs) -> RT (CStruct cs).
Proof.
  intros cs Hd Hnd v cxb pb o r o' Ho Hb. cbn [build] in Hb.
  destruct (match v with VNone => Ok [] | VDict kv => Ok kv | _ => unsupported end) as [kv|] eqn:Ek; [|discriminate].
  cbn [bind] in Hb.
  destruct (struct_bloop build kv cs (ctx_update (push_scope cxb) kv) pb o) as [[cxb' o1]|] eqn:Es; [|discriminate].
  cbn [bind] in Hb. injection Hb as <- <-.
  destruct (dloop_RT [] cs Hd Hnd (fun k H => match H with end) [] kv _ pb o cxb' o1 eq_refl Ho (knows_update_push cxb kv) Es) as (out & -> & Hp).
  exists out. split; [reflexivity|].
  intros cxp pp pre rest base sk.
  destruct (Hp (push_scope cxp) pp [] pre rest base sk (knows_push cxp)) as (acc' & cxp' & E & I).
  exists (VDict acc'). split; [cbn [parse]; rewrite E; reflexivity|].
  rewrite vle_dict. unfold dict_le. apply forallb_forall. intros [k x] Hin. cbn [fst snd].
  destruct (is_private k); [reflexivity|]. destruct (I k x Hin) as [[]|(w & -> & L)]. exact L.
Qed.

(* ---- the syntactic fragment: frag with dependent structs, closed under the same wrappers ---- *)
Definition memb (n : name) (l : list name) : bool := existsb (name_eqb n) l.

(* the member checks, over the fragment test D for nested constructs (D is [dfrag false] below) *)
Section Members.
  Variable D : con -> bool.
  (* a member sized by one of the integer fields G defined before it *)
  Definition szb0_ (G : list name) (x : con) : bool :=
    match x with
    | CBytes (XItem (XRoot RThis) (KName k)) => memb k G
    | CArray (XItem (XRoot RThis) (KName k)) el => memb k G && D el
    | CPadded (XItem (XRoot RThis) (KName k)) el _ => memb k G && D el
    | CFixedSized (XItem (XRoot RThis) (KName k)) el => memb k G && D el
    | _ => false
    end.
  Definition brk_ (G : list name) (x : con) : bool := szb0_ G x || D x.
  (* ... or chosen by one: Switch(this.k, {..}, default), IfThenElse(this.k, a, b) with branches that are sized or closed *)
  Definition szb_ (G : list name) (x : con) : bool :=
    szb0_ G x ||
    match x with
    | CSwitch (XItem (XRoot RThis) (KName k)) cases d => memb k G && forallb (fun vc => brk_ G (snd vc)) cases && brk_ G d
    | CIfThenElse (XItem (XRoot RThis) (KName k)) a b => memb k G && brk_ G a && brk_ G b
    | _ => false
    end.
  Definition strip (m : con) : con := match m with CRenamed _ c' => c' | _ => m end.
  Definition memok_ (G : list name) (m : con) : bool := szb_ G (strip m) || D (strip m).
  Definition def_name (m : con) : option name :=
    match m with CRenamed n c' => if int_leaf c' then Some n else None | _ => None end.
  Fixpoint dgo_ (G : list name) (ms : list con) {struct ms} : bool :=
    match ms with
    | [] => true
    | m :: t => match def_name m with Some n => dgo_ (n :: G) t | None => memok_ G m && dgo_ G t end
    end.
End Members.

Fixpoint dfrag (e : bool) (c : con) {struct c} : bool :=
  match c with
  | CFormat _ f => negb (fcode_float f)
  | CBytesInt (XConst (VInt n)) _ _ => ((0 <? n) && (n <=? 65536))%Z
  | CVarInt | CZigZag | CPass => true
  | CBytes (XConst (VInt n)) => (0 <=? n)%Z
  | CGreedyBytes => e
  | CRenamed _ c' => dfrag e c'
  | CConst (VInt _) c' => int_leaf c'
  | CConst (VBytes d) (CBytes (XConst (VInt n))) => (n =? Z.of_nat (length d))%Z
  | CStruct cs => nodupb (names cs) && dgo_ (dfrag false) [] cs
  | CSequence cs => forallb (dfrag false) cs
  | CArray (XConst (VInt n)) c' => (0 <=? n)%Z && dfrag false c'
  | CPrefixed lc c' false => int_leaf lc && dfrag true c'
  | CPadded (XConst (VInt n)) c' _ => (0 <=? n)%Z && dfrag false c'
  | CAligned (XConst (VInt m)) c' _ => (2 <=? m)%Z && dfrag false c'
  | CFixedSized (XConst (VInt n)) c' => (0 <=? n)%Z && dfrag false c'
  | _ => false
  end.

Definition szb0 := szb0_ (dfrag false).
Definition brk := brk_ (dfrag false).
Definition szb := szb_ (dfrag false).
Definition memok := memok_ (dfrag false).
Definition dgo := dgo_ (dfrag false).

Lemma szb0_szb G x : szb0 G x = true -> szb G x = true.
Proof. unfold szb, szb0, szb_. intros ->. reflexivity. Qed.

Lemma dfrag_struct e cs : dfrag e (CStruct cs) = nodupb (names cs) && dgo [] cs.
Proof. reflexivity. Qed.
Lemma dgo_cons G m t : dgo G (m :: t) = match def_name m with Some n => dgo (n :: G) t | None => memok G m && dgo G t end.
Proof. reflexivity. Qed.
Lemma memok_eq G m : memok G m = szb G (strip m) || dfrag false (strip m).
Proof. reflexivity. Qed.
Lemma def_name_some m n : def_name m = Some n -> exists c', m = CRenamed n c' /\ int_leaf c' = true.
Proof. destruct m; try discriminate. cbn [def_name]. destruct (int_leaf m) eqn:E; [|discriminate]. intros H. injection H as <-. eauto. Qed.

Lemma dfrag_not_stopif e c : dfrag e c = true -> is_stopif c = false.
Proof. destruct c; try reflexivity; try discriminate. cbn [dfrag is_stopif]. destruct c; try reflexivity. discriminate. Qed.

Lemma dfrag_no_stopif cs : forallb (dfrag false) cs = true -> no_stopif cs.
Proof. intros H. apply Forall_forall. intros c Hin. rewrite forallb_forall in H. eapply dfrag_not_stopif. apply H, Hin. Qed.

Lemma memb_in k (Gv : list (name * Z)) : memb k (map fst Gv) = true -> exists z, In (k, z) Gv.
Proof.
  unfold memb. intros H. apply existsb_exists in H as (x & Hin & E). apply name_eqb_eq in E. subst x.
  apply in_map_iff in Hin as ([k' z] & E & Hin). cbn in E. subst k'. exists z. exact Hin.
Qed.

Definition SZ (c : con) : Prop := forall Gn, szb Gn c = true -> forall Gv, map fst Gv = Gn -> RTG Gv c.
Definition MEM (c : con) : Prop :=
  forall Gn, memok Gn c = true -> is_stopif c = false /\ forall Gv, map fst Gv = Gn -> RTG Gv c.

Lemma szb_not_stopif G c : szb G c = true -> is_stopif c = false.
Proof. destruct c; try discriminate; reflexivity. Qed.

Lemma MEM_plain c : (forall n c', c <> CRenamed n c') -> (dfrag false c = true -> RT c) -> SZ c -> MEM c.
Proof.
  intros Hnr HA HS Gn Hm.
  assert (E : memok Gn c = szb Gn c || dfrag false c) by (destruct c; try reflexivity; exfalso; eapply Hnr; reflexivity).
  rewrite E in Hm. apply orb_prop in Hm as [Hm|Hm].
  - split; [eapply szb_not_stopif; exact Hm|]. intros Gv HG. apply (HS Gn Hm Gv HG).
  - split; [eapply dfrag_not_stopif; exact Hm|]. intros Gv _. apply RTG_of_RT, HA, Hm.
Qed.

Lemma dgo_dmem : forall ms, Forall MEM ms -> forall G, dgo G ms = true -> dmem G ms.
Proof.
  induction 1 as [|m t Hm Ht IH]; intros G Hg; [constructor|]. rewrite dgo_cons in Hg.
  destruct (def_name m) as [n|] eqn:Ed.
  - destruct (def_name_some m n Ed) as (c' & -> & El).
    apply dm_def; [apply RTi2_of_int_leaf, El|destruct c'; try discriminate El; reflexivity|apply IH, Hg].
  - apply andb_prop in Hg as [H1 H2]. destruct (Hm G H1) as [Hs Hr]. apply dm_use; [exact Hr|exact Hs|apply IH, H2].
Qed.

Definition PD (c : con) : Prop := (dfrag false c = true -> RT c) /\ (dfrag true c = true -> RTe c) /\ SZ c /\ MEM c.

Lemma brk_RTG c Gn Gv : PD c -> brk Gn c = true -> map fst Gv = Gn -> RTG Gv c.
Proof.
  intros (I1 & _ & I3 & _) Hb HG. unfold brk, brk_ in Hb. apply orb_prop in Hb as [Hb|Hb];
    [apply (I3 Gn (szb0_szb _ _ Hb) Gv HG)|apply RTG_of_RT, I1, Hb].
Qed.

Theorem dep_roundtrip : forall c, PD c.
Proof.
  assert (NoSZ : forall c, (forall G, szb G c = false) -> SZ c) by (intros c H Gn Hs; rewrite H in Hs; discriminate).
  assert (Both : forall c, (forall n c', c <> CRenamed n c') -> (dfrag false c = true -> RT c) -> (forall e, dfrag e c = dfrag false c) -> SZ c -> PD c).
  { intros c Hnr H E HS. split; [exact H|]. split; [intros Ht; apply RT_RTe, H; rewrite <- (E true); exact Ht|]. split; [exact HS|apply MEM_plain; assumption]. }
  assert (Dead : forall c, (forall n c', c <> CRenamed n c') -> (forall e, dfrag e c = false) -> (forall G, szb G c = false) -> PD c).
  { intros c Hnr Hd Hs. apply Both; [exact Hnr| |intros e; rewrite !Hd; reflexivity|apply NoSZ, Hs]. intros Hf. rewrite Hd in Hf. discriminate. }
  induction c using con_ind2; try (apply Dead; [intros; discriminate|reflexivity|reflexivity]).
  - (* Format *) apply Both; [intros; discriminate| |reflexivity|apply NoSZ; reflexivity]. intros Hfr. cbn in Hfr. apply RT_format_int. apply negb_true_iff. exact Hfr.
  - (* BytesInt *) apply Both; [intros; discriminate| |reflexivity|apply NoSZ; reflexivity]. intros Hfr. cbn in Hfr. destruct a0; try discriminate. destruct v; try discriminate.
    apply RT_bytesint. lia.
  - apply Both; [intros; discriminate| |reflexivity|apply NoSZ; reflexivity]. intros _. apply RT_varint.
  - apply Both; [intros; discriminate| |reflexivity|apply NoSZ; reflexivity]. intros _. apply RT_zigzag.
  - (* Bytes *) apply Both; [intros; discriminate| |reflexivity|].
    + intros Hfr. cbn in Hfr. destruct a0; try discriminate. destruct v; try discriminate. apply RT_bytes. lia.
    + intros Gn Hm Gv HG. unfold szb, szb_ in Hm. rewrite orb_false_r in Hm. cbn [szb0_] in Hm. destruct a0 as [| |a0 k|v| | |]; try discriminate Hm.
      destruct a0 as [[]| | | | | |]; try discriminate Hm. destruct k as [k|]; try discriminate Hm.
      apply (RTG_sized Gv k _ CBytes); [apply sz_bytes|]. apply memb_in. rewrite HG. exact Hm.
  - (* GreedyBytes *) split; [intros Hfr; discriminate|]. split; [intros _; apply RTe_greedybytes|]. split; [apply NoSZ; reflexivity|].
    intros Gn Hm. discriminate Hm.
  - apply Both; [intros; discriminate| |reflexivity|apply NoSZ; reflexivity]. intros _. apply RT_pass.
  - (* Struct *) apply Both; [intros; discriminate| |intros e; rewrite !dfrag_struct; reflexivity|apply NoSZ; reflexivity].
    intros Hfr. rewrite dfrag_struct in Hfr. apply andb_prop in Hfr as [Hn Hg].
    apply RT_dstruct; [|apply nodupb_NoDup; exact Hn]. apply dgo_dmem; [|exact Hg].
    eapply Forall_impl; [|exact H]. intros c (_ & _ & _ & Hc). exact Hc.
  - (* Sequence *) apply Both; [intros; discriminate| |reflexivity|apply NoSZ; reflexivity]. intros Hfr. cbn [dfrag] in Hfr.
    apply RT_sequence; [|apply dfrag_no_stopif; exact Hfr].
    rewrite Forall_forall in H |- *. intros c Hin. apply (H c Hin). rewrite forallb_forall in Hfr. apply Hfr, Hin.
  - (* IfThenElse on a known field *) apply Both; [intros; discriminate|intros Hfr; discriminate Hfr|reflexivity|].
    intros Gn Hm Gv HG. unfold szb, szb_ in Hm. cbn [szb0_ orb] in Hm.
    destruct a0 as [| |a0 k|v| | |]; try discriminate Hm. destruct a0 as [[]| | | | | |]; try discriminate Hm. destruct k as [k|]; try discriminate Hm.
    apply andb_prop in Hm as [Hm Hb2]. apply andb_prop in Hm as [Hk Hb1].
    apply RTG_ite; [apply memb_in; rewrite HG; exact Hk|apply (brk_RTG _ Gn); assumption|apply (brk_RTG _ Gn); assumption].
  - (* Switch on a known field *) apply Both; [intros; discriminate|intros Hfr; discriminate Hfr|reflexivity|].
    intros Gn Hm Gv HG. unfold szb, szb_ in Hm. cbn [szb0_ orb] in Hm.
    destruct a0 as [| |a0 k|v| | |]; try discriminate Hm. destruct a0 as [[]| | | | | |]; try discriminate Hm. destruct k as [k|]; try discriminate Hm.
    apply andb_prop in Hm as [Hm Hb2]. apply andb_prop in Hm as [Hk Hb1].
    apply RTG_switch; [apply memb_in; rewrite HG; exact Hk| |apply (brk_RTG _ Gn); assumption].
    rewrite Forall_forall in H |- *. intros vc Hin. apply (brk_RTG _ Gn); [apply H, Hin| |exact HG].
    rewrite forallb_forall in Hb1. apply Hb1, Hin.
  - (* Array *) destruct IHc as (I1 & _ & _ & _). apply Both; [intros; discriminate| |intros e; destruct a0 as [| | |v| | |]; try reflexivity; destruct v; reflexivity|].
    + intros Hfr. cbn [dfrag] in Hfr. destruct a0; try discriminate. destruct v; try discriminate.
      apply andb_prop in Hfr as [Hn Hc]. apply RT_array; [lia|]. apply I1, Hc.
    + intros Gn Hm Gv HG. unfold szb, szb_ in Hm. rewrite orb_false_r in Hm. cbn [szb0_] in Hm. destruct a0 as [| |a0 k|v| | |]; try discriminate Hm.
      destruct a0 as [[]| | | | | |]; try discriminate Hm. destruct k as [k|]; try discriminate Hm.
      apply andb_prop in Hm as [Hk Hc].
      apply (RTG_sized Gv k _ (fun x => CArray x c)); [apply sz_array, I1, Hc|]. apply memb_in. rewrite HG. exact Hk.
  - (* Renamed *) destruct IHc as (I1 & I2 & I3 & _). split; [|split; [|split]].
    + intros Hfr. cbn [dfrag] in Hfr. apply RT_renamed, I1, Hfr.
    + intros Hfr. cbn [dfrag] in Hfr. apply RTe_renamed, I2, Hfr.
    + apply NoSZ. reflexivity.
    + intros Gn Hm. rewrite memok_eq in Hm. cbn [strip] in Hm. apply orb_prop in Hm as [Hm|Hm].
      * split; [pose proof (szb_not_stopif _ _ Hm); destruct c; try reflexivity; discriminate|].
        intros Gv HG. apply RTG_renamed, (I3 Gn Hm Gv HG).
      * split; [pose proof (dfrag_not_stopif _ _ Hm); destruct c; try reflexivity; discriminate|].
        intros Gv _. apply RTG_of_RT, RT_renamed, I1, Hm.
  - (* Const *) apply Both; [intros; discriminate| |intros e; destruct a0; reflexivity|apply NoSZ; reflexivity]. intros Hfr. cbn [dfrag] in Hfr. destruct a0; try discriminate.
    + apply RT_const_int. apply RTi_of_int_leaf. exact Hfr.
    + destruct c; try discriminate. destruct len; try discriminate. destruct v; try discriminate.
      apply Z.eqb_eq in Hfr. subst z. apply RT_const_bytes.
  - (* Padded *) destruct IHc as (I1 & _ & _ & _). apply Both; [intros; discriminate| |intros e; destruct a0 as [| | |v| | |]; try reflexivity; destruct v; reflexivity|].
    + intros Hfr. cbn [dfrag] in Hfr. destruct a0; try discriminate. destruct v; try discriminate.
      apply andb_prop in Hfr as [Hn Hc]. apply RT_padded; [lia|]. apply I1, Hc.
    + intros Gn Hm Gv HG. unfold szb, szb_ in Hm. rewrite orb_false_r in Hm. cbn [szb0_] in Hm. destruct a0 as [| |a0 k|v| | |]; try discriminate Hm.
      destruct a0 as [[]| | | | | |]; try discriminate Hm. destruct k as [k|]; try discriminate Hm.
      apply andb_prop in Hm as [Hk Hc].
      apply (RTG_sized Gv k _ (fun x => CPadded x c a2)); [apply sz_padded, I1, Hc|]. apply memb_in. rewrite HG. exact Hk.
  - (* Aligned *) destruct IHc as (I1 & _ & _ & _).
    apply Both; [intros; discriminate| |intros e; destruct a0 as [| | |v| | |]; try reflexivity; destruct v; reflexivity|apply NoSZ; reflexivity].
    intros Hfr. cbn [dfrag] in Hfr. destruct a0; try discriminate. destruct v; try discriminate.
    apply andb_prop in Hfr as [Hn Hc]. apply RT_aligned; [lia|]. apply I1, Hc.
  - (* Prefixed *) destruct IHc2 as (_ & I2 & _ & _). apply Both; [intros; discriminate| |intros e; destruct a2; reflexivity|apply NoSZ; reflexivity].
    intros Hfr. cbn [dfrag] in Hfr. destruct a2; [discriminate|].
    apply andb_prop in Hfr as [Hl Hc]. apply RT_prefixed; [apply RTi_of_int_leaf; exact Hl|]. apply I2, Hc.
  - (* FixedSized *) destruct IHc as (I1 & _ & _ & _). apply Both; [intros; discriminate| |intros e; destruct a0 as [| | |v| | |]; try reflexivity; destruct v; reflexivity|].
    + intros Hfr. cbn [dfrag] in Hfr. destruct a0; try discriminate. destruct v; try discriminate.
      apply andb_prop in Hfr as [Hn Hc]. apply RT_fixedsized; [lia|]. apply I1, Hc.
    + intros Gn Hm Gv HG. unfold szb, szb_ in Hm. rewrite orb_false_r in Hm. cbn [szb0_] in Hm. destruct a0 as [| |a0 k|v| | |]; try discriminate Hm.
      destruct a0 as [[]| | | | | |]; try discriminate Hm. destruct k as [k|]; try discriminate Hm.
      apply andb_prop in Hm as [Hk Hc].
      apply (RTG_sized Gv k _ (fun x => CFixedSized x c)); [apply sz_fixed, I1, Hc|]. apply memb_in. rewrite HG. exact Hk.
Qed.

(* C01 for dependent layouts, any nesting depth *)
Theorem C01_roundtrip_dependent : forall c, dfrag false c = true -> RT c.
Proof. intros c H. apply dep_roundtrip. exact H. Qed.

Theorem C01_build_then_parse_dependent : forall c v kw r out, dfrag false c = true ->
  build_bytes c v kw = Ok (r, out) ->
  forall kw', exists r', parse_bytes c kw' out = Ok r' /\ vle r' r = true.
Proof.
  intros c v kw r out Hf Hb kw'. unfold build_bytes in Hb.
  destruct (build c v (top_ctx kw MBuild) [] ostream_new) as [[r0 o]|] eqn:E; [|discriminate]. cbn [bind] in Hb. injection Hb as <- <-.
  destruct (C01_roundtrip_dependent c Hf v _ [] ostream_new r0 o app_mode_new E) as (out & -> & Hp).
  destruct (Hp (top_ctx kw' MParse) [] [] [] 0%N true) as (r' & Ep & L).
  exists r'. split; [|exact L]. unfold parse_bytes, istream_of. rewrite odata_new_oapp.
  rewrite app_nil_r in Ep. unfold at_pos in Ep. cbn [app nlen length N.of_nat] in Ep. rewrite Ep. reflexivity.
Qed.

(* non-vacuity: a header with two counts, a payload sized by the first, records counted by the second each with its own
   length field, a padded trailer sized by the first *)
Definition ex_dep : con :=
  CStruct [CRenamed [x6e] (CFormat Big FB);
           CRenamed [x6b] CVarInt;
           CRenamed [x64] (CBytes (this_ [x6e]));
           CRenamed [x72] (CArray (this_ [x6b])
             (CStruct [CRenamed [x6c] (CFormat Little FH); CRenamed [x70] (CBytes (this_ [x6c])); CRenamed [x63] (CConst (VInt 7) (CFormat Big FB))]));
           CRenamed [x74] (CPadded (this_ [x6e]) (CFormat Big FB) x00)].

Lemma ex_dep_in_fragment : dfrag false ex_dep = true /\ frag false ex_dep = false.
Proof. split; reflexivity. Qed.

Example ex_dep_runs :
  let v := VDict [([x6e], VInt 2); ([x6b], VInt 2); ([x64], VBytes [x41; x42]);
                  ([x72], VList [VDict [([x6c], VInt 1); ([x70], VBytes [x58])]; VDict [([x6c], VInt 0); ([x70], VBytes [])]]);
                  ([x74], VInt 9)] in
  exists r out, build_bytes ex_dep v [] = Ok (r, out) /\ length out = 13 /\ exists r', parse_bytes ex_dep [] out = Ok r' /\ vle r' r = true.
Proof. eexists. eexists. split; [vm_compute; reflexivity|]. split; [reflexivity|]. eexists. split; [vm_compute; reflexivity|vm_compute; reflexivity]. Qed.

(* a tag-length-value record: the payload is CHOSEN by the tag and SIZED by the length *)
Definition ex_tlv : con :=
  CStruct [CRenamed [x74] (CFormat Big FB);
           CRenamed [x6e] (CFormat Big FB);
           CRenamed [x76] (CSwitch (this_ [x74]) [(VInt 1, CBytes (this_ [x6e])); (VInt 2, CArray (this_ [x6e]) (CFormat Big FH))] CPass);
           CRenamed [x66] (CIfThenElse (this_ [x74]) CVarInt CPass)].

Lemma ex_tlv_in_fragment : dfrag false ex_tlv = true.
Proof. reflexivity. Qed.

Lemma ex_tlv_runs :
  match build_bytes ex_tlv (VDict [([x74], VInt 2); ([x6e], VInt 2); ([x76], VList [VInt 258; VInt 3]); ([x66], VInt 300)]) [] with
  | Ok (r, out) => match parse_bytes ex_tlv [] out with Ok r' => vle r' r && bytes_eqb out [x02; x02; x01; x02; x00; x03; xac; x02] | _ => false end
  | _ => false
  end = true.
Proof. vm_compute. reflexivity. Qed.
