(* sizeof never leaks KeyError / AttributeError: for every construct of the model, every context and
   path, the result of sizeof is a number, SizeofError, or an error that is not a missing-key error. *)
From Coq Require Import ZArith NArith List Bool Lia.
From Coq Require Import Strings.Byte.
Require Import Bytes Value Expr Codec Stream Syntax Sizeof ConInd.
Import ListNotations.

Definition nokey {A} (r : res A) : Prop :=
  match r with Err EKey _ | Err EAttr _ => False | _ => True end.

Lemma nokey_catch {A} (r : res A) p : nokey (catch_key r p).
Proof. destruct r as [a|e q]; cbn; [exact I|]. destruct e; cbn; exact I. Qed.

Lemma nokey_bind {A B} (x : res A) (f : A -> res B) :
  nokey x -> (forall a, nokey (f a)) -> nokey (bind x f).
Proof. destruct x as [a|e q]; cbn; intros Hx Hf; [apply Hf|exact Hx]. Qed.

Lemma nokey_ok {A} (a : A) : nokey (Ok a).
Proof. exact I. Qed.

Lemma nokey_raise {A} e p : e <> EKey -> e <> EAttr -> nokey (@raise A e p).
Proof. intros H1 H2. unfold raise. destruct e; cbn; try exact I; congruence. Qed.

Lemma nokey_if {A} (b : bool) (x y : res A) : nokey x -> nokey y -> nokey (if b then x else y).
Proof. destruct b; auto. Qed.

Ltac nk :=
  repeat first
    [ apply nokey_catch | apply nokey_ok | exact I
    | apply nokey_raise; discriminate
    | apply nokey_if
    | apply nokey_bind; [|intros ?]
    | assumption ].

Ltac nk_ih :=
  match goal with
  | H : forall (cx : ctx) (p : path), nokey (sizeof ?c cx p) |- nokey (sizeof ?c _ _) => apply H
  end.

Ltac nk2 := repeat first [ nk_ih | progress nk ].

Lemma nokey_sum (cs : list con) cx p :
  Forall (fun c => forall cx p, nokey (sizeof c cx p)) cs -> nokey (sum_sizes sizeof cx p cs).
Proof.
  induction 1 as [|c t Hc Ht IH]; cbn [sum_sizes]; [exact I|].
  apply nokey_bind; [apply Hc|intros a]. apply nokey_bind; [exact IH|intros b; exact I].
Qed.

Theorem sizeof_nokey : forall c cx p, nokey (sizeof c cx p).
Proof.
  induction c using con_ind2; intros cx p; cbn [sizeof]; try solve [nk2].
  all: try (destruct a2, a4; solve [nk2]).
  all: try (destruct a5; solve [nk2]).
Qed.
