(* C19 for DEPENDENT layouts: Structs (nested to any depth) whose members are flat fields, integer fields, and fields SIZED by
   an earlier integer field of the same Struct -- Bytes(this.n), Array(this.n, x) with x an integer or float field.  The exporter writes the size
   expression into the schema; reading the schema evaluates it in the scope the earlier fields were read into, which holds
   the same integers as the scope the construct parsed them into. *)
From Coq Require Import ZArith NArith List Bool Lia ZifyBool ZifyN ZifyNat.
From Coq Require Import Strings.Byte.
Require Import Bytes Value Expr Codec Float Stream Syntax Sizeof Parse Build BytesFacts StreamFacts PrimFacts ConInd RTFacts DepRT ErrDep Ksy KsyFacts KsyNest KsyGen.
Import ListNotations.
Local Open Scope nat_scope.

(* ---- the leaves ---- *)
Definition ksized (m : con) : bool :=
  match m with
  | CBytes (XItem (XRoot RThis) (KName _)) => true
  | CArray (XItem (XRoot RThis) (KName _)) (CFormat _ _) => true
  | _ => false
  end.
Definition eleaf (m : con) : bool := flat m || ksized m.
Definition efield (n : name) (m : con) : kfield :=
  match m with
  | CBytes (XItem (XRoot RThis) (KName k)) => with_id (Some n) (with_size (KSExpr (this_ k)) blank)
  | CArray (XItem (XRoot RThis) (KName k)) (CFormat en f) =>
      with_id (Some n) (with_rep (KRExpr (KSExpr (this_ k))) (with_ty (KTPrim (prim_of en f)) blank))
  | _ => field_of n m
  end.

Lemma efield_flat n m : flat m = true -> efield n m = field_of n m.
Proof.
  destruct m; try discriminate; try reflexivity; intros H; cbn in H.
  - destruct len; try discriminate. reflexivity.
  - destruct count; try discriminate. reflexivity.
Qed.

Lemma eleaf_struct cs : eleaf (CStruct cs) = false.
Proof. reflexivity. Qed.

Lemma eleaf_emit n m g : eleaf m = true -> compile_full (emit (CRenamed n m)) g false = Done (efield n m) g.
Proof.
  unfold eleaf. intros H. apply orb_prop in H as [H|H]; [rewrite efield_flat by exact H; apply emit_flat, H|].
  destruct m; try discriminate H.
  - destruct len as [| |a k|v| | |]; try discriminate H. destruct a as [[]| | | | | |]; try discriminate H. destruct k as [k|]; try discriminate H. reflexivity.
  - destruct count as [| |a k|v| | |]; try discriminate H. destruct a as [[]| | | | | |]; try discriminate H. destruct k as [k|]; try discriminate H.
    destruct m; try discriminate H. cbn. unfold prim_of. destruct (fcode_float f); reflexivity.
Qed.

Lemma efield_id n m : f_id (efield n m) = Some n.
Proof.
  unfold efield. destruct m; try apply f_id_field_of.
  - destruct len as [| |a k|v| | |]; try apply f_id_field_of. destruct a as [[]| | | | | |]; try apply f_id_field_of. destruct k; [reflexivity|apply f_id_field_of].
  - destruct count as [| |a k|v| | |]; try apply f_id_field_of. destruct a as [[]| | | | | |]; try apply f_id_field_of. destruct k; [|apply f_id_field_of].
    destruct m; try apply f_id_field_of. reflexivity.
Qed.

Lemma eleaf_nostop n m : eleaf m = true -> is_stopif (CRenamed n m) = false.
Proof. destruct m; try reflexivity. discriminate. Qed.

(* ---- reading a sized leaf: it is the leaf with the size written out ---- *)
Lemma ifield_bytes_subst sch n k z cx f s : eval_int cx (this_ k) = Ok z ->
  ifield (S (S f)) sch (efield n (CBytes (this_ k))) cx [] s = ifield (S (S f)) sch (field_of n (CBytes (kint z))) cx [] s.
Proof.
  intros E. unfold efield, this_, field_of, kint.
  cbn [ifield ione with_id with_size blank f_cond f_rep f_contents f_size f_eos f_term f_ty f_enc f_pad f_flag f_enum bind negb ksize_val].
  fold (this_ k). rewrite E. reflexivity.
Qed.

Lemma ifield_array_subst sch n k en fc z cx f s : eval_int cx (this_ k) = Ok z ->
  ifield (S (S f)) sch (efield n (CArray (this_ k) (CFormat en fc))) cx [] s = ifield (S (S f)) sch (field_of n (CArray (kint z) (CFormat en fc))) cx [] s.
Proof.
  intros E. unfold efield, this_, field_of, kint.
  cbn [ifield ione with_id with_ty with_rep blank f_cond f_rep f_contents f_size f_eos f_term f_ty f_enc f_pad f_flag f_enum bind negb ksize_val].
  fold (this_ k). rewrite E. reflexivity.
Qed.

Definition kuse (G : list name) (m : con) : bool :=
  flat m ||
  match m with
  | CBytes (XItem (XRoot RThis) (KName k)) => memb k G
  | CArray (XItem (XRoot RThis) (KName k)) (CFormat _ _) => memb k G
  | _ => false
  end.

Lemma kuse_eleaf G m : kuse G m = true -> eleaf m = true.
Proof.
  unfold kuse, eleaf. intros H. apply orb_prop in H as [->|H]; [reflexivity|]. apply orb_true_iff. right.
  destruct m; try discriminate H.
  - destruct len as [| |a k|v| | |]; try discriminate H. destruct a as [[]| | | | | |]; try discriminate H. destruct k; [reflexivity|discriminate H].
  - destruct count as [| |a k|v| | |]; try discriminate H. destruct a as [[]| | | | | |]; try discriminate H. destruct k; [|discriminate H].
    destruct m; try discriminate H. reflexivity.
Qed.

Lemma leaf_read sch n m : forall Gv cx cx' p s v s' f, kuse (map fst Gv) m = true -> knows cx Gv -> knows cx' Gv ->
  parse (CRenamed n m) cx p s = Ok (v, s') ->
  exists kv, ifield (S (S f)) sch (efield n m) cx' [] s = Ok (kv, s') /\ vrel m kv v.
Proof.
  intros Gv cx cx' p s v s' f Hu Hk Hk' Ep. unfold kuse in Hu. apply orb_prop in Hu as [Hf|Hu].
  - rewrite efield_flat by exact Hf. apply (ifield_flat sch n m Hf cx cx' p s v s' f Ep).
  - destruct m; try discriminate Hu.
    + (* Bytes(this.k) *)
      destruct len as [| |a k|v0| | |]; try discriminate Hu. destruct a as [[]| | | | | |]; try discriminate Hu. destruct k as [k|]; try discriminate Hu.
      fold (this_ k) in *. destruct (memb_in k Gv Hu) as (z & Hin).
      pose proof (eval_this _ _ _ _ Hk Hin) as E. pose proof (eval_this _ _ _ _ Hk' Hin) as E'.
      rewrite (ifield_bytes_subst sch n k z cx' f s E').
      assert (Ep' : parse (CRenamed n (CBytes (kint z))) cx p s = Ok (v, s')) by (cbn [parse] in Ep |- *; rewrite eval_int_kint; rewrite E in Ep; exact Ep).
      destruct (Z.leb_spec 0 z) as [Hz|Hz].
      * apply (ifield_flat sch n (CBytes (kint z)) ltac:(cbn; lia) cx cx' p s v s' f Ep').
      * exfalso. cbn [parse] in Ep'. rewrite eval_int_kint in Ep'. cbn [bind] in Ep'. unfold iread in Ep'.
        destruct (z <? 0)%Z eqn:Ez; [discriminate Ep'|lia].
    + (* Array(this.k, Format) *)
      destruct count as [| |a k|v0| | |]; try discriminate Hu. destruct a as [[]| | | | | |]; try discriminate Hu. destruct k as [k|]; try discriminate Hu.
      destruct m; try discriminate Hu.
      fold (this_ k) in *. destruct (memb_in k Gv Hu) as (z & Hin).
      pose proof (eval_this _ _ _ _ Hk Hin) as E. pose proof (eval_this _ _ _ _ Hk' Hin) as E'.
      rewrite (ifield_array_subst sch n k en f0 z cx' f s E').
      assert (Ep' : parse (CRenamed n (CArray (kint z) (CFormat en f0))) cx p s = Ok (v, s')) by (cbn [parse] in Ep |- *; rewrite eval_int_kint; rewrite E in Ep; exact Ep).
      destruct (Z.leb_spec 0 z) as [Hz|Hz].
      * apply (ifield_flat sch n (CArray (kint z) (CFormat en f0)) ltac:(cbn; lia) cx cx' p s v s' f Ep').
      * exfalso. cbn [parse] in Ep'. rewrite eval_int_kint in Ep'. cbn [bind] in Ep'. destruct (z <? 0)%Z eqn:Ez; [discriminate Ep'|lia].
Qed.

(* ---- the fragment: which names are known integers where ---- *)
Definition kdef (m : con) : option name :=
  match m with CRenamed n c' => if int_leaf c' && flat c' then Some n else None | _ => None end.
Definition gnext (G : list name) (m : con) : list name := match kdef m with Some n => n :: G | None => G end.

Fixpoint kmem (G : list name) (c : con) {struct c} : bool :=
  match c with
  | CRenamed _ (CStruct cs) =>
      nodupb (names cs) &&
      (fix go (G : list name) (cs : list con) {struct cs} : bool :=
         match cs with [] => true | m :: t => kmem G m && go (gnext G m) t end) [] cs
  | CRenamed _ m => kuse G m
  | _ => false
  end.

Fixpoint kgo (G : list name) (cs : list con) {struct cs} : bool :=
  match cs with [] => true | m :: t => kmem G m && kgo (gnext G m) t end.

Lemma kmem_struct G n cs : kmem G (CRenamed n (CStruct cs)) = nodupb (names cs) && kgo [] cs.
Proof.
  reflexivity.
Qed.

Lemma kmem_ind (P : list name -> con -> Prop) :
  (forall G n m, kuse G m = true -> P G (CRenamed n m)) ->
  (forall G n cs, nodupb (names cs) = true -> kgo [] cs = true -> (forall G' m, In m cs -> kmem G' m = true -> P G' m) -> P G (CRenamed n (CStruct cs))) ->
  forall c G, kmem G c = true -> P G c.
Proof.
  intros H1 H2.
  assert (Q : forall c, (forall G, kmem G c = true -> P G c) /\ (forall G n, kmem G (CRenamed n c) = true -> P G (CRenamed n c))).
  { induction c using con_ind2; try (split; [intros G X; discriminate X|intros G n X; apply H1; exact X]).
    - (* Struct *) split; [intros G X; discriminate X|]. intros G n X. rewrite kmem_struct in X. apply andb_prop in X as [X1 X2].
      apply H2; [exact X1|exact X2|]. intros G' m Hin Hm. rewrite Forall_forall in H. apply (H m Hin), Hm.
    - (* Renamed *) split; [intros G X; apply IHc; exact X|]. intros G n X. apply H1. exact X. }
  intros c G. apply Q.
Qed.

Lemma kgo_in : forall cs G, kgo G cs = true -> forall m, In m cs -> exists G', kmem G' m = true.
Proof.
  induction cs as [|c t IH]; intros G H m Hin; [destruct Hin|]. cbn [kgo] in H. apply andb_prop in H as [H1 H2].
  destruct Hin as [<-|Hin]; [exists G; exact H1|apply (IH _ H2 m Hin)].
Qed.

Lemma kmem_gmem : forall c G, kmem G c = true -> gmem eleaf c = true.
Proof.
  intros c G H. revert c G H. apply (kmem_ind (fun _ c => gmem eleaf c = true)).
  - intros G n m Hu. pose proof (kuse_eleaf G m Hu) as He. destruct m; try exact He. rewrite eleaf_struct in He. discriminate He.
  - intros G n cs _ Hg IH. cbn [gmem]. apply forallb_forall. intros m Hin. destruct (kgo_in cs [] Hg m Hin) as (G' & Hm). apply (IH G' m Hin Hm).
Qed.

Lemma kgo_gmem cs G : kgo G cs = true -> forallb (gmem eleaf) cs = true.
Proof. intros H. apply forallb_forall. intros m Hin. destruct (kgo_in cs G H m Hin) as (G' & Hm). apply (kmem_gmem m G' Hm). Qed.

(* ---- reading ---- *)
Definition RK (G : list name) (c : con) : Prop :=
  forall T sq es f, gdesc efield T f c -> forall d fu, depth c <= d -> forall Gv cx cx' p s v s',
    map fst Gv = G -> knows cx Gv -> knows cx' Gv -> parse c cx p s = Ok (v, s') ->
    exists kv, ifield (2 + 3 * d + fu) (KSchema sq T es) f cx' [] s = Ok (kv, s') /\ mrel c kv v.

Lemma struct_layout' : forall cs cx p acc s acc' cx' s', (forall c, In c cs -> is_stopif c = false) ->
  struct_loop parse cs cx p acc s = Ok (acc', cx', s') ->
  exists recs, layout_loop parse cs cx p s = Ok (recs, s') /\ acc' = acc_of recs acc.
Proof.
  induction cs as [|c t IH]; intros cx p acc s acc' cx' s' Hn H; cbn [struct_loop layout_loop] in *.
  - injection H as <- _ <-. exists []. split; reflexivity.
  - assert (Hn2 : forall c0, In c0 t -> is_stopif c0 = false) by (intros c0 Hin; apply Hn; right; exact Hin).
    destruct (parse c cx p s) as [[v s1]|e q].
    + cbn [bind]. destruct (name_of c) as [n|] eqn:En.
      * destruct (IH _ _ _ _ _ _ _ Hn2 H) as (recs & E & ->). rewrite E. cbn [bind]. eexists. split; [reflexivity|]. unfold acc_of. cbn [fold_left]. reflexivity.
      * destruct (IH _ _ _ _ _ _ _ Hn2 H) as (recs & E & ->). rewrite E. cbn [bind]. eexists. split; [reflexivity|]. unfold acc_of. cbn [fold_left]. reflexivity.
    + destruct e; try discriminate H. rewrite (Hn c (or_introl eq_refl)) in H. discriminate H.
Qed.

Lemma kdef_some m n : kdef m = Some n -> exists c', m = CRenamed n c' /\ int_leaf c' = true /\ flat c' = true.
Proof.
  destruct m; try discriminate. cbn [kdef]. destruct (int_leaf m) eqn:E1; [|discriminate]. destruct (flat m) eqn:E2; [|discriminate].
  cbn [andb]. intros H. injection H as <-. eauto.
Qed.

Lemma kmem_named G m : kmem G m = true -> exists n c', m = CRenamed n c'.
Proof. destruct m; try discriminate. eauto. Qed.

Lemma mrel_int n c' kv z : int_leaf c' = true -> flat c' = true -> mrel (CRenamed n c') kv (VInt z) -> kv = VInt z.
Proof. intros Hi Hf H. apply mrel_flat in H; [|exact Hf]. destruct c'; try discriminate Hi; exact H. Qed.

Lemma iseq_dep : forall cs G, kgo G cs = true -> NoDup (names cs) -> (forall k, In k G -> ~ In k (names cs)) ->
  (forall G' m, In m cs -> kmem G' m = true -> RK G' m) ->
  forall T sq es l, gdescs efield T l cs -> forall d fu, (forall c, In c cs -> depth c <= d) ->
  forall Gv cx cx' p s recs s', map fst Gv = G -> knows cx Gv -> knows cx' Gv ->
  layout_loop parse cs cx p s = Ok (recs, s') ->
  exists krecs, iseq (S (2 + 3 * d + fu)) (KSchema sq T es) l cx' [] s = Ok (krecs, s') /\ rrel cs krecs recs.
Proof.
  induction cs as [|c t IH]; intros G Hg Hnd Hfresh HR T sq es l D d fu Hd Gv cx cx' p s recs s' HG Hk Hk' E; destruct l as [|f l]; try contradiction.
  - cbn [layout_loop] in E. injection E as <- <-. exists []. split; [reflexivity|exact I].
  - destruct D as [D1 D2]. cbn [kgo] in Hg. apply andb_prop in Hg as [Hm Hg]. cbn [layout_loop] in E.
    destruct (parse c cx p s) as [[v s1]|e q] eqn:Ep; [cbn [bind] in E|discriminate].
    match type of E with context [layout_loop parse t ?cxx p s1] => destruct (layout_loop parse t cxx p s1) as [[rest s2]|e q] eqn:El end; [cbn [bind] in E|discriminate].
    injection E as <- <-.
    destruct (HR G c (or_introl eq_refl) Hm T sq es f D1 d fu (Hd c (or_introl eq_refl)) Gv cx cx' p s v s1 HG Hk Hk' Ep) as (kv & Ek & Hv).
    destruct (kmem_named G c Hm) as (n & c' & ->). cbn [name_of] in El.
    assert (Hid : f_id f = Some n) by (rewrite (gdesc_id eleaf efield efield_id T f _ (kmem_gmem _ _ Hm) D1); reflexivity).
    assert (Hn_t : ~ In n (names t)) by (rewrite names_cons in Hnd; cbn [name_of app] in Hnd; inversion Hnd; assumption).
    assert (Hnd' : NoDup (names t)) by (rewrite names_cons in Hnd; cbn [name_of app] in Hnd; inversion Hnd; assumption).
    assert (Hn_G : ~ In n G) by (intros Hin; apply (Hfresh n Hin); rewrite names_cons; cbn [name_of app]; left; reflexivity).
    assert (HR' : forall G' m, In m t -> kmem G' m = true -> RK G' m) by (intros G' m Hin; apply HR; right; exact Hin).
    assert (Hd' : forall c0, In c0 t -> depth c0 <= d) by (intros c0 Hin; apply Hd; right; exact Hin).
    assert (Next : exists Gv', map fst Gv' = gnext G (CRenamed n c') /\ knows (ctx_set cx n v) Gv' /\ knows (ctx_set cx' n kv) Gv' /\
                               (forall k, In k (gnext G (CRenamed n c')) -> ~ In k (names t))).
    { unfold gnext. destruct (kdef (CRenamed n c')) as [n0|] eqn:Ed.
      - destruct (kdef_some _ _ Ed) as (c0 & E0 & Hi & Hf). injection E0 as <- <-.
        cbn [parse] in Ep. destruct (int_leaf_parses_int c' Hi cx (p ++ [n]) s v s1 Ep) as (z & ->).
        apply (mrel_int n c' kv z Hi Hf) in Hv. subst kv.
        exists ((n, z) :: Gv). split; [cbn [map fst]; rewrite HG; reflexivity|]. split; [|split].
        + apply knows_set_new; [exact Hk| |reflexivity]. apply not_in_map_fst. rewrite HG. exact Hn_G.
        + apply knows_set_new; [exact Hk'| |reflexivity]. apply not_in_map_fst. rewrite HG. exact Hn_G.
        + intros k [<-|Hin]; [exact Hn_t|]. intros Hin'. apply (Hfresh k Hin). rewrite names_cons. apply in_or_app. right. exact Hin'.
      - exists Gv. split; [exact HG|]. split; [|split].
        + apply knows_set_other; [exact Hk|]. apply not_in_map_fst. rewrite HG. exact Hn_G.
        + apply knows_set_other; [exact Hk'|]. apply not_in_map_fst. rewrite HG. exact Hn_G.
        + intros k Hin Hin'. apply (Hfresh k Hin). rewrite names_cons. apply in_or_app. right. exact Hin'. }
    destruct Next as (Gv' & HG' & Hk2 & Hk2' & Hfresh').
    destruct (IH _ Hg Hnd' Hfresh' HR' T sq es l D2 d fu Hd' Gv' _ (ctx_set cx' n kv) p s1 rest s2 HG' Hk2 Hk2' El) as (krest & Ekr & Hr).
    exists ((f_id f, itell s, itell s1, kv) :: krest). split.
    + cbn [iseq] in Ekr |- *. rewrite Ek. cbn [bind]. rewrite Hid. rewrite Ekr. reflexivity.
    + cbn [rrel]. rewrite Hid. cbn [name_of]. repeat (split; [reflexivity|]). split; [exact Hv|exact Hr].
Qed.

Theorem read_dep : forall c G, kmem G c = true -> RK G c.
Proof.
  apply (kmem_ind RK).
  - intros G n m Hu T sq es f D d fu _ Gv cx cx' p s v s' HG Hk Hk' Ep.
    pose proof (kuse_eleaf G m Hu) as He. apply (gdesc_leaf eleaf efield eleaf_struct) in D; [|exact He]. subst f.
    rewrite <- HG in Hu. destruct (leaf_read (KSchema sq T es) n m Gv cx cx' p s v s' (3 * d + fu) Hu Hk Hk' Ep) as (kv & Ek & Hv).
    exists kv. split; [exact Ek|]. destruct m; try exact Hv. rewrite eleaf_struct in He. discriminate He.
  - intros G n cs Hnd Hg IH T sq es f D d fu Hd Gv cx cx' p s v s' HG Hk Hk' Ep. apply gdesc_struct in D as (nm & l & -> & F & D).
    cbn [depth] in Hd. destruct d as [|d']; [lia|]. apply le_S_n in Hd.
    replace (2 + 3 * S d' + fu) with (S (S (S (2 + 3 * d' + fu)))) by lia. rewrite (ifield_user sq T es n nm l _ cx' s F).
    cbn [parse] in Ep.
    destruct (struct_loop parse cs (push_scope cx) (p ++ [n]) [] s) as [[[acc cx2] s1]|e q] eqn:Es; [cbn [bind] in Ep|discriminate]. injection Ep as <- <-.
    assert (Hns : forall c, In c cs -> is_stopif c = false).
    { intros c Hin. apply (gmem_not_stopif eleaf eleaf_nostop). pose proof (kgo_gmem cs [] Hg) as X. rewrite forallb_forall in X. apply X, Hin. }
    destruct (struct_layout' cs _ _ _ _ _ _ _ Hns Es) as (recs & El & ->).
    assert (Hd' : forall c, In c cs -> depth c <= d') by (intros c Hin; apply (list_max_le _ _ Hd); apply in_map, Hin).
    destruct (iseq_dep cs [] Hg (nodupb_NoDup _ Hnd) (fun k H => match H with end) IH T sq es l D d' fu Hd' [] _ (push_scope cx') _ _ _ _ eq_refl (knows_push cx) (knows_push cx') El) as (krecs & Ek & Hr).
    rewrite Ek. cbn [bind]. eexists. split; [reflexivity|]. apply mrel_struct. exists krecs, recs. split; [reflexivity|]. split; [reflexivity|exact Hr].
Qed.

(* the emission theorem of KsyGen for these leaves: fresh helper type names, never shadowed, and the field describes the member *)
Lemma emit_dependent : forall c, gmem eleaf c = true -> GEM efield c.
Proof. apply (gemit_nested eleaf efield eleaf_struct eleaf_emit efield_id eleaf_nostop). Qed.

(* C19 for dependent, nested structs (nesting depth at most 20, the fuel of the reference reading) *)
Theorem ksy_describes_dependent_struct cs data recs : nodupb (names cs) = true -> kgo [] cs = true -> (forall c, In c cs -> depth c <= 20) ->
  ksy_layout (CStruct cs) [] data = Ok recs ->
  exists sch krecs, ksy_emit (CStruct cs) = Some sch /\ ksy_interp sch [] data = Ok krecs /\ rrel cs krecs recs.
Proof.
  intros Hnd Hg Hd E. unfold ksy_layout in E.
  destruct (layout_loop parse cs _ [] (istream_of data)) as [[recs0 s']|e q] eqn:El; [cbn [bind] in E|discriminate]. injection E as <-.
  pose proof (kgo_gmem cs [] Hg) as Hn.
  assert (HEM : Forall (GEM efield) cs).
  { apply Forall_forall. intros c Hin. apply (gemit_nested eleaf efield eleaf_struct eleaf_emit efield_id eleaf_nostop). rewrite forallb_forall in Hn. apply Hn, Hin. }
  destruct (gemit_members eleaf efield eleaf_struct cs HEM Hn gen0) as (l & g & Ee & _ & D).
  assert (Hb : bounded gen0) by (intros nm l0 []).
  destruct (iseq_dep cs [] Hg (nodupb_NoDup _ Hnd) (fun k H => match H with end) (fun G' m _ Hm => read_dep m G' Hm)
              (g_types g) l (g_enums g) l (D Hb) 20 (1 + length data) Hd [] _ (push_scope (top_ctx [] MParse)) _ _ _ _ eq_refl
              (knows_push _) (knows_push _) El) as (krecs & Ek & Hr).
  exists (KSchema l (g_types g) (g_enums g)), krecs. split; [|split; [|exact Hr]].
  - unfold ksy_emit, compile_seq. cbn [ladder_seq emit e_seq]. rewrite Ee. reflexivity.
  - unfold ksy_interp. change (64 + length data) with (S (2 + 3 * 20 + (1 + length data))). rewrite Ek. reflexivity.
Qed.

(* non-vacuity: a header with a length and a count, a payload and samples sized by them, a nested record with its own length *)
Definition ex_kdep : list con :=
  [CRenamed [x6e] (CFormat Big FB);
   CRenamed [x6b] CVarInt;
   CRenamed [x64] (CBytes (this_ [x6e]));
   CRenamed [x61] (CArray (this_ [x6b]) (CFormat Little FH));
   CRenamed [x72] (CStruct [CRenamed [x6c] (CFormat Big FH); CRenamed [x70] (CBytes (this_ [x6c])); CRenamed [x66] CFlag]);
   CRenamed [x74] CGreedyBytes].

Lemma ex_kdep_members : nodupb (names ex_kdep) = true /\ kgo [] ex_kdep = true /\ forallb (fun c => Nat.leb (depth c) 20) ex_kdep = true /\ forallb nmem ex_kdep = false.
Proof. repeat split; reflexivity. Qed.

Lemma ex_kdep_runs :
  let data := [x02; x02; x41; x42; x01; x00; x02; x00; x00; x01; x58; x01; xee] in
  match ksy_emit (CStruct ex_kdep) with
  | Some (KSchema sq ts es) =>
      Nat.eqb (length ts) 1 &&
      match ksy_interp (KSchema sq ts es) [] data, ksy_layout (CStruct ex_kdep) [] data with
      | Ok kr, Ok r => Nat.eqb (length r) 6 && list_eqb (fun a b => Z.eqb (snd (fst a)) (snd (fst b)) && val_eqb (snd a) (snd b)) kr r
      | _, _ => false
      end
  | None => false
  end = true.
Proof. vm_compute. reflexivity. Qed.
