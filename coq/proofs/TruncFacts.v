(* C06, truncation: no value is produced from fewer bytes than the format requires.  For EVERY construct of the closed
   sequential fragment without read-to-end parts (tfrag), every value it builds, and EVERY strict prefix of the bytes built,
   at any stream position: parsing the prefix fails with StreamError -- by induction over the syntax. *)
From Coq Require Import ZArith NArith List Bool Lia.
From Coq Require Import Strings.Byte.
Require Import Bytes Value Expr Codec Float Stream Syntax Sizeof Parse Build ConInd BytesFacts StreamFacts PrimFacts RTFacts SizeExact.
Import ListNotations.
Local Open Scope nat_scope.

Definition strm_err {A} (r : res A) : Prop := match r with Err EStream _ => True | _ => False end.

(* what is built, every strict prefix of it is rejected with StreamError, wherever it stands *)
Definition TR (c : con) : Prop :=
  forall v cxb pb o r o', app_mode o -> build c v cxb pb o = Ok (r, o') ->
    exists out, o' = oapp o out /\
      forall k, k < length out -> forall cxp pp pre base sk,
        strm_err (parse c cxp pp (at_pos pre (firstn k out) base sk)).

Lemma oapp_inj o a b : oapp o a = oapp o b -> a = b.
Proof. unfold oapp. intros E. injection E as E _. apply app_inv_head in E. exact E. Qed.

Lemma strm_err_bind {A B} (x : res A) (f : A -> res B) : strm_err x -> strm_err (bind x f).
Proof. destruct x as [a|e q]; cbn; [contradiction|]. destruct e; auto. Qed.

Lemma firstn_short {A} k (l : list A) : k < length l -> length (firstn k l) = k.
Proof. intros H. rewrite firstn_length. lia. Qed.

(* the number of bytes built is the size, when there is one *)
Lemma out_length c e v cxb pb o r out n cx' p' :
  frag e c = true -> app_mode o -> build c v cxb pb o = Ok (r, oapp o out) -> sizeof c cx' p' = Ok n -> Z.of_nat (length out) = n.
Proof.
  intros Hf Ho Hb Hs. pose proof (build_size_exact c e Hf _ _ _ _ _ _ _ _ _ Hb Hs) as H.
  rewrite otell_oapp in H by exact Ho. exact H.
Qed.

(* ---- leaves ---- *)
Theorem TR_format_int en f : fcode_float f = false -> TR (CFormat en f).
Proof.
  intros Hf v cxb pb o r o' Ho Hb. destruct (RT_format_int en f Hf v cxb pb o r o' Ho Hb) as (out & -> & Hp).
  exists out. split; [reflexivity|]. intros k Hk cxp pp pre base sk.
  assert (Hl : Z.of_nat (length out) = Z.of_nat (fcode_size f)).
  { apply (out_length (CFormat en f) false v cxb pb o r out _ (top_ctx [] MSize) []); [cbn; rewrite Hf; reflexivity|exact Ho|exact Hb|reflexivity]. }
  cbn [parse]. unfold parse_format. rewrite iread_short; [exact I|]. rewrite firstn_short by exact Hk. lia.
Qed.

Theorem TR_bytesint n s sw : (0 < n <= 65536)%Z -> TR (CBytesInt (kint n) s sw).
Proof.
  intros Hn v cxb pb o r o' Ho Hb. destruct (RT_bytesint n s sw Hn v cxb pb o r o' Ho Hb) as (out & -> & Hp).
  exists out. split; [reflexivity|]. intros k Hk cxp pp pre base sk.
  assert (Hl : Z.of_nat (length out) = n).
  { apply (out_length (CBytesInt (kint n) s sw) false v cxb pb o r out _ (top_ctx [] MSize) []); [cbn; lia|exact Ho|exact Hb|].
    cbn [sizeof]. rewrite eval_int_kint. reflexivity. }
  rewrite bytesint_parse_short; [exact I|]. rewrite firstn_short by exact Hk. lia.
Qed.

Theorem TR_bytes n : (0 <= n)%Z -> TR (CBytes (kint n)).
Proof.
  intros Hn v cxb pb o r o' Ho Hb. destruct (RT_bytes n Hn v cxb pb o r o' Ho Hb) as (out & -> & Hp).
  exists out. split; [reflexivity|]. intros k Hk cxp pp pre base sk.
  assert (Hl : Z.of_nat (length out) = n).
  { apply (out_length (CBytes (kint n)) false v cxb pb o r out _ (top_ctx [] MSize) []); [cbn; lia|exact Ho|exact Hb|].
    cbn [sizeof]. rewrite eval_int_kint. reflexivity. }
  cbn [parse]. rewrite eval_int_kint. cbn [bind]. rewrite iread_short; [exact I|]. rewrite firstn_short by exact Hk. lia.
Qed.

Theorem TR_pass : TR CPass.
Proof.
  intros v cxb pb o r o' Ho Hb. cbn [build] in Hb. injection Hb as <- <-. exists []. split; [symmetry; apply oapp_nil, Ho|].
  intros k Hk. cbn in Hk. lia.
Qed.

(* every strict prefix of a LEB128 encoding consists of continuation bytes *)
Lemma leb128_prefix_cont x bs : leb128 x bs -> forall k, k < length bs -> forallb (fun b => (128 <=? Byte.to_N b)%N) (firstn k bs) = true.
Proof.
  induction 1 as [b Hb|b hi t Hb Ht IH]; intros k Hk.
  - cbn in Hk. assert (k = 0) by lia. subst. reflexivity.
  - destruct k as [|k]; [reflexivity|]. cbn [firstn forallb]. cbn [length] in Hk. rewrite IH by lia.
    apply N.leb_le in Hb. rewrite Hb. reflexivity.
Qed.

Theorem TR_varint : TR CVarInt.
Proof.
  intros v cxb pb o r o' Ho Hb. cbn [build] in Hb. destruct (int_of_val v) as [z|] eqn:Ez; [|discriminate].
  destruct (z <? 0)%Z eqn:En; [discriminate|]. rewrite owrite_app in Hb by exact Ho. cbn [bind] in Hb. injection Hb as <- <-.
  eexists. split; [reflexivity|]. intros k Hk cxp pp pre base sk.
  rewrite varint_parse_truncated; [exact I|]. eapply leb128_prefix_cont; [apply varint_encode_leb|exact Hk].
Qed.

Theorem TR_zigzag : TR CZigZag.
Proof.
  intros v cxb pb o r o' Ho Hb. cbn [build] in Hb. destruct (int_of_val v) as [z|] eqn:Ez; [|discriminate].
  rewrite owrite_app in Hb by exact Ho. cbn [bind] in Hb. injection Hb as <- <-.
  eexists. split; [reflexivity|]. intros k Hk cxp pp pre base sk.
  cbn [parse]. apply strm_err_bind.
  pose proof (varint_parse_truncated (firstn k (varint_encode (zigzag_enc z))) pre base sk cxp pp
                (leb128_prefix_cont _ _ (varint_encode_leb _) k Hk)) as H.
  cbn [parse] in H. destruct (parse_varint _ pp) as [[n s']|e q]; [discriminate|]. injection H as -> _. exact I.
Qed.

Theorem TR_renamed n c : TR c -> TR (CRenamed n c).
Proof.
  intros H v cxb pb o r o' Ho Hb. cbn [build] in Hb. destruct (H v cxb _ o r o' Ho Hb) as (out & -> & Ht).
  exists out. split; [reflexivity|]. intros k Hk cxp pp pre base sk. cbn [parse]. apply Ht, Hk.
Qed.

Theorem TR_const v0 c : TR c -> TR (CConst v0 c).
Proof.
  intros H v cxb pb o r o' Ho Hb.
  assert (Hb' : build c v0 cxb pb o = Ok (r, o')).
  { cbn [build] in Hb. destruct v; try exact Hb; destruct (val_eqb _ v0); (exact Hb || discriminate). }
  destruct (H v0 cxb pb o r o' Ho Hb') as (out & -> & Ht). exists out. split; [reflexivity|].
  intros k Hk cxp pp pre base sk. cbn [parse]. apply strm_err_bind, Ht, Hk.
Qed.

Lemma firstn_app_l {A} k (a b : list A) : k < length a -> firstn k (a ++ b) = firstn k a.
Proof. intros H. rewrite firstn_app. replace (k - length a) with 0 by lia. cbn. apply app_nil_r. Qed.
Lemma firstn_app_r {A} k (a b : list A) : length a <= k -> firstn k (a ++ b) = a ++ firstn (k - length a) b.
Proof. intros H. rewrite firstn_app. rewrite firstn_all2 by lia. reflexivity. Qed.

(* the same build, seen by the round-trip theorem and by the truncation theorem, has the same bytes *)
Ltac same_out H1 H2 := apply oapp_inj in H1; subst.

Theorem TR_padded n c pat : (0 <= n)%Z -> RT c -> TR c -> TR (CPadded (kint n) c pat).
Proof.
  intros Hn Hrt Htr v cxb pb o r o' Ho Hb.
  destruct (RT_padded n c pat Hn Hrt v cxb pb o r o' Ho Hb) as (out & -> & _).
  exists out. split; [reflexivity|]. intros k Hk cxp pp pre base sk.
  cbn [build] in Hb. rewrite eval_int_kint in Hb. cbn [bind] in Hb. destruct (n <? 0)%Z eqn:E0; [lia|].
  destruct (build c v cxb pb o) as [[r1 o1]|] eqn:Ec; [|discriminate]. cbn [bind] in Hb.
  destruct (Hrt v cxb pb o r1 o1 Ho Ec) as (out1 & -> & Hp). destruct (Htr v cxb pb o r1 _ Ho Ec) as (out1' & E1 & Ht).
  apply oapp_inj in E1. subst out1'.
  rewrite otell_oapp in Hb by exact Ho. set (pad := (n - Z.of_nat (length out1))%Z) in *.
  destruct (pad <? 0)%Z eqn:E1; [discriminate|]. destruct (alloc_bound <? pad)%Z; [discriminate|].
  assert (Hl : pad = Z.of_nat (length (repeat pat (Z.to_nat pad)))) by (rewrite repeat_length; lia).
  rewrite Hl in Hb at 2. rewrite owrite_app in Hb by apply app_mode_oapp. cbn [bind] in Hb.
  assert (Hb2 : oapp (oapp o out1) (repeat pat (Z.to_nat pad)) = oapp o out) by congruence. clear Hb.
  rewrite oapp_app in Hb2. apply oapp_inj in Hb2. subst out.
  cbn [parse]. rewrite eval_int_kint. cbn [bind]. rewrite E0.
  destruct (Nat.lt_ge_cases k (length out1)) as [Hlt|Hge].
  - rewrite firstn_app_l by exact Hlt. apply strm_err_bind, Ht, Hlt.
  - rewrite firstn_app_r by exact Hge.
    destruct (Hp cxp pp pre (firstn (k - length out1) (repeat pat (Z.to_nat pad))) base sk) as (r' & E & _). rewrite E. cbn [bind].
    rewrite itell_at_diff. fold pad. rewrite E1. rewrite iread_short; [exact I|].
    rewrite app_length, repeat_length in Hk. rewrite firstn_length, repeat_length. lia.
Qed.

Theorem TR_aligned m c pat : (2 <= m)%Z -> RT c -> TR c -> TR (CAligned (kint m) c pat).
Proof.
  intros Hm Hrt Htr v cxb pb o r o' Ho Hb.
  destruct (RT_aligned m c pat Hm Hrt v cxb pb o r o' Ho Hb) as (out & -> & _).
  exists out. split; [reflexivity|]. intros k Hk cxp pp pre base sk.
  cbn [build] in Hb. rewrite eval_int_kint in Hb. cbn [bind] in Hb. destruct (m <? 2)%Z eqn:E0; [lia|].
  destruct (build c v cxb pb o) as [[r1 o1]|] eqn:Ec; [|discriminate]. cbn [bind] in Hb.
  destruct (Hrt v cxb pb o r1 o1 Ho Ec) as (out1 & -> & Hp). destruct (Htr v cxb pb o r1 _ Ho Ec) as (out1' & E1 & Ht).
  apply oapp_inj in E1. subst out1'.
  rewrite otell_oapp in Hb by exact Ho. set (pad := ((- Z.of_nat (length out1)) mod m)%Z) in *.
  assert (Hpad : (0 <= pad)%Z) by (apply Z.mod_pos_bound; lia).
  destruct (alloc_bound <? pad)%Z; [discriminate|].
  assert (Hl : pad = Z.of_nat (length (repeat pat (Z.to_nat pad)))) by (rewrite repeat_length; lia).
  rewrite Hl in Hb at 2. rewrite owrite_app in Hb by apply app_mode_oapp. cbn [bind] in Hb.
  assert (Hb2 : oapp (oapp o out1) (repeat pat (Z.to_nat pad)) = oapp o out) by congruence. clear Hb.
  rewrite oapp_app in Hb2. apply oapp_inj in Hb2. subst out.
  cbn [parse]. rewrite eval_int_kint. cbn [bind]. rewrite E0.
  destruct (Nat.lt_ge_cases k (length out1)) as [Hlt|Hge].
  - rewrite firstn_app_l by exact Hlt. apply strm_err_bind, Ht, Hlt.
  - rewrite firstn_app_r by exact Hge.
    destruct (Hp cxp pp pre (firstn (k - length out1) (repeat pat (Z.to_nat pad))) base sk) as (r' & E & _). rewrite E. cbn [bind].
    rewrite itell_at_diff. fold pad. rewrite iread_short; [exact I|].
    rewrite app_length, repeat_length in Hk. rewrite firstn_length, repeat_length. lia.
Qed.

Theorem TR_fixedsized n c : (0 <= n)%Z -> RT c -> TR (CFixedSized (kint n) c).
Proof.
  intros Hn Hrt v cxb pb o r o' Ho Hb.
  destruct (RT_fixedsized n c Hn Hrt v cxb pb o r o' Ho Hb) as (out & -> & _).
  exists out. split; [reflexivity|]. intros k Hk cxp pp pre base sk.
  assert (Hl : Z.of_nat (length out) = n).
  { pose proof (otell_oapp o out Ho) as Ht. cbn [build] in Hb. rewrite eval_int_kint in Hb. cbn [bind] in Hb.
    destruct (n <? 0)%Z; [discriminate|]. destruct (build c v cxb pb ostream_new) as [[r2 o2]|]; [cbn [bind] in Hb|discriminate].
    destruct (_ <? 0)%Z; [discriminate|]. destruct (alloc_bound <? _)%Z; [discriminate|].
    destruct (owrite o _ _ pb) as [o1|] eqn:E1; [cbn [bind] in Hb|discriminate].
    destruct (owrite o1 _ _ pb) as [o3|] eqn:E3; [cbn [bind] in Hb|discriminate].
    assert (Ho3 : o3 = oapp o out) by congruence. subst o3.
    apply owrite_tell in E1. apply owrite_tell in E3. lia. }
  cbn [parse]. rewrite eval_int_kint. cbn [bind]. destruct (n <? 0)%Z eqn:E0; [lia|].
  rewrite iread_short; [exact I|]. rewrite firstn_short by exact Hk. lia.
Qed.

Theorem TR_prefixed lc c : RTi lc -> TR lc -> RTe c -> TR (CPrefixed lc c false).
Proof.
  intros Hl Hlt Hc v cxb pb o r o' Ho Hb.
  destruct (RT_prefixed lc c Hl Hc v cxb pb o r o' Ho Hb) as (out & -> & _).
  exists out. split; [reflexivity|]. intros k Hk cxp pp pre base sk.
  cbn [build] in Hb.
  destruct (build c v cxb pb ostream_new) as [[r1 o2]|] eqn:Ec; [|discriminate]. cbn [bind] in Hb.
  destruct (Hc v cxb pb ostream_new r1 o2 app_mode_new Ec) as (data & -> & _). rewrite odata_new_oapp in Hb.
  destruct (build lc (VInt (Z.of_nat (length data))) cxb pb o) as [[rl o1]|] eqn:El; [|discriminate]. cbn [bind] in Hb.
  destruct (Hl _ cxb pb o rl o1 Ho El) as (_ & lenc & -> & Hlp).
  destruct (Hlt _ cxb pb o rl _ Ho El) as (lenc' & E1 & Ht). apply oapp_inj in E1. subst lenc'.
  rewrite owrite_app in Hb by apply app_mode_oapp. cbn [bind] in Hb.
  assert (Hb2 : oapp (oapp o lenc) data = oapp o out) by congruence. clear Hb.
  rewrite oapp_app in Hb2. apply oapp_inj in Hb2. subst out.
  cbn [parse].
  destruct (Nat.lt_ge_cases k (length lenc)) as [Hlt'|Hge].
  - rewrite firstn_app_l by exact Hlt'. apply strm_err_bind, Ht, Hlt'.
  - rewrite firstn_app_r by exact Hge. rewrite Hlp. cbn [bind vint_of].
    rewrite iread_short; [exact I|]. rewrite app_length in Hk. rewrite firstn_length. lia.
Qed.

(* ---- loops ---- *)
Lemma seq_loop_TR : forall cs, Forall RT cs -> Forall TR cs -> no_stopif cs -> forall objs cxb pb o rs o', app_mode o ->
  seq_bloop build cs objs cxb pb o = Ok (rs, o') ->
  exists out, o' = oapp o out /\
    forall k, k < length out -> forall cxp pp pre base sk, strm_err (seq_loop parse cs cxp pp (at_pos pre (firstn k out) base sk)).
Proof.
  induction cs as [|c t IH]; intros Hf Hg Hns objs cxb pb o rs o' Ho Hb; cbn [seq_bloop] in Hb.
  - injection Hb as <- <-. exists []. split; [symmetry; apply oapp_nil; exact Ho|]. intros k Hk. cbn in Hk. lia.
  - inversion Hf as [|? ? Hc Ht]; subst. inversion Hg as [|? ? Hc' Ht']; subst. inversion Hns as [|? ? Hs1 Hs2]; subst.
    destruct objs as [|subobj objs']; [discriminate|].
    set (cx1 := match name_of c with Some n => ctx_set cxb n subobj | None => cxb end) in *.
    destruct (build c subobj cx1 pb o) as [[r o1]|e q] eqn:Ec.
    2:{ destruct e; try discriminate. rewrite Hs1 in Hb. discriminate. }
    set (cx2 := match name_of c with Some n => ctx_set cx1 n r | None => cx1 end) in *.
    destruct (seq_bloop build t objs' cx2 pb o1) as [[rs1 o2]|] eqn:Et; [|discriminate]. cbn [bind] in Hb. injection Hb as <- <-.
    destruct (Hc subobj cx1 pb o r o1 Ho Ec) as (out1 & -> & Hp1).
    destruct (Hc' subobj cx1 pb o r _ Ho Ec) as (out1' & E1 & Ht1). apply oapp_inj in E1. subst out1'.
    destruct (IH Ht Ht' Hs2 objs' cx2 pb _ rs1 o2 (app_mode_oapp _ _) Et) as (out2 & -> & Ht2).
    exists (out1 ++ out2). split; [apply oapp_app|].
    intros k Hk cxp pp pre base sk. rewrite app_length in Hk. cbn [seq_loop].
    destruct (Nat.lt_ge_cases k (length out1)) as [Hlt|Hge].
    + rewrite firstn_app_l by exact Hlt. pose proof (Ht1 k Hlt cxp pp pre base sk) as H1.
      destruct (parse c cxp pp _) as [[v s']|e q]; [contradiction|]. destruct e; try contradiction. exact I.
    + rewrite firstn_app_r by exact Hge.
      destruct (Hp1 cxp pp pre (firstn (k - length out1) out2) base sk) as (r' & E & _). rewrite E.
      apply strm_err_bind. apply Ht2. lia.
Qed.

Lemma struct_loop_TR : forall kv cs, Forall RT cs -> Forall TR cs -> no_stopif cs -> forall cxb pb o cxb' o', app_mode o ->
  struct_bloop build kv cs cxb pb o = Ok (cxb', o') ->
  exists out, o' = oapp o out /\
    forall k, k < length out -> forall cxp pp acc pre base sk, strm_err (struct_loop parse cs cxp pp acc (at_pos pre (firstn k out) base sk)).
Proof.
  intros kv. induction cs as [|c t IH]; intros Hf Hg Hns cxb pb o cxb' o' Ho Hb; cbn [struct_bloop] in Hb.
  - injection Hb as <- <-. exists []. split; [symmetry; apply oapp_nil; exact Ho|]. intros k Hk. cbn in Hk. lia.
  - inversion Hf as [|? ? Hc Ht]; subst. inversion Hg as [|? ? Hc' Ht']; subst. inversion Hns as [|? ? Hs1 Hs2]; subst.
    match type of Hb with bind ?x _ = _ => destruct x as [subobj|] end; [cbn [bind] in Hb|discriminate].
    match type of Hb with match build c subobj ?cx1 pb o with _ => _ end = _ => destruct (build c subobj cx1 pb o) as [[r o1]|e q] eqn:Ec end.
    2:{ destruct e; try discriminate. rewrite Hs1 in Hb. discriminate. }
    destruct (Hc _ _ pb o r o1 Ho Ec) as (out1 & -> & Hp1).
    destruct (Hc' _ _ pb o r _ Ho Ec) as (out1' & E1 & Ht1). apply oapp_inj in E1. subst out1'.
    destruct (IH Ht Ht' Hs2 _ pb _ _ _ (app_mode_oapp _ _) Hb) as (out2 & -> & Ht2).
    exists (out1 ++ out2). split; [apply oapp_app|].
    intros k Hk cxp pp acc pre base sk. rewrite app_length in Hk. cbn [struct_loop].
    destruct (Nat.lt_ge_cases k (length out1)) as [Hlt|Hge].
    + rewrite firstn_app_l by exact Hlt. pose proof (Ht1 k Hlt cxp pp pre base sk) as H1.
      destruct (parse c cxp pp _) as [[v s']|e q]; [contradiction|]. destruct e; try contradiction. exact I.
    + rewrite firstn_app_r by exact Hge.
      destruct (Hp1 cxp pp pre (firstn (k - length out1) out2) base sk) as (r' & E & _). rewrite E.
      destruct (name_of c); apply Ht2; lia.
Qed.

Lemma count_loop_TR c : RT c -> TR c -> forall l i cxb pb o rs o', app_mode o ->
  count_bloop (build c) l i cxb pb o = Ok (rs, o') ->
  exists out, o' = oapp o out /\
    forall k, k < length out -> forall cxp pp pre base sk acc,
      strm_err (miter (count_step (parse c) cxp pp) (length l) (i, acc, at_pos pre (firstn k out) base sk)).
Proof.
  intros H H'. induction l as [|e t IH]; intros i cxb pb o rs o' Ho Hb; cbn [count_bloop] in Hb.
  - injection Hb as <- <-. exists []. split; [symmetry; apply oapp_nil; exact Ho|]. intros k Hk. cbn in Hk. lia.
  - destruct (build c e (ctx_set_index cxb i) pb o) as [[r o1]|] eqn:Ec; [|discriminate]. cbn [bind] in Hb.
    destruct (count_bloop (build c) t (i + 1)%Z cxb pb o1) as [[rs1 o2]|] eqn:Et; [|discriminate]. cbn [bind] in Hb.
    injection Hb as <- <-.
    destruct (H e _ pb o r o1 Ho Ec) as (out1 & -> & Hp1).
    destruct (H' e _ pb o r _ Ho Ec) as (out1' & E1 & Ht1). apply oapp_inj in E1. subst out1'.
    destruct (IH (i + 1)%Z cxb pb _ rs1 o2 (app_mode_oapp _ _) Et) as (out2 & -> & Ht2).
    exists (out1 ++ out2). split; [apply oapp_app|].
    intros k Hk cxp pp pre base sk acc. rewrite app_length in Hk. cbn [length miter]. unfold count_step at 1.
    destruct (Nat.lt_ge_cases k (length out1)) as [Hlt|Hge].
    + rewrite firstn_app_l by exact Hlt. apply strm_err_bind, strm_err_bind. apply Ht1, Hlt.
    + rewrite firstn_app_r by exact Hge.
      destruct (Hp1 (ctx_set_index cxp i) pp pre (firstn (k - length out1) out2) base sk) as (r' & E & _). rewrite E. cbn [bind].
      apply Ht2. lia.
Qed.

Theorem TR_sequence cs : Forall RT cs -> Forall TR cs -> no_stopif cs -> TR (CSequence cs).
Proof.
  intros Hf Hg Hns v cxb pb o r o' Ho Hb. cbn [build] in Hb.
  destruct (match v with VNone => Ok (map (fun _ => VNone) cs) | VList l => Ok l | _ => unsupported end) as [objs|] eqn:Eo; [|discriminate].
  cbn [bind] in Hb. destruct (seq_bloop build cs objs (push_scope cxb) pb o) as [[rs o1]|] eqn:Es; [|discriminate].
  cbn [bind] in Hb. injection Hb as <- <-.
  destruct (seq_loop_TR cs Hf Hg Hns objs _ pb o rs o1 Ho Es) as (out & -> & Ht). exists out. split; [reflexivity|].
  intros k Hk cxp pp pre base sk. cbn [parse]. apply strm_err_bind, Ht, Hk.
Qed.

Theorem TR_struct cs : Forall RT cs -> Forall TR cs -> no_stopif cs -> TR (CStruct cs).
Proof.
  intros Hf Hg Hns v cxb pb o r o' Ho Hb. cbn [build] in Hb.
  destruct (match v with VNone => Ok [] | VDict kv => Ok kv | _ => unsupported end) as [kv|] eqn:Eo; [|discriminate].
  cbn [bind] in Hb. destruct (struct_bloop build kv cs _ pb o) as [[cx2 o1]|] eqn:Es; [|discriminate].
  cbn [bind] in Hb. injection Hb as <- <-.
  destruct (struct_loop_TR kv cs Hf Hg Hns _ pb o cx2 o1 Ho Es) as (out & -> & Ht). exists out. split; [reflexivity|].
  intros k Hk cxp pp pre base sk. cbn [parse]. apply strm_err_bind, Ht, Hk.
Qed.

Theorem TR_array n c : (0 <= n)%Z -> RT c -> TR c -> TR (CArray (kint n) c).
Proof.
  intros Hn H H' v cxb pb o r o' Ho Hb. cbn [build] in Hb. rewrite eval_int_kint in Hb. cbn [bind] in Hb.
  destruct (n <? 0)%Z eqn:E0; [lia|]. destruct v; try discriminate.
  destruct (Z.of_nat (length l) =? n)%Z eqn:El; cbn [negb] in Hb; [|discriminate].
  destruct (count_bloop (build c) l 0%Z cxb pb o) as [[rs o1]|] eqn:Ec; [|discriminate]. cbn [bind] in Hb. injection Hb as <- <-.
  destruct (count_loop_TR c H H' l 0%Z cxb pb o rs o1 Ho Ec) as (out & -> & Ht).
  exists out. split; [reflexivity|]. intros k Hk cxp pp pre base sk.
  cbn [parse]. rewrite eval_int_kint. cbn [bind]. rewrite E0. unfold count_loop. rewrite iter_N_miter.
  replace (N.to_nat (Z.to_N n)) with (length l) by lia. do 2 apply strm_err_bind. apply Ht. exact Hk.
Qed.

(* ---- the induction ---- *)
Lemma frag_RT cs : forallb (frag false) cs = true -> Forall RT cs.
Proof.
  intros H. apply Forall_forall. intros c Hin. apply C01_roundtrip_closed. rewrite forallb_forall in H. apply H, Hin.
Qed.

Lemma int_leaf_frag c : int_leaf c = true -> frag false c = true.
Proof. destruct c; try discriminate; cbn [int_leaf frag]; auto. Qed.

Theorem truncation_fragment : forall c, frag false c = true -> TR c.
Proof.
  induction c using con_ind2; intros Hf; try discriminate Hf.
  - (* Format *) cbn in Hf. apply TR_format_int. apply negb_true_iff. exact Hf.
  - (* BytesInt *) cbn in Hf. destruct a0; try discriminate. destruct v; try discriminate. apply TR_bytesint. lia.
  - apply TR_varint.
  - apply TR_zigzag.
  - (* Bytes *) cbn in Hf. destruct a0; try discriminate. destruct v; try discriminate. apply TR_bytes. lia.
  - apply TR_pass.
  - (* Struct *) cbn [frag] in Hf. apply andb_prop in Hf as [Hm Hn].
    apply TR_struct; [apply frag_RT, Hm| |apply frag_no_stopif, Hm].
    rewrite Forall_forall in H |- *. intros c Hin. apply (H c Hin). rewrite forallb_forall in Hm. apply Hm, Hin.
  - (* Sequence *) cbn [frag] in Hf.
    apply TR_sequence; [apply frag_RT, Hf| |apply frag_no_stopif, Hf].
    rewrite Forall_forall in H |- *. intros c Hin. apply (H c Hin). rewrite forallb_forall in Hf. apply Hf, Hin.
  - (* Array *) cbn [frag] in Hf. destruct a0; try discriminate. destruct v; try discriminate. apply andb_prop in Hf as [Hn Hc].
    apply TR_array; [lia|apply C01_roundtrip_closed, Hc|apply IHc, Hc].
  - (* Renamed *) cbn [frag] in Hf. apply TR_renamed, IHc, Hf.
  - (* Const *) cbn [frag] in Hf. apply TR_const. apply IHc. destruct a0; try discriminate.
    + apply int_leaf_frag, Hf.
    + destruct c; try discriminate. destruct len; try discriminate. destruct v; try discriminate. cbn [frag]. apply Z.eqb_eq in Hf. lia.
  - (* Padded *) cbn [frag] in Hf. destruct a0; try discriminate. destruct v; try discriminate. apply andb_prop in Hf as [Hn Hc].
    apply TR_padded; [lia|apply C01_roundtrip_closed, Hc|apply IHc, Hc].
  - (* Aligned *) cbn [frag] in Hf. destruct a0; try discriminate. destruct v; try discriminate. apply andb_prop in Hf as [Hn Hc].
    apply TR_aligned; [lia|apply C01_roundtrip_closed, Hc|apply IHc, Hc].
  - (* Prefixed *) cbn [frag] in Hf. destruct a2; try discriminate. apply andb_prop in Hf as [Hl Hc].
    apply TR_prefixed; [apply RTi_of_int_leaf, Hl|apply IHc1, int_leaf_frag, Hl|apply C01_roundtrip_closed_tail, Hc].
  - (* FixedSized *) cbn [frag] in Hf. destruct a0; try discriminate. destruct v; try discriminate. apply andb_prop in Hf as [Hn Hc].
    apply TR_fixedsized; [lia|apply C01_roundtrip_closed, Hc].
Qed.

(* on the public entry points: every strict prefix of what build produced is rejected with StreamError *)
Theorem C06_truncated_rejected c v kw r out k kw' :
  frag false c = true -> build_bytes c v kw = Ok (r, out) -> k < length out ->
  exists q, parse_bytes c kw' (firstn k out) = Err EStream q.
Proof.
  intros Hf Hb Hk. unfold build_bytes in Hb.
  destruct (build c v (top_ctx kw MBuild) [] ostream_new) as [[r0 o]|] eqn:E; [|discriminate]. cbn [bind] in Hb. injection Hb as <- <-.
  destruct (truncation_fragment c Hf v _ [] ostream_new r0 o app_mode_new E) as (out & -> & Ht).
  rewrite odata_new_oapp in Hk |- *. pose proof (Ht k Hk (top_ctx kw' MParse) [] [] 0%N true) as H.
  unfold parse_bytes, istream_of. unfold at_pos in H. cbn [app nlen length N.of_nat] in H.
  destruct (parse c _ [] _) as [[v' s']|e q]; [contradiction|]. destruct e; try contradiction. cbn [bind]. eexists. reflexivity.
Qed.
