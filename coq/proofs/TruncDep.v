(* C06, truncation, over DEPENDENT layouts (DepRT.dfrag): every strict prefix of what such a construct builds is rejected with
   StreamError -- the members before the cut parse back to what was built (DepRT), so the sizes and choices the later members
   read are the built ones, and the member the cut falls in runs out of data. *)
From Coq Require Import ZArith NArith List Bool Lia ZifyBool ZifyN ZifyNat.
From Coq Require Import Strings.Byte.
Require Import Bytes Value Expr Codec Float Stream Syntax Sizeof Parse Build BytesFacts StreamFacts PrimFacts ConInd RTFacts SizeExact TruncFacts DepRT.
Import ListNotations.
Local Open Scope nat_scope.

Definition TRG (G : list (name * Z)) (c : con) : Prop :=
  forall v cxb pb o r o', app_mode o -> knows cxb G -> build c v cxb pb o = Ok (r, o') ->
    exists out, o' = oapp o out /\
      forall k, k < length out -> forall cxp pp pre base sk, knows cxp G ->
        strm_err (parse c cxp pp (at_pos pre (firstn k out) base sk)).

Lemma TRG_of_TR G c : TR c -> TRG G c.
Proof. intros H v cxb pb o r o' Ho _ Hb. destruct (H v cxb pb o r o' Ho Hb) as (out & -> & Ht). exists out. split; [reflexivity|]. intros. apply Ht. assumption. Qed.

Lemma TRG_renamed G nm c : TRG G c -> TRG G (CRenamed nm c).
Proof.
  intros H v cxb pb o r o' Ho Hk Hb. cbn [build] in Hb. destruct (H v cxb _ o r o' Ho Hk Hb) as (out & -> & Ht).
  exists out. split; [reflexivity|]. intros. cbn [parse]. apply Ht; assumption.
Qed.

(* any size: a negative one makes the build fail *)
Lemma TR_bytes_any n : TR (CBytes (kint n)).
Proof.
  destruct (Z.leb_spec 0 n) as [H|H]; [apply TR_bytes, H|].
  intros v cxb pb o r o' Ho Hb. destruct (RT_bytes_any n v cxb pb o r o' Ho Hb) as (out & -> & _). exfalso.
  cbn [build] in Hb. rewrite eval_int_kint in Hb. cbn [bind] in Hb.
  destruct (int_of_val v).
  - destruct (n <? 1)%Z eqn:E; [discriminate|lia].
  - destruct v; try discriminate. unfold write_val, owrite in Hb. destruct (n <? 0)%Z eqn:E; [discriminate|lia].
Qed.
Lemma TR_array_any n el : RT el -> TR el -> TR (CArray (kint n) el).
Proof.
  intros Hel Ht. destruct (Z.leb_spec 0 n) as [H|H]; [apply TR_array; assumption|].
  intros v cxb pb o r o' Ho Hb. exfalso. cbn [build] in Hb. rewrite eval_int_kint in Hb. cbn [bind] in Hb.
  destruct (n <? 0)%Z eqn:E; [discriminate|lia].
Qed.
Lemma TR_padded_any n el pat : RT el -> TR el -> TR (CPadded (kint n) el pat).
Proof.
  intros Hel Ht. destruct (Z.leb_spec 0 n) as [H|H]; [apply TR_padded; assumption|].
  intros v cxb pb o r o' Ho Hb. exfalso. cbn [build] in Hb. rewrite eval_int_kint in Hb. cbn [bind] in Hb.
  destruct (n <? 0)%Z eqn:E; [discriminate|lia].
Qed.
Lemma TR_fixed_any n el : RT el -> TR (CFixedSized (kint n) el).
Proof.
  intros Hel. destruct (Z.leb_spec 0 n) as [H|H]; [apply TR_fixedsized; assumption|].
  intros v cxb pb o r o' Ho Hb. exfalso. cbn [build] in Hb. rewrite eval_int_kint in Hb. cbn [bind] in Hb.
  destruct (n <? 0)%Z eqn:E; [discriminate|lia].
Qed.

Lemma TRG_sized G n c K : sized (this_ n) c K -> (forall z, TR (K (kint z))) -> (exists z, In (n, z) G) -> TRG G c.
Proof.
  intros Hs HT (z & Hin) v cxb pb o r o' Ho Hk Hb.
  destruct (sized_subst _ _ _ Hs cxb z (eval_this _ _ _ _ Hk Hin)) as [Eb _]. rewrite Eb in Hb.
  destruct (HT z v cxb pb o r o' Ho Hb) as (out & -> & Ht). exists out. split; [reflexivity|].
  intros k Hlt cxp pp pre base sk Hk'. destruct (sized_subst _ _ _ Hs cxp z (eval_this _ _ _ _ Hk' Hin)) as [_ Ep]. rewrite Ep. apply Ht, Hlt.
Qed.

Lemma TRG_switch G n cases d : (exists z, In (n, z) G) -> Forall (fun vc => TRG G (snd vc)) cases -> TRG G d -> TRG G (CSwitch (this_ n) cases d).
Proof.
  intros (z & Hin) Hcs Hd v cxb pb o r o' Ho Hk Hb.
  destruct (switch_pick G n z cases d v cxb pb o r o' Hin Hk Hb) as (c' & Hc & Bc & Pc).
  assert (Hc' : TRG G c').
  { destruct Hc as [->|Hc]; [exact Hd|]. apply in_map_iff in Hc as (vc & <- & Hvc). rewrite Forall_forall in Hcs. apply Hcs, Hvc. }
  destruct (Hc' v cxb pb o r o' Ho Hk Bc) as (out & -> & Ht).
  exists out. split; [reflexivity|]. intros k Hlt cxp pp pre base sk Hkp. rewrite Pc by exact Hkp. apply Ht; assumption.
Qed.

Lemma TRG_ite G n a b : (exists z, In (n, z) G) -> TRG G a -> TRG G b -> TRG G (CIfThenElse (this_ n) a b).
Proof.
  intros (z & Hin) Ha Hb0 v cxb pb o r o' Ho Hk Hb.
  destruct (ite_pick G n z a b v cxb pb o r o' Hin Hk Hb) as (c' & Hc & Bc & Pc).
  assert (Hc' : TRG G c') by (destruct Hc as [->| ->]; assumption).
  destruct (Hc' v cxb pb o r o' Ho Hk Bc) as (out & -> & Ht).
  exists out. split; [reflexivity|]. intros k Hlt cxp pp pre base sk Hkp. rewrite Pc by exact Hkp. apply Ht; assumption.
Qed.

(* ---- the member loop ---- *)
Lemma dloop_TR : forall ms Gn, dgo Gn ms = true -> NoDup (names ms) -> (forall k, In k Gn -> ~ In k (names ms)) ->
  (forall m, In m ms -> forall G', memok G' m = true -> forall Gv, map fst Gv = G' -> TRG Gv m) ->
  forall G kv cxb pb o cxb' o', map fst G = Gn -> app_mode o -> knows cxb G ->
  struct_bloop build kv ms cxb pb o = Ok (cxb', o') ->
  exists out, o' = oapp o out /\
    forall k, k < length out -> forall cxp pp acc pre base sk, knows cxp G ->
      strm_err (struct_loop parse ms cxp pp acc (at_pos pre (firstn k out) base sk)).
Proof.
  induction ms as [|m t IH]; intros Gn Hg Hnd Hfresh HT G kv cxb pb o cxb' o' HG Ho Hk Hb; cbn [struct_bloop] in Hb.
  - injection Hb as <- <-. exists []. split; [symmetry; apply oapp_nil; exact Ho|]. intros k Hk'. cbn in Hk'. lia.
  - rewrite dgo_cons in Hg.
    assert (HT' : forall m0, In m0 t -> forall G', memok G' m0 = true -> forall Gv, map fst Gv = G' -> TRG Gv m0)
      by (intros m0 Hin; apply HT; right; exact Hin).
    destruct (def_name m) as [n|] eqn:Ed.
    + (* an integer field *)
      destruct (def_name_some m n Ed) as (c' & -> & El). cbn [name_of] in Hb.
      match type of Hb with context [bind ?X _] => destruct X as [subobj|] eqn:Es end; [|discriminate]. cbn [bind] in Hb.
      destruct (build (CRenamed n c') subobj (ctx_set cxb n subobj) pb o) as [[r o1]|e q] eqn:Ec.
      2:{ destruct e; try discriminate. replace (is_stopif (CRenamed n c')) with false in Hb by (destruct c'; try discriminate El; reflexivity). discriminate. }
      assert (Hn_t : ~ In n (names t)) by (rewrite names_cons in Hnd; cbn [name_of app] in Hnd; inversion Hnd; assumption).
      assert (Hnd' : NoDup (names t)) by (rewrite names_cons in Hnd; cbn [name_of app] in Hnd; inversion Hnd; assumption).
      assert (Hn_G : ~ In n Gn) by (intros Hin; apply (Hfresh n Hin); rewrite names_cons; cbn [name_of app]; left; reflexivity).
      cbn [build] in Ec. destruct (RTi2_of_int_leaf c' El subobj _ _ o r o1 Ho Ec) as (z & Hz & out1 & -> & Hp1).
      destruct (truncation_fragment c' (int_leaf_frag c' El) subobj _ _ o r _ Ho Ec) as (out1' & E1 & Ht1). apply oapp_inj in E1. subst out1'.
      assert (Hk2 : knows (ctx_set (ctx_set cxb n subobj) n r) ((n, z) :: G)).
      { apply knows_set_new; [apply knows_set_other; [exact Hk|]| |exact Hz]; apply not_in_map_fst; rewrite HG; exact Hn_G. }
      assert (Hfresh' : forall k, In k (n :: Gn) -> ~ In k (names t)).
      { intros k [<-|Hin]; [exact Hn_t|]. intros Hin'. apply (Hfresh k Hin). rewrite names_cons. apply in_or_app. right. exact Hin'. }
      destruct (IH (n :: Gn) Hg Hnd' Hfresh' HT' ((n, z) :: G) kv _ pb _ cxb' o' ltac:(cbn [map fst]; rewrite HG; reflexivity) (app_mode_oapp _ _) Hk2 Hb) as (out2 & -> & Ht2).
      exists (out1 ++ out2). split; [apply oapp_app|].
      intros k Hlen cxp pp acc pre base sk Hkp. rewrite app_length in Hlen. cbn [struct_loop parse].
      destruct (Nat.lt_ge_cases k (length out1)) as [Hlt|Hge].
      * rewrite firstn_app_l by exact Hlt. pose proof (Ht1 k Hlt cxp (pp ++ [n]) pre base sk) as H1.
        destruct (parse c' cxp (pp ++ [n]) _) as [[v s']|e q]; [contradiction|]. destruct e; try contradiction. exact I.
      * rewrite firstn_app_r by exact Hge. rewrite Hp1. cbn [name_of]. apply Ht2; [lia|].
        apply knows_set_new; [exact Hkp| |reflexivity]. apply not_in_map_fst. rewrite HG. exact Hn_G.
    + (* a member that reads what is known *)
      apply andb_prop in Hg as [Hm Hg].
      destruct (proj2 (proj2 (proj2 (dep_roundtrip m))) Gn Hm) as [Hst HR].
      pose proof (HR G HG) as Hc. pose proof (HT m (or_introl eq_refl) Gn Hm G HG) as Hc'.
      match type of Hb with context [bind ?X _] => destruct X as [subobj|] eqn:Es end; [|discriminate]. cbn [bind] in Hb.
      set (cx1 := match name_of m with Some n => ctx_set cxb n subobj | None => cxb end) in *.
      destruct (build m subobj cx1 pb o) as [[r o1]|e q] eqn:Ec.
      2:{ destruct e; try discriminate. rewrite Hst in Hb. discriminate. }
      set (cx2 := match name_of m with Some n => ctx_set cx1 n r | None => cx1 end) in *.
      assert (Hnd' : NoDup (names t)) by (rewrite names_cons in Hnd; apply nodup_app_r in Hnd; exact Hnd).
      assert (Hfresh' : forall k, In k Gn -> ~ In k (names t)).
      { intros k Hin Hin'. apply (Hfresh k Hin). rewrite names_cons. apply in_or_app. right. exact Hin'. }
      assert (Hname : forall n, name_of m = Some n -> forall z, ~ In (n, z) G).
      { intros n En. apply not_in_map_fst. rewrite HG. intros Hin. apply (Hfresh n Hin). rewrite names_cons, En. left. reflexivity. }
      assert (Hk1 : knows cx1 G) by (unfold cx1; destruct (name_of m) as [n|] eqn:En; [apply knows_set_other; [exact Hk|apply Hname; reflexivity]|exact Hk]).
      assert (Hk2 : knows cx2 G) by (unfold cx2; destruct (name_of m) as [n|] eqn:En; [apply knows_set_other; [exact Hk1|apply Hname; reflexivity]|exact Hk1]).
      destruct (Hc subobj cx1 pb o r o1 Ho Hk1 Ec) as (out1 & -> & Hp1).
      destruct (Hc' subobj cx1 pb o r _ Ho Hk1 Ec) as (out1' & E1 & Ht1). apply oapp_inj in E1. subst out1'.
      destruct (IH Gn Hg Hnd' Hfresh' HT' G kv cx2 pb _ cxb' o' HG (app_mode_oapp _ _) Hk2 Hb) as (out2 & -> & Ht2).
      exists (out1 ++ out2). split; [apply oapp_app|].
      intros k Hlen cxp pp acc pre base sk Hkp. rewrite app_length in Hlen. cbn [struct_loop].
      destruct (Nat.lt_ge_cases k (length out1)) as [Hlt|Hge].
      * rewrite firstn_app_l by exact Hlt. pose proof (Ht1 k Hlt cxp pp pre base sk Hkp) as H1.
        destruct (parse m cxp pp _) as [[v s']|e q]; [contradiction|]. destruct e; try contradiction. exact I.
      * rewrite firstn_app_r by exact Hge.
        destruct (Hp1 cxp pp pre (firstn (k - length out1) out2) base sk Hkp) as (r' & E & _). rewrite E.
        destruct (name_of m) as [n|] eqn:En; apply Ht2; try lia; [|exact Hkp].
        apply knows_set_other; [exact Hkp|apply Hname; reflexivity].
Qed.

Theorem TR_dstruct cs : dgo [] cs = true -> NoDup (names cs) ->
  (forall m, In m cs -> forall G', memok G' m = true -> forall Gv, map fst Gv = G' -> TRG Gv m) -> TR (CStruct cs).
Proof.
  intros Hg Hnd HT v cxb pb o r o' Ho Hb. cbn [build] in Hb.
  destruct (match v with VNone => Ok [] | VDict kv => Ok kv | _ => unsupported end) as [kv|] eqn:Ek; [|discriminate].
  cbn [bind] in Hb. destruct (struct_bloop build kv cs (ctx_update (push_scope cxb) kv) pb o) as [[cxb' o1]|] eqn:Es; [|discriminate].
  cbn [bind] in Hb. injection Hb as <- <-.
  destruct (dloop_TR cs [] Hg Hnd (fun k H => match H with end) HT [] kv _ pb o cxb' o1 eq_refl Ho (knows_update_push cxb kv) Es) as (out & -> & Ht).
  exists out. split; [reflexivity|]. intros k Hk cxp pp pre base sk. cbn [parse]. apply strm_err_bind. apply Ht; [exact Hk|apply knows_push].
Qed.

(* ---- the induction ---- *)
Definition PT (c : con) : Prop :=
  (dfrag false c = true -> TR c) /\
  (forall Gn, szb Gn c = true -> forall Gv, map fst Gv = Gn -> TRG Gv c) /\
  (forall Gn, memok Gn c = true -> forall Gv, map fst Gv = Gn -> TRG Gv c).

Lemma PT_plain c : (forall n c', c <> CRenamed n c') -> (dfrag false c = true -> TR c) ->
  (forall Gn, szb Gn c = true -> forall Gv, map fst Gv = Gn -> TRG Gv c) -> PT c.
Proof.
  intros Hnr HA HS. split; [exact HA|]. split; [exact HS|]. intros Gn Hm Gv HG.
  assert (E : memok Gn c = szb Gn c || dfrag false c) by (destruct c; try reflexivity; exfalso; eapply Hnr; reflexivity).
  rewrite E in Hm. apply orb_prop in Hm as [Hm|Hm]; [apply (HS Gn Hm Gv HG)|apply TRG_of_TR, HA, Hm].
Qed.

Lemma brk_TRG c Gn Gv : PT c -> brk Gn c = true -> map fst Gv = Gn -> TRG Gv c.
Proof.
  intros (I1 & I2 & _) Hb HG. unfold brk, brk_ in Hb. apply orb_prop in Hb as [Hb|Hb];
    [apply (I2 Gn (szb0_szb _ _ Hb) Gv HG)|apply TRG_of_TR, I1, Hb].
Qed.

Lemma dfrag_RT c : dfrag false c = true -> RT c.
Proof. apply C01_roundtrip_dependent. Qed.

Lemma int_leaf_dfrag c : int_leaf c = true -> dfrag false c = true.
Proof. destruct c; try discriminate; cbn [int_leaf dfrag]; auto. Qed.

Theorem dep_truncation : forall c, PT c.
Proof.
  assert (NoSZ : forall c, (forall G, szb G c = false) -> forall Gn, szb Gn c = true -> forall Gv, map fst Gv = Gn -> TRG Gv c)
    by (intros c H Gn Hs; rewrite H in Hs; discriminate).
  assert (Dead : forall c, (forall n c', c <> CRenamed n c') -> dfrag false c = false -> (forall G, szb G c = false) -> PT c).
  { intros c Hnr Hd Hs. apply PT_plain; [exact Hnr| |apply NoSZ, Hs]. intros Hf. rewrite Hd in Hf. discriminate. }
  induction c using con_ind2; try (apply Dead; [intros; discriminate|reflexivity|reflexivity]).
  - (* Format *) apply PT_plain; [intros; discriminate| |apply NoSZ; reflexivity]. intros Hf. cbn in Hf. apply TR_format_int. apply negb_true_iff. exact Hf.
  - (* BytesInt *) apply PT_plain; [intros; discriminate| |apply NoSZ; reflexivity]. intros Hf. cbn in Hf. destruct a0; try discriminate. destruct v; try discriminate. apply TR_bytesint. lia.
  - apply PT_plain; [intros; discriminate| |apply NoSZ; reflexivity]. intros _. apply TR_varint.
  - apply PT_plain; [intros; discriminate| |apply NoSZ; reflexivity]. intros _. apply TR_zigzag.
  - (* Bytes *) apply PT_plain; [intros; discriminate| |].
    + intros Hf. cbn in Hf. destruct a0; try discriminate. destruct v; try discriminate. apply TR_bytes. lia.
    + intros Gn Hm Gv HG. unfold szb, szb_ in Hm. rewrite orb_false_r in Hm. cbn [szb0_] in Hm. destruct a0 as [| |a0 k|v| | |]; try discriminate Hm.
      destruct a0 as [[]| | | | | |]; try discriminate Hm. destruct k as [k|]; try discriminate Hm.
      apply (TRG_sized Gv k _ CBytes); [apply sz_bytes|apply TR_bytes_any|]. apply memb_in. rewrite HG. exact Hm.
  - apply PT_plain; [intros; discriminate| |apply NoSZ; reflexivity]. intros _. apply TR_pass.
  - (* Struct *) apply PT_plain; [intros; discriminate| |apply NoSZ; reflexivity].
    intros Hf. rewrite dfrag_struct in Hf. apply andb_prop in Hf as [Hn Hg].
    apply TR_dstruct; [exact Hg|apply nodupb_NoDup; exact Hn|].
    intros m Hin G' Hm Gv HG. rewrite Forall_forall in H. destruct (H m Hin) as (_ & _ & HM). apply (HM G' Hm Gv HG).
  - (* Sequence *) apply PT_plain; [intros; discriminate| |apply NoSZ; reflexivity]. intros Hf. cbn [dfrag] in Hf.
    apply TR_sequence; [| |apply dfrag_no_stopif, Hf].
    + apply Forall_forall. intros c Hin. apply dfrag_RT. rewrite forallb_forall in Hf. apply Hf, Hin.
    + rewrite Forall_forall in H |- *. intros c Hin. apply (H c Hin). rewrite forallb_forall in Hf. apply Hf, Hin.
  - (* IfThenElse on a known field *) apply PT_plain; [intros; discriminate|intros Hf; discriminate Hf|].
    intros Gn Hm Gv HG. unfold szb, szb_ in Hm. cbn [szb0_ orb] in Hm.
    destruct a0 as [| |a0 k|v| | |]; try discriminate Hm. destruct a0 as [[]| | | | | |]; try discriminate Hm. destruct k as [k|]; try discriminate Hm.
    apply andb_prop in Hm as [Hm Hb2]. apply andb_prop in Hm as [Hk Hb1].
    apply TRG_ite; [apply memb_in; rewrite HG; exact Hk|apply (brk_TRG _ Gn); assumption|apply (brk_TRG _ Gn); assumption].
  - (* Switch on a known field *) apply PT_plain; [intros; discriminate|intros Hf; discriminate Hf|].
    intros Gn Hm Gv HG. unfold szb, szb_ in Hm. cbn [szb0_ orb] in Hm.
    destruct a0 as [| |a0 k|v| | |]; try discriminate Hm. destruct a0 as [[]| | | | | |]; try discriminate Hm. destruct k as [k|]; try discriminate Hm.
    apply andb_prop in Hm as [Hm Hb2]. apply andb_prop in Hm as [Hk Hb1].
    apply TRG_switch; [apply memb_in; rewrite HG; exact Hk| |apply (brk_TRG _ Gn); assumption].
    rewrite Forall_forall in H |- *. intros vc Hin. apply (brk_TRG _ Gn); [apply H, Hin| |exact HG].
    rewrite forallb_forall in Hb1. apply Hb1, Hin.
  - (* Array *) destruct IHc as (I1 & _ & _). apply PT_plain; [intros; discriminate| |].
    + intros Hf. cbn [dfrag] in Hf. destruct a0; try discriminate. destruct v; try discriminate. apply andb_prop in Hf as [Hn Hc].
      apply TR_array; [lia|apply dfrag_RT, Hc|apply I1, Hc].
    + intros Gn Hm Gv HG. unfold szb, szb_ in Hm. rewrite orb_false_r in Hm. cbn [szb0_] in Hm. destruct a0 as [| |a0 k|v| | |]; try discriminate Hm.
      destruct a0 as [[]| | | | | |]; try discriminate Hm. destruct k as [k|]; try discriminate Hm. apply andb_prop in Hm as [Hk Hc].
      apply (TRG_sized Gv k _ (fun x => CArray x c)); [apply sz_array, dfrag_RT, Hc|intros z; apply TR_array_any; [apply dfrag_RT, Hc|apply I1, Hc]|].
      apply memb_in. rewrite HG. exact Hk.
  - (* Renamed *) destruct IHc as (I1 & I2 & _). split; [|split].
    + intros Hf. cbn [dfrag] in Hf. apply TR_renamed, I1, Hf.
    + intros Gn Hs. discriminate Hs.
    + intros Gn Hm Gv HG. rewrite memok_eq in Hm. cbn [strip] in Hm. apply TRG_renamed. apply orb_prop in Hm as [Hm|Hm];
        [apply (I2 Gn Hm Gv HG)|apply TRG_of_TR, I1, Hm].
  - (* Const *) destruct IHc as (I1 & _ & _). apply PT_plain; [intros; discriminate| |apply NoSZ; reflexivity]. intros Hf. cbn [dfrag] in Hf.
    apply TR_const. apply I1. destruct a0; try discriminate.
    + apply int_leaf_dfrag, Hf.
    + destruct c; try discriminate. destruct len; try discriminate. destruct v; try discriminate. cbn [dfrag]. apply Z.eqb_eq in Hf. lia.
  - (* Padded *) destruct IHc as (I1 & _ & _). apply PT_plain; [intros; discriminate| |].
    + intros Hf. cbn [dfrag] in Hf. destruct a0; try discriminate. destruct v; try discriminate. apply andb_prop in Hf as [Hn Hc].
      apply TR_padded; [lia|apply dfrag_RT, Hc|apply I1, Hc].
    + intros Gn Hm Gv HG. unfold szb, szb_ in Hm. rewrite orb_false_r in Hm. cbn [szb0_] in Hm. destruct a0 as [| |a0 k|v| | |]; try discriminate Hm.
      destruct a0 as [[]| | | | | |]; try discriminate Hm. destruct k as [k|]; try discriminate Hm. apply andb_prop in Hm as [Hk Hc].
      apply (TRG_sized Gv k _ (fun x => CPadded x c a2)); [apply sz_padded, dfrag_RT, Hc|intros z; apply TR_padded_any; [apply dfrag_RT, Hc|apply I1, Hc]|].
      apply memb_in. rewrite HG. exact Hk.
  - (* Aligned *) destruct IHc as (I1 & _ & _). apply PT_plain; [intros; discriminate| |apply NoSZ; reflexivity].
    intros Hf. cbn [dfrag] in Hf. destruct a0; try discriminate. destruct v; try discriminate. apply andb_prop in Hf as [Hn Hc].
    apply TR_aligned; [lia|apply dfrag_RT, Hc|apply I1, Hc].
  - (* Prefixed *) destruct IHc1 as (L1 & _ & _). apply PT_plain; [intros; discriminate| |apply NoSZ; reflexivity].
    intros Hf. cbn [dfrag] in Hf. destruct a2; try discriminate. apply andb_prop in Hf as [Hl Hc].
    apply TR_prefixed; [apply RTi_of_int_leaf, Hl|apply L1, int_leaf_dfrag, Hl|apply dep_roundtrip, Hc].
  - (* FixedSized *) apply PT_plain; [intros; discriminate| |].
    + intros Hf. cbn [dfrag] in Hf. destruct a0; try discriminate. destruct v; try discriminate. apply andb_prop in Hf as [Hn Hc].
      apply TR_fixedsized; [lia|apply dfrag_RT, Hc].
    + intros Gn Hm Gv HG. unfold szb, szb_ in Hm. rewrite orb_false_r in Hm. cbn [szb0_] in Hm. destruct a0 as [| |a0 k|v| | |]; try discriminate Hm.
      destruct a0 as [[]| | | | | |]; try discriminate Hm. destruct k as [k|]; try discriminate Hm. apply andb_prop in Hm as [Hk Hc].
      apply (TRG_sized Gv k _ (fun x => CFixedSized x c)); [apply sz_fixed, dfrag_RT, Hc|intros z; apply TR_fixed_any, dfrag_RT, Hc|].
      apply memb_in. rewrite HG. exact Hk.
Qed.

(* on the public entry points *)
Theorem C06_truncated_rejected_dependent c v kw r out k kw' :
  dfrag false c = true -> build_bytes c v kw = Ok (r, out) -> k < length out ->
  exists q, parse_bytes c kw' (firstn k out) = Err EStream q.
Proof.
  intros Hf Hb Hk. unfold build_bytes in Hb.
  destruct (build c v (top_ctx kw MBuild) [] ostream_new) as [[r0 o]|] eqn:E; [|discriminate]. cbn [bind] in Hb. injection Hb as <- <-.
  destruct (proj1 (dep_truncation c) Hf v _ [] ostream_new r0 o app_mode_new E) as (out & -> & Ht).
  rewrite odata_new_oapp in Hk |- *. pose proof (Ht k Hk (top_ctx kw' MParse) [] [] 0%N true) as H.
  unfold parse_bytes, istream_of. unfold at_pos in H. cbn [app nlen length N.of_nat] in H.
  destruct (parse c _ [] _) as [[v' s']|e q]; [contradiction|]. destruct e; try contradiction. cbn [bind]. eexists. reflexivity.
Qed.

(* every strict prefix of a built tag-length-value record is rejected *)
Lemma ex_tlv_truncated :
  match build_bytes ex_tlv (VDict [([x74], VInt 2); ([x6e], VInt 2); ([x76], VList [VInt 258; VInt 3]); ([x66], VInt 300)]) [] with
  | Ok (_, out) => forallb (fun k => match parse_bytes ex_tlv [] (firstn k out) with Err EStream _ => true | _ => false end) (seq 0 (length out))
  | _ => false
  end = true.
Proof. vm_compute. reflexivity. Qed.
