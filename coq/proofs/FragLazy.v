(* C16, closed form: the hypothesis of lazystruct_matches_struct / lazyarray_matches_array (what a lazy parse skips is what the
   eager parse consumes; members do not read the context) holds for EVERY member of the closed sequential fragment that has
   no Prefixed below its top, and for a Prefixed member with an integer length field at its top (where the library measures
   the region).  The attempt to prove it for Prefixed below the top of a member is how defect F34 and known finding K8 were
   found: the static size of Prefixed(lengthfield, fixed-size subcon) is not what it consumes on a longer region. *)
From Coq Require Import ZArith NArith List Bool Lia ZifyBool ZifyN ZifyNat.
From Coq Require Import Strings.Byte.
Require Import Bytes Value Expr Codec Float Stream Syntax Sizeof Parse Build ConInd BytesFacts StreamFacts PrimFacts RTFacts RegionFacts
  FrameFacts Lazy LazyFacts IndexFacts.
Import ListNotations.
Local Open Scope nat_scope.

Lemma iread_tell s n p d s' : iread s n p = Ok (d, s') -> itell s' = (itell s + n)%Z.
Proof. intros H. destruct (iread_abs _ _ _ _ _ H) as [E Hn]. rewrite !itell_iabs, E. lia. Qed.

(* ---- 1. the fragment never reads the context ---- *)
Definition PI (c : con) : Prop := forall cx cx' p s, parse c cx p s = parse c cx' p s.

Definition same3 (a b : res (list (name * val) * ctx * istream)) : Prop :=
  match a, b with
  | Ok (kv, _, s1), Ok (kv', _, s2) => kv = kv' /\ s1 = s2
  | Err e q, Err e' q' => e = e' /\ q = q'
  | _, _ => False
  end.

Lemma struct_loop_PI cs : Forall PI cs -> forall cx cx' p acc s,
  same3 (struct_loop parse cs cx p acc s) (struct_loop parse cs cx' p acc s).
Proof.
  induction 1 as [|c t Hc Ht IH]; intros cx cx' p acc s; cbn [struct_loop].
  - split; reflexivity.
  - rewrite (Hc cx cx' p s). destruct (parse c cx' p s) as [[v s']|e q].
    + destruct (name_of c); apply IH.
    + destruct e; try (split; reflexivity). destruct (is_stopif c); split; reflexivity.
Qed.

Lemma seq_loop_PI cs : Forall PI cs -> forall cx cx' p s, seq_loop parse cs cx p s = seq_loop parse cs cx' p s.
Proof.
  induction 1 as [|c t Hc Ht IH]; intros cx cx' p s; cbn [seq_loop]; [reflexivity|].
  rewrite (Hc cx cx' p s). destruct (parse c cx' p s) as [[v s']|e q]; [|reflexivity].
  rewrite (IH _ (match name_of c with Some n => ctx_set cx' n v | None => cx' end)). reflexivity.
Qed.

Lemma count_loop_PI c : PI c -> forall n cx cx' p s, count_loop (parse c) n cx p s = count_loop (parse c) n cx' p s.
Proof.
  intros Hc n cx cx' p s. unfold count_loop. rewrite !iter_N_miter.
  rewrite (miter_ext (count_step (parse c) cx p) (count_step (parse c) cx' p)); [reflexivity|].
  intros [[i acc] s0]. unfold count_step. rewrite (Hc (ctx_set_index cx i) (ctx_set_index cx' i) p s0). reflexivity.
Qed.

Theorem frag_parse_ctx_free : forall c e, frag e c = true -> PI c.
Proof.
  induction c using con_ind2; intros e Hf; try discriminate Hf; intros cx cx' p s; cbn [frag] in Hf; cbn [parse]; try reflexivity.
  - (* BytesInt *) destruct a0; try discriminate. destruct v; try discriminate. change (XConst (VInt z)) with (kint z). rewrite !eval_int_kint. reflexivity.
  - (* Bytes *) destruct a0; try discriminate. destruct v; try discriminate. change (XConst (VInt z)) with (kint z). rewrite !eval_int_kint. reflexivity.
  - (* Struct *) apply andb_prop in Hf as [Hm _].
    assert (HF : Forall PI a0) by (rewrite Forall_forall in H |- *; intros c Hin; apply (H c Hin false); rewrite forallb_forall in Hm; apply Hm, Hin).
    pose proof (struct_loop_PI a0 HF (push_scope cx) (push_scope cx') p [] s) as Hl.
    destruct (struct_loop parse a0 (push_scope cx) p [] s) as [[[kv c1] s1]|e0 q], (struct_loop parse a0 (push_scope cx') p [] s) as [[[kv' c2] s2]|e' q'];
      cbn in Hl; try contradiction; destruct Hl as [-> ->]; reflexivity.
  - (* Sequence *)
    assert (HF : Forall PI a0) by (rewrite Forall_forall in H |- *; intros c Hin; apply (H c Hin false); rewrite forallb_forall in Hf; apply Hf, Hin).
    rewrite (seq_loop_PI a0 HF (push_scope cx) (push_scope cx') p s). reflexivity.
  - (* Array *) destruct a0; try discriminate. destruct v; try discriminate. apply andb_prop in Hf as [_ Hc].
    change (XConst (VInt z)) with (kint z). rewrite !eval_int_kint. cbn [bind]. destruct (z <? 0)%Z; [reflexivity|].
    rewrite (count_loop_PI c (IHc false Hc) _ cx cx' p s). reflexivity.
  - (* Renamed *) apply (IHc e Hf).
  - (* Const *)
    assert (Hc : PI c).
    { destruct a0; try discriminate.
      - destruct c; try discriminate; cbn [int_leaf] in Hf; [apply (IHc false); exact Hf| |apply (IHc false); reflexivity|apply (IHc false); reflexivity].
        destruct len; try discriminate. destruct v; try discriminate. apply (IHc false). exact Hf.
      - destruct c; try discriminate. destruct len; try discriminate. destruct v; try discriminate.
        apply (IHc false). cbn [frag]. apply Z.leb_le. apply Z.eqb_eq in Hf. lia. }
    rewrite (Hc cx cx' p s). reflexivity.
  - (* Padded *) destruct a0; try discriminate. destruct v; try discriminate. apply andb_prop in Hf as [_ Hc].
    change (XConst (VInt z)) with (kint z). rewrite !eval_int_kint. cbn [bind]. destruct (z <? 0)%Z; [reflexivity|].
    rewrite (IHc false Hc cx cx' p s). reflexivity.
  - (* Aligned *) destruct a0; try discriminate. destruct v; try discriminate. apply andb_prop in Hf as [_ Hc].
    change (XConst (VInt z)) with (kint z). rewrite !eval_int_kint. cbn [bind]. destruct (z <? 2)%Z; [reflexivity|].
    rewrite (IHc false Hc cx cx' p s). reflexivity.
  - (* Prefixed *) destruct a2; try discriminate. apply andb_prop in Hf as [Hl Hc].
    assert (Hlf : frag false c1 = true) by (destruct c1; try discriminate Hl; cbn [int_leaf frag] in *; exact Hl).
    rewrite (IHc1 false Hlf cx cx' p s). destruct (parse c1 cx' p s) as [[lv s1]|]; [cbn [bind]|reflexivity].
    destruct (vint_of lv) as [n|]; [cbn [bind]|reflexivity]. destruct (iread s1 n p) as [[d s2]|]; [cbn [bind]|reflexivity].
    rewrite (IHc2 true Hc cx cx' p _). reflexivity.
  - (* FixedSized *) destruct a0; try discriminate. destruct v; try discriminate. apply andb_prop in Hf as [_ Hc].
    change (XConst (VInt z)) with (kint z). rewrite !eval_int_kint. cbn [bind]. destruct (z <? 0)%Z; [reflexivity|].
    destruct (iread s z p) as [[d s1]|]; [cbn [bind]|reflexivity]. rewrite (IHc false Hc cx cx' p _). reflexivity.
Qed.

(* ---- 2. its static size does not depend on the context either, and when it has none that is a SizeofError ---- *)
Definition SI (c : con) : Prop := forall cx cx' p, sizeof c cx p = sizeof c cx' p.
Definition SE (c : con) : Prop := forall cx p e q, sizeof c cx p = Err e q -> e = ESizeof.

Lemma sum_sizes_SI cs : Forall SI cs -> forall cx cx' p, sum_sizes sizeof cx p cs = sum_sizes sizeof cx' p cs.
Proof. induction 1 as [|c t Hc Ht IH]; intros cx cx' p; cbn [sum_sizes]; [reflexivity|]. rewrite (Hc cx cx' p), (IH cx cx' p). reflexivity. Qed.

Lemma sum_sizes_SE cs : Forall SE cs -> forall cx p e q, sum_sizes sizeof cx p cs = Err e q -> e = ESizeof.
Proof.
  induction 1 as [|c t Hc Ht IH]; intros cx p e q; cbn [sum_sizes]; [discriminate|].
  destruct (sizeof c cx p) as [a|e0 q0] eqn:E; cbn [bind]; [|intros H; injection H as <- <-; apply (Hc _ _ _ _ E)].
  destruct (sum_sizes sizeof cx p t) as [b|e1 q1] eqn:E1; cbn [bind]; [discriminate|]. intros H; injection H as <- <-. apply (IH _ _ _ _ E1).
Qed.

Lemma catch_key_sizeof_err {A} (r : res A) p e q : catch_key r p = Err e q -> (forall e0 q0, r = Err e0 q0 -> e0 = ESizeof) -> e = ESizeof.
Proof.
  destruct r as [a|e0 q0]; cbn [catch_key]; [discriminate|]. intros H Hr. pose proof (Hr e0 q0 eq_refl) as ->. cbn in H. injection H as <- _. reflexivity.
Qed.

Theorem frag_sizeof_facts : forall c e, frag e c = true -> SI c /\ SE c.
Proof.
  induction c using con_ind2; intros e Hf; try discriminate Hf; cbn [frag] in Hf.
  - split; [intros cx cx' p; reflexivity|intros cx p e0 q H; discriminate H].
  - destruct a0; try discriminate. destruct v; try discriminate. change (XConst (VInt z)) with (kint z).
    split; [intros cx cx' p|intros cx p e0 q]; cbn [sizeof]; rewrite ?eval_int_kint; [reflexivity|discriminate].
  - split; [intros cx cx' p; reflexivity|intros cx p e0 q H; cbn in H; injection H as <- _; reflexivity].
  - split; [intros cx cx' p; reflexivity|intros cx p e0 q H; cbn in H; injection H as <- _; reflexivity].
  - destruct a0; try discriminate. destruct v; try discriminate. change (XConst (VInt z)) with (kint z).
    split; [intros cx cx' p|intros cx p e0 q]; cbn [sizeof]; rewrite ?eval_int_kint; [reflexivity|discriminate].
  - split; [intros cx cx' p; reflexivity|intros cx p e0 q H; cbn in H; injection H as <- _; reflexivity].
  - split; [intros cx cx' p; reflexivity|intros cx p e0 q H; discriminate H].
  - (* Struct *) apply andb_prop in Hf as [Hm _].
    assert (HF : Forall (fun c => SI c /\ SE c) a0) by (rewrite Forall_forall in H |- *; intros c Hin; apply (H c Hin false); rewrite forallb_forall in Hm; apply Hm, Hin).
    split.
    + intros cx cx' p. cbn [sizeof]. rewrite (sum_sizes_SI a0 (Forall_impl _ (fun c Hc => proj1 Hc) HF) (push_scope cx) (push_scope cx') p). reflexivity.
    + intros cx p e0 q Hs. cbn [sizeof] in Hs. apply (catch_key_sizeof_err _ _ _ _ Hs). intros e1 q1 E.
      apply (sum_sizes_SE a0 (Forall_impl _ (fun c Hc => proj2 Hc) HF) _ _ _ _ E).
  - (* Sequence *)
    assert (HF : Forall (fun c => SI c /\ SE c) a0) by (rewrite Forall_forall in H |- *; intros c Hin; apply (H c Hin false); rewrite forallb_forall in Hf; apply Hf, Hin).
    split.
    + intros cx cx' p. cbn [sizeof]. rewrite (sum_sizes_SI a0 (Forall_impl _ (fun c Hc => proj1 Hc) HF) (push_scope cx) (push_scope cx') p). reflexivity.
    + intros cx p e0 q Hs. cbn [sizeof] in Hs. apply (catch_key_sizeof_err _ _ _ _ Hs). intros e1 q1 E.
      apply (sum_sizes_SE a0 (Forall_impl _ (fun c Hc => proj2 Hc) HF) _ _ _ _ E).
  - (* Array *) destruct a0; try discriminate. destruct v; try discriminate. apply andb_prop in Hf as [_ Hc]. destruct (IHc false Hc) as [I1 I2].
    change (XConst (VInt z)) with (kint z). split.
    + intros cx cx' p. cbn [sizeof]. rewrite !eval_int_kint. cbn [catch_key bind]. rewrite (I1 cx cx' p). reflexivity.
    + intros cx p e0 q. cbn [sizeof]. rewrite eval_int_kint. cbn [catch_key bind]. destruct (sizeof c cx p) as [k|e1 q1] eqn:E; cbn [bind]; [discriminate|].
      intros Hs. injection Hs as <- _. apply (I2 _ _ _ _ E).
  - (* Renamed *) destruct (IHc e Hf) as [I1 I2]. split; [intros cx cx' p; apply I1|intros cx p e0 q; apply I2].
  - (* Const *)
    assert (Hc : SI c /\ SE c).
    { destruct a0; try discriminate.
      - destruct c; try discriminate; cbn [int_leaf] in Hf; [apply (IHc false); exact Hf| |apply (IHc false); reflexivity|apply (IHc false); reflexivity].
        destruct len; try discriminate. destruct v; try discriminate. apply (IHc false). exact Hf.
      - destruct c; try discriminate. destruct len; try discriminate. destruct v; try discriminate.
        apply (IHc false). cbn [frag]. apply Z.leb_le. apply Z.eqb_eq in Hf. lia. }
    exact Hc.
  - (* Padded *) destruct a0; try discriminate. destruct v; try discriminate. apply andb_prop in Hf as [Hz _].
    change (XConst (VInt z)) with (kint z). assert (Ez : (z <? 0)%Z = false) by lia.
    split; [intros cx cx' p|intros cx p e0 q]; cbn [sizeof]; rewrite ?eval_int_kint; cbn [bind]; rewrite Ez; [reflexivity|discriminate].
  - (* Aligned *) destruct a0; try discriminate. destruct v; try discriminate. apply andb_prop in Hf as [Hz Hc]. destruct (IHc false Hc) as [I1 I2].
    change (XConst (VInt z)) with (kint z). assert (Ez : (z <? 2)%Z = false) by lia. split.
    + intros cx cx' p. cbn [sizeof]. rewrite !eval_int_kint. cbn [bind]. rewrite Ez, (I1 cx cx' p). reflexivity.
    + intros cx p e0 q Hs. cbn [sizeof] in Hs. rewrite eval_int_kint in Hs. cbn [bind] in Hs. rewrite Ez in Hs.
      apply (catch_key_sizeof_err _ _ _ _ Hs). intros e1 q1 E. destruct (sizeof c cx p) as [k|e2 q2] eqn:E2; cbn [bind] in E; [discriminate|].
      injection E as <- _. apply (I2 _ _ _ _ E2).
  - (* Prefixed *) destruct a2; try discriminate. apply andb_prop in Hf as [Hl Hc].
    assert (Hlf : frag false c1 = true) by (destruct c1; try discriminate Hl; cbn [int_leaf frag] in *; exact Hl).
    destruct (IHc1 false Hlf) as [L1 L2]. destruct (IHc2 true Hc) as [I1 I2]. split.
    + intros cx cx' p. cbn [sizeof]. rewrite (L1 cx cx' p), (I1 cx cx' p). reflexivity.
    + intros cx p e0 q. cbn [sizeof]. destruct (sizeof c1 cx p) as [a|e1 q1] eqn:E1; cbn [bind]; [|intros Hs; injection Hs as <- _; apply (L2 _ _ _ _ E1)].
      destruct (sizeof c2 cx p) as [b|e2 q2] eqn:E2; cbn [bind]; [discriminate|]. intros Hs; injection Hs as <- _. apply (I2 _ _ _ _ E2).
  - (* FixedSized *) destruct a0; try discriminate. destruct v; try discriminate. apply andb_prop in Hf as [Hz _].
    change (XConst (VInt z)) with (kint z). assert (Ez : (z <? 0)%Z = false) by lia.
    split; [intros cx cx' p|intros cx p e0 q]; cbn [sizeof]; rewrite ?eval_int_kint; cbn [catch_key bind]; rewrite Ez; [reflexivity|discriminate].
Qed.

(* ---- 3. whenever the static size answers, it is what parsing consumes -- when no Prefixed sits inside ---- *)
Fixpoint noprefixed (c : con) : bool :=
  match c with
  | CPrefixed _ _ _ => false
  | CRenamed _ c' | CConst _ c' | CArray _ c' | CPadded _ c' _ | CAligned _ c' _ | CFixedSized _ c' => noprefixed c'
  | CStruct cs | CSequence cs => forallb noprefixed cs
  | _ => true
  end.

Lemma catch_key_ok {A} (r : res A) p a : catch_key r p = Ok a -> r = Ok a.
Proof. destruct r as [x|e q]; [auto|]. destruct e; discriminate. Qed.

Definition PS (c : con) : Prop :=
  forall cx p s v s' cx' p' n, parse c cx p s = Ok (v, s') -> sizeof c cx' p' = Ok n -> itell s' = (itell s + n)%Z.

Lemma struct_loop_PS cs : Forall PS cs -> no_stopif cs -> forall cx p acc s kv cx2 s' cx' p' n,
  struct_loop parse cs cx p acc s = Ok (kv, cx2, s') -> sum_sizes sizeof cx' p' cs = Ok n -> itell s' = (itell s + n)%Z.
Proof.
  induction 1 as [|c t Hc Ht IH]; intros Hs cx p acc s kv cx2 s' cx' p' n; cbn [struct_loop sum_sizes].
  - intros E1 E2. injection E1 as _ _ <-. injection E2 as <-. lia.
  - inversion Hs as [|? ? Hs1 Hs2]; subst. destruct (parse c cx p s) as [[v s1]|e q] eqn:E.
    + intros E1. destruct (sizeof c cx' p') as [a|e q] eqn:Ea; [cbn [bind]|discriminate].
      destruct (sum_sizes sizeof cx' p' t) as [b|e q] eqn:Eb; [cbn [bind]|discriminate]. intros E2. injection E2 as <-.
      pose proof (Hc _ _ _ _ _ _ _ _ E Ea) as H1.
      assert (H2 : itell s' = (itell s1 + b)%Z) by (destruct (name_of c); eapply (IH Hs2); eassumption). lia.
    + destruct e; try discriminate. rewrite Hs1. discriminate.
Qed.

Lemma seq_loop_PS cs : Forall PS cs -> no_stopif cs -> forall cx p s vs s' cx' p' n,
  seq_loop parse cs cx p s = Ok (vs, s') -> sum_sizes sizeof cx' p' cs = Ok n -> itell s' = (itell s + n)%Z.
Proof.
  induction 1 as [|c t Hc Ht IH]; intros Hs cx p s vs s' cx' p' n; cbn [seq_loop sum_sizes].
  - intros E1 E2. injection E1 as _ <-. injection E2 as <-. lia.
  - inversion Hs as [|? ? Hs1 Hs2]; subst. destruct (parse c cx p s) as [[v s1]|e q] eqn:E.
    + match goal with |- bind ?x _ = _ -> _ => destruct x as [[vs1 s2]|e q] eqn:E1 end; [cbn [bind]|discriminate].
      intros E0. injection E0 as _ <-.
      destruct (sizeof c cx' p') as [a|e q] eqn:Ea; [cbn [bind]|discriminate].
      destruct (sum_sizes sizeof cx' p' t) as [b|e q] eqn:Eb; [cbn [bind]|discriminate]. intros E2. injection E2 as <-.
      pose proof (Hc _ _ _ _ _ _ _ _ E Ea) as H1. pose proof (IH Hs2 _ _ _ _ _ _ _ _ E1 Eb) as H2. lia.
    + destruct e; try discriminate. rewrite Hs1. discriminate.
Qed.

Lemma miter_count_PS c : PS c -> forall k cx p i acc s i' acc' s' cx' p' sz,
  miter (count_step (parse c) cx p) k (i, acc, s) = Ok (i', acc', s') -> sizeof c cx' p' = Ok sz ->
  itell s' = (itell s + Z.of_nat k * sz)%Z.
Proof.
  intros Hc. induction k as [|k IH]; intros cx p i acc s i' acc' s' cx' p' sz; cbn [miter].
  - intros E _. injection E as _ _ <-. lia.
  - unfold count_step at 1. destruct (parse c (ctx_set_index cx i) p s) as [[v s1]|e q] eqn:E; [cbn [bind]|discriminate].
    intros E1 Es. pose proof (Hc _ _ _ _ _ _ _ _ E Es) as H1. pose proof (IH _ _ _ _ _ _ _ _ _ _ _ E1 Es) as H2. lia.
Qed.

Theorem frag_parse_size_exact : forall c e, frag e c = true -> noprefixed c = true -> PS c.
Proof.
  induction c using con_ind2; intros e Hf Hn; try discriminate Hf; try discriminate Hn; intros cx p s v s' cx' p' n; cbn [frag] in Hf; cbn [noprefixed] in Hn; cbn [parse sizeof].
  - (* Format *) unfold parse_format. destruct (iread s _ p) as [[d s1]|] eqn:E; [cbn [bind]|discriminate].
    intros Hp Hs. injection Hs as <-. apply iread_tell in E. destruct (fcode_float a1); injection Hp as _ <-; exact E.
  - (* BytesInt *) destruct a0; try discriminate. destruct v0; try discriminate. change (XConst (VInt z)) with (kint z). rewrite !eval_int_kint. cbn [bind catch_key].
    destruct (z <=? 0)%Z; [discriminate|]. destruct (iread s z p) as [[d s1]|] eqn:E; [cbn [bind]|discriminate].
    destruct (bytes2integer _ _); [|discriminate]. intros Hp Hs. injection Hp as _ <-. injection Hs as <-. apply (iread_tell _ _ _ _ _ E).
  - (* VarInt *) discriminate.
  - (* ZigZag *) discriminate.
  - (* Bytes *) destruct a0; try discriminate. destruct v0; try discriminate. change (XConst (VInt z)) with (kint z). rewrite !eval_int_kint. cbn [bind catch_key].
    destruct (iread s z p) as [[d s1]|] eqn:E; [cbn [bind]|discriminate]. intros Hp Hs. injection Hp as _ <-. injection Hs as <-. apply (iread_tell _ _ _ _ _ E).
  - (* GreedyBytes *) discriminate.
  - (* Pass *) intros Hp Hs. injection Hp as _ <-. injection Hs as <-. lia.
  - (* Struct *) apply andb_prop in Hf as [Hm _].
    assert (HF : Forall PS a0).
    { rewrite Forall_forall in H |- *. intros c Hin. apply (H c Hin false); [rewrite forallb_forall in Hm; apply Hm, Hin|rewrite forallb_forall in Hn; apply Hn, Hin]. }
    destruct (struct_loop parse a0 (push_scope cx) p [] s) as [[[kv c1] s1]|] eqn:E; [cbn [bind]|discriminate].
    intros Hp Hs. injection Hp as _ <-. apply catch_key_ok in Hs.
    apply (struct_loop_PS a0 HF (frag_no_stopif _ Hm) _ _ _ _ _ _ _ _ _ _ E Hs).
  - (* Sequence *)
    assert (HF : Forall PS a0).
    { rewrite Forall_forall in H |- *. intros c Hin. apply (H c Hin false); [rewrite forallb_forall in Hf; apply Hf, Hin|rewrite forallb_forall in Hn; apply Hn, Hin]. }
    destruct (seq_loop parse a0 (push_scope cx) p s) as [[vs s1]|] eqn:E; [cbn [bind]|discriminate].
    intros Hp Hs. injection Hp as _ <-. apply catch_key_ok in Hs.
    apply (seq_loop_PS a0 HF (frag_no_stopif _ Hf) _ _ _ _ _ _ _ _ E Hs).
  - (* Array *) destruct a0; try discriminate. destruct v0; try discriminate. apply andb_prop in Hf as [Hz Hc].
    change (XConst (VInt z)) with (kint z). rewrite !eval_int_kint. cbn [bind catch_key]. destruct (z <? 0)%Z eqn:Ez; [discriminate|].
    unfold count_loop. rewrite iter_N_miter.
    destruct (miter (count_step (parse c) cx p) (N.to_nat (Z.to_N z)) (0%Z, [], s)) as [[[i acc] s1]|] eqn:E; [cbn [bind]|discriminate].
    intros Hp Hs. injection Hp as _ <-. destruct (sizeof c cx' p') as [sz|] eqn:Es; [cbn [bind] in Hs|discriminate]. injection Hs as <-.
    rewrite (miter_count_PS c (IHc false Hc Hn) _ _ _ _ _ _ _ _ _ _ _ _ E Es). replace (Z.of_nat (N.to_nat (Z.to_N z))) with z by lia. reflexivity.
  - (* Renamed *) apply (IHc e Hf Hn).
  - (* Const *)
    assert (Hc : PS c).
    { destruct a0; try discriminate.
      - destruct c; try discriminate; cbn [int_leaf] in Hf; [apply (IHc false); [exact Hf|reflexivity]|].
        destruct len; try discriminate. destruct v0; try discriminate. apply (IHc false); [exact Hf|reflexivity].
      - destruct c; try discriminate. destruct len; try discriminate. destruct v0; try discriminate.
        apply (IHc false); [|reflexivity]. cbn [frag]. apply Z.leb_le. apply Z.eqb_eq in Hf. lia. }
    destruct (parse c cx p s) as [[w s1]|] eqn:E; [cbn [bind]|discriminate]. destruct (val_eqb w a0); [|discriminate].
    intros Hp Hs. injection Hp as _ <-. apply (Hc _ _ _ _ _ _ _ _ E Hs).
  - (* Padded *) destruct a0; try discriminate. destruct v0; try discriminate. apply andb_prop in Hf as [Hz Hc].
    change (XConst (VInt z)) with (kint z). rewrite !eval_int_kint. cbn [bind]. destruct (z <? 0)%Z eqn:Ez; [discriminate|]. cbn [catch_key].
    destruct (parse c cx p s) as [[w s1]|] eqn:E; [cbn [bind]; cbv zeta|discriminate].
    destruct (z - (itell s1 - itell s) <? 0)%Z eqn:E1; [intros X; discriminate X|]. destruct (iread s1 _ p) as [[d s2]|] eqn:Er; [cbn [bind]|intros X; discriminate X].
    intros Hp Hs. injection Hp as _ <-. injection Hs as <-. apply iread_tell in Er. lia.
  - (* Aligned *) destruct a0; try discriminate. destruct v0; try discriminate. apply andb_prop in Hf as [Hz Hc].
    change (XConst (VInt z)) with (kint z). rewrite !eval_int_kint. cbn [bind]. destruct (z <? 2)%Z eqn:Ez; [discriminate|].
    destruct (parse c cx p s) as [[w s1]|] eqn:E; [cbn [bind]; cbv zeta|discriminate].
    destruct (iread s1 _ p) as [[d s2]|] eqn:Er; [cbn [bind]|discriminate].
    intros Hp Hs. injection Hp as _ <-. apply catch_key_ok in Hs.
    destruct (sizeof c cx' p') as [sz|] eqn:Es; [cbn [bind] in Hs|discriminate]. injection Hs as <-.
    pose proof (IHc false Hc Hn _ _ _ _ _ _ _ _ E Es) as H1. apply iread_tell in Er.
    replace (itell s1 - itell s)%Z with sz in Er by lia. lia.
  - (* FixedSized *) destruct a0; try discriminate. destruct v0; try discriminate. apply andb_prop in Hf as [Hz Hc].
    change (XConst (VInt z)) with (kint z). rewrite !eval_int_kint. cbn [bind catch_key]. destruct (z <? 0)%Z eqn:Ez; [discriminate|].
    destruct (iread s z p) as [[d s1]|] eqn:Er; [cbn [bind]|discriminate].
    destruct (parse c cx p _) as [[w si]|]; [cbn [bind]|discriminate].
    intros Hp Hs. injection Hp as _ <-. injection Hs as <-. apply (iread_tell _ _ _ _ _ Er).
Qed.

(* ---- 4. the member hypothesis, closed ---- *)
Lemma asz_is_sizeof : forall c fl, frag fl c = true -> noprefixed c = true -> forall cx p s, actualsize_with parse c cx p s = sizeof c cx p.
Proof.
  induction c; intros fl Hf Hn cx p s; try discriminate Hf; try discriminate Hn; try reflexivity.
  cbn [frag noprefixed] in Hf, Hn. cbn [actualsize_with sizeof]. apply (IHc fl Hf Hn).
Qed.

Theorem frag_member_ok : forall c, frag false c = true -> noprefixed c = true -> member_ok c.
Proof.
  intros c Hf Hn. destruct (frag_sizeof_facts c false Hf) as [HSI HSE]. split; [apply (frag_not_stopif false), Hf|]. split; [apply (frag_parse_ctx_free c false Hf)|]. split.
  - intros cx cx' p s. rewrite !(asz_is_sizeof c false Hf Hn). apply HSI.
  - intros cx p s v s' Hp. rewrite (asz_is_sizeof c false Hf Hn). destruct (sizeof c cx p) as [n|e q] eqn:Es.
    + apply (frag_parse_size_exact c false Hf Hn _ _ _ _ _ _ _ _ Hp Es).
    + rewrite (HSE _ _ _ _ Es). exact I.
Qed.

(* a Prefixed member with an integer length field, under its name: measured by its region *)
Theorem prefixed_member_ok : forall n lc c', int_leaf lc = true -> frag true c' = true -> member_ok (CRenamed n (CPrefixed lc c' false)).
Proof.
  intros n lc c' Hl Hc.
  assert (Hlf : frag false lc = true) by (destruct lc; try discriminate Hl; cbn [int_leaf frag] in *; exact Hl).
  assert (Hf : frag false (CRenamed n (CPrefixed lc c' false)) = true) by (cbn [frag]; rewrite Hl, Hc; reflexivity).
  pose proof (frag_parse_ctx_free lc false Hlf) as HPl.
  split; [reflexivity|]. split; [apply (frag_parse_ctx_free _ false Hf)|]. split.
  - intros cx cx' p s. cbn [actualsize_with]. unfold prefixed_actualsize. rewrite (HPl cx cx' (p ++ [n]) s). reflexivity.
  - intros cx p s v s' Hp. cbn [parse] in Hp. destruct (prefixed_region _ _ _ _ _ _ _ Hp) as (lv & s1 & k & d & E1 & E2 & E3 & _).
    cbn [actualsize_with]. unfold prefixed_actualsize. rewrite E1. cbn [bind]. rewrite E2. cbn [bind]. apply iread_tell in E3. lia.
Qed.

Example frag_members_example :
  Forall member_ok [CRenamed [x61] (CFormat Big FH); CRenamed [x62] (CStruct [CRenamed [x70] (CBytes (kint 3)); CRenamed [x71] (CArray (kint 2) (CFormat Little FL))]);
                    CRenamed [x63] (CPrefixed CVarInt CGreedyBytes false); CRenamed [x64] (CPadded (kint 4) (CConst (VInt 7) (CFormat Big FB)) x00); CRenamed [x65] CVarInt].
Proof.
  repeat constructor; first [apply frag_member_ok; reflexivity | apply prefixed_member_ok; reflexivity].
Qed.

(* decidable member lists: C16 without side conditions *)
Definition lmember (c : con) : bool :=
  match c with
  | CRenamed _ (CPrefixed lc c' false) => int_leaf lc && frag true c'
  | _ => frag false c && noprefixed c
  end.

Lemma lmember_ok c : lmember c = true -> member_ok c.
Proof.
  intros H. unfold lmember in H.
  assert (G : frag false c && noprefixed c = true -> member_ok c) by (intros X; apply andb_prop in X as [X1 X2]; apply frag_member_ok; assumption).
  destruct c; try (apply G; exact H). destruct c; try (apply G; exact H). destruct incl; [apply G; exact H|].
  apply andb_prop in H as [H1 H2]. apply prefixed_member_ok; assumption.
Qed.

Theorem C16_lazystruct_closed cs cx p s kv s_e :
  forallb lmember cs = true -> iseekable s = true ->
  parse (CStruct cs) cx p s = Ok (VDict kv, s_e) ->
  exists l vs, lazy_parse (CLazyStruct cs) cx p s = Ok (l, s_e) /\ l_count l = length cs /\
               struct_trace (push_scope cx) p cs s vs s_e /\
               forall i v, nth_error vs i = Some v -> exists l', lazy_access l i s_e = Ok (v, l', s_e).
Proof.
  intros Hm Hk. apply lazystruct_matches_struct; [exact Hk|].
  apply Forall_forall. intros c Hin. apply lmember_ok. rewrite forallb_forall in Hm. apply Hm, Hin.
Qed.
