(* The integer primitives of the interpreters against the arithmetic specification. *)
From Coq Require Import ZArith NArith List Bool Lia ZifyBool ZifyN ZifyNat.
From Coq Require Import Strings.Byte.
Require Import Bytes Value Expr Codec Float Stream Syntax Sizeof Parse Build BytesFacts StreamFacts.
Import ListNotations.

Definition kint (n : Z) : expr := XConst (VInt n).

Lemma eval_const cx v : eval cx (XConst v) = Ok v.
Proof. unfold eval. destruct (c_scopes cx); reflexivity. Qed.

Lemma eval_int_kint cx n : eval_int cx (kint n) = Ok n.
Proof. unfold eval_int, kint. rewrite eval_const. reflexivity. Qed.

Definition endian_of (swapped : bool) (d : bytes) : bytes := if swapped then rev d else d.

Lemma endian_of_length sw d : length (endian_of sw d) = length d.
Proof. destruct sw; cbn; [apply rev_length|reflexivity]. Qed.

Lemma endian_of_invol sw d : endian_of sw (endian_of sw d) = d.
Proof. destruct sw; cbn; [apply rev_involutive|reflexivity]. Qed.

(* ---- BytesInteger ---- *)

(* what build emits: the big-endian digits of the two's-complement pattern, reversed when swapped *)
Theorem bytesint_build n s sw z cx p o :
  (0 < n <= 65536)%Z -> app_mode o ->
  build (CBytesInt (kint n) s sw) (VInt z) cx p o =
  if in_range s (8 * N.of_nat (Z.to_nat n)) z
  then Ok (VInt z, oapp o (endian_of sw (be_encode (Z.to_nat n) (pattern (8 * N.of_nat (Z.to_nat n)) z))))
  else Err EInteger (Some p).
Proof.
  intros Hn Ho. cbn [build int_of_val]. rewrite eval_int_kint. cbn [bind].
  destruct (n <=? 0)%Z eqn:E1; [lia|]. destruct (65536 <? n)%Z eqn:E2; [lia|].
  destruct (Z.to_nat n) as [|w] eqn:Ew; [lia|]. rewrite integer2bytes_S.
  destruct (in_range s (8 * N.of_nat (S w)) z); [|reflexivity].
  set (d := be_encode (S w) _).
  assert (Hl : n = Z.of_nat (length (endian_of sw d))).
  { rewrite endian_of_length. unfold d. rewrite be_encode_length. lia. }
  unfold swapbytes. fold (endian_of sw d).
  rewrite Hl at 1. rewrite owrite_app by exact Ho. reflexivity.
Qed.

(* what parse returns: the two's-complement value of the digits, consuming exactly n bytes *)
Theorem bytesint_parse n s sw d rest pre base sk cx p :
  (0 < n)%Z -> Z.of_nat (length d) = n ->
  parse (CBytesInt (kint n) s sw) cx p (at_pos pre (d ++ rest) base sk) =
  Ok (VInt (unpattern s (8 * N.of_nat (length d)) (be_decode (endian_of sw d))), at_pos (pre ++ d) rest base sk).
Proof.
  intros Hn Hl. cbn [parse]. rewrite eval_int_kint. cbn [bind].
  destruct (n <=? 0)%Z eqn:E1; [lia|]. rewrite <- Hl. rewrite iread_at. cbn [bind].
  unfold swapbytes. fold (endian_of sw d).
  rewrite bytes2integer_ne.
  - rewrite endian_of_length. reflexivity.
  - intros E. apply (f_equal (@length byte)) in E. rewrite endian_of_length in E. cbn in E. lia.
Qed.

Theorem bytesint_parse_short n s sw body pre base sk cx p :
  (Z.of_nat (length body) < n)%Z ->
  parse (CBytesInt (kint n) s sw) cx p (at_pos pre body base sk) = Err EStream (Some p).
Proof.
  intros H. cbn [parse]. rewrite eval_int_kint. cbn [bind].
  destruct (n <=? 0)%Z eqn:E1; [lia|]. rewrite iread_short by exact H. reflexivity.
Qed.

(* round trip at the interpreter level, any width, either byte order, any position *)
Theorem bytesint_roundtrip n s sw z cx p o r o' cx' p' rest base sk :
  (0 < n <= 65536)%Z -> app_mode o ->
  build (CBytesInt (kint n) s sw) (VInt z) cx p o = Ok (r, o') ->
  exists out, o' = oapp o out /\ Z.of_nat (length out) = n /\
    parse (CBytesInt (kint n) s sw) cx' p' (at_pos (odata o) (out ++ rest) base sk) =
    Ok (VInt z, at_pos (odata o ++ out) rest base sk).
Proof.
  intros Hn Ho Hb. rewrite bytesint_build in Hb by assumption.
  destruct (in_range s _ z) eqn:Hr; [|discriminate]. injection Hb as <- <-.
  eexists. split; [reflexivity|].
  assert (Hlen : Z.of_nat (length (endian_of sw (be_encode (Z.to_nat n) (pattern (8 * N.of_nat (Z.to_nat n)) z)))) = n).
  { rewrite endian_of_length, be_encode_length. lia. }
  split; [exact Hlen|].
  rewrite (bytesint_parse n) by (lia || exact Hlen).
  rewrite endian_of_invol, endian_of_length, be_encode_length.
  rewrite be_roundtrip by (rewrite pow256_pow2; apply pattern_bound).
  assert (Hp : (0 < 8 * N.of_nat (Z.to_nat n))%N) by lia.
  rewrite unpattern_pattern; [reflexivity|exact Hp|exact Hr].
Qed.

(* ---- FormatField integers ---- *)

Definition endian_fmt (en : endian) (d : bytes) : bytes := match en with Big => d | Little => rev d end.

Theorem format_int_build en f z cx p o :
  fcode_float f = false -> app_mode o ->
  build (CFormat en f) (VInt z) cx p o =
  if in_range (fcode_signed f) (8 * N.of_nat (fcode_size f)) z
  then Ok (VInt z, oapp o (endian_fmt en (be_encode (fcode_size f) (pattern (8 * N.of_nat (fcode_size f)) z))))
  else Err EFormatField (Some p).
Proof.
  intros Hf Ho. cbn [build]. unfold build_format. rewrite Hf. cbn [int_of_val].
  destruct (in_range _ _ z); [|reflexivity].
  set (d := be_encode _ _).
  assert (Hl : Z.of_nat (fcode_size f) = Z.of_nat (length (endian_fmt en d))).
  { unfold d. destruct en; cbn [endian_fmt]; rewrite ?rev_length, be_encode_length; reflexivity. }
  change (match en with Big => d | Little => rev d end) with (endian_fmt en d).
  rewrite Hl. rewrite owrite_app by exact Ho. reflexivity.
Qed.

Theorem format_int_parse en f d rest pre base sk cx p :
  fcode_float f = false -> length d = fcode_size f ->
  parse (CFormat en f) cx p (at_pos pre (d ++ rest) base sk) =
  Ok (VInt (unpattern (fcode_signed f) (8 * N.of_nat (fcode_size f)) (be_decode (endian_fmt en d))),
      at_pos (pre ++ d) rest base sk).
Proof.
  intros Hf Hl. cbn [parse]. unfold parse_format. rewrite <- Hl, iread_at. cbn [bind]. rewrite Hf, Hl.
  reflexivity.
Qed.

Lemma endian_fmt_invol en d : endian_fmt en (endian_fmt en d) = d.
Proof. destruct en; cbn; [reflexivity|apply rev_involutive]. Qed.
Lemma endian_fmt_length en d : length (endian_fmt en d) = length d.
Proof. destruct en; cbn; [reflexivity|apply rev_length]. Qed.

Lemma fcode_size_pos f : (0 < fcode_size f)%nat.
Proof. destruct f; cbn; lia. Qed.

Theorem format_int_roundtrip en f z cx p o r o' cx' p' rest base sk :
  fcode_float f = false -> app_mode o ->
  build (CFormat en f) (VInt z) cx p o = Ok (r, o') ->
  exists out, o' = oapp o out /\ length out = fcode_size f /\
    parse (CFormat en f) cx' p' (at_pos (odata o) (out ++ rest) base sk) =
    Ok (VInt z, at_pos (odata o ++ out) rest base sk).
Proof.
  intros Hf Ho Hb. rewrite format_int_build in Hb by assumption.
  destruct (in_range _ _ z) eqn:Hr; [|discriminate]. injection Hb as <- <-.
  eexists. split; [reflexivity|].
  assert (Hlen : length (endian_fmt en (be_encode (fcode_size f) (pattern (8 * N.of_nat (fcode_size f)) z))) = fcode_size f).
  { rewrite endian_fmt_length, be_encode_length. reflexivity. }
  split; [exact Hlen|].
  rewrite format_int_parse by assumption.
  rewrite endian_fmt_invol.
  rewrite be_roundtrip by (rewrite pow256_pow2; apply pattern_bound).
  pose proof (fcode_size_pos f).
  assert (Hp : (0 < 8 * N.of_nat (fcode_size f))%N) by lia.
  rewrite unpattern_pattern; [reflexivity|exact Hp|exact Hr].
Qed.

(* ---- VarInt / ZigZag ---- *)

Lemma varint_loop_decode fuel : forall enc n pre rest base sk p,
  leb128 n enc -> (length enc <= fuel)%nat ->
  varint_loop fuel (at_pos pre (enc ++ rest) base sk) p = Ok (n, at_pos (pre ++ enc) rest base sk).
Proof.
  induction fuel as [|f IH]; intros enc n pre rest base sk p Hl Hf.
  - destruct Hl; cbn in Hf; lia.
  - destruct Hl as [b Hb|b hi t Hb Hl].
    + cbn [varint_loop]. change ([b] ++ rest) with ([b] ++ rest).
      change 1%Z with (Z.of_nat (length [b])). rewrite iread_at. cbn [bind].
      destruct (Byte.to_N b <? 128)%N eqn:C; [reflexivity|lia].
    + cbn [varint_loop]. change ((b :: t) ++ rest) with ([b] ++ (t ++ rest)).
      change 1%Z with (Z.of_nat (length [b])). rewrite iread_at. cbn [bind].
      destruct (Byte.to_N b <? 128)%N eqn:C; [lia|].
      rewrite (IH t hi) by (assumption || (cbn in Hf; lia)). cbn [bind].
      rewrite <- app_assoc. reflexivity.
Qed.

Theorem varint_parse_spec enc n pre rest base sk p :
  leb128 n enc ->
  parse_varint (at_pos pre (enc ++ rest) base sk) p = Ok (n, at_pos (pre ++ enc) rest base sk).
Proof.
  intros Hl. unfold parse_varint. rewrite iavail_at. apply varint_loop_decode; [exact Hl|].
  rewrite app_length. lia.
Qed.

Theorem varint_roundtrip_interp z cx p o r o' cx' p' rest base sk :
  app_mode o ->
  build CVarInt (VInt z) cx p o = Ok (r, o') ->
  exists out, o' = oapp o out /\ leb128 (Z.to_N z) out /\ (0 <= z)%Z /\
    parse CVarInt cx' p' (at_pos (odata o) (out ++ rest) base sk) = Ok (VInt z, at_pos (odata o ++ out) rest base sk).
Proof.
  intros Ho Hb. cbn [build int_of_val] in Hb.
  destruct (z <? 0)%Z eqn:E; [discriminate|].
  rewrite owrite_app in Hb by exact Ho. cbn [bind] in Hb. injection Hb as <- <-.
  eexists. split; [reflexivity|]. split; [apply varint_encode_leb|]. split; [lia|].
  cbn [parse]. rewrite (varint_parse_spec _ (Z.to_N z)) by apply varint_encode_leb. cbn [bind].
  rewrite Z2N.id by lia. reflexivity.
Qed.

Theorem zigzag_roundtrip_interp z cx p o r o' cx' p' rest base sk :
  app_mode o ->
  build CZigZag (VInt z) cx p o = Ok (r, o') ->
  exists out, o' = oapp o out /\ leb128 (zigzag_enc z) out /\
    parse CZigZag cx' p' (at_pos (odata o) (out ++ rest) base sk) = Ok (VInt z, at_pos (odata o ++ out) rest base sk).
Proof.
  intros Ho Hb. cbn [build int_of_val] in Hb.
  rewrite owrite_app in Hb by exact Ho. cbn [bind] in Hb. injection Hb as <- <-.
  eexists. split; [reflexivity|]. split; [apply varint_encode_leb|].
  cbn [parse]. rewrite (varint_parse_spec _ (zigzag_enc z)) by apply varint_encode_leb. cbn [bind].
  rewrite zigzag_roundtrip. reflexivity.
Qed.

(* a VarInt whose every available byte has the continuation bit is rejected with StreamError *)
Lemma varint_loop_all_cont fuel : forall body pre base sk p,
  forallb (fun b => (128 <=? Byte.to_N b)%N) body = true -> (length body < fuel)%nat ->
  varint_loop fuel (at_pos pre body base sk) p = Err EStream (Some p).
Proof.
  induction fuel as [|f IH]; intros body pre base sk p Hc Hf; [lia|].
  cbn [varint_loop]. destruct body as [|b t].
  - rewrite iread_short by (cbn; lia). reflexivity.
  - change (b :: t) with ([b] ++ t). change 1%Z with (Z.of_nat (length [b])). rewrite iread_at. cbn [bind].
    cbn [forallb] in Hc. apply andb_prop in Hc as [Hb Ht].
    destruct (Byte.to_N b <? 128)%N eqn:C; [lia|].
    rewrite IH by (assumption || (cbn in Hf; lia)). reflexivity.
Qed.

Theorem varint_parse_truncated body pre base sk cx p :
  forallb (fun b => (128 <=? Byte.to_N b)%N) body = true ->
  parse CVarInt cx p (at_pos pre body base sk) = Err EStream (Some p).
Proof.
  intros H. cbn [parse]. unfold parse_varint. rewrite iavail_at.
  rewrite varint_loop_all_cont by (assumption || lia). reflexivity.
Qed.

(* ---- Flag: any non-zero byte parses as True, and True re-encodes canonically as 01 ---- *)
Theorem flag_canonical : forall b rest pre base sk cx p cx' p' o,
  app_mode o ->
  exists v, parse CFlag cx p (at_pos pre ([b] ++ rest) base sk) = Ok (VBool v, at_pos (pre ++ [b]) rest base sk) /\
            v = negb (Byte.eqb b x00) /\
            build CFlag (VBool v) cx' p' o = Ok (VBool v, oapp o [if v then x01 else x00]) /\
            parse CFlag cx p (at_pos pre ([if v then x01 else x00] ++ rest) base sk) =
              Ok (VBool v, at_pos (pre ++ [if v then x01 else x00]) rest base sk).
Proof.
  intros b rest pre base sk cx p cx' p' o Ho. exists (negb (Byte.eqb b x00)).
  assert (P : forall c, parse CFlag cx p (at_pos pre ([c] ++ rest) base sk) = Ok (VBool (negb (Byte.eqb c x00)), at_pos (pre ++ [c]) rest base sk)).
  { intros c. cbn [parse]. change 1%Z with (Z.of_nat (length [c])). rewrite iread_at. cbn [bind bytes_eqb].
    rewrite andb_true_r. reflexivity. }
  split; [apply P|]. split; [reflexivity|]. split.
  - cbn [build truthy]. change 1%Z with (Z.of_nat (length [if negb (Byte.eqb b x00) then x01 else x00])).
    rewrite owrite_app by exact Ho. reflexivity.
  - rewrite P. destruct (Byte.eqb b x00); reflexivity.
Qed.

(* ---- integers have exactly one accepted encoding: parsing then building reproduces the input bytes ---- *)
Theorem bytesint_parse_then_build : forall n s sw d rest pre base sk cx p cx' p' o,
  (0 < n <= 65536)%Z -> Z.of_nat (length d) = n -> app_mode o ->
  exists z, parse (CBytesInt (kint n) s sw) cx p (at_pos pre (d ++ rest) base sk) = Ok (VInt z, at_pos (pre ++ d) rest base sk) /\
            build (CBytesInt (kint n) s sw) (VInt z) cx' p' o = Ok (VInt z, oapp o d).
Proof.
  intros n s sw d rest pre base sk cx p cx' p' o Hn Hl Ho.
  eexists. split; [apply bytesint_parse; lia|].
  assert (Hd : endian_of sw d <> []).
  { intros E. apply (f_equal (@length byte)) in E. rewrite endian_of_length in E. cbn in E. lia. }
  pose proof (integer2bytes_bytes2integer (endian_of sw d) s _ (bytes2integer_ne _ s Hd)) as Hi.
  rewrite endian_of_length in Hi.
  cbn [build int_of_val]. rewrite eval_int_kint. cbn [bind].
  destruct (n <=? 0)%Z eqn:E1; [lia|]. destruct (65536 <? n)%Z eqn:E2; [lia|].
  replace (Z.to_nat n) with (length d) by lia. rewrite Hi.
  unfold swapbytes. fold (endian_of sw (endian_of sw d)). rewrite endian_of_invol.
  rewrite <- Hl. rewrite owrite_app by exact Ho. reflexivity.
Qed.

(* ---- VarInt: every well-formed (possibly non-minimal) encoding is accepted and re-encoded canonically ---- *)
Theorem varint_normalises : forall enc n rest pre base sk cx p cx' p' o,
  leb128 n enc -> app_mode o ->
  parse CVarInt cx p (at_pos pre (enc ++ rest) base sk) = Ok (VInt (Z.of_N n), at_pos (pre ++ enc) rest base sk) /\
  build CVarInt (VInt (Z.of_N n)) cx' p' o = Ok (VInt (Z.of_N n), oapp o (varint_encode n)) /\
  parse CVarInt cx p (at_pos pre (varint_encode n ++ rest) base sk) = Ok (VInt (Z.of_N n), at_pos (pre ++ varint_encode n) rest base sk).
Proof.
  intros enc n rest pre base sk cx p cx' p' o Hl Ho. split; [|split].
  - cbn [parse]. rewrite (varint_parse_spec _ n) by exact Hl. reflexivity.
  - cbn [build int_of_val]. destruct (Z.of_N n <? 0)%Z eqn:E; [lia|]. rewrite N2Z.id.
    rewrite owrite_app by exact Ho. reflexivity.
  - cbn [parse]. rewrite (varint_parse_spec _ n) by apply varint_encode_leb. reflexivity.
Qed.

(* ---- values that are not integers have no integer encoding (C03, C06): every integer field refuses them with its own error class, whatever
   `int()` would have made of them - floats (2.7, 1.0), strings ('12'), byte strings, None, lists and containers. An int or a bool is the only
   thing int_of_val accepts. ---- *)
Theorem int_of_val_only_ints : forall v, int_of_val v <> None -> exists z, v = VInt z \/ exists b, v = VBool b /\ z = (if b then 1 else 0)%Z.
Proof.
  intros v H. destruct v; try (cbn in H; congruence).
  - eexists. right. eexists. split; reflexivity.
  - eexists. left. reflexivity.
Qed.

Theorem integer_fields_refuse_non_integers : forall obj cx p o, int_of_val obj = None ->
  (forall len s sw, build (CBytesInt len s sw) obj cx p o = Err EInteger (Some p)) /\
  (forall len s sw, build (CBitsInt len s sw) obj cx p o = Err EInteger (Some p)) /\
  build CVarInt obj cx p o = Err EInteger (Some p) /\
  build CZigZag obj cx p o = Err EInteger (Some p) /\
  (forall en f, fcode_float f = false -> build (CFormat en f) obj cx p o = Err EFormatField (Some p)).
Proof.
  intros obj cx p o H. repeat split; intros; cbn [build]; unfold build_format; rewrite ?H; try reflexivity.
  rewrite H0. reflexivity.
Qed.

Example non_integers :
  int_of_val (VFloat 0) = None /\ int_of_val (VStr [49; 50]%N) = None /\ int_of_val (VBytes [x33]) = None /\ int_of_val VNone = None /\
  int_of_val (VList [VInt 1]) = None /\ int_of_val (VDict []) = None.
Proof. repeat split. Qed.
