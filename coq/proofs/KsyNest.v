(* C19 for NESTED structs: a Struct whose named members are flat fields or, to any depth, Structs of such members.  The
   exporter gives every nested Struct a helper type "type_<k>" with a fresh k; the schema then reads every parsable input to
   the same extents and values as the construct. *)
From Coq Require Import ZArith NArith List Bool Lia ZifyBool ZifyN ZifyNat.
From Coq Require Import Strings.Byte.
Require Import Bytes Value Expr Codec Float Stream Syntax Sizeof Parse Build BytesFacts StreamFacts PrimFacts ConInd RTFacts Ksy KsyFacts.
Import ListNotations.
Local Open Scope nat_scope.

(* ---- type names are injective in the id: "%s" % k ---- *)
Definition dval (b : byte) : nat := N.to_nat (Byte.to_N b) - 48.
Definition undigits (l : list byte) : nat := fold_left (fun a b => 10 * a + dval b) l 0.

Lemma dval_digit d : d < 10 -> dval (byte_of_N (N.of_nat (48 + d))) = d.
Proof.
  intros H. do 10 (destruct d as [|d]; [reflexivity|]). lia.
Qed.

Lemma fold_digits l : forall a, fold_left (fun a b => 10 * a + dval b) l a = a * 10 ^ length l + undigits l.
Proof.
  unfold undigits. induction l as [|b t IH]; intros a; cbn [fold_left length]; [cbn; lia|].
  rewrite IH. rewrite (IH (10 * 0 + dval b)). rewrite Nat.pow_succ_r'. lia.
Qed.

Lemma undigits_fuel : forall fuel n acc, n < fuel -> undigits (digits_fuel fuel n acc) = n * 10 ^ length acc + undigits acc.
Proof.
  induction fuel as [|f IH]; intros n acc Hn; [lia|]. cbn [digits_fuel].
  assert (Hm : Nat.modulo n 10 < 10) by (apply Nat.mod_upper_bound; lia).
  destruct (Nat.ltb n 10) eqn:E.
  - apply Nat.ltb_lt in E. rewrite Nat.mod_small by exact E. unfold undigits at 1. cbn [fold_left]. rewrite fold_digits.
    rewrite dval_digit by exact E. cbn [length]. lia.
  - apply Nat.ltb_ge in E. rewrite IH.
    + cbn [length]. unfold undigits at 1. cbn [fold_left]. rewrite fold_digits. rewrite dval_digit by exact Hm.
      rewrite Nat.pow_succ_r'. pose proof (Nat.div_mod n 10). fold (undigits acc). nia.
    + assert (n / 10 < n) by (apply Nat.div_lt; lia). lia.
Qed.

Lemma undigits_digits n : undigits (digits n) = n.
Proof. unfold digits. rewrite undigits_fuel by lia. cbn. lia. Qed.

Definition tname (k : nat) : name := n_type_ ++ digits k.

Lemma tname_inj j k : tname j = tname k -> j = k.
Proof. unfold tname. intros H. apply app_inv_head in H. rewrite <- (undigits_digits j), <- (undigits_digits k), H. reflexivity. Qed.

(* ---- the members ---- *)
Fixpoint nmem (c : con) : bool :=
  match c with
  | CRenamed _ (CStruct cs) => forallb nmem cs
  | CRenamed _ m => flat m
  | _ => false
  end.

Fixpoint depth (c : con) : nat :=
  match c with
  | CRenamed _ (CStruct cs) => S (list_max (map depth cs))
  | _ => 0
  end.

Lemma nmem_ind (P : con -> Prop) :
  (forall n m, flat m = true -> P (CRenamed n m)) ->
  (forall n cs, forallb nmem cs = true -> Forall P cs -> P (CRenamed n (CStruct cs))) ->
  forall c, nmem c = true -> P c.
Proof.
  intros H1 H2.
  assert (Q : forall c, (nmem c = true -> P c) /\ (forall n, nmem (CRenamed n c) = true -> P (CRenamed n c))).
  { induction c using con_ind2; try (split; [intros X; discriminate X|intros n X; apply H1; exact X]).
    - (* Struct *) split; [intros X; discriminate X|]. intros n X. cbn [nmem] in X. apply H2; [exact X|].
      rewrite Forall_forall in H |- *. intros c Hin. apply (H c Hin). rewrite forallb_forall in X. apply X, Hin.
    - (* Renamed *) split; [intros X; apply IHc; exact X|]. intros n X. discriminate X. }
  intros c. apply Q.
Qed.

Definition ufield (n nm : name) : kfield := KField (Some n) (Some (KTUser nm)) None false None KRNone None None None None None false.

Definition tfind (T : list (name * list kfield)) (nm : name) := find (fun e : name * list kfield => name_eqb (fst e) nm) T.

(* a field of the schema describes a member, given the helper types T *)
Fixpoint desc (T : list (name * list kfield)) (f : kfield) (c : con) {struct c} : Prop :=
  match c with
  | CRenamed n (CStruct cs) =>
      exists nm l, f = ufield n nm /\ tfind T nm = Some (nm, l) /\
        (fix all (l : list kfield) (cs : list con) {struct cs} : Prop :=
           match l, cs with
           | [], [] => True
           | f' :: l', c' :: cs' => desc T f' c' /\ all l' cs'
           | _, _ => False
           end) l cs
  | CRenamed n m => f = field_of n m
  | _ => False
  end.

Fixpoint descs (T : list (name * list kfield)) (l : list kfield) (cs : list con) : Prop :=
  match l, cs with
  | [], [] => True
  | f :: l', c :: cs' => desc T f c /\ descs T l' cs'
  | _, _ => False
  end.

Lemma desc_struct T f n cs : desc T f (CRenamed n (CStruct cs)) <-> exists nm l, f = ufield n nm /\ tfind T nm = Some (nm, l) /\ descs T l cs.
Proof.
  cbn [desc]. split; intros (nm & l & E & F & H); exists nm, l; (split; [exact E|split; [exact F|]]).
  - clear F E. revert l H. induction cs as [|c t IH]; intros [|f' l'] H; try exact H. destruct H as [H1 H2]. split; [exact H1|apply IH, H2].
  - clear F E. revert l H. induction cs as [|c t IH]; intros [|f' l'] H; try exact H. destruct H as [H1 H2]. split; [exact H1|apply IH, H2].
Qed.

Lemma desc_flat T f n m : flat m = true -> (desc T f (CRenamed n m) <-> f = field_of n m).
Proof. intros H. destruct m; try discriminate H; reflexivity. Qed.

(* ---- the generator ---- *)
Definition bounded (g : kgen) : Prop := forall nm l, In (nm, l) (g_types g) -> exists j, j <= g_next g /\ nm = tname j.
Definition grows (g g' : kgen) : Prop :=
  g_next g <= g_next g' /\ g_enums g' = g_enums g /\
  exists new, g_types g' = g_types g ++ new /\ forall nm l, In (nm, l) new -> exists j, g_next g < j <= g_next g' /\ nm = tname j.

Lemma grows_refl g : grows g g.
Proof. split; [lia|]. split; [reflexivity|]. exists []. split; [symmetry; apply app_nil_r|]. intros nm l []. Qed.

Lemma grows_trans a b c : grows a b -> grows b c -> grows a c.
Proof.
  intros (H1 & E1 & n1 & T1 & B1) (H2 & E2 & n2 & T2 & B2). split; [lia|]. split; [congruence|].
  exists (n1 ++ n2). split; [rewrite T2, T1, app_assoc; reflexivity|].
  intros nm l Hin. apply in_app_or in Hin as [Hin|Hin].
  - destruct (B1 nm l Hin) as (j & Hj & ->). exists j. split; [lia|reflexivity].
  - destruct (B2 nm l Hin) as (j & Hj & ->). exists j. split; [lia|reflexivity].
Qed.

Lemma bounded_grows g g' : bounded g -> grows g g' -> bounded g'.
Proof.
  intros Hb (H1 & _ & new & T & B) nm l Hin. rewrite T in Hin. apply in_app_or in Hin as [Hin|Hin].
  - destruct (Hb nm l Hin) as (j & Hj & ->). exists j. split; [lia|reflexivity].
  - destruct (B nm l Hin) as (j & Hj & ->). exists j. split; [lia|reflexivity].
Qed.

Lemma neqb_refl (k : name) : name_eqb k k = true.
Proof. apply bytes_eqb_refl'. Qed.

Lemma tfind_app T X nm r : tfind T nm = Some r -> tfind (T ++ X) nm = Some r.
Proof. unfold tfind. induction T as [|e t IH]; cbn [find app]; [discriminate|]. destruct (name_eqb (fst e) nm); [auto|exact IH]. Qed.

Lemma tfind_none T nm : (forall l, ~ In (nm, l) T) -> tfind T nm = None.
Proof.
  unfold tfind. induction T as [|[k l] t IH]; intros H; cbn [find fst]; [reflexivity|].
  destruct (name_eqb k nm) eqn:E.
  - apply name_eqb_eq in E. subst k. exfalso. apply (H l). left. reflexivity.
  - apply IH. intros l' Hin. apply (H l'). right. exact Hin.
Qed.

Lemma tfind_last T nm l : (forall l', ~ In (nm, l') T) -> tfind (T ++ [(nm, l)]) nm = Some (nm, l).
Proof.
  intros H. unfold tfind. induction T as [|[k l0] t IH]; cbn [find app fst].
  - rewrite neqb_refl. reflexivity.
  - destruct (name_eqb k nm) eqn:E.
    + apply name_eqb_eq in E. subst k. exfalso. apply (H l0). left. reflexivity.
    + apply IH. intros l' Hin. apply (H l'). right. exact Hin.
Qed.

Lemma desc_ext T X : forall c, nmem c = true -> forall f, desc T f c -> desc (T ++ X) f c.
Proof.
  apply (nmem_ind (fun c => forall f, desc T f c -> desc (T ++ X) f c)).
  - intros n m Hm f H. rewrite desc_flat in H |- * by exact Hm. exact H.
  - intros n cs Hn IH f H. rewrite desc_struct in H |- *. destruct H as (nm & l & E & F & D). exists nm, l.
    split; [exact E|]. split; [apply tfind_app, F|].
    clear F E. revert l D. induction IH as [|c t Hc Ht IHt]; intros [|f' l'] D; try exact D.
    destruct D as [D1 D2]. cbn [forallb] in Hn. apply andb_prop in Hn as [_ Hn]. split; [apply Hc, D1|apply (IHt Hn), D2].
Qed.

Lemma descs_ext T X cs : forallb nmem cs = true -> forall l, descs T l cs -> descs (T ++ X) l cs.
Proof.
  induction cs as [|c t IH]; intros Hn [|f l] D; try exact D. cbn [forallb] in Hn. apply andb_prop in Hn as [H1 H2].
  destruct D as [D1 D2]. split; [apply desc_ext; assumption|apply IH; assumption].
Qed.

(* ---- emission ---- *)
Lemma compile_struct_member n cs g : compile_full (emit (CRenamed n (CStruct cs))) g false =
  match full_all emit cs (mkGen (S (g_next g)) (g_types g) (g_enums g)) false with
  | Done l g' => Done (ufield n (tname (S (g_next g)))) (mkGen (g_next g') (g_types g' ++ [(tname (S (g_next g)), l)]) (g_enums g'))
  | _ => Broken
  end.
Proof.
  unfold compile_full. cbn [ladder_full emit e_full]. unfold compile_full. cbn [ladder_full emit e_full ladder_prim e_prim ladder_seq e_seq].
  destruct (full_all emit cs _ false); reflexivity.
Qed.

Definition EM (c : con) : Prop :=
  forall g, exists f g', compile_full (emit c) g false = Done f g' /\ grows g g' /\ (bounded g -> desc (g_types g') f c).

Lemma emit_members cs : Forall EM cs -> forallb nmem cs = true -> forall g, exists l g',
  full_all emit cs g false = Done l g' /\ grows g g' /\ (bounded g -> descs (g_types g') l cs).
Proof.
  induction 1 as [|c t Hc Ht IH]; intros Hn g; cbn [full_all].
  - exists [], g. split; [reflexivity|]. split; [apply grows_refl|]. intros _. exact I.
  - cbn [forallb] in Hn. apply andb_prop in Hn as [Hn1 Hn2].
    destruct (Hc g) as (f & g1 & E1 & G1 & D1). rewrite E1.
    destruct (IH Hn2 g1) as (l & g2 & E2 & G2 & D2). rewrite E2.
    exists (f :: l), g2. split; [reflexivity|]. split; [eapply grows_trans; eassumption|].
    intros Hb. destruct G2 as (H2 & E & new & T & B). split.
    + rewrite T. apply desc_ext; [exact Hn1|apply D1, Hb].
    + apply D2. eapply bounded_grows; eassumption.
Qed.

Theorem emit_nested : forall c, nmem c = true -> EM c.
Proof.
  apply (nmem_ind EM).
  - intros n m Hm g. exists (field_of n m), g. split; [apply emit_flat, Hm|]. split; [apply grows_refl|].
    intros _. apply desc_flat; [exact Hm|reflexivity].
  - intros n cs Hn IH g. rewrite compile_struct_member.
    set (g1 := mkGen (S (g_next g)) (g_types g) (g_enums g)).
    destruct (emit_members cs IH Hn g1) as (l & g2 & E & (H2 & E2 & new & T & B) & D). rewrite E.
    eexists _, _. split; [reflexivity|]. unfold g1 in *. cbn [g_next g_types g_enums] in *. split.
    + unfold grows. cbn [g_next g_types g_enums]. split; [lia|]. split; [exact E2|]. exists (new ++ [(tname (S (g_next g)), l)]). split; [rewrite T, app_assoc; reflexivity|].
      intros nm l' Hin. apply in_app_or in Hin as [Hin|[Hin|[]]].
      * destruct (B nm l' Hin) as (j & Hj & ->). exists j. split; [lia|reflexivity].
      * injection Hin as <- _. exists (S (g_next g)). split; [lia|reflexivity].
    + intros Hb. apply desc_struct. exists (tname (S (g_next g))), l. split; [reflexivity|]. split.
      * apply tfind_last. intros l' Hin. rewrite T in Hin. apply in_app_or in Hin as [Hin|Hin].
        -- destruct (Hb _ _ Hin) as (j & Hj & Ej). apply tname_inj in Ej. lia.
        -- destruct (B _ _ Hin) as (j & Hj & Ej). apply tname_inj in Ej. lia.
      * apply descs_ext; [exact Hn|]. apply D. intros nm l' Hin. destruct (Hb nm l' Hin) as (j & Hj & ->). exists j. split; [cbn; lia|reflexivity].
Qed.

(* ---- reading ---- *)
Definition acc_of (recs : list fieldrec) (acc : list (name * val)) : list (name * val) :=
  fold_left (fun a (r : fieldrec) => match r with (Some n, _, _, v) => dict_set n v a | _ => a end) recs acc.

Lemma nmem_not_stopif c : nmem c = true -> is_stopif c = false.
Proof. destruct c; try discriminate. cbn [nmem is_stopif]. destruct c; try reflexivity. discriminate. Qed.

(* the dictionary a Struct returns is its layout records, in order *)
Lemma struct_layout : forall cs cx p acc s acc' cx' s', forallb nmem cs = true ->
  struct_loop parse cs cx p acc s = Ok (acc', cx', s') ->
  exists recs, layout_loop parse cs cx p s = Ok (recs, s') /\ acc' = acc_of recs acc.
Proof.
  induction cs as [|c t IH]; intros cx p acc s acc' cx' s' Hn H; cbn [struct_loop layout_loop] in *.
  - injection H as <- _ <-. exists []. split; reflexivity.
  - cbn [forallb] in Hn. apply andb_prop in Hn as [Hn1 Hn2].
    destruct (parse c cx p s) as [[v s1]|e q].
    + cbn [bind]. destruct (name_of c) as [n|] eqn:En.
      * destruct (IH _ _ _ _ _ _ _ Hn2 H) as (recs & E & ->). rewrite E. cbn [bind]. eexists. split; [reflexivity|]. unfold acc_of. cbn [fold_left]. reflexivity.
      * destruct (IH _ _ _ _ _ _ _ Hn2 H) as (recs & E & ->). rewrite E. cbn [bind]. eexists. split; [reflexivity|]. unfold acc_of. cbn [fold_left]. reflexivity.
    + destruct e; try discriminate H. rewrite (nmem_not_stopif c Hn1) in H. discriminate H.
Qed.

(* the schema's reading of a member against the construct's value *)
Fixpoint mrel (c : con) (kv v : val) {struct c} : Prop :=
  match c with
  | CRenamed n (CStruct cs) =>
      exists krecs recs, kv = kdict krecs /\ v = VDict (acc_of recs []) /\
        (fix all (cs : list con) (krecs recs : list fieldrec) {struct cs} : Prop :=
           match cs, krecs, recs with
           | [], [], [] => True
           | c' :: cs', (i, a, b, x) :: kt, (i', a', b', y) :: lt =>
               i = name_of c' /\ i' = name_of c' /\ a = a' /\ b = b' /\ mrel c' x y /\ all cs' kt lt
           | _, _, _ => False
           end) cs krecs recs
  | CRenamed n m => vrel m kv v
  | _ => False
  end.

Fixpoint rrel (cs : list con) (krecs recs : list fieldrec) : Prop :=
  match cs, krecs, recs with
  | [], [], [] => True
  | c :: cs', (i, a, b, x) :: kt, (i', a', b', y) :: lt =>
      i = name_of c /\ i' = name_of c /\ a = a' /\ b = b' /\ mrel c x y /\ rrel cs' kt lt
  | _, _, _ => False
  end.

Lemma mrel_struct n cs kv v : mrel (CRenamed n (CStruct cs)) kv v <->
  exists krecs recs, kv = kdict krecs /\ v = VDict (acc_of recs []) /\ rrel cs krecs recs.
Proof.
  cbn [mrel]. split; intros (krecs & recs & E1 & E2 & H); exists krecs, recs; (split; [exact E1|split; [exact E2|]]); clear E1 E2.
  - exact H.
  - exact H.
Qed.

Lemma mrel_flat n m kv v : flat m = true -> (mrel (CRenamed n m) kv v <-> vrel m kv v).
Proof. intros H. destruct m; try discriminate H; reflexivity. Qed.

Lemma ifield_user sq T es n nm l z cx s : tfind T nm = Some (nm, l) ->
  ifield (S (S (S z))) (KSchema sq T es) (ufield n nm) cx [] s =
  let* (recs, s1) := iseq (S z) (KSchema sq T es) l (push_scope cx) [] s in Ok (kdict recs, s1).
Proof.
  intros F.
  cbn [ifield ione ufield f_cond f_rep f_contents f_size f_eos f_term f_ty f_enc f_pad f_flag f_enum bind negb lookup_type].
  change (find (fun e : bytes * list kfield => name_eqb (fst e) nm) T) with (tfind T nm). rewrite F. destruct (iseq (S z) _ l _ [] s) as [[recs s1]|e q]; [|reflexivity]. cbn [bind]. unfold kdict. reflexivity.
Qed.

Definition RD (c : con) : Prop :=
  forall T sq es f, desc T f c -> forall d fu, depth c <= d -> forall cx cx' p s v s',
    parse c cx p s = Ok (v, s') ->
    exists kv, ifield (2 + 3 * d + fu) (KSchema sq T es) f cx' [] s = Ok (kv, s') /\ mrel c kv v.

Lemma f_id_ufield n nm : f_id (ufield n nm) = Some n.
Proof. reflexivity. Qed.

Lemma desc_id T f c : nmem c = true -> desc T f c -> f_id f = name_of c.
Proof.
  destruct c; try discriminate. intros Hn H. cbn [name_of].
  destruct c; try (cbn [desc] in H; subst f; apply f_id_field_of).
  apply desc_struct in H as (nm & l & -> & _). reflexivity.
Qed.

Lemma iseq_nested cs : Forall RD cs -> forallb nmem cs = true -> forall T sq es l, descs T l cs -> forall d fu, (forall c, In c cs -> depth c <= d) ->
  forall cx cx' p s recs s', layout_loop parse cs cx p s = Ok (recs, s') ->
  exists krecs, iseq (S (2 + 3 * d + fu)) (KSchema sq T es) l cx' [] s = Ok (krecs, s') /\ rrel cs krecs recs.
Proof.
  induction 1 as [|c t Hc Ht IH]; intros Hn T sq es l D d fu Hd cx cx' p s recs s' E; destruct l as [|f l]; try contradiction.
  - cbn [layout_loop] in E. injection E as <- <-. exists []. split; [reflexivity|exact I].
  - destruct D as [D1 D2]. cbn [forallb] in Hn. apply andb_prop in Hn as [Hn1 Hn2]. cbn [layout_loop] in E.
    destruct (parse c cx p s) as [[v s1]|e q] eqn:Ep; [cbn [bind] in E|discriminate].
    match type of E with context [layout_loop parse t ?cxx p s1] => destruct (layout_loop parse t cxx p s1) as [[rest s2]|e q] eqn:El end; [cbn [bind] in E|discriminate].
    injection E as <- <-.
    destruct (Hc T sq es f D1 d fu (Hd c (or_introl eq_refl)) cx cx' p s v s1 Ep) as (kv & Ek & Hv).
    destruct (IH Hn2 T sq es l D2 d fu (fun c0 Hin => Hd c0 (or_intror Hin)) _ (match f_id f with Some n0 => ctx_set cx' n0 kv | None => cx' end) p s1 rest s2 El) as (krest & Ekr & Hr).
    exists ((f_id f, itell s, itell s1, kv) :: krest). split.
    + cbn [iseq] in Ekr |- *. rewrite Ek. cbn [bind]. rewrite Ekr. reflexivity.
    + cbn [rrel]. rewrite (desc_id T f c Hn1 D1). repeat (split; [reflexivity|]). split; [exact Hv|exact Hr].
Qed.

Lemma list_max_le l d : list_max l <= d -> forall x, In x l -> x <= d.
Proof. intros H x Hin. apply list_max_le in H. rewrite Forall_forall in H. apply H, Hin. Qed.

Theorem read_nested : forall c, nmem c = true -> RD c.
Proof.
  apply (nmem_ind RD).
  - intros n m Hm T sq es f D d fu _ cx cx' p s v s' Ep. apply desc_flat in D; [|exact Hm]. subst f.
    destruct (ifield_flat (KSchema sq T es) n m Hm cx cx' p s v s' (3 * d + fu) Ep) as (kv & Ek & Hv).
    exists kv. split; [exact Ek|]. apply mrel_flat; assumption.
  - intros n cs Hn IH T sq es f D d fu Hd cx cx' p s v s' Ep. apply desc_struct in D as (nm & l & -> & F & D).
    cbn [depth] in Hd. destruct d as [|d']; [lia|]. apply le_S_n in Hd.
    replace (2 + 3 * S d' + fu) with (S (S (S (2 + 3 * d' + fu)))) by lia. rewrite (ifield_user sq T es n nm l _ cx' s F).
    cbn [parse] in Ep.
    destruct (struct_loop parse cs (push_scope cx) (p ++ [n]) [] s) as [[[acc cx2] s1]|e q] eqn:Es; [cbn [bind] in Ep|discriminate]. injection Ep as <- <-.
    destruct (struct_layout cs _ _ _ _ _ _ _ Hn Es) as (recs & El & ->).
    assert (Hd' : forall c, In c cs -> depth c <= d') by (intros c Hin; apply (list_max_le _ _ Hd); apply in_map, Hin).
    destruct (iseq_nested cs IH Hn T sq es l D d' fu Hd' _ (push_scope cx') _ _ _ _ El) as (krecs & Ek & Hr).
    rewrite Ek. cbn [bind]. eexists. split; [reflexivity|]. apply mrel_struct. exists krecs, recs. split; [reflexivity|]. split; [reflexivity|exact Hr].
Qed.

(* C19 for nested structs (nesting depth at most 20, the fuel of the reference reading) *)
Theorem ksy_describes_nested_struct cs data recs : forallb nmem cs = true -> (forall c, In c cs -> depth c <= 20) ->
  ksy_layout (CStruct cs) [] data = Ok recs ->
  exists sch krecs, ksy_emit (CStruct cs) = Some sch /\ ksy_interp sch [] data = Ok krecs /\ rrel cs krecs recs.
Proof.
  intros Hn Hd E. unfold ksy_layout in E.
  destruct (layout_loop parse cs _ [] (istream_of data)) as [[recs0 s']|e q] eqn:El; [cbn [bind] in E|discriminate]. injection E as <-.
  assert (HEM : Forall EM cs) by (apply Forall_forall; intros c Hin; apply emit_nested; rewrite forallb_forall in Hn; apply Hn, Hin).
  assert (HRD : Forall RD cs) by (apply Forall_forall; intros c Hin; apply read_nested; rewrite forallb_forall in Hn; apply Hn, Hin).
  destruct (emit_members cs HEM Hn gen0) as (l & g & Ee & _ & D).
  assert (Hb : bounded gen0) by (intros nm l0 []).
  destruct (iseq_nested cs HRD Hn (g_types g) l (g_enums g) l (D Hb) 20 (1 + length data) Hd _ (push_scope (top_ctx [] MParse)) _ _ _ _ El) as (krecs & Ek & Hr).
  exists (KSchema l (g_types g) (g_enums g)), krecs. split; [|split; [|exact Hr]].
  - unfold ksy_emit, compile_seq. cbn [ladder_seq emit e_seq]. rewrite Ee. reflexivity.
  - unfold ksy_interp. change (64 + length data) with (S (2 + 3 * 20 + (1 + length data))). rewrite Ek. reflexivity.
Qed.

(* non-vacuity: records inside records inside a header *)
Definition ex_nested : list con :=
  [CRenamed [x61] (CFormat Little FH);
   CRenamed [x62] (CStruct [CRenamed [x78] (CFormat Big FB);
                            CRenamed [x79] (CStruct [CRenamed [x70] CVarInt; CRenamed [x71] (CBytes (XConst (VInt 2)))]);
                            CRenamed [x7a] CFlag]);
   CRenamed [x63] (CStruct [CRenamed [x78] (CFormat Big FH)]);
   CRenamed [x64] CGreedyBytes].

Lemma ex_nested_members : forallb nmem ex_nested = true /\ forallb (fun c => Nat.leb (depth c) 20) ex_nested = true.
Proof. split; reflexivity. Qed.

Lemma ex_nested_runs :
  let data := [x01; x02; x07; x85; x01; x41; x42; x01; x00; x09; xff] in
  match ksy_emit (CStruct ex_nested) with
  | Some (KSchema sq ts es) =>
      Nat.eqb (length ts) 3 &&
      match ksy_interp (KSchema sq ts es) [] data, ksy_layout (CStruct ex_nested) [] data with
      | Ok kr, Ok r => Nat.eqb (length r) 4 && list_eqb (fun a b => Z.eqb (snd (fst a)) (snd (fst b)) && val_eqb (snd a) (snd b)) kr r
      | _, _ => false
      end
  | None => false
  end = true.
Proof. vm_compute. reflexivity. Qed.
