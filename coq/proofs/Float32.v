(* C03, single precision: EVERY binary32 pattern.  A finite pattern or an infinity widens to the double with exactly its value,
   which narrows back to exactly that pattern (so parse-then-build of Float32 reproduces the bytes); by arithmetic, not by a sweep. *)
From Coq Require Import ZArith NArith List Bool Lia ZifyBool ZifyN.
Require Import Float.
Local Open Scope N_scope.
Ltac Zify.zify_post_hook ::= Z.div_mod_to_equations.

(* ---- fields of a packed pattern (binary32 and binary64, by linear arithmetic over the concrete field widths) ---- *)
Lemma shiftr_div p k : N.shiftr p k = p / 2 ^ k.
Proof. apply N.shiftr_div_pow2. Qed.

Lemma unpack32 s e m : s < 2 -> e < 256 -> m < 8388608 ->
  f_sign binary32 (f_pack binary32 s e m) = s /\ f_exp binary32 (f_pack binary32 s e m) = e /\ f_mant binary32 (f_pack binary32 s e m) = m.
Proof.
  intros Hs He Hm. unfold f_sign, f_exp, f_mant, f_pack. cbn [ebits mbits binary32]. rewrite !shiftr_div.
  change (2 ^ (8 + 23)) with 2147483648. change (2 ^ 23) with 8388608. change (2 ^ 8) with 256. repeat split; lia.
Qed.

Lemma unpack64 s e m : s < 2 -> e < 2048 -> m < 4503599627370496 ->
  f_sign binary64 (f_pack binary64 s e m) = s /\ f_exp binary64 (f_pack binary64 s e m) = e /\ f_mant binary64 (f_pack binary64 s e m) = m.
Proof.
  intros Hs He Hm. unfold f_sign, f_exp, f_mant, f_pack. cbn [ebits mbits binary64]. rewrite !shiftr_div.
  change (2 ^ (11 + 52)) with 9223372036854775808. change (2 ^ 52) with 4503599627370496. change (2 ^ 11) with 2048. repeat split; lia.
Qed.

Lemma pack_unpack32 p : p < 4294967296 -> f_pack binary32 (f_sign binary32 p) (f_exp binary32 p) (f_mant binary32 p) = p.
Proof.
  intros Hp. unfold f_sign, f_exp, f_mant, f_pack. cbn [ebits mbits binary32]. rewrite !shiftr_div.
  change (2 ^ (8 + 23)) with 2147483648. change (2 ^ 23) with 8388608. change (2 ^ 8) with 256. lia.
Qed.

Lemma fields32 p : p < 4294967296 -> f_sign binary32 p < 2 /\ f_exp binary32 p < 256 /\ f_mant binary32 p < 8388608.
Proof.
  intros Hp. unfold f_sign, f_exp, f_mant. cbn [ebits mbits binary32]. rewrite !shiftr_div.
  change (2 ^ (8 + 23)) with 2147483648. change (2 ^ 23) with 8388608. change (2 ^ 8) with 256. repeat split; lia.
Qed.

(* ---- scaling by a power of two ---- *)
Lemma log2_bounds n : 0 < n -> 2 ^ N.log2 n <= n < 2 ^ (N.log2 n + 1).
Proof. intros H. rewrite N.add_1_r. apply N.log2_spec, H. Qed.

Lemma scale_bounds sig l k : 2 ^ l <= sig < 2 ^ (l + 1) -> 2 ^ (l + k) <= sig * 2 ^ k < 2 ^ (l + k + 1).
Proof.
  intros [H1 H2]. replace (l + k + 1) with (l + 1 + k) by lia. rewrite (N.pow_add_r 2 l k), (N.pow_add_r 2 (l + 1) k). split.
  - apply N.mul_le_mono_r, H1.
  - apply N.mul_lt_mono_pos_r; [apply N.neq_0_lt_0, N.pow_nonzero; lia|exact H2].
Qed.

Lemma log2_scaled sig k : 0 < sig -> N.log2 (sig * 2 ^ k) = k + N.log2 sig.
Proof. intros H. apply N.log2_mul_pow2; lia. Qed.

Lemma div_scaled sig k : sig * 2 ^ k / 2 ^ k = sig /\ (sig * 2 ^ k) mod 2 ^ k = 0.
Proof. assert (2 ^ k <> 0) by (apply N.pow_nonzero; lia). split; [apply N.div_mul; assumption|apply N.mod_mul; assumption]. Qed.

(* ---- widening: the double that holds sig * 2^ex exactly ---- *)
Lemma round64_exact s sig ex : 0 < sig -> sig < 16777216 -> (-149 <= ex <= 104)%Z ->
  let l := N.log2 sig in
  f_round binary64 s sig ex = Some (f_pack binary64 s (Z.to_N (Z.of_N l + ex + 1023)) (sig * 2 ^ (52 - l) - 4503599627370496)).
Proof.
  intros Hs Hb He l. pose proof (log2_bounds sig Hs) as Hl. fold l in Hl.
  assert (Hl24 : l <= 23).
  { destruct (N.le_gt_cases l 23) as [H|H]; [exact H|]. exfalso. assert (2 ^ 24 <= 2 ^ l) by (apply N.pow_le_mono_r; lia).
    change (2 ^ 24) with 16777216 in H0. lia. }
  pose proof (scale_bounds sig l (52 - l) Hl) as Hr. replace (l + (52 - l)) with 52 in Hr by lia.
  change (2 ^ 52) with 4503599627370496 in Hr. change (2 ^ (52 + 1)) with 9007199254740992 in Hr.
  unfold f_round. replace (sig =? 0) with false by lia.
  cbn [mbits ebits binary64]. unfold bias, emax_field. cbn [mbits ebits binary64]. fold l.
  change (Z.of_N (2 ^ (11 - 1) - 1)) with 1023%Z. change (Z.of_N 52) with 52%Z.
  rewrite Z.max_l by lia.
  unfold rne_shift. replace (0 <=? ex - (Z.of_N l + ex - 52))%Z with true by lia.
  replace (Z.to_N (ex - (Z.of_N l + ex - 52))) with (52 - l) by lia.
  change (2 ^ (52 + 1)) with 9007199254740992. change (2 ^ 52) with 4503599627370496. change (2 ^ 11 - 1) with 2047.
  replace (sig * 2 ^ (52 - l) =? 9007199254740992) with false by lia.
  replace (sig * 2 ^ (52 - l) <? 4503599627370496) with false by lia.
  replace (Z.of_N 2047 <=? Z.of_N l + ex - 52 + 52 + 1023)%Z with false by lia.
  f_equal. f_equal. lia.
Qed.

(* ---- narrowing that double back ---- *)
Lemma round32_back_normal s sig ex : 8388608 <= sig < 16777216 -> (-149 <= ex <= 104)%Z ->
  f_round binary32 s (sig * 2 ^ 29) (ex - 29) = Some (f_pack binary32 s (Z.to_N (ex + 150)) (sig - 8388608)).
Proof.
  intros Hs He. assert (H0 : 0 < sig) by lia.
  assert (Hl : N.log2 sig = 23) by (apply N.log2_unique; [lia|change (2 ^ 23) with 8388608; change (2 ^ N.succ 23) with 16777216; lia]).
  pose proof (log2_scaled sig 29 H0) as Hl2. rewrite Hl in Hl2. change (29 + 23) with 52 in Hl2.
  destruct (div_scaled sig 29) as [Hd Hm].
  assert (Hpos : sig * 2 ^ 29 <> 0) by (change (2 ^ 29) with 536870912; lia).
  unfold f_round. replace (sig * 2 ^ 29 =? 0) with false by lia. rewrite Hl2.
  cbn [mbits ebits binary32]. unfold bias, emax_field. cbn [mbits ebits binary32].
  change (Z.of_N (2 ^ (8 - 1) - 1)) with 127%Z. change (Z.of_N 23) with 23%Z. change (Z.of_N 52) with 52%Z.
  rewrite Z.max_l by lia.
  unfold rne_shift. replace (0 <=? ex - 29 - (52 + (ex - 29) - 23))%Z with false by lia.
  replace (Z.to_N (- (ex - 29 - (52 + (ex - 29) - 23)))) with 29 by lia. rewrite Hd, Hm.
  change (2 ^ (29 - 1)) with 268435456. replace (0 <? 268435456) with true by lia.
  change (2 ^ (23 + 1)) with 16777216. change (2 ^ 23) with 8388608. change (2 ^ 8 - 1) with 255.
  replace (sig =? 16777216) with false by lia. replace (sig <? 8388608) with false by lia.
  replace (Z.of_N 255 <=? 52 + (ex - 29) - 23 + 23 + 127)%Z with false by lia.
  f_equal. f_equal. lia.
Qed.

Lemma round32_back_sub s sig : 0 < sig < 8388608 ->
  let l := N.log2 sig in
  f_round binary32 s (sig * 2 ^ (52 - l)) (Z.of_N l - 149 - 52) = Some (f_pack binary32 s 0 sig).
Proof.
  intros Hs l. assert (H0 : 0 < sig) by lia. pose proof (log2_bounds sig H0) as Hl. fold l in Hl.
  assert (Hl23 : l <= 22).
  { destruct (N.le_gt_cases l 22) as [H|H]; [exact H|]. exfalso. assert (2 ^ 23 <= 2 ^ l) by (apply N.pow_le_mono_r; lia).
    change (2 ^ 23) with 8388608 in H1. lia. }
  pose proof (log2_scaled sig (52 - l) H0) as Hl2. fold l in Hl2. replace (52 - l + l) with 52 in Hl2 by lia.
  destruct (div_scaled sig (52 - l)) as [Hd Hm].
  pose proof (scale_bounds sig l (52 - l) Hl) as Hr. replace (l + (52 - l)) with 52 in Hr by lia. change (2 ^ 52) with 4503599627370496 in Hr.
  unfold f_round. replace (sig * 2 ^ (52 - l) =? 0) with false by lia. rewrite Hl2.
  cbn [mbits ebits binary32]. unfold bias, emax_field. cbn [mbits ebits binary32].
  change (Z.of_N (2 ^ (8 - 1) - 1)) with 127%Z. change (Z.of_N 23) with 23%Z. change (Z.of_N 52) with 52%Z.
  rewrite Z.max_r by lia.
  unfold rne_shift. replace (0 <=? Z.of_N l - 149 - 52 - (1 - 127 - 23))%Z with false by lia.
  replace (Z.to_N (- (Z.of_N l - 149 - 52 - (1 - 127 - 23)))) with (52 - l) by lia. rewrite Hd, Hm.
  assert (Hh : 0 < 2 ^ (52 - l - 1)) by (apply N.neq_0_lt_0, N.pow_nonzero; lia). replace (0 <? 2 ^ (52 - l - 1)) with true by lia.
  change (2 ^ (23 + 1)) with 16777216. change (2 ^ 23) with 8388608.
  replace (sig =? 16777216) with false by lia. replace (sig <? 8388608) with true by lia. reflexivity.
Qed.

Lemma narrow_packed s E M : s < 2 -> 0 < E < 2047 -> M < 4503599627370496 ->
  narrow binary32 (f_pack binary64 s E M) = f_round binary32 s (M + 4503599627370496) (Z.of_N E - 1075).
Proof.
  intros Hs HE HM. destruct (unpack64 s E M Hs ltac:(lia) HM) as (E1 & E2 & E3).
  unfold narrow, is_nan, is_inf, f_sig_ex. rewrite E1, E2, E3. unfold emax_field, bias. cbn [ebits mbits binary64].
  change (2 ^ 11 - 1) with 2047. replace (E =? 2047) with false by lia. cbn [andb]. replace (E =? 0) with false by lia.
  change (2 ^ 52) with 4503599627370496. change (Z.of_N (2 ^ (11 - 1) - 1)) with 1023%Z. change (Z.of_N 52) with 52%Z.
  f_equal. lia.
Qed.

Lemma narrow_zero s : s < 2 -> narrow binary32 (f_pack binary64 s 0 0) = Some (f_pack binary32 s 0 0).
Proof.
  intros Hs. destruct (unpack64 s 0 0 Hs ltac:(lia) ltac:(lia)) as (E1 & E2 & E3).
  unfold narrow, is_nan, is_inf, f_sig_ex. rewrite E1, E2, E3. unfold emax_field. cbn [ebits mbits binary64]. reflexivity.
Qed.

Lemma narrow_inf s : s < 2 -> narrow binary32 (f_pack binary64 s 2047 0) = Some (f_pack binary32 s 255 0).
Proof.
  intros Hs. destruct (unpack64 s 2047 0 Hs ltac:(lia) ltac:(lia)) as (E1 & E2 & E3).
  unfold narrow, is_nan, is_inf. rewrite E1, E2, E3. unfold emax_field. cbn [ebits mbits binary64 binary32]. reflexivity.
Qed.

(* THE theorem: every one of the 2^32 single-precision patterns that is not a NaN *)
Theorem single_roundtrip : forall p, p < 4294967296 -> is_nan binary32 p = false -> narrow binary32 (widen binary32 p) = Some p.
Proof.
  intros p Hp Hn. destruct (fields32 p Hp) as (Hs & He & Hm). pose proof (pack_unpack32 p Hp) as Ep.
  set (s := f_sign binary32 p) in *. set (e := f_exp binary32 p) in *. set (m := f_mant binary32 p) in *.
  unfold is_nan in Hn. fold e m in Hn. unfold emax_field in Hn. cbn [ebits binary32] in Hn. change (2 ^ 8 - 1) with 255 in Hn.
  unfold widen. unfold is_nan, is_inf. fold s e m. unfold emax_field. cbn [ebits binary32 binary64]. change (2 ^ 8 - 1) with 255. change (2 ^ 11 - 1) with 2047.
  rewrite Hn. destruct ((e =? 255) && (m =? 0)) eqn:Ei.
  - (* an infinity *) assert (e = 255 /\ m = 0) as [E1 E2] by lia. rewrite narrow_inf by exact Hs. rewrite <- Ep, E1, E2. reflexivity.
  - unfold f_sig_ex. fold e m. unfold bias. cbn [ebits mbits binary32]. change (Z.of_N (2 ^ (8 - 1) - 1)) with 127%Z. change (Z.of_N 23) with 23%Z. change (2 ^ 23) with 8388608.
    destruct (e =? 0) eqn:E0.
    + assert (e = 0) by lia. destruct (N.eq_dec m 0) as [M0|M0].
      * (* zero *) rewrite M0. unfold f_round at 1. cbn [N.eqb]. rewrite narrow_zero by exact Hs. rewrite <- Ep, H, M0. reflexivity.
      * (* subnormal *) assert (Hm0 : 0 < m) by lia.
        rewrite (round64_exact s m (1 - 127 - 23) Hm0 ltac:(lia) ltac:(lia)).
        set (l := N.log2 m). pose proof (log2_bounds m Hm0) as Hl. fold l in Hl.
        assert (Hl22 : l <= 22).
        { destruct (N.le_gt_cases l 22) as [X|X]; [exact X|]. exfalso. assert (2 ^ 23 <= 2 ^ l) by (apply N.pow_le_mono_r; lia).
          change (2 ^ 23) with 8388608 in H0. lia. }
        pose proof (scale_bounds m l (52 - l) Hl) as Hr. replace (l + (52 - l)) with 52 in Hr by lia.
        change (2 ^ 52) with 4503599627370496 in Hr. change (2 ^ (52 + 1)) with 9007199254740992 in Hr.
        rewrite narrow_packed by lia.
        replace (m * 2 ^ (52 - l) - 4503599627370496 + 4503599627370496) with (m * 2 ^ (52 - l)) by lia.
        replace (Z.of_N (Z.to_N (Z.of_N l + (1 - 127 - 23) + 1023)) - 1075)%Z with (Z.of_N l - 149 - 52)%Z by lia.
        pose proof (round32_back_sub s m ltac:(lia)) as X. cbv zeta in X. fold l in X. rewrite X. rewrite <- Ep, H. reflexivity.
    + (* normal *) assert (He' : 0 < e < 255) by lia.
      assert (Hsig : 8388608 <= m + 8388608 < 16777216) by lia.
      assert (Hlog : N.log2 (m + 8388608) = 23) by (apply N.log2_unique; [lia|change (2 ^ 23) with 8388608; change (2 ^ N.succ 23) with 16777216; lia]).
      rewrite (round64_exact s (m + 8388608) (Z.of_N e - 127 - 23) ltac:(lia) ltac:(lia) ltac:(lia)). rewrite Hlog. change (52 - 23) with 29.
      pose proof (scale_bounds (m + 8388608) 23 29 ltac:(change (2 ^ 23) with 8388608; change (2 ^ (23 + 1)) with 16777216; lia)) as Hr.
      change (2 ^ (23 + 29)) with 4503599627370496 in Hr. change (2 ^ (23 + 29 + 1)) with 9007199254740992 in Hr.
      rewrite narrow_packed by lia.
      replace ((m + 8388608) * 2 ^ 29 - 4503599627370496 + 4503599627370496) with ((m + 8388608) * 2 ^ 29) by lia.
      replace (Z.of_N (Z.to_N (Z.of_N 23 + (Z.of_N e - 127 - 23) + 1023)) - 1075)%Z with (Z.of_N e - 127 - 23 - 29)%Z by lia.
      rewrite (round32_back_normal s (m + 8388608) (Z.of_N e - 127 - 23) Hsig ltac:(lia)).
      rewrite <- Ep. f_equal. f_equal; lia.
Qed.

(* NaNs come back as the quiet NaN of their sign *)
Theorem single_nan_canonical : forall p, p < 4294967296 -> is_nan binary32 p = true ->
  narrow binary32 (widen binary32 p) = Some (quiet_nan binary32 (f_sign binary32 p)).
Proof.
  intros p Hp Hn. destruct (fields32 p Hp) as (Hs & _ & _). unfold widen. rewrite Hn.
  unfold quiet_nan at 1, emax_field. cbn [ebits mbits binary64]. change (2 ^ 11 - 1) with 2047. change (2 ^ (52 - 1)) with 2251799813685248.
  destruct (unpack64 (f_sign binary32 p) 2047 2251799813685248 Hs ltac:(lia) ltac:(lia)) as (E1 & E2 & E3).
  unfold narrow, is_nan. rewrite E1, E2, E3. unfold emax_field. cbn [ebits mbits binary64]. reflexivity.
Qed.

Theorem single_widen_injective : forall p q, p < 4294967296 -> q < 4294967296 -> is_nan binary32 p = false -> is_nan binary32 q = false ->
  widen binary32 p = widen binary32 q -> p = q.
Proof.
  intros p q Hp Hq Np Nq E. pose proof (single_roundtrip p Hp Np) as A. pose proof (single_roundtrip q Hq Nq) as B. rewrite E in A. congruence.
Qed.

Lemma single_examples :
  widen binary32 1065353216 = 4607182418800017408 /\ narrow binary32 4607182418800017408 = Some 1065353216 /\
  narrow binary32 (widen binary32 1) = Some 1 /\ narrow binary32 (widen binary32 4286578687) = Some 4286578687.
Proof. repeat split; vm_compute; reflexivity. Qed.

(* ---- double precision: widening and narrowing are the identity on every finite pattern and on the infinities ---- *)
Lemma pack_unpack64 p : p < 18446744073709551616 -> f_pack binary64 (f_sign binary64 p) (f_exp binary64 p) (f_mant binary64 p) = p.
Proof.
  intros Hp. unfold f_sign, f_exp, f_mant, f_pack. cbn [ebits mbits binary64]. rewrite !shiftr_div.
  change (2 ^ (11 + 52)) with 9223372036854775808. change (2 ^ 52) with 4503599627370496. change (2 ^ 11) with 2048. lia.
Qed.

Lemma fields64 p : p < 18446744073709551616 -> f_sign binary64 p < 2 /\ f_exp binary64 p < 2048 /\ f_mant binary64 p < 4503599627370496.
Proof.
  intros Hp. unfold f_sign, f_exp, f_mant. cbn [ebits mbits binary64]. rewrite !shiftr_div.
  change (2 ^ (11 + 52)) with 9223372036854775808. change (2 ^ 52) with 4503599627370496. change (2 ^ 11) with 2048. repeat split; lia.
Qed.

Lemma round64_id s e m : s < 2 -> e < 2047 -> m < 4503599627370496 ->
  f_round binary64 s (fst (f_sig_ex binary64 (f_pack binary64 s e m))) (snd (f_sig_ex binary64 (f_pack binary64 s e m))) = Some (f_pack binary64 s e m).
Proof.
  intros Hs He Hm. destruct (unpack64 s e m Hs ltac:(lia) Hm) as (E1 & E2 & E3).
  unfold f_sig_ex. rewrite E2, E3. unfold bias. cbn [ebits mbits binary64].
  change (Z.of_N (2 ^ (11 - 1) - 1)) with 1023%Z. change (Z.of_N 52) with 52%Z. change (2 ^ 52) with 4503599627370496.
  destruct (e =? 0) eqn:E0; cbn [fst snd].
  - assert (e = 0) by lia. subst e. destruct (N.eq_dec m 0) as [->|M0]; [reflexivity|].
    assert (Hm0 : 0 < m) by lia. pose proof (log2_bounds m Hm0) as Hl. set (l := N.log2 m) in *.
    assert (Hl51 : l <= 51).
    { destruct (N.le_gt_cases l 51) as [X|X]; [exact X|]. exfalso. assert (2 ^ 52 <= 2 ^ l) by (apply N.pow_le_mono_r; lia).
      change (2 ^ 52) with 4503599627370496 in H. lia. }
    unfold f_round. replace (m =? 0) with false by lia. cbn [mbits ebits binary64]. unfold bias, emax_field. cbn [mbits ebits binary64]. fold l.
    change (Z.of_N (2 ^ (11 - 1) - 1)) with 1023%Z. change (Z.of_N 52) with 52%Z.
    rewrite Z.max_r by lia. unfold rne_shift. replace (0 <=? 1 - 1023 - 52 - (1 - 1023 - 52))%Z with true by lia.
    replace (Z.to_N (1 - 1023 - 52 - (1 - 1023 - 52))) with 0 by lia. rewrite N.pow_0_r, N.mul_1_r.
    change (2 ^ (52 + 1)) with 9007199254740992. change (2 ^ 52) with 4503599627370496.
    replace (m =? 9007199254740992) with false by lia. replace (m <? 4503599627370496) with true by lia. reflexivity.
  - assert (He0 : 0 < e) by lia.
    assert (Hlog : N.log2 (m + 4503599627370496) = 52) by (apply N.log2_unique; [lia|change (2 ^ 52) with 4503599627370496; change (2 ^ N.succ 52) with 9007199254740992; lia]).
    unfold f_round. replace (m + 4503599627370496 =? 0) with false by lia. rewrite Hlog.
    cbn [mbits ebits binary64]. unfold bias, emax_field. cbn [mbits ebits binary64].
    change (Z.of_N (2 ^ (11 - 1) - 1)) with 1023%Z. change (Z.of_N 52) with 52%Z.
    rewrite Z.max_l by lia. unfold rne_shift.
    replace (0 <=? Z.of_N e - 1023 - 52 - (52 + (Z.of_N e - 1023 - 52) - 52))%Z with true by lia.
    replace (Z.to_N (Z.of_N e - 1023 - 52 - (52 + (Z.of_N e - 1023 - 52) - 52))) with 0 by lia. rewrite N.pow_0_r, N.mul_1_r.
    change (2 ^ (52 + 1)) with 9007199254740992. change (2 ^ 52) with 4503599627370496. change (2 ^ 11 - 1) with 2047.
    replace (m + 4503599627370496 =? 9007199254740992) with false by lia. replace (m + 4503599627370496 <? 4503599627370496) with false by lia.
    replace (Z.of_N 2047 <=? 52 + (Z.of_N e - 1023 - 52) - 52 + 52 + 1023)%Z with false by lia.
    f_equal. f_equal; lia.
Qed.

Theorem double_widen_id : forall p, p < 18446744073709551616 -> is_nan binary64 p = false -> widen binary64 p = p.
Proof.
  intros p Hp Hn. destruct (fields64 p Hp) as (Hs & He & Hm). pose proof (pack_unpack64 p Hp) as Ep.
  set (s := f_sign binary64 p) in *. set (e := f_exp binary64 p) in *. set (m := f_mant binary64 p) in *.
  unfold widen. rewrite Hn. unfold is_nan in Hn. unfold is_inf. fold e m in Hn |- *. fold s. unfold emax_field in *. cbn [ebits binary64] in *. change (2 ^ 11 - 1) with 2047 in *.
  destruct ((e =? 2047) && (m =? 0)) eqn:Ei.
  - assert (e = 2047 /\ m = 0) as [E1 E2] by lia. rewrite <- Ep, E1, E2. reflexivity.
  - assert (He' : e < 2047) by lia. pose proof (round64_id s e m Hs He' Hm) as R. rewrite Ep in R.
    destruct (f_sig_ex binary64 p) as [sig ex]. cbn [fst snd] in R. rewrite R. reflexivity.
Qed.

Theorem double_roundtrip : forall p, p < 18446744073709551616 -> is_nan binary64 p = false -> narrow binary64 (widen binary64 p) = Some p.
Proof.
  intros p Hp Hn. rewrite (double_widen_id p Hp Hn). destruct (fields64 p Hp) as (Hs & He & Hm). pose proof (pack_unpack64 p Hp) as Ep.
  set (s := f_sign binary64 p) in *. set (e := f_exp binary64 p) in *. set (m := f_mant binary64 p) in *.
  unfold narrow. rewrite Hn. unfold is_nan in Hn. unfold is_inf. fold e m in Hn |- *. fold s. unfold emax_field in *. cbn [ebits binary64] in *. change (2 ^ 11 - 1) with 2047 in *.
  destruct ((e =? 2047) && (m =? 0)) eqn:Ei.
  - assert (e = 2047 /\ m = 0) as [E1 E2] by lia. rewrite <- Ep, E1, E2. reflexivity.
  - assert (He' : e < 2047) by lia. pose proof (round64_id s e m Hs He' Hm) as R. rewrite Ep in R.
    destruct (f_sig_ex binary64 p) as [sig ex]. cbn [fst snd] in R. exact R.
Qed.

Theorem double_identity : forall p, p < 18446744073709551616 -> is_nan binary64 p = false -> widen binary64 p = p /\ narrow binary64 p = Some p.
Proof. intros p Hp Hn. split; [apply double_widen_id; assumption|]. pose proof (double_roundtrip p Hp Hn) as R. rewrite (double_widen_id p Hp Hn) in R. exact R. Qed.
