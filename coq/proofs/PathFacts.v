(* C18: error paths.  Every error raised while parsing / sizing inside a construct carries a path that
   extends the path the construct was entered with -- for EVERY construct of the model (induction over
   the syntax), so wrappers never drop or reorder the names of enclosing members; Renamed appends
   exactly its own name. *)
From Coq Require Import ZArith NArith List Bool Lia.
From Coq Require Import Strings.Byte.
Require Import Bytes Value Expr Codec Float Stream Syntax Sizeof Parse Build ConInd.
Import ListNotations.

Definition nopath {A} (r : res A) : Prop := match r with Err _ (Some _) => False | _ => True end.
Definition prefix (p q : path) : Prop := exists t, q = p ++ t.
Definition okp {A} (p : path) (r : res A) : Prop := match r with Err _ (Some q) => prefix p q | _ => True end.

Lemma prefix_refl p : prefix p p. Proof. exists []. rewrite app_nil_r. reflexivity. Qed.
Lemma prefix_trans a b c : prefix a b -> prefix b c -> prefix a c.
Proof. intros [x ->] [y ->]. exists (x ++ y). rewrite app_assoc. reflexivity. Qed.
Lemma prefix_snoc p n : prefix p (p ++ [n]). Proof. exists [n]. reflexivity. Qed.

Lemma nopath_okp {A} p (r : res A) : nopath r -> okp p r.
Proof. destruct r as [a|e [q|]]; cbn; tauto. Qed.
Lemma nopath_bind {A B} (x : res A) (f : A -> res B) : nopath x -> (forall a, nopath (f a)) -> nopath (bind x f).
Proof. destruct x as [a|e [q|]]; cbn; auto; tauto. Qed.
Lemma okp_bind {A B} p (x : res A) (f : A -> res B) : okp p x -> (forall a, okp p (f a)) -> okp p (bind x f).
Proof. destruct x as [a|e [q|]]; cbn; auto. Qed.
Lemma okp_raise {A} e p : okp p (@raise A e p). Proof. cbn. apply prefix_refl. Qed.
Lemma okp_weaken {A} p p' (r : res A) : prefix p p' -> okp p' r -> okp p r.
Proof. intros H. destruct r as [a|e [q|]]; cbn; auto. intros H2. eapply prefix_trans; eassumption. Qed.

Ltac np := repeat first [ exact I | apply nopath_bind; [|intros ?]
                        | match goal with |- nopath (match ?x with _ => _ end) => destruct x end
                        | match goal with |- nopath (if ?x then _ else _) => destruct x end ].

Lemma apply_un_np op a : nopath (apply_un op a). Proof. unfold apply_un. np. Qed.
Lemma apply_bin_np op a b : nopath (apply_bin op a b). Proof. unfold apply_bin. np. Qed.
Lemma fold_np {A B} (g : res A -> B -> res A) : (forall acc v, nopath acc -> nopath (g acc v)) ->
  forall l acc, nopath acc -> nopath (fold_left g l acc).
Proof. intros Hg. induction l as [|x t IH]; intros acc Ha; cbn [fold_left]; [exact Ha|]. apply IH, Hg, Ha. Qed.

Lemma sum_ints_np l : nopath (sum_ints l).
Proof. unfold sum_ints. apply fold_np; [|exact I]. intros acc v Ha. apply nopath_bind; [exact Ha|intros; apply apply_bin_np]. Qed.

Lemma apply_func_np f a : nopath (apply_func f a).
Proof.
  unfold apply_func. destruct f; try (destruct a; try exact I; try apply sum_ints_np).
  all: try solve [np].
  all: try (match goal with |- nopath (match ?l with [] => _ | _ :: _ => _ end) => destruct l; [exact I|] end).
  all: try (match goal with |- nopath (if ?c then _ else _) => destruct c; [|exact I] end).
  all: try (apply fold_np; [|exact I]; intros acc v0 Ha; apply nopath_bind; [exact Ha|intros; np]).
  all: try (match goal with |- nopath (match ?l with [] => _ | _ :: _ => _ end) => destruct l; exact I end).
Qed.

Lemma item_np cx c k : nopath (item cx c k).
Proof.
  unfold item, item_scope, item_top, item_val. np.
Qed.

Lemma cur_val_np c : nopath (cur_val c). Proof. destruct c; exact I. Qed.

Lemma eval_cur_np cx first second e : nopath (eval_cur cx first second e).
Proof.
  induction e as [r| |e IH k|v|op a IHa b IHb|op a IHa|f a IHa]; cbn [eval_cur].
  - exact I.
  - destruct second; exact I.
  - apply nopath_bind; [exact IH|intros; apply item_np].
  - exact I.
  - apply nopath_bind; [exact IHa|intros]. apply nopath_bind; [exact IHb|intros].
    apply nopath_bind; [apply cur_val_np|intros]. apply nopath_bind; [apply cur_val_np|intros].
    apply nopath_bind; [apply apply_bin_np|intros; exact I].
  - apply nopath_bind; [exact IHa|intros]. apply nopath_bind; [apply cur_val_np|intros].
    apply nopath_bind; [apply apply_un_np|intros; exact I].
  - apply nopath_bind; [exact IHa|intros]. apply nopath_bind; [apply cur_val_np|intros].
    apply nopath_bind; [apply apply_func_np|intros; exact I].
Qed.

Lemma eval_np cx e : nopath (eval cx e).
Proof. unfold eval. apply nopath_bind; [apply eval_cur_np|intros; apply cur_val_np]. Qed.
Lemma eval_obj_np cx obj lst e : nopath (eval_obj cx obj lst e).
Proof. unfold eval_obj. apply nopath_bind; [apply eval_cur_np|intros; apply cur_val_np]. Qed.
Lemma eval_int_np cx e : nopath (eval_int cx e).
Proof. unfold eval_int. apply nopath_bind; [apply eval_np|intros; np]. Qed.

(* ---- the stream helpers ---- *)
Lemma okp_iread s n p : okp p (iread s n p).
Proof. unfold iread. destruct (n <? 0)%Z; [apply okp_raise|]. destruct (_ <? n)%Z; [apply okp_raise|exact I]. Qed.
Lemma okp_iseek s off w p : okp p (iseek s off w p).
Proof. unfold iseek. repeat match goal with |- okp _ (if ?x then _ else _) => destruct x end; try exact I; apply okp_raise. Qed.
Lemma okp_iseek_user s off w p : okp p (iseek_user s off w p).
Proof. unfold iseek_user. destruct (_ && _); [apply okp_raise|apply okp_iseek]. Qed.
Lemma okp_iseek_back s p : okp p (iseek_back s p).
Proof. unfold iseek_back. destruct (iseekable s); [apply okp_iseek|exact I]. Qed.
Lemma okp_catch {A} p (r : res A) : okp p r -> okp p (catch_key r p).
Proof. destruct r as [a|e q]; cbn; [auto|]. destruct e; cbn; auto; intros; apply prefix_refl. Qed.

Lemma okp_vint_of p v : okp p (vint_of v).
Proof. destruct v; exact I. Qed.

Ltac pk :=
  repeat first
    [ exact I
    | apply okp_vint_of
    | apply okp_raise
    | apply okp_iread | apply okp_iseek | apply okp_iseek_user | apply okp_iseek_back
    | apply nopath_okp; first [ apply eval_np | apply eval_int_np | apply eval_obj_np | exact I ]
    | assumption
    | apply okp_catch
    | apply okp_bind; [|intros ?]
    | match goal with |- okp _ (if ?x then _ else _) => destruct x end ].

Ltac pk_ih :=
  match goal with
  | H : forall (cx : ctx) (p : path), okp p (sizeof ?c cx p) |- okp ?p (sizeof ?c _ ?p) => apply H
  | H : forall (cx : ctx) (p : path), okp p (sizeof ?c cx p) |- okp ?p (sizeof ?c _ (?p ++ [?n])) =>
      eapply okp_weaken; [apply prefix_snoc|apply H]
  end.

Lemma okp_sum cs cx p : Forall (fun c => forall cx p, okp p (sizeof c cx p)) cs -> okp p (sum_sizes sizeof cx p cs).
Proof.
  induction 1 as [|c t Hc Ht IH]; cbn [sum_sizes]; [exact I|].
  apply okp_bind; [apply Hc|intros a]. apply okp_bind; [exact IH|intros; exact I].
Qed.

Theorem sizeof_path_extends : forall c cx p, okp p (sizeof c cx p).
Proof.
  induction c using con_ind2; intros cx p; cbn [sizeof];
    try solve [repeat first [pk_ih | progress pk]];
    try solve [apply okp_catch, okp_sum; assumption].
  - (* Switch *) apply okp_catch. apply okp_bind; [pk|intros k]. destruct (negb (hashable k)); [exact I|].
    match goal with HF : Forall _ ?l |- _ => induction l as [|[v c'] t IHt] end; [apply IHc|]. inversion H as [|? ? Hc Ht]; subst.
    destruct (val_eqb k v); [apply Hc|apply IHt, Ht].
  - (* Transformed *) destruct a2, a4; pk.
  - (* Restreamed *) destruct a5; repeat first [pk_ih | progress pk].
Qed.

(* ---- parse ---- *)
Definition Pok (c : con) : Prop := forall cx p s, okp p (parse c cx p s).

Lemma okp_err_case {A B} p (r : res A) (k : A -> res B) (h : err -> option path -> res B) :
  okp p r -> (forall a, okp p (k a)) -> (forall e q, okp p (Err (A:=A) e q) -> okp p (h e q)) ->
  okp p (match r with Ok a => k a | Err e q => h e q end).
Proof. intros Hr Hk Hh. destruct r as [a|e q]; [apply Hk|apply Hh; exact Hr]. Qed.

Lemma okp_struct_loop cs : Forall Pok cs -> forall cx p acc s, okp p (struct_loop parse cs cx p acc s).
Proof.
  induction 1 as [|c t Hc Ht IH]; intros cx p acc s; cbn [struct_loop]; [exact I|].
  pose proof (Hc cx p s) as Hp. destruct (parse c cx p s) as [[v s']|e q].
  - destruct (name_of c); apply IH.
  - destruct e; try exact Hp. destruct (is_stopif c); exact I.
Qed.

Lemma okp_seq_loop cs : Forall Pok cs -> forall cx p s, okp p (seq_loop parse cs cx p s).
Proof.
  induction 1 as [|c t Hc Ht IH]; intros cx p s; cbn [seq_loop]; [exact I|].
  pose proof (Hc cx p s) as Hp. destruct (parse c cx p s) as [[v s']|e q].
  - apply okp_bind; [apply IH|intros [vs s'']; exact I].
  - destruct e; try exact Hp. destruct (is_stopif c); exact I.
Qed.

Lemma okp_focus_loop sel cs : Forall Pok cs -> forall cx p fin s, okp p (focus_loop parse sel cs cx p fin s).
Proof.
  induction 1 as [|c t Hc Ht IH]; intros cx p fin s; cbn [focus_loop]; [exact I|].
  apply okp_bind; [apply Hc|intros [v s']]. destruct (name_of c); apply IH.
Qed.

Lemma okp_union_loop cs : Forall Pok cs -> forall i cx p acc fw s, okp p (union_loop parse cs i cx p acc fw s).
Proof.
  induction 1 as [|c t Hc Ht IH]; intros i cx p acc fw s; cbn [union_loop]; [exact I|].
  apply okp_bind; [apply Hc|intros [v s1]]. destruct (name_of c); (apply okp_bind; [apply okp_iseek|intros [r s2]; apply IH]).
Qed.

Lemma okp_select_loop cs : Forall Pok cs -> forall cx p s, okp p (select_loop parse cs cx p s).
Proof.
  induction 1 as [|c t Hc Ht IH]; intros cx p s; cbn [select_loop]; [apply okp_raise|].
  pose proof (Hc cx p s) as Hp. destruct (parse c cx p s) as [r|e q]; [exact I|].
  destruct (swallowed e).
  - apply okp_bind; [apply okp_iseek_back|intros [r s']; apply IH].
  - destruct (err_eqb e EStopField); [exact I|exact Hp].
Qed.

Lemma okp_iter_pos {A} p (f : A -> res A) : (forall a, okp p (f a)) -> forall n a, okp p (iter_pos f n a).
Proof.
  intros Hf. induction n as [n IH|n IH|]; intros a; cbn [iter_pos].
  - apply okp_bind; [apply Hf|intros a1]. apply okp_bind; [apply IH|intros a2; apply IH].
  - apply okp_bind; [apply IH|intros a1; apply IH].
  - apply Hf.
Qed.

Lemma okp_count_loop c : Pok c -> forall n cx p s, okp p (count_loop (parse c) n cx p s).
Proof.
  intros Hc n cx p s. unfold count_loop. apply okp_bind; [|intros [[i acc] s']; exact I].
  unfold iter_N. destruct n; [exact I|]. apply okp_iter_pos. intros [[i acc] s0]. unfold count_step.
  apply okp_bind; [apply Hc|intros [v s1]; exact I].
Qed.

Lemma okp_greedy_loop c : Pok c -> forall fuel i cx p s, okp p (greedy_loop (parse c) fuel i cx p s).
Proof.
  intros Hc. induction fuel as [|f IH]; intros i cx p s; cbn [greedy_loop]; [exact I|].
  pose proof (Hc (ctx_set_index cx i) p s) as Hp. destruct (parse c (ctx_set_index cx i) p s) as [[v s1]|e q].
  - apply okp_bind; [apply IH|intros [vs s2]; exact I].
  - destruct e; try exact I; cbn [swallowed]; try (apply okp_bind; [apply okp_iseek_back|intros [r s']; exact I]); exact Hp.
Qed.

Lemma okp_until_loop c pred : Pok c -> forall fuel i acc cx p s, okp p (until_loop (parse c) pred fuel i acc cx p s).
Proof.
  intros Hc. induction fuel as [|f IH]; intros i acc cx p s; cbn [until_loop]; [exact I|].
  apply okp_bind; [apply Hc|intros [v s1]]. apply okp_bind; [apply nopath_okp, eval_obj_np|intros t].
  destruct (truthy t); [exact I|apply IH].
Qed.

Lemma okp_varint_loop fuel : forall s p, okp p (varint_loop fuel s p).
Proof.
  induction fuel as [|f IH]; intros s p; cbn [varint_loop]; [exact I|].
  apply okp_bind; [apply okp_iread|intros [d s']]. destruct d as [|b t]; [apply okp_raise|].
  destruct (_ <? 128)%N; [exact I|]. apply okp_bind; [apply IH|intros [hi s'']; exact I].
Qed.

Lemma okp_nullterm fuel : forall term incl consume req acc s p, okp p (nullterm_scan fuel term incl consume req acc s p).
Proof.
  induction fuel as [|f IH]; intros term incl consume req acc s p; cbn [nullterm_scan]; [exact I|].
  pose proof (okp_iread s (Z.of_nat (length term)) p) as Hr.
  destruct (iread s (Z.of_nat (length term)) p) as [[b s']|e q].
  - destruct (bytes_eqb b term); [|apply IH]. destruct consume; [exact I|].
    apply okp_bind; [apply okp_iseek|intros [r s'']; exact I].
  - destruct req; [exact Hr|exact I].
Qed.

Definition Sok (A : sizer) : Prop := forall cx p s, okp p (A cx p s).
Definition Pok1 (P : parser) : Prop := forall cx p s, okp p (P cx p s).

Lemma okp_prefixed_actualsize lc incl : Pok lc -> forall cx p s, okp p (prefixed_actualsize parse lc incl cx p s).
Proof.
  intros Hl cx p s. unfold prefixed_actualsize.
  apply okp_bind; [apply Hl|intros [lv s1]]. apply okp_bind; [destruct lv; exact I|intros n].
  apply okp_bind; [destruct incl; [apply okp_bind; [apply sizeof_path_extends|intros; exact I]|exact I]|intros; exact I].
Qed.

(* the length / count field that measuring a member parses: of a Prefixed reached through names and adapters (what
   Renamed._actualsize / Adapter._actualsize defer to), of a PrefixedArray *)
Fixpoint LFok (Q : con -> Prop) (c : con) : Prop :=
  match c with
  | CPrefixed lc _ _ => Q lc
  | CRenamed _ c' | CStringEncoded c' _ | CEnum c' _ | CFlagsEnum c' _ | CMapping c' _ | CHex c' | CHexDump c'
  | CExprValidator c' _ | COneOf c' _ | CNoneOf c' _ | CExprAdapter c' _ _ => LFok Q c'
  | CFocusedSeq _ [CRenamed _ (CRebuild lc _); CRenamed _ (CArray _ _)] => Q lc
  | _ => True
  end.
Definition lenfield_ok := LFok.
(* the field under a (named) Rebuild: what the count member of a PrefixedArray is *)
Definition RBok (Q : con -> Prop) (c : con) : Prop :=
  match c with CRebuild lc _ => Q lc | CRenamed _ (CRebuild lc _) => Q lc | _ => True end.

Lemma okp_counted_actualsize lc el : Pok lc -> forall cx p s, okp p (counted_actualsize parse lc el cx p s).
Proof.
  intros Hl cx p s. unfold counted_actualsize.
  apply okp_bind; [apply Hl|intros [lv s1]]. apply okp_bind; [destruct lv; exact I|intros n].
  apply okp_bind; [apply sizeof_path_extends|intros; exact I].
Qed.

Lemma okp_actualsize : forall c, LFok Pok c -> Sok (actualsize_with parse c).
Proof.
  induction c using con_ind2; intros HL cx p s; cbn [actualsize_with]; try apply sizeof_path_extends; cbn [LFok] in HL;
    try (apply IHc; exact HL).
  - (* FocusedSeq *)
    repeat first [ apply sizeof_path_extends | match goal with |- okp _ (match ?x with _ => _ end) => destruct x end ].
    apply okp_counted_actualsize, HL.
  - (* Renamed *) eapply okp_weaken; [apply prefix_snoc|apply IHc; exact HL].
  - (* Prefixed *) apply okp_prefixed_actualsize, HL.
Qed.

Lemma okp_lazy_step Pc Ac nm p st : Pok1 Pc -> Sok Ac -> okp p (lazy_step Pc Ac nm p st).
Proof.
  intros HP HA. destruct st as [[[[[i off] cx] s] offs] cache]. unfold lazy_step.
  pose proof (HA cx p s) as Ha. destruct (Ac cx p s) as [n|e q].
  - apply okp_bind; [apply okp_iseek|intros [r s1]; exact I].
  - destruct e; try exact Ha. apply okp_bind; [apply okp_iseek|intros [r s0]]. apply okp_bind; [apply HP|intros [v s1]; exact I].
Qed.

Lemma okp_lazy_force Pc off cx p s : Pok1 Pc -> okp p (lazy_force Pc off cx p s).
Proof.
  intros HP. unfold lazy_force. apply okp_bind; [apply okp_iseek|intros [r s1]]. apply okp_bind; [apply HP|intros [v s2]].
  apply okp_bind; [apply okp_iseek|intros [r2 s3]; exact I].
Qed.

Lemma okp_lazy_scan_array Pc Ac : Pok1 Pc -> Sok Ac -> forall n p st, okp p (lazy_scan_array Pc Ac n p st).
Proof.
  intros HP HA. induction n as [|n IH]; intros p st; cbn [lazy_scan_array]; [exact I|].
  apply okp_bind; [apply okp_lazy_step; assumption|intros st'; apply IH].
Qed.

Lemma okp_force_array Pc : Pok1 Pc -> forall n i offs cache cx p s, okp p (force_array Pc n i offs cache cx p s).
Proof.
  intros HP. induction n as [|n IH]; intros i offs cache cx p s; cbn [force_array]; [exact I|].
  apply okp_bind.
  - destruct (cache_get i cache); [exact I|]. destruct (nth_error offs i); [|exact I].
    apply okp_bind; [apply okp_lazy_force; exact HP|intros [v s']; exact I].
  - intros v. apply okp_bind; [apply IH|intros; exact I].
Qed.

(* members with their own sub-constructs well behaved *)
Definition Pok2 (c : con) : Prop := Pok c /\ lenfield_ok Pok c /\ RBok Pok c.

Lemma okp_lazy_scan_struct cs : Forall Pok2 cs -> forall p st, okp p (lazy_scan_struct parse cs p st).
Proof.
  induction 1 as [|c t (Hc & Hl & _) Ht IH]; intros p st; cbn [lazy_scan_struct]; [exact I|].
  apply okp_bind; [apply okp_lazy_step; [exact Hc|apply okp_actualsize; assumption]|intros st'; apply IH].
Qed.

Lemma okp_force_struct cs : Forall Pok cs -> forall i offs cache cx p s, okp p (force_struct parse cs i offs cache cx p s).
Proof.
  induction 1 as [|c t Hc Ht IH]; intros i offs cache cx p s; cbn [force_struct]; [exact I|].
  destruct (name_of c); [|apply IH]. apply okp_bind.
  - destruct (cache_get i cache); [exact I|]. destruct (nth_error offs i); [|exact I].
    apply okp_bind; [apply okp_lazy_force; exact Hc|intros [v s']; exact I].
  - intros v. apply okp_bind; [apply IH|intros; exact I].
Qed.

Ltac pk_parse :=
  match goal with
  | H : Pok ?c |- okp ?p (parse ?c _ ?p _) => apply H
  | H : Pok ?c |- okp ?p (parse ?c _ (?p ++ [?n]) _) => eapply okp_weaken; [apply prefix_snoc|apply H]
  | |- okp ?p (sizeof _ _ ?p) => apply sizeof_path_extends
  end.

Ltac pkp := repeat first [ pk_parse | progress pk
                         | match goal with |- okp _ (let '(_, _) := ?x in _) => destruct x end
                         | match goal with |- okp _ (match ?x with (_, _) => _ end) => destruct x end ].
(* one more layer: a match on an option / small datatype that is not a recursive call *)
Ltac pkm := repeat first [ pk_parse | progress pk
                         | match goal with |- okp _ (match ?x with (_, _) => _ end) => destruct x end
                         | match goal with |- okp _ (match bytes2integer ?a ?b with _ => _ end) => destruct (bytes2integer a b) end
                         | match goal with |- okp _ (match bits2integer ?a ?b with _ => _ end) => destruct (bits2integer a b) end
                         | match goal with |- okp _ (match (if ?c then swapbytesinbits ?d else Some ?d) with _ => _ end) => destruct (if c then swapbytesinbits d else Some d) end ].

Theorem parse_path_extends2 : forall c, Pok2 c.
Proof.
  induction c using con_ind2; (split; [|split; [unfold lenfield_ok; cbn [LFok]|cbn [RBok]];
    first [ exact I
          | match goal with H : Pok2 ?l |- Pok ?l => exact (proj1 H) end
          | match goal with H : Pok2 ?c' |- LFok Pok ?c' => exact (proj1 (proj2 H)) end
          | (* Renamed over Rebuild *) match goal with H : Pok2 ?c' |- match ?c' with _ => _ end => destruct c'; try exact I; exact (proj2 (proj2 H)) end
          | (* FocusedSeq of the PrefixedArray shape *)
            match goal with H : Forall _ ?cs |- _ =>
              repeat first [ exact I | match goal with |- match ?x with _ => _ end => destruct x end ];
              inversion H as [|? ? H0 Ht]; subst; exact (proj2 (proj2 H0)) end ]]).
  all: try (match goal with H : Forall (fun c : con => Pok2 c) ?cs |- _ =>
              assert (HF2 := H); assert (HF : Forall Pok cs) by (eapply Forall_impl; [|exact H]; intros ? (? & ? & ?); assumption); clear H; rename HF into H end).
  all: try (match goal with H : Forall (fun vc => Pok2 (snd vc)) ?cs |- _ =>
              assert (HF : Forall (fun vc => Pok (snd vc)) cs) by (eapply Forall_impl; [|exact H]; intros ? (? & ? & ?); assumption); clear H; rename HF into H end).
  all: repeat match goal with H : Pok2 _ |- _ => let A := fresh "Hok" in let B := fresh "IHl" in let D := fresh "IHr" in destruct H as (A & B & D); rename A into H end.
  all: intros cx p s; cbn [parse].
  all: try solve [pkp].
  all: try solve [pkm].
  all: try solve [unfold parse_format; pkp].
  all: try solve [unfold parse_varint; apply okp_bind; [apply okp_varint_loop|intros [n s']; exact I]].
  all: try solve [ (* Terminated *) destruct (iavail s); [exact I|apply okp_raise] ].
  all: try solve [ (* Index *) destruct (c_scopes cx); exact I ].
  all: try solve [ (* StringEncoded *) apply okp_bind; [apply IHc|intros [v s']]; destruct v; try apply okp_raise; match goal with |- context [decode ?a ?b] => destruct (decode a b) end; [exact I|apply okp_raise] ].
  all: try solve [ (* Enum *) apply okp_bind; [apply IHc|intros [v s']]; destruct v; try exact I; cbv zeta;
      match goal with |- context [last_label ?z ?t None] => destruct (last_label z t None) end; exact I ].
  all: try solve [ (* FlagsEnum *) apply okp_bind; [apply IHc|intros [v s']]; apply okp_bind; [destruct v; exact I|intros; exact I] ].
  all: try solve [ (* Mapping *) apply okp_bind; [apply IHc|intros [v s']]; destruct (negb (hashable v)); [apply okp_raise|]; match goal with |- context [mapping_decode ?v ?a None] => destruct (mapping_decode v a None) end; [exact I|apply okp_raise] ].
  all: try solve [ (* Hex *) apply okp_bind; [apply IHc|intros [v s']]; destruct v; try exact I;
      (pose proof (sizeof_path_extends c cx p) as Hs; destruct (sizeof c cx p) as [n|e q]; [exact I|destruct e; try exact I; exact Hs]) ].
  all: try solve [ (* OneOf *) apply okp_bind; [apply IHc|intros [v s']]; apply okp_bind; [unfold oneof_mem; destruct (hashable v); exact I|intros b]; destruct b; pk ].
  all: try solve [ (* NoneOf *) apply okp_bind; [apply IHc|intros [v s']]; apply okp_bind; [unfold oneof_mem; destruct (hashable v); exact I|intros b]; destruct b; pk ].
  all: try solve [ (* Struct *) apply okp_bind; [apply okp_struct_loop; exact H|intros [[kv cx'] s']; exact I] ].
  all: try solve [ (* Sequence *) apply okp_bind; [apply okp_seq_loop; exact H|intros [vs s']; exact I] ].
  all: try solve [ (* FocusedSeq *) apply okp_bind; [apply okp_focus_loop; exact H|intros [fin s']]; destruct fin; exact I ].
  all: try solve [ (* Union *) apply okp_bind; [apply okp_union_loop; exact H|intros [[[kv cx''] fw] s']]; match goal with |- okp _ (match ?x with _ => _ end) => destruct x end; try exact I;
      match goal with |- context [find ?f ?l] => destruct (find f l) as [[[? ?] ?]|] end; try exact I;
      (apply okp_bind; [apply okp_iseek|intros [r s'']; exact I]) ].
  all: try solve [ (* Select *) apply okp_select_loop; exact H ].
  all: try solve [ (* Switch *) apply okp_bind; [pk|intros k]; destruct (negb (hashable k)); [exact I|]; match goal with HF : Forall _ ?l |- _ => induction l as [|[v c'] t IHt] end; [apply IHc|]; inversion H as [|? ? Hc Ht]; subst; destruct (val_eqb k v); [apply Hc|apply IHt, Ht] ].
  all: try solve [ (* Array *) apply okp_bind; [pk|intros n]; destruct (n <? 0)%Z; [apply okp_raise|]; apply okp_bind; [apply okp_count_loop; exact IHc|intros [vs s']; exact I] ].
  all: try solve [ (* GreedyRange *) apply okp_bind; [apply okp_greedy_loop; exact IHc|intros [vs s']; exact I] ].
  all: try solve [ (* RepeatUntil *) apply okp_bind; [apply okp_until_loop; exact IHc|intros [vs s']; exact I] ].
  all: try solve [ (* Peek *) pose proof (IHc cx p s) as Hp; destruct (parse c cx p s) as [[v s1]|e q];
    [ apply okp_bind; [apply okp_iseek|intros [r sb]; exact I]
    | apply okp_bind; [apply okp_iseek_back|intros [r sb]]; destruct (err_eqb e EExplicit); [exact Hp|]; destruct (is_construct_error e); [exact I|exact Hp] ] ].
  all: try solve [ (* NullTerminated *) match goal with |- okp _ (match ?x with _ => _ end) => destruct x end; [apply okp_raise|]; apply okp_bind; [apply okp_nullterm|intros [d s1]]; apply okp_bind; [apply IHc|intros [v s2]; exact I] ].
  all: try solve [ (* NullStripped *) match goal with |- okp _ (match ?x with _ => _ end) => destruct x end; [apply okp_raise|]; destruct (iread_all s); apply okp_bind; [apply IHc|intros [v s2]; exact I] ].
  all: try solve [ (* Transformed *) apply okp_bind; [match goal with |- okp _ (match ?x with _ => _ end) => destruct x end; pk|intros [d s1]]; apply okp_bind; [match goal with |- okp _ (apply_bfun ?f _) => destruct f end; cbn [apply_bfun]; try exact I; destruct (bits2bytes d); exact I|intros d']; apply okp_bind; [apply IHc|intros [v s2]; exact I] ].
  all: try solve [ (* Restreamed *) match goal with |- okp _ (if ?x then _ else _) => destruct x end; [exact I|]; match goal with |- context [decode_units ?f ?u] => destruct (decode_units f u) end; [|exact I]; apply okp_bind; [apply IHc|intros [v si]]; match goal with |- context [units_needed ?k ?d] => destruct (units_needed k d) end; destruct (Nat.eqb _ _); [exact I|apply okp_raise] ].
  all: try solve [ (* ProcessXor *) apply okp_bind; [pk|intros k]; destruct k; try apply okp_raise;
      (destruct (iread_all s); apply okp_bind; [unfold xor_data; repeat match goal with |- okp _ (match ?x with _ => _ end) => destruct x | |- okp _ (if ?x then _ else _) => destruct x end; try exact I; apply okp_raise|intros d']; apply okp_bind; [apply IHc|intros [v s2]; exact I]) ].
  all: try solve [ (* ProcessRotl *) apply okp_bind; [pk|intros a]; apply okp_bind; [pk|intros g]; destruct (g <? 1)%Z; [apply okp_raise|]; destruct (alloc_bound <? g)%Z; [exact I|]; destruct (iread_all s); match goal with |- context [rotate_left ?x ?y ?z] => destruct (rotate_left x y z) end; [|apply okp_raise]; apply okp_bind; [apply IHc|intros [v s2]; exact I] ].
  all: try solve [ (* Checksum *) apply okp_bind; [apply IHc|intros [h1 s1]]; apply okp_bind; [pk|intros d]; destruct d; try exact I; destruct (val_eqb _ _); [exact I|apply okp_raise] ].
  all: try solve [ (* Lazy *) pose proof (okp_actualsize c IHl cx p s) as Ha; destruct (actualsize_with parse c cx p s) as [n|e q];
      [ apply okp_bind; [apply okp_iseek|intros [r s1]]; apply okp_bind; [apply okp_lazy_force; exact IHc|intros [v s2]; exact I]
      | destruct e; try exact Ha; apply okp_bind; [apply okp_iseek|intros [r s0]; apply IHc] ] ].
  all: try solve [ (* LazyStruct *) apply okp_bind; [apply okp_lazy_scan_struct; exact HF2|intros [[[[[i off] cx1] s'] offs] cache]];
      apply okp_bind; [apply okp_force_struct; exact H|intros; exact I] ].
  all: try solve [ (* LazyArray *) apply okp_bind; [pk|intros n]; destruct (n <? 0)%Z; [apply okp_raise|]; destruct (alloc_bound <? n)%Z; [exact I|];
      apply okp_bind; [apply okp_lazy_scan_array; [assumption|apply okp_actualsize; assumption]|intros [[[[[i off] cx1] s'] offs] cache]];
      apply okp_bind; [apply okp_force_array; exact IHc|intros; exact I] ].
Qed.

Theorem parse_path_extends : forall c, Pok c.
Proof. intros c. exact (proj1 (parse_path_extends2 c)). Qed.

(* Renamed appends exactly its own name, in all three interpreters *)
Theorem renamed_appends_name : forall n c cx p s obj o,
  parse (CRenamed n c) cx p s = parse c cx (p ++ [n]) s /\
  build (CRenamed n c) obj cx p o = build c obj cx (p ++ [n]) o /\
  sizeof (CRenamed n c) cx p = sizeof c cx (p ++ [n]).
Proof. intros. repeat split; reflexivity. Qed.

(* the public entry points start from the empty path (the operation marker is prepended by the caller) *)
Theorem entry_points_start_empty : forall c kw data e q,
  parse_bytes c kw data = Err e (Some q) -> prefix [] q.
Proof. intros. exists q. reflexivity. Qed.

(* consequently: an error raised anywhere inside member n of a structure names n first *)
Theorem member_error_names_member : forall n c cx p s e q,
  parse (CRenamed n c) cx p s = Err e (Some q) -> prefix (p ++ [n]) q.
Proof. intros n c cx p s e q H. cbn [parse] in H. pose proof (parse_path_extends c cx (p ++ [n]) s) as G. rewrite H in G. exact G. Qed.
