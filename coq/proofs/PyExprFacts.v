(* C11, printing: for EVERY well-formed expression tree -- any nesting of the binary and unary operators, item paths of any
   length, the helper functions, every constant with a literal spelling -- the token sequence repr() prints is read back by
   Python's expression grammar (precedence and associativity included) as the same tree, negative literals becoming the sign
   applied to the magnitude, which evaluates identically in every context.  So no nesting needs more parentheses than
   _operandrepr writes. *)
From Coq Require Import ZArith NArith List Bool Lia.
From Coq Require Import Strings.Byte.
Require Import Bytes Value Expr PyExpr.
Import ListNotations.
Local Open Scope nat_scope.

(* ---- what can follow ---- *)
Definition not_lb (ts : list tok) : Prop := match ts with TLB :: _ => False | _ => True end.
Definition closer (ts : list tok) : Prop := match ts with [] | TRP :: _ | TRB :: _ => True | _ => False end.
Definition prim_start (ts : list tok) : Prop :=
  match ts with TNot :: _ | TOp OSub :: _ | TOp OAdd :: _ => False | _ => True end.

Lemma closer_not_lb ts : closer ts -> not_lb ts.
Proof. destruct ts as [|[] ?]; cbn; tauto. Qed.

Lemma ploop_closer f minp seen l ts : closer ts -> ploop (S f) minp seen l ts = Some (l, ts).
Proof. destruct ts as [|[] ?]; cbn; try contradiction; reflexivity. Qed.

Lemma ptrail_stop f a ts : not_lb ts -> ptrail (S f) a ts = Some (a, ts).
Proof. destruct ts as [|[] ?]; cbn; try contradiction; reflexivity. Qed.

Lemma ploop_op f minp seen l o ts : Nat.leb minp (prec o) = true -> is_cmp o && seen = false ->
  ploop (S f) minp seen l (TOp o :: ts) =
  match pexpr f (rhs_prec o) ts with Some (r, ts2) => ploop f minp (is_cmp o) (mk_bin o l r) ts2 | None => None end.
Proof. intros H1 H2. cbn [ploop]. rewrite H1, H2. reflexivity. Qed.

Definition pprim (f : nat) (ts : list tok) : option (expr * list tok) :=
  match patom f ts with Some (a, ts1) => ptrail f a ts1 | None => None end.

Lemma pexpr_prim f minp ts : prim_start ts ->
  pexpr (S f) minp ts = match pprim f ts with Some (a, ts2) => ploop f minp false a ts2 | None => None end.
Proof.
  unfold pprim. intros Hs.
  assert (E : pexpr (S f) minp ts = match patom f ts with
                                    | Some (a, ts1) => match ptrail f a ts1 with Some (a', ts2) => ploop f minp false a' ts2 | None => None end
                                    | None => None end).
  { destruct ts as [|t ts]; [reflexivity|]. destruct t as [ | | | |o| | | | | ]; try reflexivity.
    - destruct o; cbn [prim_start] in Hs; try contradiction; reflexivity.
    - cbn [prim_start] in Hs. contradiction. }
  rewrite E. destruct (patom f ts) as [[a ts1]|]; reflexivity.
Qed.

Lemma pexpr_neg f minp ts : pexpr (S f) minp (TOp OSub :: ts) =
  match pexpr f unary_prec ts with Some (a, ts2) => ploop f minp false (XUn UNeg a) ts2 | None => None end.
Proof. reflexivity. Qed.
Lemma pexpr_pos f minp ts : pexpr (S f) minp (TOp OAdd :: ts) =
  match pexpr f unary_prec ts with Some (a, ts2) => ploop f minp false (XUn UPos a) ts2 | None => None end.
Proof. reflexivity. Qed.
Lemma pexpr_not f minp ts : pexpr (S f) minp (TNot :: ts) =
  if Nat.leb minp 2 then match pexpr f 2 ts with Some (a, ts2) => Some (XUn UNot a, ts2) | None => None end else None.
Proof. reflexivity. Qed.

(* ---- names and keys ---- *)
Lemma name_of_cps_of_name n : name_of_cps (cps_of_name n) = Some n.
Proof. unfold cps_of_name. induction n as [|b t IH]; cbn [map name_of_cps]; [reflexivity|]. rewrite Byte.of_to_N, IH. reflexivity. Qed.

Lemma pexpr_int f minp z rest : closer rest ->
  pexpr (S (S (S f))) minp (pr_int z ++ rest) = Some (unfold_neg (XConst (VInt z)), rest).
Proof.
  intros Hc. unfold pr_int. cbn [unfold_neg]. destruct (z <? 0)%Z eqn:E.
  - cbn [app]. rewrite pexpr_neg. rewrite pexpr_prim by exact I. unfold pprim. cbn [patom].
    rewrite ptrail_stop by (apply closer_not_lb, Hc). rewrite ploop_closer by exact Hc.
    rewrite ploop_closer by exact Hc. rewrite Z2N.id by lia. reflexivity.
  - cbn [app]. rewrite pexpr_prim by exact I. unfold pprim. cbn [patom].
    rewrite ptrail_stop by (apply closer_not_lb, Hc). rewrite ploop_closer by exact Hc. rewrite Z2N.id by lia. reflexivity.
Qed.

Lemma pexpr_key f k rest :
  exists ke, pexpr (S (S (S f))) 0 (pr_key k ++ TRB :: rest) = Some (ke, TRB :: rest) /\ key_of_expr ke = Some k.
Proof.
  destruct k as [n|i]; cbn [pr_key].
  - exists (XConst (VStr (cps_of_name n))). split.
    + cbn [app]. rewrite pexpr_prim by exact I. unfold pprim. cbn [patom]. cbn [ptrail]. rewrite ploop_closer by exact I. reflexivity.
    + cbn [key_of_expr]. rewrite name_of_cps_of_name. reflexivity.
  - exists (unfold_neg (XConst (VInt i))). split; [apply pexpr_int; exact I|].
    cbn [unfold_neg]. destruct (i <? 0)%Z; cbn [key_of_expr]; [rewrite Z.opp_involutive|]; reflexivity.
Qed.

(* ---- paths: a root followed by subscripts ---- *)
Fixpoint is_path (e : expr) : bool :=
  match e with XRoot _ | XList => true | XItem e' _ => is_path e' | _ => false end.
Fixpoint path_root (e : expr) : expr := match e with XItem e' _ => path_root e' | _ => e end.
Fixpoint path_keys (e : expr) : list key := match e with XItem e' k => path_keys e' ++ [k] | _ => [] end.
Definition tr (k : key) : list tok := TLB :: pr_key k ++ [TRB].

Lemma path_rebuild e : is_path e = true -> e = fold_left XItem (path_keys e) (path_root e).
Proof.
  induction e as [r| |e IH k|v|op a IHa b IHb|op a IHa|f a IHa]; cbn [is_path path_keys path_root]; try discriminate; try reflexivity.
  intros H. rewrite fold_left_app. cbn [fold_left]. rewrite <- (IH H). reflexivity.
Qed.

Lemma path_root_kind e : is_path e = true -> (exists r, path_root e = XRoot r) \/ path_root e = XList.
Proof.
  induction e as [r| |e IH k|v|op a IHa b IHb|op a IHa|f a IHa]; cbn [is_path path_root]; try discriminate; eauto.
Qed.

Lemma pr_path e : is_path e = true -> exists rt, pr (path_root e) = Some [rt] /\ pr e = Some (rt :: flat_map tr (path_keys e)).
Proof.
  induction e as [r| |e IH k|v|op a IHa b IHb|op a IHa|f a IHa]; cbn [is_path path_keys path_root]; try discriminate.
  - intros _. destruct r; eexists; split; reflexivity.
  - intros _. eexists; split; reflexivity.
  - intros H. destruct (IH H) as (rt & H1 & H2). exists rt. split; [exact H1|]. cbn [pr]. rewrite H2.
    rewrite flat_map_app. cbn [flat_map]. rewrite app_nil_r. unfold tr. rewrite <- app_comm_cons. reflexivity.
Qed.

Lemma ptrail_keys : forall ks a f rest, length ks + 5 <= f -> not_lb rest ->
  ptrail f a (flat_map tr ks ++ rest) = Some (fold_left XItem ks a, rest).
Proof.
  induction ks as [|k t IH]; intros a f rest Hf Hr; cbn [flat_map fold_left app].
  - destruct f; [lia|]. apply ptrail_stop, Hr.
  - destruct f as [|f]; [cbn in Hf; lia|]. unfold tr at 1. rewrite <- !app_assoc. cbn [app]. cbn [ptrail].
    destruct f as [|[|[|f]]]; try (cbn in Hf; lia).
    rewrite <- app_assoc. cbn [app].
    destruct (pexpr_key f k (flat_map tr t ++ rest)) as (ke & H1 & H2). rewrite H1, H2. apply IH; [cbn in Hf; lia|exact Hr].
Qed.

(* ---- well-formed trees: what the operator overloads can build and repr can spell ---- *)
Fixpoint wf (e : expr) : bool :=
  match e with
  | XRoot _ | XList => true
  | XItem e' _ => is_path e'
  | XConst v => match pr_const v with Some _ => true | None => false end
  | XBin o a b => match o with OContains => false | _ => wf a && wf b end
  | XUn _ a => wf a
  | XFunc _ a => wf a
  end.

Fixpoint need (e : expr) : nat :=
  match e with
  | XRoot _ | XList => 6
  | XConst _ => 3
  | XItem e' _ => need e' + 1
  | XBin _ a b => need a + need b + 6
  | XUn _ a => need a + 4
  | XFunc _ a => need a + 3
  end.

Lemma need_path e : is_path e = true -> need e = 6 + length (path_keys e).
Proof.
  induction e as [r| |e IH k|v|op a IHa b IHb|op a IHa|f a IHa]; cbn [is_path path_keys need]; try discriminate; try reflexivity.
  intros H. rewrite (IH H), app_length. cbn [length]. lia.
Qed.

Definition operand_toks (e : expr) (t : list tok) : list tok := if needs_parens e then TLP :: t ++ [TRP] else t.
Definition top_ok (e : expr) (minp : nat) : Prop := match e with XUn UNot _ => minp <= 2 | _ => True end.

Lemma unfold_neg_path e : is_path e = true -> unfold_neg e = e.
Proof.
  induction e as [r| |e IH k|v|op a IHa b IHb|op a IHa|f a IHa]; cbn [is_path unfold_neg]; try discriminate; try reflexivity.
  intros H. rewrite (IH H). reflexivity.
Qed.

(* the two levels, proved together: as an operand (a primary: atom, subscripted path, call, parenthesised) and as a whole
   expression *)
Definition POn (n : nat) (e : expr) : Prop := forall t, pr e = Some t -> forall f rest, need e + n <= f -> not_lb rest ->
  prim_start (operand_toks e t ++ rest) /\ pprim f (operand_toks e t ++ rest) = Some (unfold_neg e, rest).
Definition PEn (n : nat) (e : expr) : Prop := forall t, pr e = Some t -> forall f minp rest, need e + n <= f -> closer rest -> top_ok e minp ->
  pexpr f minp (t ++ rest) = Some (unfold_neg e, rest).
Definition PO := POn 4.
Definition PE := PEn 4.

Lemma need_ge3 e : 3 <= need e.
Proof. induction e; cbn [need]; lia. Qed.

Lemma POn_mono n m e : n <= m -> POn n e -> POn m e.
Proof. intros H HO t Ht f rest Hf Hr. apply HO; [exact Ht|lia|exact Hr]. Qed.
Lemma PEn_mono n m e : n <= m -> PEn n e -> PEn m e.
Proof. intros H HE t Ht f minp rest Hf Hc Htop. apply HE; [exact Ht|lia|exact Hc|exact Htop]. Qed.

Lemma PE_of_prim e : needs_parens e = false -> POn 3 e -> PEn 4 e.
Proof.
  intros Hn HO t Ht f minp rest Hf Hc _. destruct f as [|f]; [lia|].
  destruct (HO t Ht f rest ltac:(lia) (closer_not_lb _ Hc)) as [Hs Hp].
  unfold operand_toks in Hs, Hp. rewrite Hn in Hs, Hp.
  rewrite pexpr_prim by exact Hs. rewrite Hp. destruct f; [lia|]. apply ploop_closer, Hc.
Qed.

Lemma PO_of_parens e : needs_parens e = true -> PEn 3 e -> POn 4 e.
Proof.
  intros Hn HE t Ht f rest Hf Hr. unfold operand_toks. rewrite Hn. split; [exact I|].
  unfold pprim. destruct f as [|f]; [lia|]. cbn [app patom]. rewrite <- app_assoc. cbn [app].
  rewrite (HE t Ht f 0 (TRP :: rest)) by (try lia; exact I || (destruct e as [| | | | |[]|]; cbn; lia)).
  apply ptrail_stop, Hr.
Qed.

Theorem print_parse_both : forall e, wf e = true -> PO e /\ PE e.
Proof.
  induction e as [r| |e IH k|v|op a IHa b IHb|op a IHa|fn a IHa]; cbn [wf]; intros Hw.
  - (* this / obj_ *) assert (HO : POn 3 (XRoot r)).
    { intros t Ht f rest Hf Hr. unfold operand_toks. cbn [needs_parens]. destruct r; injection Ht as <-; (split; [exact I|]);
        unfold pprim; destruct f; cbn in Hf; try lia; cbn [app patom]; apply ptrail_stop, Hr. }
    split; [apply (POn_mono 3 4); [lia|exact HO]|apply PE_of_prim; [reflexivity|exact HO]].
  - (* list_ *) assert (HO : POn 3 XList).
    { intros t Ht f rest Hf Hr. unfold operand_toks. cbn [needs_parens]. injection Ht as <-. split; [exact I|].
      unfold pprim. destruct f; cbn in Hf; try lia. cbn [app patom]. apply ptrail_stop, Hr. }
    split; [apply (POn_mono 3 4); [lia|exact HO]|apply PE_of_prim; [reflexivity|exact HO]].
  - (* a path *) assert (Hp : is_path (XItem e k) = true) by exact Hw.
    assert (HO : POn 3 (XItem e k)).
    { intros t Ht f rest Hf Hr. unfold operand_toks. cbn [needs_parens].
      destruct (pr_path _ Hp) as (rt & H1 & H2). rewrite H2 in Ht. injection Ht as <-.
      rewrite (need_path _ Hp) in Hf. rewrite (unfold_neg_path _ Hp).
      assert (Hrt : forall f0 ts, patom (S f0) (rt :: ts) = Some (path_root (XItem e k), ts) /\ prim_start (rt :: ts)).
      { destruct (path_root_kind _ Hp) as [[r Er]|Er]; rewrite Er in H1 |- *; [destruct r|]; injection H1 as <-; intros; split; reflexivity. }
      destruct f as [|f]; [lia|]. split; [apply (proj2 (Hrt f _))|]. unfold pprim. cbn [app]. rewrite (proj1 (Hrt f _)).
      rewrite ptrail_keys by (try (cbn [path_keys] in Hf; lia); exact Hr). f_equal. f_equal. symmetry. apply (path_rebuild (XItem e k) Hp). }
    split; [apply (POn_mono 3 4); [lia|exact HO]|apply PE_of_prim; [reflexivity|exact HO]].
  - (* constants *) destruct (pr_const v) as [tv|] eqn:Ev; [|discriminate].
    assert (HE : PEn 3 (XConst v)).
    { intros t Ht f minp rest Hf Hc _. cbn [pr] in Ht. rewrite Ev in Ht. injection Ht as <-. cbn [need] in Hf.
      destruct f as [|[|[|f]]]; try lia.
      destruct v; try discriminate Ev; cbn [pr_const] in Ev.
      - injection Ev as <-. rewrite pexpr_prim by exact I. unfold pprim. cbn [app patom unfold_neg].
        rewrite ptrail_stop by (apply closer_not_lb, Hc). apply ploop_closer, Hc.
      - destruct b; injection Ev as <-; (rewrite pexpr_prim by exact I); unfold pprim; cbn [app patom unfold_neg];
          (rewrite ptrail_stop by (apply closer_not_lb, Hc)); apply ploop_closer, Hc.
      - injection Ev as <-. apply pexpr_int, Hc.
      - injection Ev as <-. rewrite pexpr_prim by exact I. unfold pprim. cbn [app patom unfold_neg].
        rewrite ptrail_stop by (apply closer_not_lb, Hc). apply ploop_closer, Hc.
      - injection Ev as <-. rewrite pexpr_prim by exact I. unfold pprim. cbn [app patom unfold_neg].
        rewrite ptrail_stop by (apply closer_not_lb, Hc). apply ploop_closer, Hc. }
    split; [|apply (PEn_mono 3 4); [lia|exact HE]].
    destruct (needs_parens (XConst v)) eqn:En; [apply PO_of_parens; assumption|].
    intros t Ht f rest Hf Hr. unfold operand_toks. rewrite En. cbn [pr] in Ht. rewrite Ev in Ht. injection Ht as <-. cbn [need] in Hf.
    destruct f as [|f]; [lia|]. unfold pprim.
    destruct v; try discriminate Ev; cbn [pr_const] in Ev.
    + injection Ev as <-. split; [exact I|]. cbn [app patom unfold_neg]. apply ptrail_stop, Hr.
    + destruct b; injection Ev as <-; (split; [exact I|]); cbn [app patom unfold_neg]; apply ptrail_stop, Hr.
    + injection Ev as <-. cbn [needs_parens] in En. unfold pr_int. rewrite En. split; [exact I|]. cbn [app patom unfold_neg]. rewrite En.
      rewrite Z2N.id by (apply Z.ltb_ge in En; lia). apply ptrail_stop, Hr.
    + injection Ev as <-. split; [exact I|]. cbn [app patom unfold_neg]. apply ptrail_stop, Hr.
    + injection Ev as <-. split; [exact I|]. cbn [app patom unfold_neg]. apply ptrail_stop, Hr.
  - (* binary *) assert (Hop : op <> OContains) by (intros ->; discriminate Hw).
    assert (Hw2 : wf a && wf b = true) by (destruct op; try exact Hw; contradiction Hop; reflexivity).
    apply andb_prop in Hw2 as [Hwa Hwb]. destruct (IHa Hwa) as [HOa _]. destruct (IHb Hwb) as [HOb _].
    assert (HO : POn 3 (XBin op a b)).
    { intros t Ht f rest Hf Hr. unfold operand_toks. cbn [needs_parens]. cbn [pr] in Ht.
      destruct (pr a) as [ta|] eqn:Ea; [|discriminate]. destruct (pr b) as [tb|] eqn:Eb; [|discriminate]. injection Ht as <-.
      split; [exact I|]. cbn [need] in Hf. unfold pprim. pose proof (need_ge3 a). pose proof (need_ge3 b).
      destruct f as [|[|[|[|f]]]]; try lia. cbn [app patom].
      change (if needs_parens a then TLP :: ta ++ [TRP] else ta) with (operand_toks a ta).
      change (if needs_parens b then TLP :: tb ++ [TRP] else tb) with (operand_toks b tb).
      rewrite <- app_assoc. cbn [app]. rewrite <- app_assoc. cbn [app].
      destruct (HOa ta Ea (S (S f)) (TOp op :: operand_toks b tb ++ TRP :: rest) ltac:(lia) I) as [Hsa Hpa].
      rewrite pexpr_prim by exact Hsa. rewrite Hpa. rewrite ploop_op by (reflexivity || apply andb_false_r).
      destruct (HOb tb Eb f (TRP :: rest) ltac:(lia) I) as [Hsb Hpb].
      rewrite pexpr_prim by exact Hsb. rewrite Hpb.
      destruct f as [|f]; [lia|]. rewrite ploop_closer by exact I. rewrite ploop_closer by exact I.
      replace (mk_bin op (unfold_neg a) (unfold_neg b)) with (XBin op (unfold_neg a) (unfold_neg b)) by (destruct op; try reflexivity; contradiction Hop; reflexivity).
      cbn [unfold_neg]. apply ptrail_stop, Hr. }
    split; [apply (POn_mono 3 4); [lia|exact HO]|apply PE_of_prim; [reflexivity|exact HO]].
  - (* unary *) destruct (IHa Hw) as [HOa _].
    assert (HE : PEn 3 (XUn op a)).
    { intros t Ht f minp rest Hf Hc Htop. cbn [pr] in Ht. destruct (pr a) as [ta|] eqn:Ea; [|discriminate]. injection Ht as <-.
      change (if needs_parens a then TLP :: ta ++ [TRP] else ta) with (operand_toks a ta).
      cbn [need] in Hf. destruct f as [|[|[|f]]]; try lia.
      destruct (HOa ta Ea (S f) rest ltac:(lia) (closer_not_lb _ Hc)) as [Hsa Hpa].
      cbn [unfold_neg]. destruct op; cbn [un_tok app].
      - rewrite pexpr_neg. rewrite pexpr_prim by exact Hsa. rewrite Hpa. rewrite ploop_closer by exact Hc. apply ploop_closer, Hc.
      - rewrite pexpr_pos. rewrite pexpr_prim by exact Hsa. rewrite Hpa. rewrite ploop_closer by exact Hc. apply ploop_closer, Hc.
      - rewrite pexpr_not. cbn [top_ok] in Htop. replace (Nat.leb minp 2) with true by (symmetry; apply Nat.leb_le; exact Htop).
        rewrite pexpr_prim by exact Hsa. rewrite Hpa. rewrite ploop_closer by exact Hc. reflexivity. }
    split; [apply PO_of_parens; [reflexivity|exact HE]|apply (PEn_mono 3 4); [lia|exact HE]].
  - (* len_ / sum_ / min_ / max_ / abs_ *) destruct (IHa Hw) as [_ HEa].
    assert (HO : POn 3 (XFunc fn a)).
    { intros t Ht f rest Hf Hr. unfold operand_toks. cbn [needs_parens]. cbn [pr] in Ht.
      destruct (pr a) as [ta|] eqn:Ea; [|discriminate]. injection Ht as <-. split; [exact I|].
      cbn [need] in Hf. unfold pprim. destruct f as [|f]; [lia|]. cbn [app patom]. rewrite <- app_assoc. cbn [app].
      rewrite (HEa ta Ea f 0 (TRP :: rest)) by (try lia; exact I || (destruct a as [| | | | |[]|]; cbn; lia)).
      cbn [unfold_neg]. apply ptrail_stop, Hr. }
    split; [apply (POn_mono 3 4); [lia|exact HO]|apply PE_of_prim; [reflexivity|exact HO]].
Qed.

(* ---- the fuel pyparse uses is enough ---- *)
Lemma pr_nonempty e t : pr e = Some t -> 1 <= length t.
Proof.
  destruct e as [r| |e k|v|op a b|op a|fn a]; cbn [pr]; intros H.
  - destruct r; injection H as <-; cbn; lia.
  - injection H as <-; cbn; lia.
  - destruct (pr e); [|discriminate]. injection H as <-. rewrite app_length. cbn [length]. lia.
  - destruct v; try discriminate H; cbn [pr_const] in H; try (injection H as <-; cbn; lia).
    + destruct b; injection H as <-; cbn; lia.
    + injection H as <-. unfold pr_int. destruct (_ <? _)%Z; cbn; lia.
  - destruct (pr a); [|discriminate]. destruct (pr b); [|discriminate]. injection H as <-. cbn [length]. lia.
  - destruct (pr a); [|discriminate]. injection H as <-. cbn [length]. lia.
  - destruct (pr a); [|discriminate]. injection H as <-. cbn [length]. lia.
Qed.

Lemma need_bound : forall e t, pr e = Some t -> need e <= 8 * length t + 4.
Proof.
  induction e as [r| |e IH k|v|op a IHa b IHb|op a IHa|fn a IHa]; intros t Ht; cbn [need].
  - pose proof (pr_nonempty _ _ Ht). lia.
  - pose proof (pr_nonempty _ _ Ht). lia.
  - cbn [pr] in Ht. destruct (pr e) as [t'|] eqn:E; [|discriminate]. injection Ht as <-. specialize (IH t' eq_refl).
    rewrite app_length. cbn [length]. lia.
  - pose proof (pr_nonempty _ _ Ht). lia.
  - cbn [pr] in Ht. destruct (pr a) as [ta|] eqn:Ea; [|discriminate]. destruct (pr b) as [tb|] eqn:Eb; [|discriminate]. injection Ht as <-.
    specialize (IHa ta eq_refl). specialize (IHb tb eq_refl). cbn [length]. rewrite app_length. cbn [length]. rewrite app_length. cbn [length].
    assert (length ta <= length (if needs_parens a then TLP :: ta ++ [TRP] else ta)) by (destruct (needs_parens a); cbn [length]; rewrite ?app_length; lia).
    assert (length tb <= length (if needs_parens b then TLP :: tb ++ [TRP] else tb)) by (destruct (needs_parens b); cbn [length]; rewrite ?app_length; lia).
    lia.
  - cbn [pr] in Ht. destruct (pr a) as [ta|] eqn:Ea; [|discriminate]. injection Ht as <-. specialize (IHa ta eq_refl). cbn [length].
    assert (length ta <= length (if needs_parens a then TLP :: ta ++ [TRP] else ta)) by (destruct (needs_parens a); cbn [length]; rewrite ?app_length; lia).
    lia.
  - cbn [pr] in Ht. destruct (pr a) as [ta|] eqn:Ea; [|discriminate]. injection Ht as <-. specialize (IHa ta eq_refl). cbn [length].
    rewrite app_length. cbn [length]. lia.
Qed.

(* THE printing theorem *)
Theorem pyparse_print : forall e t, wf e = true -> pr e = Some t -> pyparse t = Some (unfold_neg e).
Proof.
  intros e t Hw Ht. unfold pyparse. destruct (print_parse_both e Hw) as [_ HE].
  pose proof (need_bound e t Ht) as Hb.
  assert (Htop : top_ok e 0) by (destruct e as [| | | | |[]|]; cbn; lia).
  pose proof (HE t Ht (8 * length t + 8) 0 [] ltac:(lia) I Htop) as H. rewrite app_nil_r in H. rewrite H. reflexivity.
Qed.

(* ---- the parsed tree means the same ---- *)
Lemma eval_unfold_neg cx first second : forall e, eval_cur cx first second (unfold_neg e) = eval_cur cx first second e.
Proof.
  induction e as [r| |e IH k|v|op a IHa b IHb|op a IHa|fn a IHa]; cbn [unfold_neg]; try reflexivity.
  - cbn [eval_cur]. rewrite IH. reflexivity.
  - destruct v; try reflexivity. destruct (z <? 0)%Z; [|reflexivity]. cbn [eval_cur bind cur_val apply_un int_of_val].
    rewrite Z.opp_involutive. reflexivity.
  - cbn [eval_cur]. rewrite IHa, IHb. reflexivity.
  - cbn [eval_cur]. rewrite IHa. reflexivity.
  - cbn [eval_cur]. rewrite IHa. reflexivity.
Qed.

Theorem C11_repr_denotes_the_expression : forall e t, wf e = true -> pr e = Some t ->
  exists e', pyparse t = Some e' /\
    (forall cx, eval cx e' = eval cx e) /\
    (forall cx obj lst, eval_obj cx obj lst e' = eval_obj cx obj lst e).
Proof.
  intros e t Hw Ht. exists (unfold_neg e). split; [apply pyparse_print; assumption|]. split.
  - intros cx. unfold eval. rewrite eval_unfold_neg. reflexivity.
  - intros cx obj lst. unfold eval_obj. rewrite eval_unfold_neg. reflexivity.
Qed.

(* ---- the parentheses _operandrepr writes are needed; the keyword `in` is not faithful ---- *)
Definition ex_a : expr := XItem (XRoot RThis) (KName [x61]).
Definition ex_b : expr := XItem (XRoot RThis) (KName [x62]).

Example ex_print_parse :
  let e := XBin OMul (XUn UNeg (XBin OPow ex_a (XConst (VInt (-2))))) (XFunc FLen (XItem (XItem (XRoot RThis) (KName [x6c])) (KIdx (-1)))) in
  wf e = true /\ exists t, pr e = Some t /\ pyparse t = Some (unfold_neg e) /\ 20 <= length t.
Proof. split; [reflexivity|]. eexists. split; [vm_compute; reflexivity|]. split; [vm_compute; reflexivity|cbn; lia]. Qed.

(* (- a ** b) read by the grammar is -(a ** b), not (-a) ** b: a nested unary operand printed bare changes the tree *)
Lemma ex_bare_unary_differs :
  pyparse [TLP; TOp OSub; TName NThis; TLB; TStr [97%N]; TRB; TOp OPow; TName NThis; TLB; TStr [98%N]; TRB; TRP]
  = Some (XUn UNeg (XBin OPow ex_a ex_b)) /\
  XUn UNeg (XBin OPow ex_a ex_b) <> XBin OPow (XUn UNeg ex_a) ex_b.
Proof. split; [vm_compute; reflexivity|discriminate]. Qed.

(* (-2 ** a): the same for a negative literal *)
Example ex_bare_negative_differs :
  pyparse [TLP; TOp OSub; TInt 2; TOp OPow; TName NThis; TLB; TStr [97%N]; TRB; TRP]
  = Some (XUn UNeg (XBin OPow (XConst (VInt 2)) ex_a)).
Proof. vm_compute. reflexivity. Qed.

(* BinExpr(operator.contains, a, b) prints "(a in b)", which Python reads as contains(b, a): outside wf, and refuted *)
Theorem print_contains_refuted : exists e t, pr e = Some t /\ pyparse t <> Some (unfold_neg e).
Proof.
  exists (XBin OContains ex_a ex_b). eexists. split; [reflexivity|]. vm_compute. discriminate.
Qed.
