(* C07: how context expressions resolve through the scope chain, in every mode. *)
From Coq Require Import ZArith NArith List Bool Lia.
From Coq Require Import Strings.Byte.
Require Import Bytes Value Expr.
Import ListNotations.

(* members never carry underscore names (the library reserves them); a scope whose member
   dictionary has no such key resolves the special names as follows *)
Definition clean_scope (s : scope) : Prop := forall k, is_private k = true -> lookup k (s_vals s) = None.
Definition clean_top (cx : ctx) : Prop := forall k, is_private k = true -> lookup k (c_top cx) = None.

Lemma n_up_private : is_private n_up = true. Proof. reflexivity. Qed.
Lemma n_root_private : is_private n_root = true. Proof. reflexivity. Qed.
Lemma n_params_private : is_private n_params = true. Proof. reflexivity. Qed.
Lemma n_index_private : is_private n_index = true. Proof. reflexivity. Qed.

(* each _ step moves exactly one enclosing structure outward, ending at the call's context *)
Theorem up_moves_one_scope : forall cx d s, nth_error (c_scopes cx) d = Some s -> clean_scope s ->
  item_scope cx d n_up = Ok (if Nat.eqb (S d) (length (c_scopes cx)) then CurTop else CurScope (S d)).
Proof.
  intros cx d s Hn Hc. unfold item_scope. rewrite Hn. rewrite (Hc n_up n_up_private).
  cbn [mode_flag name_eqb bytes_eqb n_up n_parsing n_building n_sizing Byte.eqb andb].
  destruct (Nat.eqb (S d) (length (c_scopes cx))) eqn:E; cbn; rewrite ?E; try reflexivity.
  all: cbn in E; rewrite E; reflexivity.
Qed.

(* _root is the outermost structure's scope, from any depth *)
Theorem root_is_outermost : forall cx d s, nth_error (c_scopes cx) d = Some s -> clean_scope s ->
  item_scope cx d n_root = Ok (CurScope (length (c_scopes cx) - 1)).
Proof. intros cx d s Hn Hc. unfold item_scope. rewrite Hn. rewrite (Hc n_root n_root_private). reflexivity. Qed.

(* _params is the call's keyword context, from any depth, and from itself *)
Theorem params_from_any_depth : forall cx d s, nth_error (c_scopes cx) d = Some s -> clean_scope s ->
  item_scope cx d n_params = Ok CurTop.
Proof. intros cx d s Hn Hc. unfold item_scope. rewrite Hn. rewrite (Hc n_params n_params_private). reflexivity. Qed.

Theorem params_of_params : forall cx, clean_top cx -> item_top cx n_params = Ok CurTop.
Proof. intros cx Hc. unfold item_top. rewrite (Hc n_params n_params_private). reflexivity. Qed.

Theorem params_hold_kwargs : forall cx k v, lookup k (c_top cx) = Some v -> item_top cx k = Ok (CurVal v).
Proof. intros cx k v H. unfold item_top. rewrite H. reflexivity. Qed.

(* exactly one of _parsing / _building / _sizing is true, according to the entry point *)
Definition flag_of (cx : ctx) (d : nat) (k : name) : res cursor := item_scope cx d k.

Theorem flags_one_hot : forall cx d s, nth_error (c_scopes cx) d = Some s -> clean_scope s ->
  item_scope cx d n_parsing = Ok (CurVal (VBool (match c_mode cx with MParse => true | _ => false end))) /\
  item_scope cx d n_building = Ok (CurVal (VBool (match c_mode cx with MBuild => true | _ => false end))) /\
  item_scope cx d n_sizing = Ok (CurVal (VBool (match c_mode cx with MSize => true | _ => false end))).
Proof.
  intros cx d s Hn Hc. unfold item_scope. rewrite Hn.
  rewrite (Hc n_parsing eq_refl), (Hc n_building eq_refl), (Hc n_sizing eq_refl).
  repeat split; reflexivity.
Qed.

Theorem flags_one_hot_top : forall cx, clean_top cx ->
  item_top cx n_parsing = Ok (CurVal (VBool (match c_mode cx with MParse => true | _ => false end))) /\
  item_top cx n_building = Ok (CurVal (VBool (match c_mode cx with MBuild => true | _ => false end))) /\
  item_top cx n_sizing = Ok (CurVal (VBool (match c_mode cx with MSize => true | _ => false end))).
Proof.
  intros cx Hc. unfold item_top. rewrite (Hc n_parsing eq_refl), (Hc n_building eq_refl), (Hc n_sizing eq_refl).
  repeat split; reflexivity.
Qed.

(* a pushed scope is one level deeper: everything outside is unchanged *)
Theorem push_keeps_outer : forall cx d, nth_error (c_scopes (push_scope cx)) (S d) = nth_error (c_scopes cx) d.
Proof. reflexivity. Qed.
Theorem push_keeps_top : forall cx, c_top (push_scope cx) = c_top cx /\ c_mode (push_scope cx) = c_mode cx.
Proof. intros. split; reflexivity. Qed.
Theorem push_depth : forall cx, length (c_scopes (push_scope cx)) = S (length (c_scopes cx)).
Proof. reflexivity. Qed.

(* this.x sees the value stored for an earlier sibling *)
Lemma name_eqb_refl k : name_eqb k k = true.
Proof. induction k as [|b k IH]; [reflexivity|]. cbn. rewrite IH. destruct b; reflexivity. Qed.

Lemma lookup_dict_set_same k v kv : lookup k (dict_set k v kv) = Some v.
Proof.
  induction kv as [|[k' v'] t IH]; cbn [dict_set lookup].
  - rewrite name_eqb_refl. reflexivity.
  - destruct (name_eqb k k') eqn:E; cbn [lookup].
    + rewrite name_eqb_refl. reflexivity.
    + rewrite E. exact IH.
Qed.

Theorem this_sees_sibling : forall cx s t k v, c_scopes cx = s :: t ->
  item_scope (ctx_set cx k v) 0 k = Ok (CurVal v).
Proof.
  intros cx s t k v H. unfold ctx_set, item_scope. rewrite H. cbn [c_scopes nth_error s_vals].
  rewrite lookup_dict_set_same. reflexivity.
Qed.

(* _index is the current repetition index *)
Theorem index_is_current : forall cx s t i, c_scopes cx = s :: t -> clean_scope s ->
  item_scope (ctx_set_index cx i) 0 n_index = Ok (CurVal (VInt i)).
Proof.
  intros cx s t i H Hc. unfold ctx_set_index, item_scope. rewrite H. cbn [c_scopes nth_error s_vals s_index].
  rewrite (Hc n_index n_index_private). reflexivity.
Qed.

(* a structure pushed inside a repetition sees the current index *)
Theorem index_inherited_by_pushed_scope : forall cx s t i, c_scopes cx = s :: t ->
  item_scope (push_scope (ctx_set_index cx i)) 0 n_index = Ok (CurVal (VInt i)).
Proof. intros cx s t i H. unfold ctx_set_index, push_scope, item_scope. rewrite H. reflexivity. Qed.

(* ---- the same expression resolves identically in parse, build and sizeof ---- *)
Definition with_mode (cx : ctx) (m : mode) : ctx := mkCtx (c_scopes cx) (c_top cx) (c_topindex cx) m (c_opaque cx).

Definition not_flag (k : name) : bool := negb (name_eqb k n_parsing || name_eqb k n_building || name_eqb k n_sizing).

Fixpoint no_flags (e : expr) : bool :=
  match e with
  | XRoot _ | XList | XConst _ => true
  | XItem e' (KName n) => not_flag n && no_flags e'
  | XItem e' (KIdx _) => no_flags e'
  | XBin _ a b => no_flags a && no_flags b
  | XUn _ a | XFunc _ a => no_flags a
  end.

Lemma mode_flag_not_flag m k : not_flag k = true -> mode_flag m k = None.
Proof.
  unfold not_flag, mode_flag. intros H. apply negb_true_iff in H. apply orb_false_iff in H as [H H3].
  apply orb_false_iff in H as [H1 H2]. rewrite H1, H2, H3. reflexivity.
Qed.

Lemma item_with_mode cx m c k : (match k with KName n => not_flag n = true | KIdx _ => True end) ->
  item (with_mode cx m) c k = item cx c k.
Proof.
  intros H. destruct c as [d| |v]; destruct k as [n|i]; try reflexivity.
  - unfold item, item_scope, with_mode. cbn [c_scopes c_mode].
    destruct (nth_error (c_scopes cx) d); [|reflexivity]. destruct (lookup n (s_vals s)); [reflexivity|].
    rewrite !(mode_flag_not_flag _ n H). reflexivity.
  - unfold item, item_top, with_mode. cbn [c_top c_mode c_topindex c_opaque].
    destruct (lookup n (c_top cx)); [reflexivity|]. rewrite !(mode_flag_not_flag _ n H). reflexivity.
Qed.

Theorem eval_mode_independent : forall e cx m first second, no_flags e = true ->
  eval_cur (with_mode cx m) first second e = eval_cur cx first second e.
Proof.
  induction e as [r| |e IH k|v|op a IHa b IHb|op a IHa|f a IHa]; intros cx m first second H; cbn [eval_cur no_flags] in *; try reflexivity.
  - destruct k as [n|i].
    + apply andb_prop in H as [H1 H2]. rewrite (IH cx m first second H2).
      destruct (eval_cur cx first second e) as [c|]; cbn [bind]; [|reflexivity]. apply item_with_mode. exact H1.
    + rewrite (IH cx m first second H). destruct (eval_cur cx first second e) as [c|]; cbn [bind]; [|reflexivity].
      apply item_with_mode. exact I.
  - apply andb_prop in H as [H1 H2]. rewrite (IHa cx m first second H1), (IHb cx m first second H2). reflexivity.
  - rewrite (IHa cx m first second H). reflexivity.
  - rewrite (IHa cx m first second H). reflexivity.
Qed.

(* the three entry points start from the same context apart from the mode flag *)
Theorem top_ctx_modes : forall kw m, with_mode (top_ctx kw MParse) m = top_ctx kw m.
Proof. reflexivity. Qed.

Theorem eval_same_in_all_modes : forall e kw m, no_flags e = true -> eval (top_ctx kw m) e = eval (top_ctx kw MParse) e.
Proof.
  intros e kw m H. unfold eval. cbn [top_ctx c_scopes].
  rewrite <- (top_ctx_modes kw m). rewrite eval_mode_independent by exact H. reflexivity.
Qed.
