(* C19: the schema export_ksy emits, read with the Kaitai meaning of its keys, describes the bytes the construct parses.
   For EVERY Struct whose members are named flat fields -- any Int*/Float* of any width, signedness and byte order, Bytes of a
   constant size, Flag, VarInt, GreedyBytes, a bytes Const, a counted Array of Int*/Float* -- in any number and order:
     - the emitted sequence lists exactly the members, in declaration order, under the same identifiers;
     - on every byte string the construct parses, reading the schema succeeds and assigns every field the same byte extent
       and (constants apart, which are described by their bytes) the same value. *)
From Coq Require Import ZArith NArith List Bool Lia.
From Coq Require Import Strings.Byte.
Require Import Bytes Value Expr Codec Float Stream Syntax Sizeof Parse Build Ksy RTFacts.
Import ListNotations.
Local Open Scope nat_scope.

(* ---- the flat members and the field each one is expected to become ---- *)
Definition prim_of (en : endian) (f : fcode) : kprim :=
  let n := N.of_nat (fcode_size f) in
  let le := match en with Little => true | Big => false end in
  if fcode_float f then KPFloat n le else KPInt (fcode_signed f) n le.

Definition flat (m : con) : bool :=
  match m with
  | CFormat _ _ | CFlag | CVarInt | CGreedyBytes => true
  | CBytes (XConst (VInt k)) => (0 <=? k)%Z
  | CConst (VBytes d) (CBytes (XConst (VInt k))) => (Z.of_nat (length d) =? k)%Z
  | CArray (XConst (VInt k)) (CFormat _ _) => (0 <=? k)%Z
  | _ => false
  end.

Definition field_of (n : name) (m : con) : kfield :=
  with_id (Some n)
    match m with
    | CFormat en f => with_ty (KTPrim (prim_of en f)) blank
    | CFlag => with_flag (with_ty (KTPrim (KPInt false 1 false)) blank)
    | CVarInt => with_ty (KTPrim KPVlq) blank
    | CGreedyBytes => with_eos true blank
    | CBytes (XConst (VInt k)) => with_size (KSInt k) blank
    | CConst (VBytes d) _ => with_contents d blank
    | CArray (XConst (VInt k)) (CFormat en f) => with_rep (KRExpr (KSInt k)) (with_ty (KTPrim (prim_of en f)) blank)
    | _ => blank
    end.

Definition named_flat (c : con) : Prop := exists n m, c = CRenamed n m /\ flat m = true.

(* ---- emission ---- *)
Lemma emit_flat n m g : flat m = true -> compile_full (emit (CRenamed n m)) g false = Done (field_of n m) g.
Proof.
  destruct m; try discriminate; intros H.
  - (* Format *) cbn. unfold prim_of. destruct (fcode_float f); reflexivity.
  - reflexivity.
  - (* Bytes *) cbn in H. destruct len; try discriminate. destruct v; try discriminate. reflexivity.
  - reflexivity.
  - reflexivity.
  - (* Array *) cbn in H. destruct count; try discriminate. destruct v; try discriminate. destruct m; try discriminate.
    cbn. unfold prim_of. destruct (fcode_float f); reflexivity.
  - (* Const *) cbn in H. destruct v; try discriminate. destruct m; try discriminate. destruct len; try discriminate.
    destruct v; try discriminate. apply Z.eqb_eq in H. cbn. unfold build_bytes. cbn. unfold write_val, owrite.
    assert (Hl : (z <? 0)%Z = false) by lia. rewrite Hl.
    assert (He : (Z.of_nat (length b) =? z)%Z = true) by (apply Z.eqb_eq; exact H). rewrite He. cbn. rewrite skipn_nil, app_nil_r. reflexivity.
Qed.

Lemma full_all_flat cs : Forall named_flat cs -> forall g,
  full_all emit cs g false = Done (map (fun c => match c with CRenamed n m => field_of n m | _ => blank end) cs) g.
Proof.
  induction 1 as [|c t (n & m & -> & Hm) Ht IH]; intros g; cbn [full_all map]; [reflexivity|].
  rewrite (emit_flat n m g Hm). rewrite IH. reflexivity.
Qed.

(* the schema of a flat struct: its members, in order, under their names; no helper types, no enums *)
Theorem ksy_emit_flat cs : Forall named_flat cs ->
  ksy_emit (CStruct cs) = Some (KSchema (map (fun c => match c with CRenamed n m => field_of n m | _ => blank end) cs) [] []).
Proof. intros H. unfold ksy_emit, compile_seq. cbn. rewrite (full_all_flat cs H gen0). reflexivity. Qed.

Theorem ksy_ids_in_declaration_order cs : Forall named_flat cs ->
  exists sq ts es, ksy_emit (CStruct cs) = Some (KSchema sq ts es) /\ map f_id sq = map name_of cs.
Proof.
  intros H. eexists _, _, _. split; [apply ksy_emit_flat, H|].
  induction H as [|c t (n & m & -> & Hm) Ht IH]; cbn [map]; [reflexivity|]. f_equal; [|exact IH].
  unfold field_of. destruct m; try discriminate; try reflexivity.
  - destruct len; try reflexivity. destruct v; reflexivity.
  - destruct count; try reflexivity. destruct v; try reflexivity. destruct m; reflexivity.
  - destruct v; reflexivity.
Qed.

(* ---- reading the schema against parsing ---- *)
Lemma read_prim_format en f s p : read_prim (prim_of en f) s p = parse_format en f p s.
Proof.
  unfold read_prim, prim_of, parse_format.
  destruct (fcode_float f) eqn:Ef.
  - rewrite nat_N_Z. destruct (iread s (Z.of_nat (fcode_size f)) p) as [[d s']|e q]; [cbn [bind]|reflexivity].
    destruct en; destruct f; try discriminate; reflexivity.
  - rewrite nat_N_Z. destruct (iread s (Z.of_nat (fcode_size f)) p) as [[d s']|e q]; [cbn [bind]|reflexivity].
    destruct en; reflexivity.
Qed.

(* the value relation: a constant region is described by its bytes, everything else by its value *)
Definition vrel (m : con) (kv v : val) : Prop := match m with CConst _ _ => True | _ => kv = v end.

Lemma miter_rep en f cx p : forall k i acc s r,
  miter (count_step (parse (CFormat en f)) cx p) k (i, acc, s) = Ok r ->
  exists vs s', r = ((i + Z.of_nat k)%Z, rev vs ++ acc, s') /\
    (fix rep (k : nat) (s : istream) : res (list val * istream) :=
       match k with
       | O => Ok ([], s)
       | S k' => let* (v, s1) := read_prim (prim_of en f) s p in let* (r, s2) := rep k' s1 in Ok (v :: r, s2)
       end) k s = Ok (vs, s').
Proof.
  induction k as [|k IH]; intros i acc s r; cbn [miter].
  - intros E. injection E as <-. exists [], s. cbn [rev app Z.of_nat]. rewrite Z.add_0_r. split; reflexivity.
  - unfold count_step at 1. cbn [parse]. rewrite read_prim_format.
    destruct (parse_format en f p s) as [[v s1]|e q]; [cbn [bind]|discriminate].
    intros E. apply IH in E. destruct E as (vs & s' & -> & Hr). exists (v :: vs), s'. split.
    + cbn [rev]. rewrite <- app_assoc. cbn [app]. replace (i + 1 + Z.of_nat k)%Z with (i + Z.of_nat (S k))%Z by lia. reflexivity.
    + rewrite Hr. reflexivity.
Qed.

Lemma val_eqb_bytes_true d d' : val_eqb (VBytes d') (VBytes d) = true -> d' = d.
Proof.
  cbn [val_eqb]. revert d. induction d' as [|x t IH]; intros [|y u]; cbn [bytes_eqb]; try discriminate; [reflexivity|].
  intros H. apply andb_true_iff in H. destruct H as [H1 H2]. apply Byte.byte_dec_bl in H1. subst. f_equal. apply IH, H2.
Qed.

Lemma bytes_eqb_refl' d : bytes_eqb d d = true.
Proof. induction d as [|x t IH]; cbn [bytes_eqb]; [reflexivity|]. rewrite IH, Byte.byte_dec_lb by reflexivity. reflexivity. Qed.

(* success does not depend on the error path a reader is given *)
Lemma iread_path s n p q r : iread s n p = Ok r -> iread s n q = Ok r.
Proof. unfold iread. destruct (n <? 0)%Z; [discriminate|]. destruct (_ <? n)%Z; [discriminate|]. auto. Qed.

Lemma varint_path : forall fuel s p q r, varint_loop fuel s p = Ok r -> varint_loop fuel s q = Ok r.
Proof.
  induction fuel as [|fu IH]; intros s p q r; cbn [varint_loop]; [discriminate|].
  destruct (iread s 1 p) as [[d s1]|e0 q0] eqn:E; [|discriminate]. rewrite (iread_path _ _ _ q _ E). cbn [bind].
  destruct d as [|b t]; [discriminate|]. destruct (_ <? 128)%N; [auto|].
  destruct (varint_loop fu s1 p) as [[hi s2]|e0 q0] eqn:E1; [|discriminate]. rewrite (IH _ _ q _ E1). auto.
Qed.

Lemma parse_format_path en f p q s r : parse_format en f p s = Ok r -> parse_format en f q s = Ok r.
Proof.
  unfold parse_format. destruct (iread s _ p) as [[d s1]|e0 q0] eqn:E; [|discriminate]. rewrite (iread_path _ _ _ q _ E). auto.
Qed.

(* what reading one field amounts to, kind by kind *)
Lemma ifield_prim sch n p0 cx s f :
  ifield (S (S f)) sch (with_id (Some n) (with_ty (KTPrim p0) blank)) cx [] s = read_prim p0 s [].
Proof.
  cbn [ifield ione with_id with_ty blank f_cond f_rep f_contents f_size f_eos f_term f_ty f_enc f_pad f_flag f_enum bind negb].
  destruct (read_prim p0 s []) as [[v s1]|e q] eqn:E; cbn [bind]; [|reflexivity].
  assert (Hv : match v with VList _ => False | _ => True end).
  { revert E. unfold read_prim. destruct p0.
    - destruct (iread s _ []) as [[d s2]|]; [cbn [bind]|discriminate]. intros E; injection E as <- _. exact I.
    - destruct (iread s _ []) as [[d s2]|]; [cbn [bind]|discriminate]. intros E; injection E as <- _. exact I.
    - discriminate.
    - destruct (parse_varint s []) as [[k s2]|]; [cbn [bind]|discriminate]. intros E; injection E as <- _. exact I. }
  destruct v; try contradiction; reflexivity.
Qed.

Lemma flag_byte : forall b, negb (Z.eqb (unpattern false 8 (be_decode [b])) 0) = negb (bytes_eqb [b] [x00]).
Proof. intros b. destruct b; vm_compute; reflexivity. Qed.

Lemma iread_len s n p d s' : iread s n p = Ok (d, s') -> length d = Z.to_nat n.
Proof.
  unfold iread. destruct (n <? 0)%Z eqn:E0; [discriminate|].
  destruct (Z.of_nat (length (iavail s)) <? n)%Z eqn:E1; [discriminate|].
  intros E. injection E as <- _. rewrite firstn_length. lia.
Qed.

Lemma iread_one s p d s' : iread s 1 p = Ok (d, s') -> exists b, d = [b].
Proof.
  intros E. pose proof (iread_len _ _ _ _ _ E) as Hl. destruct d as [|b [|c t]]; cbn in Hl; try lia. exists b. reflexivity.
Qed.

(* one flat member: whatever the construct parses, the field of the schema reads the same region to the same value *)
Lemma ifield_flat sch n m : flat m = true -> forall cx cx' p s v s' f,
  parse (CRenamed n m) cx p s = Ok (v, s') ->
  exists kv, ifield (S (S f)) sch (field_of n m) cx' [] s = Ok (kv, s') /\ vrel m kv v.
Proof.
  intros Hm cx cx' p s v s' f. cbn [parse]. destruct m; try discriminate.
  - (* Format *) cbn [parse]. intros E. exists v. split; [|reflexivity].
    unfold field_of. rewrite ifield_prim, read_prim_format. apply (parse_format_path _ _ _ [] _ _ E).
  - (* VarInt *) cbn [parse]. intros E. exists v. split; [|reflexivity].
    unfold field_of. rewrite ifield_prim. unfold read_prim. unfold parse_varint in *.
    destruct (varint_loop _ s (p ++ [n])) as [[k s1]|e q] eqn:E1; [|discriminate]. rewrite (varint_path _ _ _ [] _ E1). exact E.
  - (* Bytes *) cbn in Hm. destruct len; try discriminate. destruct v0; try discriminate. cbn [parse]. intros E.
    exists v. split; [|reflexivity].
    assert (En : eval_int cx (XConst (VInt z)) = Ok z) by (unfold eval_int, eval; cbn; destruct (c_scopes cx); reflexivity).
    rewrite En in E. cbn [bind] in E. destruct (iread s z (p ++ [n])) as [[d s1]|e q] eqn:Er; [|discriminate].
    cbn [bind] in E. injection E as <- <-.
    unfold field_of. cbn. rewrite (iread_path _ _ _ [] _ Er). reflexivity.
  - (* GreedyBytes *) cbn [parse]. intros E. exists v. split; [|reflexivity]. unfold field_of. unfold iread_all in E. cbn. exact E.
  - (* Flag *) cbn [parse]. intros E. destruct (iread s 1 (p ++ [n])) as [[d s1]|e q] eqn:Er; [|discriminate].
    cbn [bind] in E. injection E as <- <-. destruct (iread_one _ _ _ _ Er) as (b & ->).
    exists (VBool (negb (bytes_eqb [b] [x00]))). split; [|reflexivity].
    unfold field_of.
    cbn [ifield ione with_id with_ty with_flag blank f_cond f_rep f_contents f_size f_eos f_term f_ty f_enc f_pad f_flag f_enum bind negb read_prim].
    change (Z.of_N 1) with 1%Z. rewrite (iread_path _ _ _ [] _ Er). cbn [bind rev]. rewrite <- flag_byte. reflexivity.
  - (* Array of Format *) cbn in Hm. destruct count; try discriminate. destruct v0; try discriminate. destruct m; try discriminate.
    cbn [parse]. intros E.
    assert (En : eval_int cx (XConst (VInt z)) = Ok z) by (unfold eval_int, eval; cbn; destruct (c_scopes cx); reflexivity).
    rewrite En in E. cbn [bind] in E. destruct (z <? 0)%Z eqn:Ez; [discriminate|].
    unfold count_loop in E. rewrite iter_N_miter in E.
    destruct (miter _ _ _) as [[[i acc] s1]|e q] eqn:Em; [cbn [bind] in E|discriminate]. injection E as <- <-.
    assert (Em' : miter (count_step (parse (CFormat en f0)) cx []) (N.to_nat (Z.to_N z)) (0%Z, [], s) = Ok (i, acc, s1)).
    { revert Em. generalize (N.to_nat (Z.to_N z)) (0%Z) (@nil val) s. induction n0 as [|k IH]; intros i0 a0 s0; cbn [miter]; [auto|].
      unfold count_step at 1 3. cbn [parse].
      destruct (parse_format en f0 (p ++ [n]) s0) as [[v1 s2]|e q] eqn:E1; [|discriminate]. rewrite (parse_format_path _ _ _ [] _ _ E1).
      cbn [bind]. apply IH. }
    apply miter_rep in Em'. destruct Em' as (vs & s2 & Heq & Hrep). injection Heq as -> -> ->.
    exists (VList vs). rewrite app_nil_r, rev_involutive. split; [|reflexivity].
    unfold field_of.
    cbn [ifield ione with_id with_ty with_rep blank f_cond f_rep f_contents f_size f_eos f_term f_ty f_enc f_pad f_flag f_enum bind negb ksize_val].
    replace (Z.to_nat z) with (N.to_nat (Z.to_N z)) by lia.
    assert (Heta : forall k s0,
      (fix rep (k : nat) (s0 : istream) {struct k} : res (list val * istream) :=
         match k with
         | 0 => Ok ([], s0)
         | S k' => let* (v, s1) := (let* (v, s1) := read_prim (prim_of en f0) s0 [] in Ok (v, s1)) in
                   let* (r, s3) := rep k' s1 in Ok (v :: r, s3)
         end) k s0 =
      (fix rep (k : nat) (s : istream) {struct k} : res (list val * istream) :=
         match k with
         | 0 => Ok ([], s)
         | S k' => let* (v, s1) := read_prim (prim_of en f0) s [] in let* (r, s2) := rep k' s1 in Ok (v :: r, s2)
         end) k s0).
    { induction k as [|k IHk]; intros s0; [reflexivity|].
      destruct (read_prim (prim_of en f0) s0 []) as [[v1 s3]|e q]; [cbn [bind]|reflexivity]. rewrite IHk. reflexivity. }
    rewrite Heta, Hrep. cbn [bind].
    assert (Hmap : forall l, (fix m (l : list val) : res (list val) :=
               match l with
               | [] => Ok []
               | x :: r => let* x' := apply_enum sch None x in let* r' := m r in Ok (x' :: r')
               end) l = Ok l).
    { induction l as [|x r IHl]; [reflexivity|]. cbn [apply_enum bind] in IHl |- *. rewrite IHl. reflexivity. }
    rewrite Hmap. reflexivity.
  - (* Const bytes *) cbn in Hm. destruct v0; try discriminate. destruct m; try discriminate. destruct len; try discriminate.
    destruct v0; try discriminate. apply Z.eqb_eq in Hm. cbn [parse]. intros E.
    assert (En : eval_int cx (XConst (VInt z)) = Ok z) by (unfold eval_int, eval; cbn; destruct (c_scopes cx); reflexivity).
    rewrite En in E. cbn [bind] in E. destruct (iread s z (p ++ [n])) as [[d s1]|e q] eqn:Er; [|discriminate].
    cbn [bind] in E. destruct (val_eqb (VBytes d) (VBytes b)) eqn:Ev; [|discriminate]. injection E as <- <-.
    apply val_eqb_bytes_true in Ev. subst d.
    exists (VBytes b). split; [|exact I].
    unfold field_of.
    cbn [ifield ione with_id with_contents blank f_cond f_rep f_contents f_size f_eos f_term f_ty f_enc f_pad f_flag f_enum bind negb].
    rewrite Hm. rewrite (iread_path _ _ _ [] _ Er). cbn [bind]. rewrite bytes_eqb_refl'. reflexivity.
Qed.

(* ---- whole sequences ---- *)
Definition expected_field (c : con) : kfield := match c with CRenamed n m => field_of n m | _ => blank end.

Inductive recs_rel : list con -> list fieldrec -> list fieldrec -> Prop :=
| rr_nil : recs_rel [] [] []
| rr_cons n m t a b kv v kt lt :
    vrel m kv v -> recs_rel t kt lt ->
    recs_rel (CRenamed n m :: t) ((Some n, a, b, kv) :: kt) ((Some n, a, b, v) :: lt).

Lemma f_id_field_of n m : f_id (field_of n m) = Some n.
Proof.
  unfold field_of. destruct m; try reflexivity.
  - destruct len; try reflexivity. destruct v; reflexivity.
  - destruct count; try reflexivity. destruct v; try reflexivity. destruct m; reflexivity.
  - destruct v; reflexivity.
Qed.

Lemma iseq_flat sch cs : Forall named_flat cs -> forall cx cx' p s recs s' f,
  layout_loop parse cs cx p s = Ok (recs, s') ->
  exists krecs, iseq (S (S (S f))) sch (map expected_field cs) cx' [] s = Ok (krecs, s') /\ recs_rel cs krecs recs.
Proof.
  intros H. induction H as [|c t (n & m & -> & Hm) Ht IH]; intros cx cx' p s recs s' f.
  - cbn. intros E. injection E as <- <-. exists []. split; [reflexivity|constructor].
  - cbn [layout_loop map expected_field]. intros E.
    destruct (parse (CRenamed n m) cx p s) as [[v s1]|e q] eqn:Ep; [cbn [bind] in E|discriminate].
    destruct (layout_loop parse t _ p s1) as [[rest s2]|e q] eqn:El; [cbn [bind] in E|discriminate]. injection E as <- <-.
    destruct (ifield_flat sch n m Hm cx cx' p s v s1 f Ep) as (kv & Ek & Hv).
    cbn [name_of] in El.
    destruct (IH _ (match f_id (field_of n m) with Some n0 => ctx_set cx' n0 kv | None => cx' end) _ _ _ _ f El) as (krest & Ekr & Hr).
    exists ((Some n, itell s, itell s1, kv) :: krest). split; [|constructor; assumption].
    cbn [iseq] in Ekr |- *. rewrite Ek. cbn [bind]. rewrite Ekr. cbn [bind]. rewrite f_id_field_of. reflexivity.
Qed.

(* C19 for flat structs: the emitted schema lists the members in order and reads every parsable input to the same extents
   and values *)
Theorem ksy_describes_flat_struct cs data recs : Forall named_flat cs ->
  ksy_layout (CStruct cs) [] data = Ok recs ->
  exists sch krecs, ksy_emit (CStruct cs) = Some sch /\ ksy_interp sch [] data = Ok krecs /\ recs_rel cs krecs recs.
Proof.
  intros H E. unfold ksy_layout in E.
  destruct (layout_loop parse cs _ [] (istream_of data)) as [[recs0 s']|e q] eqn:El; [cbn [bind] in E|discriminate]. injection E as <-.
  eexists. destruct (iseq_flat (KSchema (map expected_field cs) [] []) cs H _ (push_scope (top_ctx [] MParse)) _ _ _ _ (61 + length data) El) as (krecs & Ek & Hr).
  exists krecs. split; [apply ksy_emit_flat, H|]. split; [|exact Hr].
  unfold ksy_interp. change (64 + length data) with (S (S (S (61 + length data)))). 
  unfold expected_field in Ek. rewrite Ek. reflexivity.
Qed.

(* non-vacuity: a struct with every flat kind; its schema; one input read both ways *)
Definition ex_flat : con :=
  CStruct [CRenamed [x61] (CFormat Little FH); CRenamed [x62] (CFormat Big Fd); CRenamed [x63] (CBytes (XConst (VInt 2)));
           CRenamed [x64] CFlag; CRenamed [x65] CVarInt; CRenamed [x66] (CConst (VBytes [x4d; x5a]) (CBytes (XConst (VInt 2))));
           CRenamed [x67] (CArray (XConst (VInt 2)) (CFormat Big Fh)); CRenamed [x68] CGreedyBytes].

Lemma ex_flat_members : Forall named_flat [CRenamed [x61] (CFormat Little FH); CRenamed [x62] (CFormat Big Fd); CRenamed [x63] (CBytes (XConst (VInt 2)));
           CRenamed [x64] CFlag; CRenamed [x65] CVarInt; CRenamed [x66] (CConst (VBytes [x4d; x5a]) (CBytes (XConst (VInt 2))));
           CRenamed [x67] (CArray (XConst (VInt 2)) (CFormat Big Fh)); CRenamed [x68] CGreedyBytes].
Proof. repeat constructor; eexists _, _; split; reflexivity. Qed.

Example ex_flat_runs :
  let data := [x01; x02; x3f; xf8; x00; x00; x00; x00; x00; x00; x41; x42; x05; x81; x01; x4d; x5a; xff; xfe; x00; x03; x09] in
  exists sch, ksy_emit ex_flat = Some sch /\
    map (fun r => fst (fst r)) match ksy_interp sch [] data with Ok r => r | Err _ _ => [] end =
    map (fun r => fst (fst r)) match ksy_layout ex_flat [] data with Ok r => r | Err _ _ => [] end /\
    length match ksy_layout ex_flat [] data with Ok r => r | Err _ _ => [] end = 8.
Proof. eexists. split; [vm_compute; reflexivity|]. split; vm_compute; reflexivity. Qed.
