(* reads "<id> <request s-expression>" lines, prints "<id> <response s-expression>" lines *)
open Base
exception Budget
let budget = try float_of_string (Sys.getenv "VERIF_MODEL_BUDGET") with Not_found -> 2.0
let with_budget f =
  ignore (Unix.setitimer Unix.ITIMER_REAL {Unix.it_interval = 0.0; Unix.it_value = budget});
  match f () with
  | r -> ignore (Unix.setitimer Unix.ITIMER_REAL {Unix.it_interval = 0.0; Unix.it_value = 0.0}); r
  | exception e -> ignore (Unix.setitimer Unix.ITIMER_REAL {Unix.it_interval = 0.0; Unix.it_value = 0.0}); raise e
let () =
  Sys.set_signal Sys.sigalrm (Sys.Signal_handle (fun _ -> raise Budget));
  let out = Buffer.create 65536 in
  (try
    while true do
      let line = input_line stdin in
      if String.length line > 0 then begin
        let sp = String.index line ' ' in
        let id = String.sub line 0 sp in
        Buffer.add_string out id; Buffer.add_char out ' ';
        (try
          let (sx, _) = parse_sexp line (sp + 1) in
          let req = Conv.request_of_sexp sx in
          let resp = with_budget (fun () -> Model.run req) in
          show_buf out (Conv.sexp_of_response resp)
        with
        | Stack_overflow -> Buffer.add_string out "(Crash stack_overflow)"
        | Budget -> Buffer.add_string out "(Crash budget)"
        | Failure m -> Buffer.add_string out ("(Crash " ^ String.map (fun c -> if c = ' ' || c = '(' || c = ')' then '_' else c) m ^ ")")
        | Out_of_memory -> Buffer.add_string out "(Crash out_of_memory)");
        Buffer.add_char out '\n';
        if Buffer.length out > 60000 then (print_string (Buffer.contents out); Buffer.clear out)
      end
    done
  with End_of_file -> ());
  print_string (Buffer.contents out)
