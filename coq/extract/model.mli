
val xorb : bool -> bool -> bool

val negb : bool -> bool

type nat =
| O
| S of nat

val option_map : ('a1 -> 'a2) -> 'a1 option -> 'a2 option

val fst : ('a1 * 'a2) -> 'a1

val snd : ('a1 * 'a2) -> 'a2

val length : 'a1 list -> nat

val app : 'a1 list -> 'a1 list -> 'a1 list

type comparison =
| Eq
| Lt
| Gt

val compOpp : comparison -> comparison

val add : nat -> nat -> nat

val sub : nat -> nat -> nat

type byte =
| X00
| X01
| X02
| X03
| X04
| X05
| X06
| X07
| X08
| X09
| X0a
| X0b
| X0c
| X0d
| X0e
| X0f
| X10
| X11
| X12
| X13
| X14
| X15
| X16
| X17
| X18
| X19
| X1a
| X1b
| X1c
| X1d
| X1e
| X1f
| X20
| X21
| X22
| X23
| X24
| X25
| X26
| X27
| X28
| X29
| X2a
| X2b
| X2c
| X2d
| X2e
| X2f
| X30
| X31
| X32
| X33
| X34
| X35
| X36
| X37
| X38
| X39
| X3a
| X3b
| X3c
| X3d
| X3e
| X3f
| X40
| X41
| X42
| X43
| X44
| X45
| X46
| X47
| X48
| X49
| X4a
| X4b
| X4c
| X4d
| X4e
| X4f
| X50
| X51
| X52
| X53
| X54
| X55
| X56
| X57
| X58
| X59
| X5a
| X5b
| X5c
| X5d
| X5e
| X5f
| X60
| X61
| X62
| X63
| X64
| X65
| X66
| X67
| X68
| X69
| X6a
| X6b
| X6c
| X6d
| X6e
| X6f
| X70
| X71
| X72
| X73
| X74
| X75
| X76
| X77
| X78
| X79
| X7a
| X7b
| X7c
| X7d
| X7e
| X7f
| X80
| X81
| X82
| X83
| X84
| X85
| X86
| X87
| X88
| X89
| X8a
| X8b
| X8c
| X8d
| X8e
| X8f
| X90
| X91
| X92
| X93
| X94
| X95
| X96
| X97
| X98
| X99
| X9a
| X9b
| X9c
| X9d
| X9e
| X9f
| Xa0
| Xa1
| Xa2
| Xa3
| Xa4
| Xa5
| Xa6
| Xa7
| Xa8
| Xa9
| Xaa
| Xab
| Xac
| Xad
| Xae
| Xaf
| Xb0
| Xb1
| Xb2
| Xb3
| Xb4
| Xb5
| Xb6
| Xb7
| Xb8
| Xb9
| Xba
| Xbb
| Xbc
| Xbd
| Xbe
| Xbf
| Xc0
| Xc1
| Xc2
| Xc3
| Xc4
| Xc5
| Xc6
| Xc7
| Xc8
| Xc9
| Xca
| Xcb
| Xcc
| Xcd
| Xce
| Xcf
| Xd0
| Xd1
| Xd2
| Xd3
| Xd4
| Xd5
| Xd6
| Xd7
| Xd8
| Xd9
| Xda
| Xdb
| Xdc
| Xdd
| Xde
| Xdf
| Xe0
| Xe1
| Xe2
| Xe3
| Xe4
| Xe5
| Xe6
| Xe7
| Xe8
| Xe9
| Xea
| Xeb
| Xec
| Xed
| Xee
| Xef
| Xf0
| Xf1
| Xf2
| Xf3
| Xf4
| Xf5
| Xf6
| Xf7
| Xf8
| Xf9
| Xfa
| Xfb
| Xfc
| Xfd
| Xfe
| Xff

val to_bits :
  byte -> bool * (bool * (bool * (bool * (bool * (bool * (bool * bool))))))

type positive =
| XI of positive
| XO of positive
| XH

type n =
| N0
| Npos of positive

type z =
| Z0
| Zpos of positive
| Zneg of positive

val eqb : bool -> bool -> bool

module Nat :
 sig
  val sub : nat -> nat -> nat

  val eqb : nat -> nat -> bool

  val leb : nat -> nat -> bool

  val divmod : nat -> nat -> nat -> nat -> nat * nat

  val div : nat -> nat -> nat

  val modulo : nat -> nat -> nat
 end

module Pos :
 sig
  type mask =
  | IsNul
  | IsPos of positive
  | IsNeg
 end

module Coq_Pos :
 sig
  val succ : positive -> positive

  val add : positive -> positive -> positive

  val add_carry : positive -> positive -> positive

  val pred_double : positive -> positive

  val pred_N : positive -> n

  type mask = Pos.mask =
  | IsNul
  | IsPos of positive
  | IsNeg

  val succ_double_mask : mask -> mask

  val double_mask : mask -> mask

  val double_pred_mask : positive -> mask

  val sub_mask : positive -> positive -> mask

  val sub_mask_carry : positive -> positive -> mask

  val mul : positive -> positive -> positive

  val iter : ('a1 -> 'a1) -> 'a1 -> positive -> 'a1

  val pow : positive -> positive -> positive

  val div2 : positive -> positive

  val div2_up : positive -> positive

  val size : positive -> positive

  val compare_cont : comparison -> positive -> positive -> comparison

  val compare : positive -> positive -> comparison

  val eqb : positive -> positive -> bool

  val coq_Nsucc_double : n -> n

  val coq_Ndouble : n -> n

  val coq_lor : positive -> positive -> positive

  val coq_land : positive -> positive -> n

  val ldiff : positive -> positive -> n

  val coq_lxor : positive -> positive -> n

  val shiftl : positive -> n -> positive

  val iter_op : ('a1 -> 'a1 -> 'a1) -> positive -> 'a1 -> 'a1

  val to_nat : positive -> nat

  val of_succ_nat : nat -> positive
 end

module N :
 sig
  val succ_double : n -> n

  val double : n -> n

  val succ_pos : n -> positive

  val add : n -> n -> n

  val sub : n -> n -> n

  val mul : n -> n -> n

  val compare : n -> n -> comparison

  val eqb : n -> n -> bool

  val leb : n -> n -> bool

  val ltb : n -> n -> bool

  val min : n -> n -> n

  val max : n -> n -> n

  val div2 : n -> n

  val even : n -> bool

  val odd : n -> bool

  val pow : n -> n -> n

  val log2 : n -> n

  val size : n -> n

  val pos_div_eucl : positive -> n -> n * n

  val div_eucl : n -> n -> n * n

  val div : n -> n -> n

  val modulo : n -> n -> n

  val coq_lor : n -> n -> n

  val coq_land : n -> n -> n

  val ldiff : n -> n -> n

  val coq_lxor : n -> n -> n

  val shiftl : n -> n -> n

  val shiftr : n -> n -> n

  val to_nat : n -> nat

  val of_nat : nat -> n
 end

module Z :
 sig
  val double : z -> z

  val succ_double : z -> z

  val pred_double : z -> z

  val pos_sub : positive -> positive -> z

  val add : z -> z -> z

  val opp : z -> z

  val sub : z -> z -> z

  val mul : z -> z -> z

  val pow_pos : z -> positive -> z

  val pow : z -> z -> z

  val compare : z -> z -> comparison

  val leb : z -> z -> bool

  val ltb : z -> z -> bool

  val eqb : z -> z -> bool

  val max : z -> z -> z

  val abs : z -> z

  val to_nat : z -> nat

  val to_N : z -> n

  val of_nat : nat -> z

  val of_N : n -> z

  val pos_div_eucl : positive -> z -> z * z

  val div_eucl : z -> z -> z * z

  val div : z -> z -> z

  val modulo : z -> z -> z

  val div2 : z -> z

  val shiftl : z -> z -> z

  val shiftr : z -> z -> z

  val coq_lor : z -> z -> z

  val coq_land : z -> z -> z

  val coq_lxor : z -> z -> z
 end

val nth : nat -> 'a1 list -> 'a1 -> 'a1

val nth_error : 'a1 list -> nat -> 'a1 option

val rev : 'a1 list -> 'a1 list

val concat : 'a1 list list -> 'a1 list

val map : ('a1 -> 'a2) -> 'a1 list -> 'a2 list

val flat_map : ('a1 -> 'a2 list) -> 'a1 list -> 'a2 list

val fold_left : ('a1 -> 'a2 -> 'a1) -> 'a2 list -> 'a1 -> 'a1

val existsb : ('a1 -> bool) -> 'a1 list -> bool

val forallb : ('a1 -> bool) -> 'a1 list -> bool

val find : ('a1 -> bool) -> 'a1 list -> 'a1 option

val firstn : nat -> 'a1 list -> 'a1 list

val skipn : nat -> 'a1 list -> 'a1 list

val seq : nat -> nat -> nat list

val repeat : 'a1 -> nat -> 'a1 list

val eqb0 : byte -> byte -> bool

val to_N0 : byte -> n

val of_N0 : n -> byte option

val byte_of_N : n -> byte

type bytes = byte list

val be_encode : nat -> n -> bytes

val be_decode : bytes -> n

val in_range : bool -> n -> z -> bool

val pattern : n -> z -> n

val unpattern : bool -> n -> n -> z

val integer2bytes : z -> nat -> bool -> bytes option

val bytes2integer : bytes -> bool -> z option

val bit_of_bool : bool -> byte

val bits_of_N : nat -> n -> bytes

val integer2bits : z -> nat -> bool -> bytes option

val bits_fold : bytes -> n

val bits2integer : bytes -> bool -> z option

val bytes2bits : bytes -> bytes

val is_bit : byte -> bool

type b2b_result =
| B2BOk of bytes
| B2BLen
| B2BKey

val chunks8 : nat -> bytes -> bytes list

val bits2bytes : bytes -> b2b_result

val swapbytes : bytes -> bytes

val swapbytesinbits : bytes -> bytes option

val bitrev8 : byte -> byte

val swapbitsinbytes : bytes -> bytes

val varint_enc_fuel : nat -> n -> bytes

val varint_encode : n -> bytes

val zigzag_enc : z -> n

val zigzag_dec : n -> z

val xor_byte : byte -> byte -> byte

val xor_cycle_aux : bytes -> bytes -> bytes -> bytes

val xor_cycle : bytes -> bytes -> bytes

val rotl8 : n -> byte -> byte

val nth_byte : bytes -> nat -> byte

val rot_group : n -> bytes -> bytes

val chunksn : nat -> nat -> bytes -> bytes list

val rotate_left : n -> nat -> bytes -> bytes option

type name = byte list

val bytes_eqb : bytes -> bytes -> bool

val name_eqb : bytes -> bytes -> bool

type val0 =
| VNone
| VBool of bool
| VInt of z
| VFloat of n
| VBytes of bytes
| VStr of n list
| VList of val0 list
| VDict of (name * val0) list
| VEnum of name * z

type err =
| EStream
| EFormatField
| EInteger
| EString
| EMapping
| ERange
| ERepeat
| EConst
| EIndexField
| ECheck
| EExplicit
| EUnion
| ESelect
| ESwitch
| EStopField
| EPadding
| ETerminated
| ERawCopy
| ERotation
| EChecksum
| ESizeof
| EValidation
| EAdaptation
| ECancel
| EConstruct
| EKey
| EType
| EAttr
| EValue
| EIndexErr
| EZeroDiv
| EOverflow
| EForeign
| EDiverge
| EUnsupported

val is_construct_error : err -> bool

val err_eqb : err -> err -> bool

type path = name list

type 'a res =
| Ok of 'a
| Err of err * path option

val bind : 'a1 res -> ('a1 -> 'a2 res) -> 'a2 res

val raise : err -> path -> 'a1 res

val unsupported : 'a1 res

val list_eqb : ('a1 -> 'a1 -> bool) -> 'a1 list -> 'a1 list -> bool

val lookup : name -> (name * val0) list -> val0 option

val dict_set : name -> val0 -> (name * val0) list -> (name * val0) list

val dict_update :
  (name * val0) list -> (name * val0) list -> (name * val0) list

val is_private : name -> bool

val f64_is_nan : n -> bool

val f64_is_zero : n -> bool

val f64_eqb : n -> n -> bool

val int_of_val : val0 -> z option

val val_eqb : val0 -> val0 -> bool

val truthy : val0 -> bool

val is_int : val0 -> bool

type binop =
| OAdd
| OSub
| OMul
| OTrueDiv
| OFloorDiv
| OMod
| OPow
| OXor
| OLshift
| ORshift
| OAnd
| OOr
| OGt
| OGe
| OLt
| OLe
| OEq
| ONe
| OContains

type unop =
| UNeg
| UPos
| UNot

type func =
| FLen
| FSum
| FMin
| FMax
| FAbs

type rootname =
| RThis
| RObj

type key =
| KName of name
| KIdx of z

type expr =
| XRoot of rootname
| XList
| XItem of expr * key
| XConst of val0
| XBin of binop * expr * expr
| XUn of unop * expr
| XFunc of func * expr

type mode =
| MParse
| MBuild
| MSize

type scope = { s_vals : (name * val0) list; s_index : val0 option }

type ctx = { c_scopes : scope list; c_top : (name * val0) list;
             c_topindex : z option; c_mode : mode; c_opaque : bool }

val top_ctx : (name * val0) list -> mode -> ctx

val push_scope : ctx -> ctx

val ctx_set : ctx -> name -> val0 -> ctx

val ctx_update : ctx -> (name * val0) list -> ctx

val ctx_set_index : ctx -> z -> ctx

val ctx_vals : ctx -> (name * val0) list

type cursor =
| CurScope of nat
| CurTop
| CurVal of val0

val n_parsing : name

val n_building : name

val n_sizing : name

val n_params : name

val n_root : name

val n_index : name

val n_up : name

val n_subcons : name

val n_io : name

val mode_flag : mode -> name -> bool option

val key_error : 'a1 res

val type_error : 'a1 res

val item_scope : ctx -> nat -> name -> cursor res

val item_top : ctx -> name -> cursor res

val item_val : val0 -> key -> cursor res

val item : ctx -> cursor -> key -> cursor res

val zpow : z -> z -> z

val list_leb :
  ('a1 -> 'a1 -> bool) -> ('a1 -> 'a1 -> bool) -> 'a1 list -> 'a1 list ->
  bool -> bool

val byte_ltb : byte -> byte -> bool

val cmp_op : binop -> bool -> bool -> bool

val repeat_list : nat -> 'a1 list -> 'a1 list

val big_bound : z

val apply_bin : binop -> val0 -> val0 -> val0 res

val apply_un : unop -> val0 -> val0 res

val sum_ints : val0 list -> val0 res

val apply_func : func -> val0 -> val0 res

val cur_val : cursor -> val0 res

val eval_cur : ctx -> cursor -> val0 option -> expr -> cursor res

val eval : ctx -> expr -> val0 res

val eval_obj : ctx -> val0 -> val0 option -> expr -> val0 res

type encoding =
| EncAscii
| EncUtf8
| EncUtf16
| EncUtf16le
| EncUtf16be
| EncUtf32
| EncUtf32le
| EncUtf32be

val is_surrogate : n -> bool

val valid_cp : n -> bool

val bN : byte -> n

val ascii_decode : bytes -> n list option

val ascii_encode : n list -> bytes option

val utf8_enc1 : n -> bytes option

val opt_concat : 'a1 list option list -> 'a1 list option

val utf8_encode : n list -> bytes option

val is_cont : byte -> bool

val utf8_decode_fuel : nat -> bytes -> n list option

val utf8_decode : bytes -> n list option

val u16_bytes : bool -> n -> bytes

val utf16_enc1 : bool -> n -> bytes option

val utf16_encode_raw : bool -> n list -> bytes option

val units16 : bool -> bytes -> n list option

val utf16_units_decode : n list -> n list option

val utf16_decode_raw : bool -> bytes -> n list option

val u32_bytes : bool -> n -> bytes

val utf32_encode_raw : bool -> n list -> bytes option

val utf32_decode_raw : bool -> bytes -> n list option

val decode : encoding -> bytes -> n list option

val encode : encoding -> n list -> bytes option

type fmt = { ebits : n; mbits : n }

val binary16 : fmt

val binary32 : fmt

val binary64 : fmt

val bias : fmt -> z

val emax_field : fmt -> n

val f_sign : fmt -> n -> n

val f_exp : fmt -> n -> n

val f_mant : fmt -> n -> n

val f_pack : fmt -> n -> n -> n -> n

val is_nan : fmt -> n -> bool

val is_inf : fmt -> n -> bool

val quiet_nan : fmt -> n -> n

val f_sig_ex : fmt -> n -> n * z

val rne_shift : n -> z -> n

val f_round : fmt -> n -> n -> z -> n option

val widen : fmt -> n -> n

val narrow : fmt -> n -> n option

val f64_of_Z : z -> n option

type istream = { idata : bytes; ipos : n; ibase : n; iseekable : bool }

val nlen : 'a1 list -> n

val istream_of : bytes -> istream

val substream : bytes -> n -> istream

val iset_pos : istream -> n -> istream

val itell : istream -> z

val iabs : istream -> n

val iavail : istream -> bytes

val iread : istream -> z -> path -> (bytes * istream) res

val iread_all : istream -> bytes * istream

val iseek : istream -> z -> z -> path -> (z * istream) res

type ostream = { odata : bytes; opos : n; oseekable : bool }

val ostream_new : ostream

val otell : ostream -> z

val zeros : nat -> bytes

val alloc_bound : z

val owrite_raw : ostream -> bytes -> ostream res

val owrite : ostream -> bytes -> z -> path -> ostream res

val oseek : ostream -> z -> z -> path -> (z * ostream) res

val oread : ostream -> z -> path -> (bytes * ostream) res

type endian =
| Big
| Little

type fcode =
| FB
| FH
| FL
| FQ
| Fb
| Fh
| Fl
| Fq
| Fe
| Ff
| Fd

type bfun =
| BFbytes2bits
| BFbits2bytes
| BFswapbytes
| BFswapbitsinbytes

type sizefun =
| SFdiv8
| SFmul8
| SFid
| SFnone

type hashfun =
| HSum8
| HXor8
| HLen

type unionsel =
| USNone
| USIndex of z
| USName of name

type con =
| CFormat of endian * fcode
| CBytesInt of expr * bool * bool
| CBitsInt of expr * bool * bool
| CVarInt
| CZigZag
| CBytes of expr
| CGreedyBytes
| CFlag
| CPass
| CTerminated
| CError
| CTell
| CIndex
| CComputed of expr
| CCheck of expr
| CStopIf of expr
| CSeek of expr * expr
| CStringEncoded of con * encoding
| CEnum of con * (name * z) list
| CFlagsEnum of con * (name * z) list
| CMapping of con * (val0 * val0) list
| CHex of con
| CHexDump of con
| CExprValidator of con * expr
| COneOf of con * val0 list
| CNoneOf of con * val0 list
| CExprAdapter of con * expr * expr
| CStruct of con list
| CSequence of con list
| CFocusedSeq of name * con list
| CUnion of unionsel * con list
| CSelect of con list
| CIfThenElse of expr * con * con
| CSwitch of expr * (val0 * con) list * con
| CArray of expr * con
| CGreedyRange of con
| CRepeatUntil of expr * con
| CRenamed of name * con
| CConst of val0 * con
| CRebuild of con * expr
| CDefault of con * expr
| CPadded of expr * con * byte
| CAligned of expr * con * byte
| CPointer of expr * con
| CPeek of con
| COffsettedEnd of expr * con
| CRawCopy of con
| CPrefixed of con * con * bool
| CFixedSized of expr * con
| CNullTerminated of con * bytes * bool * bool * bool
| CNullStripped of con * bytes
| CTransformed of con * bfun * z option * bfun * z option
| CRestreamed of con * bfun * z * bfun * z * sizefun
| CProcessXor of expr * con
| CProcessRotl of expr * expr * con
| CChecksum of con * hashfun * expr
| CLazy of con
| CLazyStruct of con list
| CLazyArray of expr * con

val name_of : con -> name option

val buildnone : con -> bool

val fcode_size : fcode -> nat

val fcode_signed : fcode -> bool

val fcode_float : fcode -> bool

val apply_bfun : bfun -> bytes -> bytes res

val apply_sizefun : sizefun -> z -> z

val apply_hash : hashfun -> bytes -> val0

val eval_int : ctx -> expr -> z res

val catch_key : 'a1 res -> path -> 'a1 res

val sum_sizes :
  (con -> ctx -> path -> z res) -> ctx -> path -> con list -> z res

val find_case : val0 -> (val0 * 'a1) list -> 'a1 option

val hashable : val0 -> bool

val sizeof : con -> ctx -> path -> z res

type parser0 = ctx -> path -> istream -> (val0 * istream) res

val vint_of : val0 -> z res

val fmt_of : fcode -> fmt

val parse_format : endian -> fcode -> path -> istream -> (val0 * istream) res

val varint_loop : nat -> istream -> path -> (n * istream) res

val parse_varint : istream -> path -> (n * istream) res

val is_stopif : con -> bool

val struct_loop :
  (con -> parser0) -> con list -> ctx -> path -> (name * val0) list ->
  istream -> (((name * val0) list * ctx) * istream) res

val seq_loop :
  (con -> parser0) -> con list -> ctx -> path -> istream -> (val0
  list * istream) res

val focus_loop :
  (con -> parser0) -> name -> con list -> ctx -> path -> val0 option ->
  istream -> (val0 option * istream) res

val iter_pos : ('a1 -> 'a1 res) -> positive -> 'a1 -> 'a1 res

val iter_N : ('a1 -> 'a1 res) -> n -> 'a1 -> 'a1 res

val count_step :
  parser0 -> ctx -> path -> ((z * val0 list) * istream) -> ((z * val0
  list) * istream) res

val count_loop :
  parser0 -> n -> ctx -> path -> istream -> (val0 list * istream) res

val swallowed : err -> bool

val iseek_back : istream -> path -> (z * istream) res

val greedy_loop :
  parser0 -> nat -> z -> ctx -> path -> istream -> (val0 list * istream) res

val until_loop :
  parser0 -> expr -> nat -> z -> val0 list -> ctx -> path -> istream -> (val0
  list * istream) res

val select_loop :
  (con -> parser0) -> con list -> ctx -> path -> istream -> (val0 * istream)
  res

val union_loop :
  (con -> parser0) -> con list -> z -> ctx -> path -> (name * val0) list ->
  ((z * name option) * z) list -> istream -> ((((name * val0)
  list * ctx) * ((z * name option) * z) list) * istream) res

val nullterm_scan :
  nat -> bytes -> bool -> bool -> bool -> bytes -> istream -> path ->
  (bytes * istream) res

val strip_units : nat -> bytes -> bytes -> bytes

val null_strip : bytes -> bytes -> bytes

val last_label : z -> (name * z) list -> name option -> name option

val n_flagsenum : name

val mapping_decode : val0 -> (val0 * val0) list -> val0 option -> val0 option

val xor_data : val0 -> bytes -> path -> bytes res

val decode_units : bfun -> bytes list -> bytes list option

val units_needed : nat -> bytes list -> nat * nat

val oneof_mem : val0 -> val0 list -> bool res

val parse : con -> ctx -> path -> istream -> (val0 * istream) res

val parse_at : con -> (name * val0) list -> bytes -> n -> (val0 * z) res

type builder = val0 -> ctx -> path -> ostream -> (val0 * ostream) res

val write_val : ostream -> val0 -> z -> path -> ostream res

val build_format :
  endian -> fcode -> val0 -> path -> ostream -> (val0 * ostream) res

val struct_bloop :
  (con -> builder) -> (name * val0) list -> con list -> ctx -> path ->
  ostream -> (ctx * ostream) res

val seq_bloop :
  (con -> builder) -> con list -> val0 list -> ctx -> path -> ostream ->
  (val0 list * ostream) res

val focus_bloop :
  (con -> builder) -> name -> val0 -> con list -> ctx -> path -> val0 option
  -> ostream -> (val0 option * ostream) res

val count_bloop :
  builder -> val0 list -> z -> ctx -> path -> ostream -> (val0
  list * ostream) res

val until_bloop :
  builder -> expr -> val0 list -> z -> val0 list -> ctx -> path -> ostream ->
  (val0 list * ostream) res

val reenter_ctx : ctx -> ctx

val select_bloop :
  (con -> builder) -> val0 -> con list -> ctx -> path -> ostream ->
  (val0 * ostream) res

val cp_is_space : n -> bool

val lstrip : n list -> n list

val strip : n list -> n list

val split_bar : n list -> n list -> n list list

val label_value : (name * z) list -> n list -> z option

val cps_of_name : name -> n list

val flags_encode : (name * z) list -> val0 -> path -> val0 res

val n_data : name

val n_value : name

val n_offset1 : name

val n_offset2 : name

val n_length : name

val build : con -> val0 -> ctx -> path -> ostream -> (val0 * ostream) res

val build_bytes : con -> val0 -> (name * val0) list -> (val0 * bytes) res

type request =
| RParse of con * (name * val0) list * bytes * n
| RBuild of con * val0 * (name * val0) list
| RSizeof of con * (name * val0) list
| REval of expr * (name * val0) list

type response =
| ROkParse of val0 * z
| ROkBuild of val0 * bytes
| ROkSize of z
| ROkVal of val0
| RErr of err * path option

val run : request -> response
