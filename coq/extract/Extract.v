From Coq Require Import Extraction ExtrOcamlBasic.
From Coq Require Import ZArith NArith List.
From Coq Require Import Strings.Byte.
Require Import Run.
Extraction Language OCaml.
Extraction "model.ml" run Byte.of_N Byte.to_N Z.of_N Z.to_N N.of_nat N.to_nat Z.add Z.mul Z.opp Z.div_eucl N.add N.mul N.div_eucl Z.ltb N.eqb.
