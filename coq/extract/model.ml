
(** val xorb : bool -> bool -> bool **)

let xorb b1 b2 =
  if b1 then if b2 then false else true else b2

(** val negb : bool -> bool **)

let negb = function
| true -> false
| false -> true

type nat =
| O
| S of nat

(** val option_map : ('a1 -> 'a2) -> 'a1 option -> 'a2 option **)

let option_map f = function
| Some a -> Some (f a)
| None -> None

(** val fst : ('a1 * 'a2) -> 'a1 **)

let fst = function
| (x, _) -> x

(** val snd : ('a1 * 'a2) -> 'a2 **)

let snd = function
| (_, y) -> y

(** val length : 'a1 list -> nat **)

let rec length = function
| [] -> O
| _ :: l' -> S (length l')

(** val app : 'a1 list -> 'a1 list -> 'a1 list **)

let rec app l m =
  match l with
  | [] -> m
  | a :: l1 -> a :: (app l1 m)

type comparison =
| Eq
| Lt
| Gt

(** val compOpp : comparison -> comparison **)

let compOpp = function
| Eq -> Eq
| Lt -> Gt
| Gt -> Lt

module Coq__1 = struct
 (** val add : nat -> nat -> nat **)
 let rec add n0 m =
   match n0 with
   | O -> m
   | S p -> S (add p m)
end
include Coq__1

(** val sub : nat -> nat -> nat **)

let rec sub n0 m =
  match n0 with
  | O -> n0
  | S k -> (match m with
            | O -> n0
            | S l -> sub k l)

type byte =
| X00
| X01
| X02
| X03
| X04
| X05
| X06
| X07
| X08
| X09
| X0a
| X0b
| X0c
| X0d
| X0e
| X0f
| X10
| X11
| X12
| X13
| X14
| X15
| X16
| X17
| X18
| X19
| X1a
| X1b
| X1c
| X1d
| X1e
| X1f
| X20
| X21
| X22
| X23
| X24
| X25
| X26
| X27
| X28
| X29
| X2a
| X2b
| X2c
| X2d
| X2e
| X2f
| X30
| X31
| X32
| X33
| X34
| X35
| X36
| X37
| X38
| X39
| X3a
| X3b
| X3c
| X3d
| X3e
| X3f
| X40
| X41
| X42
| X43
| X44
| X45
| X46
| X47
| X48
| X49
| X4a
| X4b
| X4c
| X4d
| X4e
| X4f
| X50
| X51
| X52
| X53
| X54
| X55
| X56
| X57
| X58
| X59
| X5a
| X5b
| X5c
| X5d
| X5e
| X5f
| X60
| X61
| X62
| X63
| X64
| X65
| X66
| X67
| X68
| X69
| X6a
| X6b
| X6c
| X6d
| X6e
| X6f
| X70
| X71
| X72
| X73
| X74
| X75
| X76
| X77
| X78
| X79
| X7a
| X7b
| X7c
| X7d
| X7e
| X7f
| X80
| X81
| X82
| X83
| X84
| X85
| X86
| X87
| X88
| X89
| X8a
| X8b
| X8c
| X8d
| X8e
| X8f
| X90
| X91
| X92
| X93
| X94
| X95
| X96
| X97
| X98
| X99
| X9a
| X9b
| X9c
| X9d
| X9e
| X9f
| Xa0
| Xa1
| Xa2
| Xa3
| Xa4
| Xa5
| Xa6
| Xa7
| Xa8
| Xa9
| Xaa
| Xab
| Xac
| Xad
| Xae
| Xaf
| Xb0
| Xb1
| Xb2
| Xb3
| Xb4
| Xb5
| Xb6
| Xb7
| Xb8
| Xb9
| Xba
| Xbb
| Xbc
| Xbd
| Xbe
| Xbf
| Xc0
| Xc1
| Xc2
| Xc3
| Xc4
| Xc5
| Xc6
| Xc7
| Xc8
| Xc9
| Xca
| Xcb
| Xcc
| Xcd
| Xce
| Xcf
| Xd0
| Xd1
| Xd2
| Xd3
| Xd4
| Xd5
| Xd6
| Xd7
| Xd8
| Xd9
| Xda
| Xdb
| Xdc
| Xdd
| Xde
| Xdf
| Xe0
| Xe1
| Xe2
| Xe3
| Xe4
| Xe5
| Xe6
| Xe7
| Xe8
| Xe9
| Xea
| Xeb
| Xec
| Xed
| Xee
| Xef
| Xf0
| Xf1
| Xf2
| Xf3
| Xf4
| Xf5
| Xf6
| Xf7
| Xf8
| Xf9
| Xfa
| Xfb
| Xfc
| Xfd
| Xfe
| Xff

(** val to_bits :
    byte -> bool * (bool * (bool * (bool * (bool * (bool * (bool * bool)))))) **)

let to_bits = function
| X00 -> (false, (false, (false, (false, (false, (false, (false, false)))))))
| X01 -> (true, (false, (false, (false, (false, (false, (false, false)))))))
| X02 -> (false, (true, (false, (false, (false, (false, (false, false)))))))
| X03 -> (true, (true, (false, (false, (false, (false, (false, false)))))))
| X04 -> (false, (false, (true, (false, (false, (false, (false, false)))))))
| X05 -> (true, (false, (true, (false, (false, (false, (false, false)))))))
| X06 -> (false, (true, (true, (false, (false, (false, (false, false)))))))
| X07 -> (true, (true, (true, (false, (false, (false, (false, false)))))))
| X08 -> (false, (false, (false, (true, (false, (false, (false, false)))))))
| X09 -> (true, (false, (false, (true, (false, (false, (false, false)))))))
| X0a -> (false, (true, (false, (true, (false, (false, (false, false)))))))
| X0b -> (true, (true, (false, (true, (false, (false, (false, false)))))))
| X0c -> (false, (false, (true, (true, (false, (false, (false, false)))))))
| X0d -> (true, (false, (true, (true, (false, (false, (false, false)))))))
| X0e -> (false, (true, (true, (true, (false, (false, (false, false)))))))
| X0f -> (true, (true, (true, (true, (false, (false, (false, false)))))))
| X10 -> (false, (false, (false, (false, (true, (false, (false, false)))))))
| X11 -> (true, (false, (false, (false, (true, (false, (false, false)))))))
| X12 -> (false, (true, (false, (false, (true, (false, (false, false)))))))
| X13 -> (true, (true, (false, (false, (true, (false, (false, false)))))))
| X14 -> (false, (false, (true, (false, (true, (false, (false, false)))))))
| X15 -> (true, (false, (true, (false, (true, (false, (false, false)))))))
| X16 -> (false, (true, (true, (false, (true, (false, (false, false)))))))
| X17 -> (true, (true, (true, (false, (true, (false, (false, false)))))))
| X18 -> (false, (false, (false, (true, (true, (false, (false, false)))))))
| X19 -> (true, (false, (false, (true, (true, (false, (false, false)))))))
| X1a -> (false, (true, (false, (true, (true, (false, (false, false)))))))
| X1b -> (true, (true, (false, (true, (true, (false, (false, false)))))))
| X1c -> (false, (false, (true, (true, (true, (false, (false, false)))))))
| X1d -> (true, (false, (true, (true, (true, (false, (false, false)))))))
| X1e -> (false, (true, (true, (true, (true, (false, (false, false)))))))
| X1f -> (true, (true, (true, (true, (true, (false, (false, false)))))))
| X20 -> (false, (false, (false, (false, (false, (true, (false, false)))))))
| X21 -> (true, (false, (false, (false, (false, (true, (false, false)))))))
| X22 -> (false, (true, (false, (false, (false, (true, (false, false)))))))
| X23 -> (true, (true, (false, (false, (false, (true, (false, false)))))))
| X24 -> (false, (false, (true, (false, (false, (true, (false, false)))))))
| X25 -> (true, (false, (true, (false, (false, (true, (false, false)))))))
| X26 -> (false, (true, (true, (false, (false, (true, (false, false)))))))
| X27 -> (true, (true, (true, (false, (false, (true, (false, false)))))))
| X28 -> (false, (false, (false, (true, (false, (true, (false, false)))))))
| X29 -> (true, (false, (false, (true, (false, (true, (false, false)))))))
| X2a -> (false, (true, (false, (true, (false, (true, (false, false)))))))
| X2b -> (true, (true, (false, (true, (false, (true, (false, false)))))))
| X2c -> (false, (false, (true, (true, (false, (true, (false, false)))))))
| X2d -> (true, (false, (true, (true, (false, (true, (false, false)))))))
| X2e -> (false, (true, (true, (true, (false, (true, (false, false)))))))
| X2f -> (true, (true, (true, (true, (false, (true, (false, false)))))))
| X30 -> (false, (false, (false, (false, (true, (true, (false, false)))))))
| X31 -> (true, (false, (false, (false, (true, (true, (false, false)))))))
| X32 -> (false, (true, (false, (false, (true, (true, (false, false)))))))
| X33 -> (true, (true, (false, (false, (true, (true, (false, false)))))))
| X34 -> (false, (false, (true, (false, (true, (true, (false, false)))))))
| X35 -> (true, (false, (true, (false, (true, (true, (false, false)))))))
| X36 -> (false, (true, (true, (false, (true, (true, (false, false)))))))
| X37 -> (true, (true, (true, (false, (true, (true, (false, false)))))))
| X38 -> (false, (false, (false, (true, (true, (true, (false, false)))))))
| X39 -> (true, (false, (false, (true, (true, (true, (false, false)))))))
| X3a -> (false, (true, (false, (true, (true, (true, (false, false)))))))
| X3b -> (true, (true, (false, (true, (true, (true, (false, false)))))))
| X3c -> (false, (false, (true, (true, (true, (true, (false, false)))))))
| X3d -> (true, (false, (true, (true, (true, (true, (false, false)))))))
| X3e -> (false, (true, (true, (true, (true, (true, (false, false)))))))
| X3f -> (true, (true, (true, (true, (true, (true, (false, false)))))))
| X40 -> (false, (false, (false, (false, (false, (false, (true, false)))))))
| X41 -> (true, (false, (false, (false, (false, (false, (true, false)))))))
| X42 -> (false, (true, (false, (false, (false, (false, (true, false)))))))
| X43 -> (true, (true, (false, (false, (false, (false, (true, false)))))))
| X44 -> (false, (false, (true, (false, (false, (false, (true, false)))))))
| X45 -> (true, (false, (true, (false, (false, (false, (true, false)))))))
| X46 -> (false, (true, (true, (false, (false, (false, (true, false)))))))
| X47 -> (true, (true, (true, (false, (false, (false, (true, false)))))))
| X48 -> (false, (false, (false, (true, (false, (false, (true, false)))))))
| X49 -> (true, (false, (false, (true, (false, (false, (true, false)))))))
| X4a -> (false, (true, (false, (true, (false, (false, (true, false)))))))
| X4b -> (true, (true, (false, (true, (false, (false, (true, false)))))))
| X4c -> (false, (false, (true, (true, (false, (false, (true, false)))))))
| X4d -> (true, (false, (true, (true, (false, (false, (true, false)))))))
| X4e -> (false, (true, (true, (true, (false, (false, (true, false)))))))
| X4f -> (true, (true, (true, (true, (false, (false, (true, false)))))))
| X50 -> (false, (false, (false, (false, (true, (false, (true, false)))))))
| X51 -> (true, (false, (false, (false, (true, (false, (true, false)))))))
| X52 -> (false, (true, (false, (false, (true, (false, (true, false)))))))
| X53 -> (true, (true, (false, (false, (true, (false, (true, false)))))))
| X54 -> (false, (false, (true, (false, (true, (false, (true, false)))))))
| X55 -> (true, (false, (true, (false, (true, (false, (true, false)))))))
| X56 -> (false, (true, (true, (false, (true, (false, (true, false)))))))
| X57 -> (true, (true, (true, (false, (true, (false, (true, false)))))))
| X58 -> (false, (false, (false, (true, (true, (false, (true, false)))))))
| X59 -> (true, (false, (false, (true, (true, (false, (true, false)))))))
| X5a -> (false, (true, (false, (true, (true, (false, (true, false)))))))
| X5b -> (true, (true, (false, (true, (true, (false, (true, false)))))))
| X5c -> (false, (false, (true, (true, (true, (false, (true, false)))))))
| X5d -> (true, (false, (true, (true, (true, (false, (true, false)))))))
| X5e -> (false, (true, (true, (true, (true, (false, (true, false)))))))
| X5f -> (true, (true, (true, (true, (true, (false, (true, false)))))))
| X60 -> (false, (false, (false, (false, (false, (true, (true, false)))))))
| X61 -> (true, (false, (false, (false, (false, (true, (true, false)))))))
| X62 -> (false, (true, (false, (false, (false, (true, (true, false)))))))
| X63 -> (true, (true, (false, (false, (false, (true, (true, false)))))))
| X64 -> (false, (false, (true, (false, (false, (true, (true, false)))))))
| X65 -> (true, (false, (true, (false, (false, (true, (true, false)))))))
| X66 -> (false, (true, (true, (false, (false, (true, (true, false)))))))
| X67 -> (true, (true, (true, (false, (false, (true, (true, false)))))))
| X68 -> (false, (false, (false, (true, (false, (true, (true, false)))))))
| X69 -> (true, (false, (false, (true, (false, (true, (true, false)))))))
| X6a -> (false, (true, (false, (true, (false, (true, (true, false)))))))
| X6b -> (true, (true, (false, (true, (false, (true, (true, false)))))))
| X6c -> (false, (false, (true, (true, (false, (true, (true, false)))))))
| X6d -> (true, (false, (true, (true, (false, (true, (true, false)))))))
| X6e -> (false, (true, (true, (true, (false, (true, (true, false)))))))
| X6f -> (true, (true, (true, (true, (false, (true, (true, false)))))))
| X70 -> (false, (false, (false, (false, (true, (true, (true, false)))))))
| X71 -> (true, (false, (false, (false, (true, (true, (true, false)))))))
| X72 -> (false, (true, (false, (false, (true, (true, (true, false)))))))
| X73 -> (true, (true, (false, (false, (true, (true, (true, false)))))))
| X74 -> (false, (false, (true, (false, (true, (true, (true, false)))))))
| X75 -> (true, (false, (true, (false, (true, (true, (true, false)))))))
| X76 -> (false, (true, (true, (false, (true, (true, (true, false)))))))
| X77 -> (true, (true, (true, (false, (true, (true, (true, false)))))))
| X78 -> (false, (false, (false, (true, (true, (true, (true, false)))))))
| X79 -> (true, (false, (false, (true, (true, (true, (true, false)))))))
| X7a -> (false, (true, (false, (true, (true, (true, (true, false)))))))
| X7b -> (true, (true, (false, (true, (true, (true, (true, false)))))))
| X7c -> (false, (false, (true, (true, (true, (true, (true, false)))))))
| X7d -> (true, (false, (true, (true, (true, (true, (true, false)))))))
| X7e -> (false, (true, (true, (true, (true, (true, (true, false)))))))
| X7f -> (true, (true, (true, (true, (true, (true, (true, false)))))))
| X80 -> (false, (false, (false, (false, (false, (false, (false, true)))))))
| X81 -> (true, (false, (false, (false, (false, (false, (false, true)))))))
| X82 -> (false, (true, (false, (false, (false, (false, (false, true)))))))
| X83 -> (true, (true, (false, (false, (false, (false, (false, true)))))))
| X84 -> (false, (false, (true, (false, (false, (false, (false, true)))))))
| X85 -> (true, (false, (true, (false, (false, (false, (false, true)))))))
| X86 -> (false, (true, (true, (false, (false, (false, (false, true)))))))
| X87 -> (true, (true, (true, (false, (false, (false, (false, true)))))))
| X88 -> (false, (false, (false, (true, (false, (false, (false, true)))))))
| X89 -> (true, (false, (false, (true, (false, (false, (false, true)))))))
| X8a -> (false, (true, (false, (true, (false, (false, (false, true)))))))
| X8b -> (true, (true, (false, (true, (false, (false, (false, true)))))))
| X8c -> (false, (false, (true, (true, (false, (false, (false, true)))))))
| X8d -> (true, (false, (true, (true, (false, (false, (false, true)))))))
| X8e -> (false, (true, (true, (true, (false, (false, (false, true)))))))
| X8f -> (true, (true, (true, (true, (false, (false, (false, true)))))))
| X90 -> (false, (false, (false, (false, (true, (false, (false, true)))))))
| X91 -> (true, (false, (false, (false, (true, (false, (false, true)))))))
| X92 -> (false, (true, (false, (false, (true, (false, (false, true)))))))
| X93 -> (true, (true, (false, (false, (true, (false, (false, true)))))))
| X94 -> (false, (false, (true, (false, (true, (false, (false, true)))))))
| X95 -> (true, (false, (true, (false, (true, (false, (false, true)))))))
| X96 -> (false, (true, (true, (false, (true, (false, (false, true)))))))
| X97 -> (true, (true, (true, (false, (true, (false, (false, true)))))))
| X98 -> (false, (false, (false, (true, (true, (false, (false, true)))))))
| X99 -> (true, (false, (false, (true, (true, (false, (false, true)))))))
| X9a -> (false, (true, (false, (true, (true, (false, (false, true)))))))
| X9b -> (true, (true, (false, (true, (true, (false, (false, true)))))))
| X9c -> (false, (false, (true, (true, (true, (false, (false, true)))))))
| X9d -> (true, (false, (true, (true, (true, (false, (false, true)))))))
| X9e -> (false, (true, (true, (true, (true, (false, (false, true)))))))
| X9f -> (true, (true, (true, (true, (true, (false, (false, true)))))))
| Xa0 -> (false, (false, (false, (false, (false, (true, (false, true)))))))
| Xa1 -> (true, (false, (false, (false, (false, (true, (false, true)))))))
| Xa2 -> (false, (true, (false, (false, (false, (true, (false, true)))))))
| Xa3 -> (true, (true, (false, (false, (false, (true, (false, true)))))))
| Xa4 -> (false, (false, (true, (false, (false, (true, (false, true)))))))
| Xa5 -> (true, (false, (true, (false, (false, (true, (false, true)))))))
| Xa6 -> (false, (true, (true, (false, (false, (true, (false, true)))))))
| Xa7 -> (true, (true, (true, (false, (false, (true, (false, true)))))))
| Xa8 -> (false, (false, (false, (true, (false, (true, (false, true)))))))
| Xa9 -> (true, (false, (false, (true, (false, (true, (false, true)))))))
| Xaa -> (false, (true, (false, (true, (false, (true, (false, true)))))))
| Xab -> (true, (true, (false, (true, (false, (true, (false, true)))))))
| Xac -> (false, (false, (true, (true, (false, (true, (false, true)))))))
| Xad -> (true, (false, (true, (true, (false, (true, (false, true)))))))
| Xae -> (false, (true, (true, (true, (false, (true, (false, true)))))))
| Xaf -> (true, (true, (true, (true, (false, (true, (false, true)))))))
| Xb0 -> (false, (false, (false, (false, (true, (true, (false, true)))))))
| Xb1 -> (true, (false, (false, (false, (true, (true, (false, true)))))))
| Xb2 -> (false, (true, (false, (false, (true, (true, (false, true)))))))
| Xb3 -> (true, (true, (false, (false, (true, (true, (false, true)))))))
| Xb4 -> (false, (false, (true, (false, (true, (true, (false, true)))))))
| Xb5 -> (true, (false, (true, (false, (true, (true, (false, true)))))))
| Xb6 -> (false, (true, (true, (false, (true, (true, (false, true)))))))
| Xb7 -> (true, (true, (true, (false, (true, (true, (false, true)))))))
| Xb8 -> (false, (false, (false, (true, (true, (true, (false, true)))))))
| Xb9 -> (true, (false, (false, (true, (true, (true, (false, true)))))))
| Xba -> (false, (true, (false, (true, (true, (true, (false, true)))))))
| Xbb -> (true, (true, (false, (true, (true, (true, (false, true)))))))
| Xbc -> (false, (false, (true, (true, (true, (true, (false, true)))))))
| Xbd -> (true, (false, (true, (true, (true, (true, (false, true)))))))
| Xbe -> (false, (true, (true, (true, (true, (true, (false, true)))))))
| Xbf -> (true, (true, (true, (true, (true, (true, (false, true)))))))
| Xc0 -> (false, (false, (false, (false, (false, (false, (true, true)))))))
| Xc1 -> (true, (false, (false, (false, (false, (false, (true, true)))))))
| Xc2 -> (false, (true, (false, (false, (false, (false, (true, true)))))))
| Xc3 -> (true, (true, (false, (false, (false, (false, (true, true)))))))
| Xc4 -> (false, (false, (true, (false, (false, (false, (true, true)))))))
| Xc5 -> (true, (false, (true, (false, (false, (false, (true, true)))))))
| Xc6 -> (false, (true, (true, (false, (false, (false, (true, true)))))))
| Xc7 -> (true, (true, (true, (false, (false, (false, (true, true)))))))
| Xc8 -> (false, (false, (false, (true, (false, (false, (true, true)))))))
| Xc9 -> (true, (false, (false, (true, (false, (false, (true, true)))))))
| Xca -> (false, (true, (false, (true, (false, (false, (true, true)))))))
| Xcb -> (true, (true, (false, (true, (false, (false, (true, true)))))))
| Xcc -> (false, (false, (true, (true, (false, (false, (true, true)))))))
| Xcd -> (true, (false, (true, (true, (false, (false, (true, true)))))))
| Xce -> (false, (true, (true, (true, (false, (false, (true, true)))))))
| Xcf -> (true, (true, (true, (true, (false, (false, (true, true)))))))
| Xd0 -> (false, (false, (false, (false, (true, (false, (true, true)))))))
| Xd1 -> (true, (false, (false, (false, (true, (false, (true, true)))))))
| Xd2 -> (false, (true, (false, (false, (true, (false, (true, true)))))))
| Xd3 -> (true, (true, (false, (false, (true, (false, (true, true)))))))
| Xd4 -> (false, (false, (true, (false, (true, (false, (true, true)))))))
| Xd5 -> (true, (false, (true, (false, (true, (false, (true, true)))))))
| Xd6 -> (false, (true, (true, (false, (true, (false, (true, true)))))))
| Xd7 -> (true, (true, (true, (false, (true, (false, (true, true)))))))
| Xd8 -> (false, (false, (false, (true, (true, (false, (true, true)))))))
| Xd9 -> (true, (false, (false, (true, (true, (false, (true, true)))))))
| Xda -> (false, (true, (false, (true, (true, (false, (true, true)))))))
| Xdb -> (true, (true, (false, (true, (true, (false, (true, true)))))))
| Xdc -> (false, (false, (true, (true, (true, (false, (true, true)))))))
| Xdd -> (true, (false, (true, (true, (true, (false, (true, true)))))))
| Xde -> (false, (true, (true, (true, (true, (false, (true, true)))))))
| Xdf -> (true, (true, (true, (true, (true, (false, (true, true)))))))
| Xe0 -> (false, (false, (false, (false, (false, (true, (true, true)))))))
| Xe1 -> (true, (false, (false, (false, (false, (true, (true, true)))))))
| Xe2 -> (false, (true, (false, (false, (false, (true, (true, true)))))))
| Xe3 -> (true, (true, (false, (false, (false, (true, (true, true)))))))
| Xe4 -> (false, (false, (true, (false, (false, (true, (true, true)))))))
| Xe5 -> (true, (false, (true, (false, (false, (true, (true, true)))))))
| Xe6 -> (false, (true, (true, (false, (false, (true, (true, true)))))))
| Xe7 -> (true, (true, (true, (false, (false, (true, (true, true)))))))
| Xe8 -> (false, (false, (false, (true, (false, (true, (true, true)))))))
| Xe9 -> (true, (false, (false, (true, (false, (true, (true, true)))))))
| Xea -> (false, (true, (false, (true, (false, (true, (true, true)))))))
| Xeb -> (true, (true, (false, (true, (false, (true, (true, true)))))))
| Xec -> (false, (false, (true, (true, (false, (true, (true, true)))))))
| Xed -> (true, (false, (true, (true, (false, (true, (true, true)))))))
| Xee -> (false, (true, (true, (true, (false, (true, (true, true)))))))
| Xef -> (true, (true, (true, (true, (false, (true, (true, true)))))))
| Xf0 -> (false, (false, (false, (false, (true, (true, (true, true)))))))
| Xf1 -> (true, (false, (false, (false, (true, (true, (true, true)))))))
| Xf2 -> (false, (true, (false, (false, (true, (true, (true, true)))))))
| Xf3 -> (true, (true, (false, (false, (true, (true, (true, true)))))))
| Xf4 -> (false, (false, (true, (false, (true, (true, (true, true)))))))
| Xf5 -> (true, (false, (true, (false, (true, (true, (true, true)))))))
| Xf6 -> (false, (true, (true, (false, (true, (true, (true, true)))))))
| Xf7 -> (true, (true, (true, (false, (true, (true, (true, true)))))))
| Xf8 -> (false, (false, (false, (true, (true, (true, (true, true)))))))
| Xf9 -> (true, (false, (false, (true, (true, (true, (true, true)))))))
| Xfa -> (false, (true, (false, (true, (true, (true, (true, true)))))))
| Xfb -> (true, (true, (false, (true, (true, (true, (true, true)))))))
| Xfc -> (false, (false, (true, (true, (true, (true, (true, true)))))))
| Xfd -> (true, (false, (true, (true, (true, (true, (true, true)))))))
| Xfe -> (false, (true, (true, (true, (true, (true, (true, true)))))))
| Xff -> (true, (true, (true, (true, (true, (true, (true, true)))))))

type positive =
| XI of positive
| XO of positive
| XH

type n =
| N0
| Npos of positive

type z =
| Z0
| Zpos of positive
| Zneg of positive

(** val eqb : bool -> bool -> bool **)

let eqb b1 b2 =
  if b1 then b2 else if b2 then false else true

module Nat =
 struct
  (** val sub : nat -> nat -> nat **)

  let rec sub n0 m =
    match n0 with
    | O -> n0
    | S k -> (match m with
              | O -> n0
              | S l -> sub k l)

  (** val eqb : nat -> nat -> bool **)

  let rec eqb n0 m =
    match n0 with
    | O -> (match m with
            | O -> true
            | S _ -> false)
    | S n' -> (match m with
               | O -> false
               | S m' -> eqb n' m')

  (** val leb : nat -> nat -> bool **)

  let rec leb n0 m =
    match n0 with
    | O -> true
    | S n' -> (match m with
               | O -> false
               | S m' -> leb n' m')

  (** val divmod : nat -> nat -> nat -> nat -> nat * nat **)

  let rec divmod x y q u =
    match x with
    | O -> (q, u)
    | S x' ->
      (match u with
       | O -> divmod x' y (S q) y
       | S u' -> divmod x' y q u')

  (** val div : nat -> nat -> nat **)

  let div x y = match y with
  | O -> y
  | S y' -> fst (divmod x y' O y')

  (** val modulo : nat -> nat -> nat **)

  let modulo x = function
  | O -> x
  | S y' -> sub y' (snd (divmod x y' O y'))
 end

module Pos =
 struct
  type mask =
  | IsNul
  | IsPos of positive
  | IsNeg
 end

module Coq_Pos =
 struct
  (** val succ : positive -> positive **)

  let rec succ = function
  | XI p -> XO (succ p)
  | XO p -> XI p
  | XH -> XO XH

  (** val add : positive -> positive -> positive **)

  let rec add x y =
    match x with
    | XI p ->
      (match y with
       | XI q -> XO (add_carry p q)
       | XO q -> XI (add p q)
       | XH -> XO (succ p))
    | XO p ->
      (match y with
       | XI q -> XI (add p q)
       | XO q -> XO (add p q)
       | XH -> XI p)
    | XH -> (match y with
             | XI q -> XO (succ q)
             | XO q -> XI q
             | XH -> XO XH)

  (** val add_carry : positive -> positive -> positive **)

  and add_carry x y =
    match x with
    | XI p ->
      (match y with
       | XI q -> XI (add_carry p q)
       | XO q -> XO (add_carry p q)
       | XH -> XI (succ p))
    | XO p ->
      (match y with
       | XI q -> XO (add_carry p q)
       | XO q -> XI (add p q)
       | XH -> XO (succ p))
    | XH ->
      (match y with
       | XI q -> XI (succ q)
       | XO q -> XO (succ q)
       | XH -> XI XH)

  (** val pred_double : positive -> positive **)

  let rec pred_double = function
  | XI p -> XI (XO p)
  | XO p -> XI (pred_double p)
  | XH -> XH

  (** val pred_N : positive -> n **)

  let pred_N = function
  | XI p -> Npos (XO p)
  | XO p -> Npos (pred_double p)
  | XH -> N0

  type mask = Pos.mask =
  | IsNul
  | IsPos of positive
  | IsNeg

  (** val succ_double_mask : mask -> mask **)

  let succ_double_mask = function
  | IsNul -> IsPos XH
  | IsPos p -> IsPos (XI p)
  | IsNeg -> IsNeg

  (** val double_mask : mask -> mask **)

  let double_mask = function
  | IsPos p -> IsPos (XO p)
  | x0 -> x0

  (** val double_pred_mask : positive -> mask **)

  let double_pred_mask = function
  | XI p -> IsPos (XO (XO p))
  | XO p -> IsPos (XO (pred_double p))
  | XH -> IsNul

  (** val sub_mask : positive -> positive -> mask **)

  let rec sub_mask x y =
    match x with
    | XI p ->
      (match y with
       | XI q -> double_mask (sub_mask p q)
       | XO q -> succ_double_mask (sub_mask p q)
       | XH -> IsPos (XO p))
    | XO p ->
      (match y with
       | XI q -> succ_double_mask (sub_mask_carry p q)
       | XO q -> double_mask (sub_mask p q)
       | XH -> IsPos (pred_double p))
    | XH -> (match y with
             | XH -> IsNul
             | _ -> IsNeg)

  (** val sub_mask_carry : positive -> positive -> mask **)

  and sub_mask_carry x y =
    match x with
    | XI p ->
      (match y with
       | XI q -> succ_double_mask (sub_mask_carry p q)
       | XO q -> double_mask (sub_mask p q)
       | XH -> IsPos (pred_double p))
    | XO p ->
      (match y with
       | XI q -> double_mask (sub_mask_carry p q)
       | XO q -> succ_double_mask (sub_mask_carry p q)
       | XH -> double_pred_mask p)
    | XH -> IsNeg

  (** val mul : positive -> positive -> positive **)

  let rec mul x y =
    match x with
    | XI p -> add y (XO (mul p y))
    | XO p -> XO (mul p y)
    | XH -> y

  (** val iter : ('a1 -> 'a1) -> 'a1 -> positive -> 'a1 **)

  let rec iter f x = function
  | XI n' -> f (iter f (iter f x n') n')
  | XO n' -> iter f (iter f x n') n'
  | XH -> f x

  (** val pow : positive -> positive -> positive **)

  let pow x =
    iter (mul x) XH

  (** val div2 : positive -> positive **)

  let div2 = function
  | XI p0 -> p0
  | XO p0 -> p0
  | XH -> XH

  (** val div2_up : positive -> positive **)

  let div2_up = function
  | XI p0 -> succ p0
  | XO p0 -> p0
  | XH -> XH

  (** val size : positive -> positive **)

  let rec size = function
  | XI p0 -> succ (size p0)
  | XO p0 -> succ (size p0)
  | XH -> XH

  (** val compare_cont : comparison -> positive -> positive -> comparison **)

  let rec compare_cont r x y =
    match x with
    | XI p ->
      (match y with
       | XI q -> compare_cont r p q
       | XO q -> compare_cont Gt p q
       | XH -> Gt)
    | XO p ->
      (match y with
       | XI q -> compare_cont Lt p q
       | XO q -> compare_cont r p q
       | XH -> Gt)
    | XH -> (match y with
             | XH -> r
             | _ -> Lt)

  (** val compare : positive -> positive -> comparison **)

  let compare =
    compare_cont Eq

  (** val eqb : positive -> positive -> bool **)

  let rec eqb p q =
    match p with
    | XI p0 -> (match q with
                | XI q0 -> eqb p0 q0
                | _ -> false)
    | XO p0 -> (match q with
                | XO q0 -> eqb p0 q0
                | _ -> false)
    | XH -> (match q with
             | XH -> true
             | _ -> false)

  (** val coq_Nsucc_double : n -> n **)

  let coq_Nsucc_double = function
  | N0 -> Npos XH
  | Npos p -> Npos (XI p)

  (** val coq_Ndouble : n -> n **)

  let coq_Ndouble = function
  | N0 -> N0
  | Npos p -> Npos (XO p)

  (** val coq_lor : positive -> positive -> positive **)

  let rec coq_lor p q =
    match p with
    | XI p0 ->
      (match q with
       | XI q0 -> XI (coq_lor p0 q0)
       | XO q0 -> XI (coq_lor p0 q0)
       | XH -> p)
    | XO p0 ->
      (match q with
       | XI q0 -> XI (coq_lor p0 q0)
       | XO q0 -> XO (coq_lor p0 q0)
       | XH -> XI p0)
    | XH -> (match q with
             | XO q0 -> XI q0
             | _ -> q)

  (** val coq_land : positive -> positive -> n **)

  let rec coq_land p q =
    match p with
    | XI p0 ->
      (match q with
       | XI q0 -> coq_Nsucc_double (coq_land p0 q0)
       | XO q0 -> coq_Ndouble (coq_land p0 q0)
       | XH -> Npos XH)
    | XO p0 ->
      (match q with
       | XI q0 -> coq_Ndouble (coq_land p0 q0)
       | XO q0 -> coq_Ndouble (coq_land p0 q0)
       | XH -> N0)
    | XH -> (match q with
             | XO _ -> N0
             | _ -> Npos XH)

  (** val ldiff : positive -> positive -> n **)

  let rec ldiff p q =
    match p with
    | XI p0 ->
      (match q with
       | XI q0 -> coq_Ndouble (ldiff p0 q0)
       | XO q0 -> coq_Nsucc_double (ldiff p0 q0)
       | XH -> Npos (XO p0))
    | XO p0 ->
      (match q with
       | XI q0 -> coq_Ndouble (ldiff p0 q0)
       | XO q0 -> coq_Ndouble (ldiff p0 q0)
       | XH -> Npos p)
    | XH -> (match q with
             | XO _ -> Npos XH
             | _ -> N0)

  (** val coq_lxor : positive -> positive -> n **)

  let rec coq_lxor p q =
    match p with
    | XI p0 ->
      (match q with
       | XI q0 -> coq_Ndouble (coq_lxor p0 q0)
       | XO q0 -> coq_Nsucc_double (coq_lxor p0 q0)
       | XH -> Npos (XO p0))
    | XO p0 ->
      (match q with
       | XI q0 -> coq_Nsucc_double (coq_lxor p0 q0)
       | XO q0 -> coq_Ndouble (coq_lxor p0 q0)
       | XH -> Npos (XI p0))
    | XH ->
      (match q with
       | XI q0 -> Npos (XO q0)
       | XO q0 -> Npos (XI q0)
       | XH -> N0)

  (** val shiftl : positive -> n -> positive **)

  let shiftl p = function
  | N0 -> p
  | Npos n1 -> iter (fun x -> XO x) p n1

  (** val iter_op : ('a1 -> 'a1 -> 'a1) -> positive -> 'a1 -> 'a1 **)

  let rec iter_op op p a =
    match p with
    | XI p0 -> op a (iter_op op p0 (op a a))
    | XO p0 -> iter_op op p0 (op a a)
    | XH -> a

  (** val to_nat : positive -> nat **)

  let to_nat x =
    iter_op Coq__1.add x (S O)

  (** val of_succ_nat : nat -> positive **)

  let rec of_succ_nat = function
  | O -> XH
  | S x -> succ (of_succ_nat x)
 end

module N =
 struct
  (** val succ_double : n -> n **)

  let succ_double = function
  | N0 -> Npos XH
  | Npos p -> Npos (XI p)

  (** val double : n -> n **)

  let double = function
  | N0 -> N0
  | Npos p -> Npos (XO p)

  (** val succ_pos : n -> positive **)

  let succ_pos = function
  | N0 -> XH
  | Npos p -> Coq_Pos.succ p

  (** val add : n -> n -> n **)

  let add n0 m =
    match n0 with
    | N0 -> m
    | Npos p -> (match m with
                 | N0 -> n0
                 | Npos q -> Npos (Coq_Pos.add p q))

  (** val sub : n -> n -> n **)

  let sub n0 m =
    match n0 with
    | N0 -> N0
    | Npos n' ->
      (match m with
       | N0 -> n0
       | Npos m' ->
         (match Coq_Pos.sub_mask n' m' with
          | Coq_Pos.IsPos p -> Npos p
          | _ -> N0))

  (** val mul : n -> n -> n **)

  let mul n0 m =
    match n0 with
    | N0 -> N0
    | Npos p -> (match m with
                 | N0 -> N0
                 | Npos q -> Npos (Coq_Pos.mul p q))

  (** val compare : n -> n -> comparison **)

  let compare n0 m =
    match n0 with
    | N0 -> (match m with
             | N0 -> Eq
             | Npos _ -> Lt)
    | Npos n' -> (match m with
                  | N0 -> Gt
                  | Npos m' -> Coq_Pos.compare n' m')

  (** val eqb : n -> n -> bool **)

  let eqb n0 m =
    match n0 with
    | N0 -> (match m with
             | N0 -> true
             | Npos _ -> false)
    | Npos p -> (match m with
                 | N0 -> false
                 | Npos q -> Coq_Pos.eqb p q)

  (** val leb : n -> n -> bool **)

  let leb x y =
    match compare x y with
    | Gt -> false
    | _ -> true

  (** val ltb : n -> n -> bool **)

  let ltb x y =
    match compare x y with
    | Lt -> true
    | _ -> false

  (** val min : n -> n -> n **)

  let min n0 n' =
    match compare n0 n' with
    | Gt -> n'
    | _ -> n0

  (** val max : n -> n -> n **)

  let max n0 n' =
    match compare n0 n' with
    | Gt -> n0
    | _ -> n'

  (** val div2 : n -> n **)

  let div2 = function
  | N0 -> N0
  | Npos p0 -> (match p0 with
                | XI p -> Npos p
                | XO p -> Npos p
                | XH -> N0)

  (** val even : n -> bool **)

  let even = function
  | N0 -> true
  | Npos p -> (match p with
               | XO _ -> true
               | _ -> false)

  (** val odd : n -> bool **)

  let odd n0 =
    negb (even n0)

  (** val pow : n -> n -> n **)

  let pow n0 = function
  | N0 -> Npos XH
  | Npos p0 -> (match n0 with
                | N0 -> N0
                | Npos q -> Npos (Coq_Pos.pow q p0))

  (** val log2 : n -> n **)

  let log2 = function
  | N0 -> N0
  | Npos p0 ->
    (match p0 with
     | XI p -> Npos (Coq_Pos.size p)
     | XO p -> Npos (Coq_Pos.size p)
     | XH -> N0)

  (** val size : n -> n **)

  let size = function
  | N0 -> N0
  | Npos p -> Npos (Coq_Pos.size p)

  (** val pos_div_eucl : positive -> n -> n * n **)

  let rec pos_div_eucl a b =
    match a with
    | XI a' ->
      let (q, r) = pos_div_eucl a' b in
      let r' = succ_double r in
      if leb b r' then ((succ_double q), (sub r' b)) else ((double q), r')
    | XO a' ->
      let (q, r) = pos_div_eucl a' b in
      let r' = double r in
      if leb b r' then ((succ_double q), (sub r' b)) else ((double q), r')
    | XH ->
      (match b with
       | N0 -> (N0, (Npos XH))
       | Npos p -> (match p with
                    | XH -> ((Npos XH), N0)
                    | _ -> (N0, (Npos XH))))

  (** val div_eucl : n -> n -> n * n **)

  let div_eucl a b =
    match a with
    | N0 -> (N0, N0)
    | Npos na -> (match b with
                  | N0 -> (N0, a)
                  | Npos _ -> pos_div_eucl na b)

  (** val div : n -> n -> n **)

  let div a b =
    fst (div_eucl a b)

  (** val modulo : n -> n -> n **)

  let modulo a b =
    snd (div_eucl a b)

  (** val coq_lor : n -> n -> n **)

  let coq_lor n0 m =
    match n0 with
    | N0 -> m
    | Npos p -> (match m with
                 | N0 -> n0
                 | Npos q -> Npos (Coq_Pos.coq_lor p q))

  (** val coq_land : n -> n -> n **)

  let coq_land n0 m =
    match n0 with
    | N0 -> N0
    | Npos p -> (match m with
                 | N0 -> N0
                 | Npos q -> Coq_Pos.coq_land p q)

  (** val ldiff : n -> n -> n **)

  let ldiff n0 m =
    match n0 with
    | N0 -> N0
    | Npos p -> (match m with
                 | N0 -> n0
                 | Npos q -> Coq_Pos.ldiff p q)

  (** val coq_lxor : n -> n -> n **)

  let coq_lxor n0 m =
    match n0 with
    | N0 -> m
    | Npos p -> (match m with
                 | N0 -> n0
                 | Npos q -> Coq_Pos.coq_lxor p q)

  (** val shiftl : n -> n -> n **)

  let shiftl a n0 =
    match a with
    | N0 -> N0
    | Npos a0 -> Npos (Coq_Pos.shiftl a0 n0)

  (** val shiftr : n -> n -> n **)

  let shiftr a = function
  | N0 -> a
  | Npos p -> Coq_Pos.iter div2 a p

  (** val to_nat : n -> nat **)

  let to_nat = function
  | N0 -> O
  | Npos p -> Coq_Pos.to_nat p

  (** val of_nat : nat -> n **)

  let of_nat = function
  | O -> N0
  | S n' -> Npos (Coq_Pos.of_succ_nat n')
 end

module Z =
 struct
  (** val double : z -> z **)

  let double = function
  | Z0 -> Z0
  | Zpos p -> Zpos (XO p)
  | Zneg p -> Zneg (XO p)

  (** val succ_double : z -> z **)

  let succ_double = function
  | Z0 -> Zpos XH
  | Zpos p -> Zpos (XI p)
  | Zneg p -> Zneg (Coq_Pos.pred_double p)

  (** val pred_double : z -> z **)

  let pred_double = function
  | Z0 -> Zneg XH
  | Zpos p -> Zpos (Coq_Pos.pred_double p)
  | Zneg p -> Zneg (XI p)

  (** val pos_sub : positive -> positive -> z **)

  let rec pos_sub x y =
    match x with
    | XI p ->
      (match y with
       | XI q -> double (pos_sub p q)
       | XO q -> succ_double (pos_sub p q)
       | XH -> Zpos (XO p))
    | XO p ->
      (match y with
       | XI q -> pred_double (pos_sub p q)
       | XO q -> double (pos_sub p q)
       | XH -> Zpos (Coq_Pos.pred_double p))
    | XH ->
      (match y with
       | XI q -> Zneg (XO q)
       | XO q -> Zneg (Coq_Pos.pred_double q)
       | XH -> Z0)

  (** val add : z -> z -> z **)

  let add x y =
    match x with
    | Z0 -> y
    | Zpos x' ->
      (match y with
       | Z0 -> x
       | Zpos y' -> Zpos (Coq_Pos.add x' y')
       | Zneg y' -> pos_sub x' y')
    | Zneg x' ->
      (match y with
       | Z0 -> x
       | Zpos y' -> pos_sub y' x'
       | Zneg y' -> Zneg (Coq_Pos.add x' y'))

  (** val opp : z -> z **)

  let opp = function
  | Z0 -> Z0
  | Zpos x0 -> Zneg x0
  | Zneg x0 -> Zpos x0

  (** val sub : z -> z -> z **)

  let sub m n0 =
    add m (opp n0)

  (** val mul : z -> z -> z **)

  let mul x y =
    match x with
    | Z0 -> Z0
    | Zpos x' ->
      (match y with
       | Z0 -> Z0
       | Zpos y' -> Zpos (Coq_Pos.mul x' y')
       | Zneg y' -> Zneg (Coq_Pos.mul x' y'))
    | Zneg x' ->
      (match y with
       | Z0 -> Z0
       | Zpos y' -> Zneg (Coq_Pos.mul x' y')
       | Zneg y' -> Zpos (Coq_Pos.mul x' y'))

  (** val pow_pos : z -> positive -> z **)

  let pow_pos z0 =
    Coq_Pos.iter (mul z0) (Zpos XH)

  (** val pow : z -> z -> z **)

  let pow x = function
  | Z0 -> Zpos XH
  | Zpos p -> pow_pos x p
  | Zneg _ -> Z0

  (** val compare : z -> z -> comparison **)

  let compare x y =
    match x with
    | Z0 -> (match y with
             | Z0 -> Eq
             | Zpos _ -> Lt
             | Zneg _ -> Gt)
    | Zpos x' -> (match y with
                  | Zpos y' -> Coq_Pos.compare x' y'
                  | _ -> Gt)
    | Zneg x' ->
      (match y with
       | Zneg y' -> compOpp (Coq_Pos.compare x' y')
       | _ -> Lt)

  (** val leb : z -> z -> bool **)

  let leb x y =
    match compare x y with
    | Gt -> false
    | _ -> true

  (** val ltb : z -> z -> bool **)

  let ltb x y =
    match compare x y with
    | Lt -> true
    | _ -> false

  (** val eqb : z -> z -> bool **)

  let eqb x y =
    match x with
    | Z0 -> (match y with
             | Z0 -> true
             | _ -> false)
    | Zpos p -> (match y with
                 | Zpos q -> Coq_Pos.eqb p q
                 | _ -> false)
    | Zneg p -> (match y with
                 | Zneg q -> Coq_Pos.eqb p q
                 | _ -> false)

  (** val max : z -> z -> z **)

  let max n0 m =
    match compare n0 m with
    | Lt -> m
    | _ -> n0

  (** val abs : z -> z **)

  let abs = function
  | Zneg p -> Zpos p
  | x -> x

  (** val to_nat : z -> nat **)

  let to_nat = function
  | Zpos p -> Coq_Pos.to_nat p
  | _ -> O

  (** val to_N : z -> n **)

  let to_N = function
  | Zpos p -> Npos p
  | _ -> N0

  (** val of_nat : nat -> z **)

  let of_nat = function
  | O -> Z0
  | S n1 -> Zpos (Coq_Pos.of_succ_nat n1)

  (** val of_N : n -> z **)

  let of_N = function
  | N0 -> Z0
  | Npos p -> Zpos p

  (** val pos_div_eucl : positive -> z -> z * z **)

  let rec pos_div_eucl a b =
    match a with
    | XI a' ->
      let (q, r) = pos_div_eucl a' b in
      let r' = add (mul (Zpos (XO XH)) r) (Zpos XH) in
      if ltb r' b
      then ((mul (Zpos (XO XH)) q), r')
      else ((add (mul (Zpos (XO XH)) q) (Zpos XH)), (sub r' b))
    | XO a' ->
      let (q, r) = pos_div_eucl a' b in
      let r' = mul (Zpos (XO XH)) r in
      if ltb r' b
      then ((mul (Zpos (XO XH)) q), r')
      else ((add (mul (Zpos (XO XH)) q) (Zpos XH)), (sub r' b))
    | XH -> if leb (Zpos (XO XH)) b then (Z0, (Zpos XH)) else ((Zpos XH), Z0)

  (** val div_eucl : z -> z -> z * z **)

  let div_eucl a b =
    match a with
    | Z0 -> (Z0, Z0)
    | Zpos a' ->
      (match b with
       | Z0 -> (Z0, a)
       | Zpos _ -> pos_div_eucl a' b
       | Zneg b' ->
         let (q, r) = pos_div_eucl a' (Zpos b') in
         (match r with
          | Z0 -> ((opp q), Z0)
          | _ -> ((opp (add q (Zpos XH))), (add b r))))
    | Zneg a' ->
      (match b with
       | Z0 -> (Z0, a)
       | Zpos _ ->
         let (q, r) = pos_div_eucl a' b in
         (match r with
          | Z0 -> ((opp q), Z0)
          | _ -> ((opp (add q (Zpos XH))), (sub b r)))
       | Zneg b' -> let (q, r) = pos_div_eucl a' (Zpos b') in (q, (opp r)))

  (** val div : z -> z -> z **)

  let div a b =
    let (q, _) = div_eucl a b in q

  (** val modulo : z -> z -> z **)

  let modulo a b =
    let (_, r) = div_eucl a b in r

  (** val div2 : z -> z **)

  let div2 = function
  | Z0 -> Z0
  | Zpos p -> (match p with
               | XH -> Z0
               | _ -> Zpos (Coq_Pos.div2 p))
  | Zneg p -> Zneg (Coq_Pos.div2_up p)

  (** val shiftl : z -> z -> z **)

  let shiftl a = function
  | Z0 -> a
  | Zpos p -> Coq_Pos.iter (mul (Zpos (XO XH))) a p
  | Zneg p -> Coq_Pos.iter div2 a p

  (** val shiftr : z -> z -> z **)

  let shiftr a n0 =
    shiftl a (opp n0)

  (** val coq_lor : z -> z -> z **)

  let coq_lor a b =
    match a with
    | Z0 -> b
    | Zpos a0 ->
      (match b with
       | Z0 -> a
       | Zpos b0 -> Zpos (Coq_Pos.coq_lor a0 b0)
       | Zneg b0 -> Zneg (N.succ_pos (N.ldiff (Coq_Pos.pred_N b0) (Npos a0))))
    | Zneg a0 ->
      (match b with
       | Z0 -> a
       | Zpos b0 -> Zneg (N.succ_pos (N.ldiff (Coq_Pos.pred_N a0) (Npos b0)))
       | Zneg b0 ->
         Zneg
           (N.succ_pos (N.coq_land (Coq_Pos.pred_N a0) (Coq_Pos.pred_N b0))))

  (** val coq_land : z -> z -> z **)

  let coq_land a b =
    match a with
    | Z0 -> Z0
    | Zpos a0 ->
      (match b with
       | Z0 -> Z0
       | Zpos b0 -> of_N (Coq_Pos.coq_land a0 b0)
       | Zneg b0 -> of_N (N.ldiff (Npos a0) (Coq_Pos.pred_N b0)))
    | Zneg a0 ->
      (match b with
       | Z0 -> Z0
       | Zpos b0 -> of_N (N.ldiff (Npos b0) (Coq_Pos.pred_N a0))
       | Zneg b0 ->
         Zneg (N.succ_pos (N.coq_lor (Coq_Pos.pred_N a0) (Coq_Pos.pred_N b0))))

  (** val coq_lxor : z -> z -> z **)

  let coq_lxor a b =
    match a with
    | Z0 -> b
    | Zpos a0 ->
      (match b with
       | Z0 -> a
       | Zpos b0 -> of_N (Coq_Pos.coq_lxor a0 b0)
       | Zneg b0 ->
         Zneg (N.succ_pos (N.coq_lxor (Npos a0) (Coq_Pos.pred_N b0))))
    | Zneg a0 ->
      (match b with
       | Z0 -> a
       | Zpos b0 ->
         Zneg (N.succ_pos (N.coq_lxor (Coq_Pos.pred_N a0) (Npos b0)))
       | Zneg b0 -> of_N (N.coq_lxor (Coq_Pos.pred_N a0) (Coq_Pos.pred_N b0)))
 end

(** val nth : nat -> 'a1 list -> 'a1 -> 'a1 **)

let rec nth n0 l default =
  match n0 with
  | O -> (match l with
          | [] -> default
          | x :: _ -> x)
  | S m -> (match l with
            | [] -> default
            | _ :: t -> nth m t default)

(** val nth_error : 'a1 list -> nat -> 'a1 option **)

let rec nth_error l = function
| O -> (match l with
        | [] -> None
        | x :: _ -> Some x)
| S n1 -> (match l with
           | [] -> None
           | _ :: l0 -> nth_error l0 n1)

(** val rev : 'a1 list -> 'a1 list **)

let rec rev = function
| [] -> []
| x :: l' -> app (rev l') (x :: [])

(** val concat : 'a1 list list -> 'a1 list **)

let rec concat = function
| [] -> []
| x :: l0 -> app x (concat l0)

(** val map : ('a1 -> 'a2) -> 'a1 list -> 'a2 list **)

let rec map f = function
| [] -> []
| a :: t -> (f a) :: (map f t)

(** val flat_map : ('a1 -> 'a2 list) -> 'a1 list -> 'a2 list **)

let rec flat_map f = function
| [] -> []
| x :: t -> app (f x) (flat_map f t)

(** val fold_left : ('a1 -> 'a2 -> 'a1) -> 'a2 list -> 'a1 -> 'a1 **)

let rec fold_left f l a0 =
  match l with
  | [] -> a0
  | b :: t -> fold_left f t (f a0 b)

(** val existsb : ('a1 -> bool) -> 'a1 list -> bool **)

let rec existsb f = function
| [] -> false
| a :: l0 -> (||) (f a) (existsb f l0)

(** val forallb : ('a1 -> bool) -> 'a1 list -> bool **)

let rec forallb f = function
| [] -> true
| a :: l0 -> (&&) (f a) (forallb f l0)

(** val find : ('a1 -> bool) -> 'a1 list -> 'a1 option **)

let rec find f = function
| [] -> None
| x :: tl -> if f x then Some x else find f tl

(** val firstn : nat -> 'a1 list -> 'a1 list **)

let rec firstn n0 l =
  match n0 with
  | O -> []
  | S n1 -> (match l with
             | [] -> []
             | a :: l0 -> a :: (firstn n1 l0))

(** val skipn : nat -> 'a1 list -> 'a1 list **)

let rec skipn n0 l =
  match n0 with
  | O -> l
  | S n1 -> (match l with
             | [] -> []
             | _ :: l0 -> skipn n1 l0)

(** val seq : nat -> nat -> nat list **)

let rec seq start = function
| O -> []
| S len0 -> start :: (seq (S start) len0)

(** val repeat : 'a1 -> nat -> 'a1 list **)

let rec repeat x = function
| O -> []
| S k -> x :: (repeat x k)

(** val eqb0 : byte -> byte -> bool **)

let eqb0 a b =
  let (a0, p) = to_bits a in
  let (a1, p0) = p in
  let (a2, p1) = p0 in
  let (a3, p2) = p1 in
  let (a4, p3) = p2 in
  let (a5, p4) = p3 in
  let (a6, a7) = p4 in
  let (b0, p5) = to_bits b in
  let (b1, p6) = p5 in
  let (b2, p7) = p6 in
  let (b3, p8) = p7 in
  let (b4, p9) = p8 in
  let (b5, p10) = p9 in
  let (b6, b7) = p10 in
  (&&)
    ((&&)
      ((&&)
        ((&&)
          ((&&) ((&&) ((&&) (eqb a0 b0) (eqb a1 b1)) (eqb a2 b2)) (eqb a3 b3))
          (eqb a4 b4)) (eqb a5 b5)) (eqb a6 b6)) (eqb a7 b7)

(** val to_N0 : byte -> n **)

let to_N0 = function
| X00 -> N0
| X01 -> Npos XH
| X02 -> Npos (XO XH)
| X03 -> Npos (XI XH)
| X04 -> Npos (XO (XO XH))
| X05 -> Npos (XI (XO XH))
| X06 -> Npos (XO (XI XH))
| X07 -> Npos (XI (XI XH))
| X08 -> Npos (XO (XO (XO XH)))
| X09 -> Npos (XI (XO (XO XH)))
| X0a -> Npos (XO (XI (XO XH)))
| X0b -> Npos (XI (XI (XO XH)))
| X0c -> Npos (XO (XO (XI XH)))
| X0d -> Npos (XI (XO (XI XH)))
| X0e -> Npos (XO (XI (XI XH)))
| X0f -> Npos (XI (XI (XI XH)))
| X10 -> Npos (XO (XO (XO (XO XH))))
| X11 -> Npos (XI (XO (XO (XO XH))))
| X12 -> Npos (XO (XI (XO (XO XH))))
| X13 -> Npos (XI (XI (XO (XO XH))))
| X14 -> Npos (XO (XO (XI (XO XH))))
| X15 -> Npos (XI (XO (XI (XO XH))))
| X16 -> Npos (XO (XI (XI (XO XH))))
| X17 -> Npos (XI (XI (XI (XO XH))))
| X18 -> Npos (XO (XO (XO (XI XH))))
| X19 -> Npos (XI (XO (XO (XI XH))))
| X1a -> Npos (XO (XI (XO (XI XH))))
| X1b -> Npos (XI (XI (XO (XI XH))))
| X1c -> Npos (XO (XO (XI (XI XH))))
| X1d -> Npos (XI (XO (XI (XI XH))))
| X1e -> Npos (XO (XI (XI (XI XH))))
| X1f -> Npos (XI (XI (XI (XI XH))))
| X20 -> Npos (XO (XO (XO (XO (XO XH)))))
| X21 -> Npos (XI (XO (XO (XO (XO XH)))))
| X22 -> Npos (XO (XI (XO (XO (XO XH)))))
| X23 -> Npos (XI (XI (XO (XO (XO XH)))))
| X24 -> Npos (XO (XO (XI (XO (XO XH)))))
| X25 -> Npos (XI (XO (XI (XO (XO XH)))))
| X26 -> Npos (XO (XI (XI (XO (XO XH)))))
| X27 -> Npos (XI (XI (XI (XO (XO XH)))))
| X28 -> Npos (XO (XO (XO (XI (XO XH)))))
| X29 -> Npos (XI (XO (XO (XI (XO XH)))))
| X2a -> Npos (XO (XI (XO (XI (XO XH)))))
| X2b -> Npos (XI (XI (XO (XI (XO XH)))))
| X2c -> Npos (XO (XO (XI (XI (XO XH)))))
| X2d -> Npos (XI (XO (XI (XI (XO XH)))))
| X2e -> Npos (XO (XI (XI (XI (XO XH)))))
| X2f -> Npos (XI (XI (XI (XI (XO XH)))))
| X30 -> Npos (XO (XO (XO (XO (XI XH)))))
| X31 -> Npos (XI (XO (XO (XO (XI XH)))))
| X32 -> Npos (XO (XI (XO (XO (XI XH)))))
| X33 -> Npos (XI (XI (XO (XO (XI XH)))))
| X34 -> Npos (XO (XO (XI (XO (XI XH)))))
| X35 -> Npos (XI (XO (XI (XO (XI XH)))))
| X36 -> Npos (XO (XI (XI (XO (XI XH)))))
| X37 -> Npos (XI (XI (XI (XO (XI XH)))))
| X38 -> Npos (XO (XO (XO (XI (XI XH)))))
| X39 -> Npos (XI (XO (XO (XI (XI XH)))))
| X3a -> Npos (XO (XI (XO (XI (XI XH)))))
| X3b -> Npos (XI (XI (XO (XI (XI XH)))))
| X3c -> Npos (XO (XO (XI (XI (XI XH)))))
| X3d -> Npos (XI (XO (XI (XI (XI XH)))))
| X3e -> Npos (XO (XI (XI (XI (XI XH)))))
| X3f -> Npos (XI (XI (XI (XI (XI XH)))))
| X40 -> Npos (XO (XO (XO (XO (XO (XO XH))))))
| X41 -> Npos (XI (XO (XO (XO (XO (XO XH))))))
| X42 -> Npos (XO (XI (XO (XO (XO (XO XH))))))
| X43 -> Npos (XI (XI (XO (XO (XO (XO XH))))))
| X44 -> Npos (XO (XO (XI (XO (XO (XO XH))))))
| X45 -> Npos (XI (XO (XI (XO (XO (XO XH))))))
| X46 -> Npos (XO (XI (XI (XO (XO (XO XH))))))
| X47 -> Npos (XI (XI (XI (XO (XO (XO XH))))))
| X48 -> Npos (XO (XO (XO (XI (XO (XO XH))))))
| X49 -> Npos (XI (XO (XO (XI (XO (XO XH))))))
| X4a -> Npos (XO (XI (XO (XI (XO (XO XH))))))
| X4b -> Npos (XI (XI (XO (XI (XO (XO XH))))))
| X4c -> Npos (XO (XO (XI (XI (XO (XO XH))))))
| X4d -> Npos (XI (XO (XI (XI (XO (XO XH))))))
| X4e -> Npos (XO (XI (XI (XI (XO (XO XH))))))
| X4f -> Npos (XI (XI (XI (XI (XO (XO XH))))))
| X50 -> Npos (XO (XO (XO (XO (XI (XO XH))))))
| X51 -> Npos (XI (XO (XO (XO (XI (XO XH))))))
| X52 -> Npos (XO (XI (XO (XO (XI (XO XH))))))
| X53 -> Npos (XI (XI (XO (XO (XI (XO XH))))))
| X54 -> Npos (XO (XO (XI (XO (XI (XO XH))))))
| X55 -> Npos (XI (XO (XI (XO (XI (XO XH))))))
| X56 -> Npos (XO (XI (XI (XO (XI (XO XH))))))
| X57 -> Npos (XI (XI (XI (XO (XI (XO XH))))))
| X58 -> Npos (XO (XO (XO (XI (XI (XO XH))))))
| X59 -> Npos (XI (XO (XO (XI (XI (XO XH))))))
| X5a -> Npos (XO (XI (XO (XI (XI (XO XH))))))
| X5b -> Npos (XI (XI (XO (XI (XI (XO XH))))))
| X5c -> Npos (XO (XO (XI (XI (XI (XO XH))))))
| X5d -> Npos (XI (XO (XI (XI (XI (XO XH))))))
| X5e -> Npos (XO (XI (XI (XI (XI (XO XH))))))
| X5f -> Npos (XI (XI (XI (XI (XI (XO XH))))))
| X60 -> Npos (XO (XO (XO (XO (XO (XI XH))))))
| X61 -> Npos (XI (XO (XO (XO (XO (XI XH))))))
| X62 -> Npos (XO (XI (XO (XO (XO (XI XH))))))
| X63 -> Npos (XI (XI (XO (XO (XO (XI XH))))))
| X64 -> Npos (XO (XO (XI (XO (XO (XI XH))))))
| X65 -> Npos (XI (XO (XI (XO (XO (XI XH))))))
| X66 -> Npos (XO (XI (XI (XO (XO (XI XH))))))
| X67 -> Npos (XI (XI (XI (XO (XO (XI XH))))))
| X68 -> Npos (XO (XO (XO (XI (XO (XI XH))))))
| X69 -> Npos (XI (XO (XO (XI (XO (XI XH))))))
| X6a -> Npos (XO (XI (XO (XI (XO (XI XH))))))
| X6b -> Npos (XI (XI (XO (XI (XO (XI XH))))))
| X6c -> Npos (XO (XO (XI (XI (XO (XI XH))))))
| X6d -> Npos (XI (XO (XI (XI (XO (XI XH))))))
| X6e -> Npos (XO (XI (XI (XI (XO (XI XH))))))
| X6f -> Npos (XI (XI (XI (XI (XO (XI XH))))))
| X70 -> Npos (XO (XO (XO (XO (XI (XI XH))))))
| X71 -> Npos (XI (XO (XO (XO (XI (XI XH))))))
| X72 -> Npos (XO (XI (XO (XO (XI (XI XH))))))
| X73 -> Npos (XI (XI (XO (XO (XI (XI XH))))))
| X74 -> Npos (XO (XO (XI (XO (XI (XI XH))))))
| X75 -> Npos (XI (XO (XI (XO (XI (XI XH))))))
| X76 -> Npos (XO (XI (XI (XO (XI (XI XH))))))
| X77 -> Npos (XI (XI (XI (XO (XI (XI XH))))))
| X78 -> Npos (XO (XO (XO (XI (XI (XI XH))))))
| X79 -> Npos (XI (XO (XO (XI (XI (XI XH))))))
| X7a -> Npos (XO (XI (XO (XI (XI (XI XH))))))
| X7b -> Npos (XI (XI (XO (XI (XI (XI XH))))))
| X7c -> Npos (XO (XO (XI (XI (XI (XI XH))))))
| X7d -> Npos (XI (XO (XI (XI (XI (XI XH))))))
| X7e -> Npos (XO (XI (XI (XI (XI (XI XH))))))
| X7f -> Npos (XI (XI (XI (XI (XI (XI XH))))))
| X80 -> Npos (XO (XO (XO (XO (XO (XO (XO XH)))))))
| X81 -> Npos (XI (XO (XO (XO (XO (XO (XO XH)))))))
| X82 -> Npos (XO (XI (XO (XO (XO (XO (XO XH)))))))
| X83 -> Npos (XI (XI (XO (XO (XO (XO (XO XH)))))))
| X84 -> Npos (XO (XO (XI (XO (XO (XO (XO XH)))))))
| X85 -> Npos (XI (XO (XI (XO (XO (XO (XO XH)))))))
| X86 -> Npos (XO (XI (XI (XO (XO (XO (XO XH)))))))
| X87 -> Npos (XI (XI (XI (XO (XO (XO (XO XH)))))))
| X88 -> Npos (XO (XO (XO (XI (XO (XO (XO XH)))))))
| X89 -> Npos (XI (XO (XO (XI (XO (XO (XO XH)))))))
| X8a -> Npos (XO (XI (XO (XI (XO (XO (XO XH)))))))
| X8b -> Npos (XI (XI (XO (XI (XO (XO (XO XH)))))))
| X8c -> Npos (XO (XO (XI (XI (XO (XO (XO XH)))))))
| X8d -> Npos (XI (XO (XI (XI (XO (XO (XO XH)))))))
| X8e -> Npos (XO (XI (XI (XI (XO (XO (XO XH)))))))
| X8f -> Npos (XI (XI (XI (XI (XO (XO (XO XH)))))))
| X90 -> Npos (XO (XO (XO (XO (XI (XO (XO XH)))))))
| X91 -> Npos (XI (XO (XO (XO (XI (XO (XO XH)))))))
| X92 -> Npos (XO (XI (XO (XO (XI (XO (XO XH)))))))
| X93 -> Npos (XI (XI (XO (XO (XI (XO (XO XH)))))))
| X94 -> Npos (XO (XO (XI (XO (XI (XO (XO XH)))))))
| X95 -> Npos (XI (XO (XI (XO (XI (XO (XO XH)))))))
| X96 -> Npos (XO (XI (XI (XO (XI (XO (XO XH)))))))
| X97 -> Npos (XI (XI (XI (XO (XI (XO (XO XH)))))))
| X98 -> Npos (XO (XO (XO (XI (XI (XO (XO XH)))))))
| X99 -> Npos (XI (XO (XO (XI (XI (XO (XO XH)))))))
| X9a -> Npos (XO (XI (XO (XI (XI (XO (XO XH)))))))
| X9b -> Npos (XI (XI (XO (XI (XI (XO (XO XH)))))))
| X9c -> Npos (XO (XO (XI (XI (XI (XO (XO XH)))))))
| X9d -> Npos (XI (XO (XI (XI (XI (XO (XO XH)))))))
| X9e -> Npos (XO (XI (XI (XI (XI (XO (XO XH)))))))
| X9f -> Npos (XI (XI (XI (XI (XI (XO (XO XH)))))))
| Xa0 -> Npos (XO (XO (XO (XO (XO (XI (XO XH)))))))
| Xa1 -> Npos (XI (XO (XO (XO (XO (XI (XO XH)))))))
| Xa2 -> Npos (XO (XI (XO (XO (XO (XI (XO XH)))))))
| Xa3 -> Npos (XI (XI (XO (XO (XO (XI (XO XH)))))))
| Xa4 -> Npos (XO (XO (XI (XO (XO (XI (XO XH)))))))
| Xa5 -> Npos (XI (XO (XI (XO (XO (XI (XO XH)))))))
| Xa6 -> Npos (XO (XI (XI (XO (XO (XI (XO XH)))))))
| Xa7 -> Npos (XI (XI (XI (XO (XO (XI (XO XH)))))))
| Xa8 -> Npos (XO (XO (XO (XI (XO (XI (XO XH)))))))
| Xa9 -> Npos (XI (XO (XO (XI (XO (XI (XO XH)))))))
| Xaa -> Npos (XO (XI (XO (XI (XO (XI (XO XH)))))))
| Xab -> Npos (XI (XI (XO (XI (XO (XI (XO XH)))))))
| Xac -> Npos (XO (XO (XI (XI (XO (XI (XO XH)))))))
| Xad -> Npos (XI (XO (XI (XI (XO (XI (XO XH)))))))
| Xae -> Npos (XO (XI (XI (XI (XO (XI (XO XH)))))))
| Xaf -> Npos (XI (XI (XI (XI (XO (XI (XO XH)))))))
| Xb0 -> Npos (XO (XO (XO (XO (XI (XI (XO XH)))))))
| Xb1 -> Npos (XI (XO (XO (XO (XI (XI (XO XH)))))))
| Xb2 -> Npos (XO (XI (XO (XO (XI (XI (XO XH)))))))
| Xb3 -> Npos (XI (XI (XO (XO (XI (XI (XO XH)))))))
| Xb4 -> Npos (XO (XO (XI (XO (XI (XI (XO XH)))))))
| Xb5 -> Npos (XI (XO (XI (XO (XI (XI (XO XH)))))))
| Xb6 -> Npos (XO (XI (XI (XO (XI (XI (XO XH)))))))
| Xb7 -> Npos (XI (XI (XI (XO (XI (XI (XO XH)))))))
| Xb8 -> Npos (XO (XO (XO (XI (XI (XI (XO XH)))))))
| Xb9 -> Npos (XI (XO (XO (XI (XI (XI (XO XH)))))))
| Xba -> Npos (XO (XI (XO (XI (XI (XI (XO XH)))))))
| Xbb -> Npos (XI (XI (XO (XI (XI (XI (XO XH)))))))
| Xbc -> Npos (XO (XO (XI (XI (XI (XI (XO XH)))))))
| Xbd -> Npos (XI (XO (XI (XI (XI (XI (XO XH)))))))
| Xbe -> Npos (XO (XI (XI (XI (XI (XI (XO XH)))))))
| Xbf -> Npos (XI (XI (XI (XI (XI (XI (XO XH)))))))
| Xc0 -> Npos (XO (XO (XO (XO (XO (XO (XI XH)))))))
| Xc1 -> Npos (XI (XO (XO (XO (XO (XO (XI XH)))))))
| Xc2 -> Npos (XO (XI (XO (XO (XO (XO (XI XH)))))))
| Xc3 -> Npos (XI (XI (XO (XO (XO (XO (XI XH)))))))
| Xc4 -> Npos (XO (XO (XI (XO (XO (XO (XI XH)))))))
| Xc5 -> Npos (XI (XO (XI (XO (XO (XO (XI XH)))))))
| Xc6 -> Npos (XO (XI (XI (XO (XO (XO (XI XH)))))))
| Xc7 -> Npos (XI (XI (XI (XO (XO (XO (XI XH)))))))
| Xc8 -> Npos (XO (XO (XO (XI (XO (XO (XI XH)))))))
| Xc9 -> Npos (XI (XO (XO (XI (XO (XO (XI XH)))))))
| Xca -> Npos (XO (XI (XO (XI (XO (XO (XI XH)))))))
| Xcb -> Npos (XI (XI (XO (XI (XO (XO (XI XH)))))))
| Xcc -> Npos (XO (XO (XI (XI (XO (XO (XI XH)))))))
| Xcd -> Npos (XI (XO (XI (XI (XO (XO (XI XH)))))))
| Xce -> Npos (XO (XI (XI (XI (XO (XO (XI XH)))))))
| Xcf -> Npos (XI (XI (XI (XI (XO (XO (XI XH)))))))
| Xd0 -> Npos (XO (XO (XO (XO (XI (XO (XI XH)))))))
| Xd1 -> Npos (XI (XO (XO (XO (XI (XO (XI XH)))))))
| Xd2 -> Npos (XO (XI (XO (XO (XI (XO (XI XH)))))))
| Xd3 -> Npos (XI (XI (XO (XO (XI (XO (XI XH)))))))
| Xd4 -> Npos (XO (XO (XI (XO (XI (XO (XI XH)))))))
| Xd5 -> Npos (XI (XO (XI (XO (XI (XO (XI XH)))))))
| Xd6 -> Npos (XO (XI (XI (XO (XI (XO (XI XH)))))))
| Xd7 -> Npos (XI (XI (XI (XO (XI (XO (XI XH)))))))
| Xd8 -> Npos (XO (XO (XO (XI (XI (XO (XI XH)))))))
| Xd9 -> Npos (XI (XO (XO (XI (XI (XO (XI XH)))))))
| Xda -> Npos (XO (XI (XO (XI (XI (XO (XI XH)))))))
| Xdb -> Npos (XI (XI (XO (XI (XI (XO (XI XH)))))))
| Xdc -> Npos (XO (XO (XI (XI (XI (XO (XI XH)))))))
| Xdd -> Npos (XI (XO (XI (XI (XI (XO (XI XH)))))))
| Xde -> Npos (XO (XI (XI (XI (XI (XO (XI XH)))))))
| Xdf -> Npos (XI (XI (XI (XI (XI (XO (XI XH)))))))
| Xe0 -> Npos (XO (XO (XO (XO (XO (XI (XI XH)))))))
| Xe1 -> Npos (XI (XO (XO (XO (XO (XI (XI XH)))))))
| Xe2 -> Npos (XO (XI (XO (XO (XO (XI (XI XH)))))))
| Xe3 -> Npos (XI (XI (XO (XO (XO (XI (XI XH)))))))
| Xe4 -> Npos (XO (XO (XI (XO (XO (XI (XI XH)))))))
| Xe5 -> Npos (XI (XO (XI (XO (XO (XI (XI XH)))))))
| Xe6 -> Npos (XO (XI (XI (XO (XO (XI (XI XH)))))))
| Xe7 -> Npos (XI (XI (XI (XO (XO (XI (XI XH)))))))
| Xe8 -> Npos (XO (XO (XO (XI (XO (XI (XI XH)))))))
| Xe9 -> Npos (XI (XO (XO (XI (XO (XI (XI XH)))))))
| Xea -> Npos (XO (XI (XO (XI (XO (XI (XI XH)))))))
| Xeb -> Npos (XI (XI (XO (XI (XO (XI (XI XH)))))))
| Xec -> Npos (XO (XO (XI (XI (XO (XI (XI XH)))))))
| Xed -> Npos (XI (XO (XI (XI (XO (XI (XI XH)))))))
| Xee -> Npos (XO (XI (XI (XI (XO (XI (XI XH)))))))
| Xef -> Npos (XI (XI (XI (XI (XO (XI (XI XH)))))))
| Xf0 -> Npos (XO (XO (XO (XO (XI (XI (XI XH)))))))
| Xf1 -> Npos (XI (XO (XO (XO (XI (XI (XI XH)))))))
| Xf2 -> Npos (XO (XI (XO (XO (XI (XI (XI XH)))))))
| Xf3 -> Npos (XI (XI (XO (XO (XI (XI (XI XH)))))))
| Xf4 -> Npos (XO (XO (XI (XO (XI (XI (XI XH)))))))
| Xf5 -> Npos (XI (XO (XI (XO (XI (XI (XI XH)))))))
| Xf6 -> Npos (XO (XI (XI (XO (XI (XI (XI XH)))))))
| Xf7 -> Npos (XI (XI (XI (XO (XI (XI (XI XH)))))))
| Xf8 -> Npos (XO (XO (XO (XI (XI (XI (XI XH)))))))
| Xf9 -> Npos (XI (XO (XO (XI (XI (XI (XI XH)))))))
| Xfa -> Npos (XO (XI (XO (XI (XI (XI (XI XH)))))))
| Xfb -> Npos (XI (XI (XO (XI (XI (XI (XI XH)))))))
| Xfc -> Npos (XO (XO (XI (XI (XI (XI (XI XH)))))))
| Xfd -> Npos (XI (XO (XI (XI (XI (XI (XI XH)))))))
| Xfe -> Npos (XO (XI (XI (XI (XI (XI (XI XH)))))))
| Xff -> Npos (XI (XI (XI (XI (XI (XI (XI XH)))))))

(** val of_N0 : n -> byte option **)

let of_N0 = function
| N0 -> Some X00
| Npos p ->
  (match p with
   | XI p0 ->
     (match p0 with
      | XI p1 ->
        (match p1 with
         | XI p2 ->
           (match p2 with
            | XI p3 ->
              (match p3 with
               | XI p4 ->
                 (match p4 with
                  | XI p5 ->
                    (match p5 with
                     | XI p6 -> (match p6 with
                                 | XH -> Some Xff
                                 | _ -> None)
                     | XO p6 -> (match p6 with
                                 | XH -> Some Xbf
                                 | _ -> None)
                     | XH -> Some X7f)
                  | XO p5 ->
                    (match p5 with
                     | XI p6 -> (match p6 with
                                 | XH -> Some Xdf
                                 | _ -> None)
                     | XO p6 -> (match p6 with
                                 | XH -> Some X9f
                                 | _ -> None)
                     | XH -> Some X5f)
                  | XH -> Some X3f)
               | XO p4 ->
                 (match p4 with
                  | XI p5 ->
                    (match p5 with
                     | XI p6 -> (match p6 with
                                 | XH -> Some Xef
                                 | _ -> None)
                     | XO p6 -> (match p6 with
                                 | XH -> Some Xaf
                                 | _ -> None)
                     | XH -> Some X6f)
                  | XO p5 ->
                    (match p5 with
                     | XI p6 -> (match p6 with
                                 | XH -> Some Xcf
                                 | _ -> None)
                     | XO p6 -> (match p6 with
                                 | XH -> Some X8f
                                 | _ -> None)
                     | XH -> Some X4f)
                  | XH -> Some X2f)
               | XH -> Some X1f)
            | XO p3 ->
              (match p3 with
               | XI p4 ->
                 (match p4 with
                  | XI p5 ->
                    (match p5 with
                     | XI p6 -> (match p6 with
                                 | XH -> Some Xf7
                                 | _ -> None)
                     | XO p6 -> (match p6 with
                                 | XH -> Some Xb7
                                 | _ -> None)
                     | XH -> Some X77)
                  | XO p5 ->
                    (match p5 with
                     | XI p6 -> (match p6 with
                                 | XH -> Some Xd7
                                 | _ -> None)
                     | XO p6 -> (match p6 with
                                 | XH -> Some X97
                                 | _ -> None)
                     | XH -> Some X57)
                  | XH -> Some X37)
               | XO p4 ->
                 (match p4 with
                  | XI p5 ->
                    (match p5 with
                     | XI p6 -> (match p6 with
                                 | XH -> Some Xe7
                                 | _ -> None)
                     | XO p6 -> (match p6 with
                                 | XH -> Some Xa7
                                 | _ -> None)
                     | XH -> Some X67)
                  | XO p5 ->
                    (match p5 with
                     | XI p6 -> (match p6 with
                                 | XH -> Some Xc7
                                 | _ -> None)
                     | XO p6 -> (match p6 with
                                 | XH -> Some X87
                                 | _ -> None)
                     | XH -> Some X47)
                  | XH -> Some X27)
               | XH -> Some X17)
            | XH -> Some X0f)
         | XO p2 ->
           (match p2 with
            | XI p3 ->
              (match p3 with
               | XI p4 ->
                 (match p4 with
                  | XI p5 ->
                    (match p5 with
                     | XI p6 -> (match p6 with
                                 | XH -> Some Xfb
                                 | _ -> None)
                     | XO p6 -> (match p6 with
                                 | XH -> Some Xbb
                                 | _ -> None)
                     | XH -> Some X7b)
                  | XO p5 ->
                    (match p5 with
                     | XI p6 -> (match p6 with
                                 | XH -> Some Xdb
                                 | _ -> None)
                     | XO p6 -> (match p6 with
                                 | XH -> Some X9b
                                 | _ -> None)
                     | XH -> Some X5b)
                  | XH -> Some X3b)
               | XO p4 ->
                 (match p4 with
                  | XI p5 ->
                    (match p5 with
                     | XI p6 -> (match p6 with
                                 | XH -> Some Xeb
                                 | _ -> None)
                     | XO p6 -> (match p6 with
                                 | XH -> Some Xab
                                 | _ -> None)
                     | XH -> Some X6b)
                  | XO p5 ->
                    (match p5 with
                     | XI p6 -> (match p6 with
                                 | XH -> Some Xcb
                                 | _ -> None)
                     | XO p6 -> (match p6 with
                                 | XH -> Some X8b
                                 | _ -> None)
                     | XH -> Some X4b)
                  | XH -> Some X2b)
               | XH -> Some X1b)
            | XO p3 ->
              (match p3 with
               | XI p4 ->
                 (match p4 with
                  | XI p5 ->
                    (match p5 with
                     | XI p6 -> (match p6 with
                                 | XH -> Some Xf3
                                 | _ -> None)
                     | XO p6 -> (match p6 with
                                 | XH -> Some Xb3
                                 | _ -> None)
                     | XH -> Some X73)
                  | XO p5 ->
                    (match p5 with
                     | XI p6 -> (match p6 with
                                 | XH -> Some Xd3
                                 | _ -> None)
                     | XO p6 -> (match p6 with
                                 | XH -> Some X93
                                 | _ -> None)
                     | XH -> Some X53)
                  | XH -> Some X33)
               | XO p4 ->
                 (match p4 with
                  | XI p5 ->
                    (match p5 with
                     | XI p6 -> (match p6 with
                                 | XH -> Some Xe3
                                 | _ -> None)
                     | XO p6 -> (match p6 with
                                 | XH -> Some Xa3
                                 | _ -> None)
                     | XH -> Some X63)
                  | XO p5 ->
                    (match p5 with
                     | XI p6 -> (match p6 with
                                 | XH -> Some Xc3
                                 | _ -> None)
                     | XO p6 -> (match p6 with
                                 | XH -> Some X83
                                 | _ -> None)
                     | XH -> Some X43)
                  | XH -> Some X23)
               | XH -> Some X13)
            | XH -> Some X0b)
         | XH -> Some X07)
      | XO p1 ->
        (match p1 with
         | XI p2 ->
           (match p2 with
            | XI p3 ->
              (match p3 with
               | XI p4 ->
                 (match p4 with
                  | XI p5 ->
                    (match p5 with
                     | XI p6 -> (match p6 with
                                 | XH -> Some Xfd
                                 | _ -> None)
                     | XO p6 -> (match p6 with
                                 | XH -> Some Xbd
                                 | _ -> None)
                     | XH -> Some X7d)
                  | XO p5 ->
                    (match p5 with
                     | XI p6 -> (match p6 with
                                 | XH -> Some Xdd
                                 | _ -> None)
                     | XO p6 -> (match p6 with
                                 | XH -> Some X9d
                                 | _ -> None)
                     | XH -> Some X5d)
                  | XH -> Some X3d)
               | XO p4 ->
                 (match p4 with
                  | XI p5 ->
                    (match p5 with
                     | XI p6 -> (match p6 with
                                 | XH -> Some Xed
                                 | _ -> None)
                     | XO p6 -> (match p6 with
                                 | XH -> Some Xad
                                 | _ -> None)
                     | XH -> Some X6d)
                  | XO p5 ->
                    (match p5 with
                     | XI p6 -> (match p6 with
                                 | XH -> Some Xcd
                                 | _ -> None)
                     | XO p6 -> (match p6 with
                                 | XH -> Some X8d
                                 | _ -> None)
                     | XH -> Some X4d)
                  | XH -> Some X2d)
               | XH -> Some X1d)
            | XO p3 ->
              (match p3 with
               | XI p4 ->
                 (match p4 with
                  | XI p5 ->
                    (match p5 with
                     | XI p6 -> (match p6 with
                                 | XH -> Some Xf5
                                 | _ -> None)
                     | XO p6 -> (match p6 with
                                 | XH -> Some Xb5
                                 | _ -> None)
                     | XH -> Some X75)
                  | XO p5 ->
                    (match p5 with
                     | XI p6 -> (match p6 with
                                 | XH -> Some Xd5
                                 | _ -> None)
                     | XO p6 -> (match p6 with
                                 | XH -> Some X95
                                 | _ -> None)
                     | XH -> Some X55)
                  | XH -> Some X35)
               | XO p4 ->
                 (match p4 with
                  | XI p5 ->
                    (match p5 with
                     | XI p6 -> (match p6 with
                                 | XH -> Some Xe5
                                 | _ -> None)
                     | XO p6 -> (match p6 with
                                 | XH -> Some Xa5
                                 | _ -> None)
                     | XH -> Some X65)
                  | XO p5 ->
                    (match p5 with
                     | XI p6 -> (match p6 with
                                 | XH -> Some Xc5
                                 | _ -> None)
                     | XO p6 -> (match p6 with
                                 | XH -> Some X85
                                 | _ -> None)
                     | XH -> Some X45)
                  | XH -> Some X25)
               | XH -> Some X15)
            | XH -> Some X0d)
         | XO p2 ->
           (match p2 with
            | XI p3 ->
              (match p3 with
               | XI p4 ->
                 (match p4 with
                  | XI p5 ->
                    (match p5 with
                     | XI p6 -> (match p6 with
                                 | XH -> Some Xf9
                                 | _ -> None)
                     | XO p6 -> (match p6 with
                                 | XH -> Some Xb9
                                 | _ -> None)
                     | XH -> Some X79)
                  | XO p5 ->
                    (match p5 with
                     | XI p6 -> (match p6 with
                                 | XH -> Some Xd9
                                 | _ -> None)
                     | XO p6 -> (match p6 with
                                 | XH -> Some X99
                                 | _ -> None)
                     | XH -> Some X59)
                  | XH -> Some X39)
               | XO p4 ->
                 (match p4 with
                  | XI p5 ->
                    (match p5 with
                     | XI p6 -> (match p6 with
                                 | XH -> Some Xe9
                                 | _ -> None)
                     | XO p6 -> (match p6 with
                                 | XH -> Some Xa9
                                 | _ -> None)
                     | XH -> Some X69)
                  | XO p5 ->
                    (match p5 with
                     | XI p6 -> (match p6 with
                                 | XH -> Some Xc9
                                 | _ -> None)
                     | XO p6 -> (match p6 with
                                 | XH -> Some X89
                                 | _ -> None)
                     | XH -> Some X49)
                  | XH -> Some X29)
               | XH -> Some X19)
            | XO p3 ->
              (match p3 with
               | XI p4 ->
                 (match p4 with
                  | XI p5 ->
                    (match p5 with
                     | XI p6 -> (match p6 with
                                 | XH -> Some Xf1
                                 | _ -> None)
                     | XO p6 -> (match p6 with
                                 | XH -> Some Xb1
                                 | _ -> None)
                     | XH -> Some X71)
                  | XO p5 ->
                    (match p5 with
                     | XI p6 -> (match p6 with
                                 | XH -> Some Xd1
                                 | _ -> None)
                     | XO p6 -> (match p6 with
                                 | XH -> Some X91
                                 | _ -> None)
                     | XH -> Some X51)
                  | XH -> Some X31)
               | XO p4 ->
                 (match p4 with
                  | XI p5 ->
                    (match p5 with
                     | XI p6 -> (match p6 with
                                 | XH -> Some Xe1
                                 | _ -> None)
                     | XO p6 -> (match p6 with
                                 | XH -> Some Xa1
                                 | _ -> None)
                     | XH -> Some X61)
                  | XO p5 ->
                    (match p5 with
                     | XI p6 -> (match p6 with
                                 | XH -> Some Xc1
                                 | _ -> None)
                     | XO p6 -> (match p6 with
                                 | XH -> Some X81
                                 | _ -> None)
                     | XH -> Some X41)
                  | XH -> Some X21)
               | XH -> Some X11)
            | XH -> Some X09)
         | XH -> Some X05)
      | XH -> Some X03)
   | XO p0 ->
     (match p0 with
      | XI p1 ->
        (match p1 with
         | XI p2 ->
           (match p2 with
            | XI p3 ->
              (match p3 with
               | XI p4 ->
                 (match p4 with
                  | XI p5 ->
                    (match p5 with
                     | XI p6 -> (match p6 with
                                 | XH -> Some Xfe
                                 | _ -> None)
                     | XO p6 -> (match p6 with
                                 | XH -> Some Xbe
                                 | _ -> None)
                     | XH -> Some X7e)
                  | XO p5 ->
                    (match p5 with
                     | XI p6 -> (match p6 with
                                 | XH -> Some Xde
                                 | _ -> None)
                     | XO p6 -> (match p6 with
                                 | XH -> Some X9e
                                 | _ -> None)
                     | XH -> Some X5e)
                  | XH -> Some X3e)
               | XO p4 ->
                 (match p4 with
                  | XI p5 ->
                    (match p5 with
                     | XI p6 -> (match p6 with
                                 | XH -> Some Xee
                                 | _ -> None)
                     | XO p6 -> (match p6 with
                                 | XH -> Some Xae
                                 | _ -> None)
                     | XH -> Some X6e)
                  | XO p5 ->
                    (match p5 with
                     | XI p6 -> (match p6 with
                                 | XH -> Some Xce
                                 | _ -> None)
                     | XO p6 -> (match p6 with
                                 | XH -> Some X8e
                                 | _ -> None)
                     | XH -> Some X4e)
                  | XH -> Some X2e)
               | XH -> Some X1e)
            | XO p3 ->
              (match p3 with
               | XI p4 ->
                 (match p4 with
                  | XI p5 ->
                    (match p5 with
                     | XI p6 -> (match p6 with
                                 | XH -> Some Xf6
                                 | _ -> None)
                     | XO p6 -> (match p6 with
                                 | XH -> Some Xb6
                                 | _ -> None)
                     | XH -> Some X76)
                  | XO p5 ->
                    (match p5 with
                     | XI p6 -> (match p6 with
                                 | XH -> Some Xd6
                                 | _ -> None)
                     | XO p6 -> (match p6 with
                                 | XH -> Some X96
                                 | _ -> None)
                     | XH -> Some X56)
                  | XH -> Some X36)
               | XO p4 ->
                 (match p4 with
                  | XI p5 ->
                    (match p5 with
                     | XI p6 -> (match p6 with
                                 | XH -> Some Xe6
                                 | _ -> None)
                     | XO p6 -> (match p6 with
                                 | XH -> Some Xa6
                                 | _ -> None)
                     | XH -> Some X66)
                  | XO p5 ->
                    (match p5 with
                     | XI p6 -> (match p6 with
                                 | XH -> Some Xc6
                                 | _ -> None)
                     | XO p6 -> (match p6 with
                                 | XH -> Some X86
                                 | _ -> None)
                     | XH -> Some X46)
                  | XH -> Some X26)
               | XH -> Some X16)
            | XH -> Some X0e)
         | XO p2 ->
           (match p2 with
            | XI p3 ->
              (match p3 with
               | XI p4 ->
                 (match p4 with
                  | XI p5 ->
                    (match p5 with
                     | XI p6 -> (match p6 with
                                 | XH -> Some Xfa
                                 | _ -> None)
                     | XO p6 -> (match p6 with
                                 | XH -> Some Xba
                                 | _ -> None)
                     | XH -> Some X7a)
                  | XO p5 ->
                    (match p5 with
                     | XI p6 -> (match p6 with
                                 | XH -> Some Xda
                                 | _ -> None)
                     | XO p6 -> (match p6 with
                                 | XH -> Some X9a
                                 | _ -> None)
                     | XH -> Some X5a)
                  | XH -> Some X3a)
               | XO p4 ->
                 (match p4 with
                  | XI p5 ->
                    (match p5 with
                     | XI p6 -> (match p6 with
                                 | XH -> Some Xea
                                 | _ -> None)
                     | XO p6 -> (match p6 with
                                 | XH -> Some Xaa
                                 | _ -> None)
                     | XH -> Some X6a)
                  | XO p5 ->
                    (match p5 with
                     | XI p6 -> (match p6 with
                                 | XH -> Some Xca
                                 | _ -> None)
                     | XO p6 -> (match p6 with
                                 | XH -> Some X8a
                                 | _ -> None)
                     | XH -> Some X4a)
                  | XH -> Some X2a)
               | XH -> Some X1a)
            | XO p3 ->
              (match p3 with
               | XI p4 ->
                 (match p4 with
                  | XI p5 ->
                    (match p5 with
                     | XI p6 -> (match p6 with
                                 | XH -> Some Xf2
                                 | _ -> None)
                     | XO p6 -> (match p6 with
                                 | XH -> Some Xb2
                                 | _ -> None)
                     | XH -> Some X72)
                  | XO p5 ->
                    (match p5 with
                     | XI p6 -> (match p6 with
                                 | XH -> Some Xd2
                                 | _ -> None)
                     | XO p6 -> (match p6 with
                                 | XH -> Some X92
                                 | _ -> None)
                     | XH -> Some X52)
                  | XH -> Some X32)
               | XO p4 ->
                 (match p4 with
                  | XI p5 ->
                    (match p5 with
                     | XI p6 -> (match p6 with
                                 | XH -> Some Xe2
                                 | _ -> None)
                     | XO p6 -> (match p6 with
                                 | XH -> Some Xa2
                                 | _ -> None)
                     | XH -> Some X62)
                  | XO p5 ->
                    (match p5 with
                     | XI p6 -> (match p6 with
                                 | XH -> Some Xc2
                                 | _ -> None)
                     | XO p6 -> (match p6 with
                                 | XH -> Some X82
                                 | _ -> None)
                     | XH -> Some X42)
                  | XH -> Some X22)
               | XH -> Some X12)
            | XH -> Some X0a)
         | XH -> Some X06)
      | XO p1 ->
        (match p1 with
         | XI p2 ->
           (match p2 with
            | XI p3 ->
              (match p3 with
               | XI p4 ->
                 (match p4 with
                  | XI p5 ->
                    (match p5 with
                     | XI p6 -> (match p6 with
                                 | XH -> Some Xfc
                                 | _ -> None)
                     | XO p6 -> (match p6 with
                                 | XH -> Some Xbc
                                 | _ -> None)
                     | XH -> Some X7c)
                  | XO p5 ->
                    (match p5 with
                     | XI p6 -> (match p6 with
                                 | XH -> Some Xdc
                                 | _ -> None)
                     | XO p6 -> (match p6 with
                                 | XH -> Some X9c
                                 | _ -> None)
                     | XH -> Some X5c)
                  | XH -> Some X3c)
               | XO p4 ->
                 (match p4 with
                  | XI p5 ->
                    (match p5 with
                     | XI p6 -> (match p6 with
                                 | XH -> Some Xec
                                 | _ -> None)
                     | XO p6 -> (match p6 with
                                 | XH -> Some Xac
                                 | _ -> None)
                     | XH -> Some X6c)
                  | XO p5 ->
                    (match p5 with
                     | XI p6 -> (match p6 with
                                 | XH -> Some Xcc
                                 | _ -> None)
                     | XO p6 -> (match p6 with
                                 | XH -> Some X8c
                                 | _ -> None)
                     | XH -> Some X4c)
                  | XH -> Some X2c)
               | XH -> Some X1c)
            | XO p3 ->
              (match p3 with
               | XI p4 ->
                 (match p4 with
                  | XI p5 ->
                    (match p5 with
                     | XI p6 -> (match p6 with
                                 | XH -> Some Xf4
                                 | _ -> None)
                     | XO p6 -> (match p6 with
                                 | XH -> Some Xb4
                                 | _ -> None)
                     | XH -> Some X74)
                  | XO p5 ->
                    (match p5 with
                     | XI p6 -> (match p6 with
                                 | XH -> Some Xd4
                                 | _ -> None)
                     | XO p6 -> (match p6 with
                                 | XH -> Some X94
                                 | _ -> None)
                     | XH -> Some X54)
                  | XH -> Some X34)
               | XO p4 ->
                 (match p4 with
                  | XI p5 ->
                    (match p5 with
                     | XI p6 -> (match p6 with
                                 | XH -> Some Xe4
                                 | _ -> None)
                     | XO p6 -> (match p6 with
                                 | XH -> Some Xa4
                                 | _ -> None)
                     | XH -> Some X64)
                  | XO p5 ->
                    (match p5 with
                     | XI p6 -> (match p6 with
                                 | XH -> Some Xc4
                                 | _ -> None)
                     | XO p6 -> (match p6 with
                                 | XH -> Some X84
                                 | _ -> None)
                     | XH -> Some X44)
                  | XH -> Some X24)
               | XH -> Some X14)
            | XH -> Some X0c)
         | XO p2 ->
           (match p2 with
            | XI p3 ->
              (match p3 with
               | XI p4 ->
                 (match p4 with
                  | XI p5 ->
                    (match p5 with
                     | XI p6 -> (match p6 with
                                 | XH -> Some Xf8
                                 | _ -> None)
                     | XO p6 -> (match p6 with
                                 | XH -> Some Xb8
                                 | _ -> None)
                     | XH -> Some X78)
                  | XO p5 ->
                    (match p5 with
                     | XI p6 -> (match p6 with
                                 | XH -> Some Xd8
                                 | _ -> None)
                     | XO p6 -> (match p6 with
                                 | XH -> Some X98
                                 | _ -> None)
                     | XH -> Some X58)
                  | XH -> Some X38)
               | XO p4 ->
                 (match p4 with
                  | XI p5 ->
                    (match p5 with
                     | XI p6 -> (match p6 with
                                 | XH -> Some Xe8
                                 | _ -> None)
                     | XO p6 -> (match p6 with
                                 | XH -> Some Xa8
                                 | _ -> None)
                     | XH -> Some X68)
                  | XO p5 ->
                    (match p5 with
                     | XI p6 -> (match p6 with
                                 | XH -> Some Xc8
                                 | _ -> None)
                     | XO p6 -> (match p6 with
                                 | XH -> Some X88
                                 | _ -> None)
                     | XH -> Some X48)
                  | XH -> Some X28)
               | XH -> Some X18)
            | XO p3 ->
              (match p3 with
               | XI p4 ->
                 (match p4 with
                  | XI p5 ->
                    (match p5 with
                     | XI p6 -> (match p6 with
                                 | XH -> Some Xf0
                                 | _ -> None)
                     | XO p6 -> (match p6 with
                                 | XH -> Some Xb0
                                 | _ -> None)
                     | XH -> Some X70)
                  | XO p5 ->
                    (match p5 with
                     | XI p6 -> (match p6 with
                                 | XH -> Some Xd0
                                 | _ -> None)
                     | XO p6 -> (match p6 with
                                 | XH -> Some X90
                                 | _ -> None)
                     | XH -> Some X50)
                  | XH -> Some X30)
               | XO p4 ->
                 (match p4 with
                  | XI p5 ->
                    (match p5 with
                     | XI p6 -> (match p6 with
                                 | XH -> Some Xe0
                                 | _ -> None)
                     | XO p6 -> (match p6 with
                                 | XH -> Some Xa0
                                 | _ -> None)
                     | XH -> Some X60)
                  | XO p5 ->
                    (match p5 with
                     | XI p6 -> (match p6 with
                                 | XH -> Some Xc0
                                 | _ -> None)
                     | XO p6 -> (match p6 with
                                 | XH -> Some X80
                                 | _ -> None)
                     | XH -> Some X40)
                  | XH -> Some X20)
               | XH -> Some X10)
            | XH -> Some X08)
         | XH -> Some X04)
      | XH -> Some X02)
   | XH -> Some X01)

(** val byte_of_N : n -> byte **)

let byte_of_N n0 =
  match of_N0 (N.modulo n0 (Npos (XO (XO (XO (XO (XO (XO (XO (XO XH)))))))))) with
  | Some b -> b
  | None -> X00

type bytes = byte list

(** val be_encode : nat -> n -> bytes **)

let rec be_encode w n0 =
  match w with
  | O -> []
  | S w' ->
    app
      (be_encode w'
        (N.div n0 (Npos (XO (XO (XO (XO (XO (XO (XO (XO XH)))))))))))
      ((byte_of_N n0) :: [])

(** val be_decode : bytes -> n **)

let be_decode bs =
  fold_left (fun acc b ->
    N.add (N.mul acc (Npos (XO (XO (XO (XO (XO (XO (XO (XO XH))))))))))
      (to_N0 b)) bs N0

(** val in_range : bool -> n -> z -> bool **)

let in_range signed bits z0 =
  if signed
  then (&&)
         (Z.leb
           (Z.opp (Z.of_N (N.div (N.pow (Npos (XO XH)) bits) (Npos (XO XH)))))
           z0)
         (Z.leb z0
           (Z.sub (Z.of_N (N.div (N.pow (Npos (XO XH)) bits) (Npos (XO XH))))
             (Zpos XH)))
  else (&&) (Z.leb Z0 z0)
         (Z.leb z0 (Z.sub (Z.of_N (N.pow (Npos (XO XH)) bits)) (Zpos XH)))

(** val pattern : n -> z -> n **)

let pattern bits z0 =
  Z.to_N (Z.modulo z0 (Z.of_N (N.pow (Npos (XO XH)) bits)))

(** val unpattern : bool -> n -> n -> z **)

let unpattern signed bits n0 =
  if (&&) signed (N.leb (N.div (N.pow (Npos (XO XH)) bits) (Npos (XO XH))) n0)
  then Z.sub (Z.of_N n0) (Z.of_N (N.pow (Npos (XO XH)) bits))
  else Z.of_N n0

(** val integer2bytes : z -> nat -> bool -> bytes option **)

let integer2bytes z0 w signed =
  match w with
  | O -> None
  | S _ ->
    if in_range signed (N.mul (Npos (XO (XO (XO XH)))) (N.of_nat w)) z0
    then Some
           (be_encode w
             (pattern (N.mul (Npos (XO (XO (XO XH)))) (N.of_nat w)) z0))
    else None

(** val bytes2integer : bytes -> bool -> z option **)

let bytes2integer bs signed =
  match bs with
  | [] -> None
  | _ :: _ ->
    Some
      (unpattern signed
        (N.mul (Npos (XO (XO (XO XH)))) (N.of_nat (length bs)))
        (be_decode bs))

(** val bit_of_bool : bool -> byte **)

let bit_of_bool = function
| true -> X01
| false -> X00

(** val bits_of_N : nat -> n -> bytes **)

let rec bits_of_N w n0 =
  match w with
  | O -> []
  | S w' ->
    app (bits_of_N w' (N.div n0 (Npos (XO XH))))
      ((bit_of_bool (N.odd n0)) :: [])

(** val integer2bits : z -> nat -> bool -> bytes option **)

let integer2bits z0 w signed =
  match w with
  | O -> None
  | S _ ->
    if in_range signed (N.of_nat w) z0
    then Some (bits_of_N w (pattern (N.of_nat w) z0))
    else None

(** val bits_fold : bytes -> n **)

let bits_fold bs =
  fold_left (fun acc b -> N.coq_lor (N.mul acc (Npos (XO XH))) (to_N0 b)) bs
    N0

(** val bits2integer : bytes -> bool -> z option **)

let bits2integer bs signed =
  match bs with
  | [] -> None
  | b0 :: _ ->
    let n0 = bits_fold bs in
    if (&&) signed (negb (N.eqb (to_N0 b0) N0))
    then Some
           (Z.sub (Z.of_N n0)
             (Z.of_N (N.pow (Npos (XO XH)) (N.of_nat (length bs)))))
    else Some (Z.of_N n0)

(** val bytes2bits : bytes -> bytes **)

let bytes2bits bs =
  flat_map (fun b -> bits_of_N (S (S (S (S (S (S (S (S O)))))))) (to_N0 b)) bs

(** val is_bit : byte -> bool **)

let is_bit = function
| X00 -> true
| X01 -> true
| _ -> false

type b2b_result =
| B2BOk of bytes
| B2BLen
| B2BKey

(** val chunks8 : nat -> bytes -> bytes list **)

let rec chunks8 fuel bs =
  match fuel with
  | O -> []
  | S f ->
    (match bs with
     | [] -> []
     | _ :: _ ->
       (firstn (S (S (S (S (S (S (S (S O)))))))) bs) :: (chunks8 f
                                                          (skipn (S (S (S (S
                                                            (S (S (S (S
                                                            O)))))))) bs)))

(** val bits2bytes : bytes -> b2b_result **)

let bits2bytes bs =
  if negb
       (Nat.eqb (Nat.modulo (length bs) (S (S (S (S (S (S (S (S O))))))))) O)
  then B2BLen
  else if forallb is_bit bs
       then B2BOk
              (map (fun ch -> byte_of_N (bits_fold ch))
                (chunks8 (length bs) bs))
       else B2BKey

(** val swapbytes : bytes -> bytes **)

let swapbytes =
  rev

(** val swapbytesinbits : bytes -> bytes option **)

let swapbytesinbits bs =
  if negb
       (Nat.eqb (Nat.modulo (length bs) (S (S (S (S (S (S (S (S O))))))))) O)
  then None
  else Some (concat (rev (chunks8 (length bs) bs)))

(** val bitrev8 : byte -> byte **)

let bitrev8 b =
  byte_of_N
    (bits_fold (rev (bits_of_N (S (S (S (S (S (S (S (S O)))))))) (to_N0 b))))

(** val swapbitsinbytes : bytes -> bytes **)

let swapbitsinbytes bs =
  map bitrev8 bs

(** val varint_enc_fuel : nat -> n -> bytes **)

let rec varint_enc_fuel fuel x =
  match fuel with
  | O -> (byte_of_N x) :: []
  | S f ->
    if N.ltb (Npos (XI (XI (XI (XI (XI (XI XH))))))) x
    then (byte_of_N
           (N.add (Npos (XO (XO (XO (XO (XO (XO (XO XH))))))))
             (N.modulo x (Npos (XO (XO (XO (XO (XO (XO (XO XH))))))))))) :: 
           (varint_enc_fuel f
             (N.div x (Npos (XO (XO (XO (XO (XO (XO (XO XH))))))))))
    else (byte_of_N x) :: []

(** val varint_encode : n -> bytes **)

let varint_encode x =
  varint_enc_fuel (N.to_nat (N.size x)) x

(** val zigzag_enc : z -> n **)

let zigzag_enc z0 =
  if Z.leb Z0 z0
  then Z.to_N (Z.mul (Zpos (XO XH)) z0)
  else Z.to_N (Z.sub (Z.mul (Zpos (XO XH)) (Z.abs z0)) (Zpos XH))

(** val zigzag_dec : n -> z **)

let zigzag_dec n0 =
  if N.even n0
  then Z.of_N (N.div n0 (Npos (XO XH)))
  else Z.opp (Z.add (Z.of_N (N.div n0 (Npos (XO XH)))) (Zpos XH))

(** val xor_byte : byte -> byte -> byte **)

let xor_byte a b =
  byte_of_N (N.coq_lxor (to_N0 a) (to_N0 b))

(** val xor_cycle_aux : bytes -> bytes -> bytes -> bytes **)

let rec xor_cycle_aux key0 cur = function
| [] -> []
| d :: t ->
  (match cur with
   | [] ->
     (match key0 with
      | [] -> []
      | k :: cur' -> (xor_byte d k) :: (xor_cycle_aux key0 cur' t))
   | k :: cur' -> (xor_byte d k) :: (xor_cycle_aux key0 cur' t))

(** val xor_cycle : bytes -> bytes -> bytes **)

let xor_cycle key0 data =
  xor_cycle_aux key0 key0 data

(** val rotl8 : n -> byte -> byte **)

let rotl8 a b =
  let i = to_N0 b in
  byte_of_N
    (N.coq_lor
      (N.coq_land (N.shiftl i a) (Npos (XI (XI (XI (XI (XI (XI (XI XH)))))))))
      (N.shiftr i (N.sub (Npos (XO (XO (XO XH)))) a)))

(** val nth_byte : bytes -> nat -> byte **)

let nth_byte bs i =
  nth i bs X00

(** val rot_group : n -> bytes -> bytes **)

let rot_group amount g =
  let g0 = length g in
  let ab = N.to_nat (N.div amount (Npos (XO (XO (XO XH))))) in
  let a1 = N.modulo amount (Npos (XO (XO (XO XH)))) in
  if N.eqb amount N0
  then g
  else if Nat.eqb g0 (S O)
       then map (rotl8 amount) g
       else if N.eqb a1 N0
            then map (fun i -> nth_byte g (Nat.modulo (add i ab) g0))
                   (seq O g0)
            else map (fun i ->
                   let x = to_N0 (nth_byte g (Nat.modulo (add i ab) g0)) in
                   let y =
                     to_N0 (nth_byte g (Nat.modulo (add (add i (S O)) ab) g0))
                   in
                   byte_of_N
                     (N.coq_lor
                       (N.coq_land (N.shiftl x a1) (Npos (XI (XI (XI (XI (XI
                         (XI (XI XH)))))))))
                       (N.shiftr y (N.sub (Npos (XO (XO (XO XH)))) a1))))
                   (seq O g0)

(** val chunksn : nat -> nat -> bytes -> bytes list **)

let rec chunksn n0 fuel bs =
  match fuel with
  | O -> []
  | S f ->
    (match bs with
     | [] -> []
     | _ :: _ -> (firstn n0 bs) :: (chunksn n0 f (skipn n0 bs)))

(** val rotate_left : n -> nat -> bytes -> bytes option **)

let rotate_left amount group data =
  match group with
  | O -> None
  | S _ ->
    if negb (Nat.eqb (Nat.modulo (length data) group) O)
    then None
    else Some
           (concat
             (map (rot_group amount) (chunksn group (length data) data)))

type name = byte list

(** val bytes_eqb : bytes -> bytes -> bool **)

let rec bytes_eqb a b =
  match a with
  | [] -> (match b with
           | [] -> true
           | _ :: _ -> false)
  | x :: a' ->
    (match b with
     | [] -> false
     | y :: b' -> (&&) (eqb0 x y) (bytes_eqb a' b'))

(** val name_eqb : bytes -> bytes -> bool **)

let name_eqb =
  bytes_eqb

type val0 =
| VNone
| VBool of bool
| VInt of z
| VFloat of n
| VBytes of bytes
| VStr of n list
| VList of val0 list
| VDict of (name * val0) list
| VEnum of name * z

type err =
| EStream
| EFormatField
| EInteger
| EString
| EMapping
| ERange
| ERepeat
| EConst
| EIndexField
| ECheck
| EExplicit
| EUnion
| ESelect
| ESwitch
| EStopField
| EPadding
| ETerminated
| ERawCopy
| ERotation
| EChecksum
| ESizeof
| EValidation
| EAdaptation
| ECancel
| EConstruct
| EKey
| EType
| EAttr
| EValue
| EIndexErr
| EZeroDiv
| EOverflow
| EForeign
| EDiverge
| EUnsupported

(** val is_construct_error : err -> bool **)

let is_construct_error = function
| EKey -> false
| EType -> false
| EAttr -> false
| EValue -> false
| EIndexErr -> false
| EZeroDiv -> false
| EOverflow -> false
| EForeign -> false
| EDiverge -> false
| EUnsupported -> false
| _ -> true

(** val err_eqb : err -> err -> bool **)

let err_eqb a b =
  match a with
  | EStream -> (match b with
                | EStream -> true
                | _ -> false)
  | EFormatField -> (match b with
                     | EFormatField -> true
                     | _ -> false)
  | EInteger -> (match b with
                 | EInteger -> true
                 | _ -> false)
  | EString -> (match b with
                | EString -> true
                | _ -> false)
  | EMapping -> (match b with
                 | EMapping -> true
                 | _ -> false)
  | ERange -> (match b with
               | ERange -> true
               | _ -> false)
  | ERepeat -> (match b with
                | ERepeat -> true
                | _ -> false)
  | EConst -> (match b with
               | EConst -> true
               | _ -> false)
  | EIndexField -> (match b with
                    | EIndexField -> true
                    | _ -> false)
  | ECheck -> (match b with
               | ECheck -> true
               | _ -> false)
  | EExplicit -> (match b with
                  | EExplicit -> true
                  | _ -> false)
  | EUnion -> (match b with
               | EUnion -> true
               | _ -> false)
  | ESelect -> (match b with
                | ESelect -> true
                | _ -> false)
  | ESwitch -> (match b with
                | ESwitch -> true
                | _ -> false)
  | EStopField -> (match b with
                   | EStopField -> true
                   | _ -> false)
  | EPadding -> (match b with
                 | EPadding -> true
                 | _ -> false)
  | ETerminated -> (match b with
                    | ETerminated -> true
                    | _ -> false)
  | ERawCopy -> (match b with
                 | ERawCopy -> true
                 | _ -> false)
  | ERotation -> (match b with
                  | ERotation -> true
                  | _ -> false)
  | EChecksum -> (match b with
                  | EChecksum -> true
                  | _ -> false)
  | ESizeof -> (match b with
                | ESizeof -> true
                | _ -> false)
  | EValidation -> (match b with
                    | EValidation -> true
                    | _ -> false)
  | EAdaptation -> (match b with
                    | EAdaptation -> true
                    | _ -> false)
  | ECancel -> (match b with
                | ECancel -> true
                | _ -> false)
  | EConstruct -> (match b with
                   | EConstruct -> true
                   | _ -> false)
  | EKey -> (match b with
             | EKey -> true
             | _ -> false)
  | EType -> (match b with
              | EType -> true
              | _ -> false)
  | EAttr -> (match b with
              | EAttr -> true
              | _ -> false)
  | EValue -> (match b with
               | EValue -> true
               | _ -> false)
  | EIndexErr -> (match b with
                  | EIndexErr -> true
                  | _ -> false)
  | EZeroDiv -> (match b with
                 | EZeroDiv -> true
                 | _ -> false)
  | EOverflow -> (match b with
                  | EOverflow -> true
                  | _ -> false)
  | EForeign -> (match b with
                 | EForeign -> true
                 | _ -> false)
  | EDiverge -> (match b with
                 | EDiverge -> true
                 | _ -> false)
  | EUnsupported -> (match b with
                     | EUnsupported -> true
                     | _ -> false)

type path = name list

type 'a res =
| Ok of 'a
| Err of err * path option

(** val bind : 'a1 res -> ('a1 -> 'a2 res) -> 'a2 res **)

let bind x f =
  match x with
  | Ok a -> f a
  | Err (e, p) -> Err (e, p)

(** val raise : err -> path -> 'a1 res **)

let raise e p =
  Err (e, (Some p))

(** val unsupported : 'a1 res **)

let unsupported =
  Err (EUnsupported, None)

(** val list_eqb : ('a1 -> 'a1 -> bool) -> 'a1 list -> 'a1 list -> bool **)

let rec list_eqb eqb1 a b =
  match a with
  | [] -> (match b with
           | [] -> true
           | _ :: _ -> false)
  | x :: a' ->
    (match b with
     | [] -> false
     | y :: b' -> (&&) (eqb1 x y) (list_eqb eqb1 a' b'))

(** val lookup : name -> (name * val0) list -> val0 option **)

let rec lookup k = function
| [] -> None
| p :: t -> let (k', v) = p in if name_eqb k k' then Some v else lookup k t

(** val dict_set :
    name -> val0 -> (name * val0) list -> (name * val0) list **)

let rec dict_set k v = function
| [] -> (k, v) :: []
| p :: t ->
  let (k', v') = p in
  if name_eqb k k' then (k, v) :: t else (k', v') :: (dict_set k v t)

(** val dict_update :
    (name * val0) list -> (name * val0) list -> (name * val0) list **)

let dict_update kv upd =
  fold_left (fun acc e -> dict_set (fst e) (snd e) acc) upd kv

(** val is_private : name -> bool **)

let is_private = function
| [] -> false
| b :: _ -> (match b with
             | X5f -> true
             | _ -> false)

(** val f64_is_nan : n -> bool **)

let f64_is_nan b =
  (&&)
    (N.eqb
      (N.coq_land (N.shiftr b (Npos (XO (XO (XI (XO (XI XH))))))) (Npos (XI
        (XI (XI (XI (XI (XI (XI (XI (XI (XI XH)))))))))))) (Npos (XI (XI (XI
      (XI (XI (XI (XI (XI (XI (XI XH))))))))))))
    (negb
      (N.eqb
        (N.coq_land b (Npos (XI (XI (XI (XI (XI (XI (XI (XI (XI (XI (XI (XI
          (XI (XI (XI (XI (XI (XI (XI (XI (XI (XI (XI (XI (XI (XI (XI (XI (XI
          (XI (XI (XI (XI (XI (XI (XI (XI (XI (XI (XI (XI (XI (XI (XI (XI (XI
          (XI (XI (XI (XI (XI
          XH))))))))))))))))))))))))))))))))))))))))))))))))))))) N0))

(** val f64_is_zero : n -> bool **)

let f64_is_zero b =
  N.eqb
    (N.coq_land b (Npos (XI (XI (XI (XI (XI (XI (XI (XI (XI (XI (XI (XI (XI
      (XI (XI (XI (XI (XI (XI (XI (XI (XI (XI (XI (XI (XI (XI (XI (XI (XI (XI
      (XI (XI (XI (XI (XI (XI (XI (XI (XI (XI (XI (XI (XI (XI (XI (XI (XI (XI
      (XI (XI (XI (XI (XI (XI (XI (XI (XI (XI (XI (XI (XI
      XH)))))))))))))))))))))))))))))))))))))))))))))))))))))))))))))))) N0

(** val f64_eqb : n -> n -> bool **)

let f64_eqb a b =
  if (||) (f64_is_nan a) (f64_is_nan b)
  then false
  else if (&&) (f64_is_zero a) (f64_is_zero b) then true else N.eqb a b

(** val int_of_val : val0 -> z option **)

let int_of_val = function
| VBool b -> Some (if b then Zpos XH else Z0)
| VInt z0 -> Some z0
| _ -> None

(** val val_eqb : val0 -> val0 -> bool **)

let rec val_eqb a b =
  match a with
  | VNone -> (match b with
              | VNone -> true
              | _ -> false)
  | VBool x ->
    (match b with
     | VBool y -> eqb x y
     | VInt z0 -> Z.eqb z0 (if x then Zpos XH else Z0)
     | _ -> false)
  | VInt x ->
    (match b with
     | VBool x0 -> Z.eqb x (if x0 then Zpos XH else Z0)
     | VInt y -> Z.eqb x y
     | _ -> false)
  | VFloat x -> (match b with
                 | VFloat y -> f64_eqb x y
                 | _ -> false)
  | VBytes x -> (match b with
                 | VBytes y -> bytes_eqb x y
                 | _ -> false)
  | VStr s ->
    (match b with
     | VStr y -> list_eqb N.eqb s y
     | VEnum (l, _) -> list_eqb N.eqb (map to_N0 l) s
     | _ -> false)
  | VList x ->
    (match b with
     | VList y ->
       let rec go x0 y0 =
         match x0 with
         | [] -> (match y0 with
                  | [] -> true
                  | _ :: _ -> false)
         | u :: x' ->
           (match y0 with
            | [] -> false
            | w :: y' -> (&&) (val_eqb u w) (go x' y'))
       in go x y
     | _ -> false)
  | VDict x ->
    (match b with
     | VDict y ->
       (&&)
         (let rec go = function
          | [] -> true
          | p :: t ->
            let (k, v) = p in
            (&&)
              (if is_private k
               then true
               else (match lookup k y with
                     | Some w -> val_eqb v w
                     | None -> false)) (go t)
          in go x)
         (forallb (fun kw ->
           (||) (is_private (fst kw))
             (match lookup (fst kw) x with
              | Some _ -> true
              | None -> false)) y)
     | _ -> false)
  | VEnum (l, _) ->
    (match b with
     | VStr s -> list_eqb N.eqb (map to_N0 l) s
     | VEnum (l', _) -> bytes_eqb l l'
     | _ -> false)

(** val truthy : val0 -> bool **)

let truthy = function
| VNone -> false
| VBool b -> b
| VInt z0 -> negb (Z.eqb z0 Z0)
| VFloat b -> negb (f64_is_zero b)
| VBytes l -> (match l with
               | [] -> false
               | _ :: _ -> true)
| VStr l -> (match l with
             | [] -> false
             | _ :: _ -> true)
| VList l -> (match l with
              | [] -> false
              | _ :: _ -> true)
| VDict l -> (match l with
              | [] -> false
              | _ :: _ -> true)
| VEnum (l, _) -> (match l with
                   | [] -> false
                   | _ :: _ -> true)

(** val is_int : val0 -> bool **)

let is_int = function
| VBool _ -> true
| VInt _ -> true
| _ -> false

type binop =
| OAdd
| OSub
| OMul
| OTrueDiv
| OFloorDiv
| OMod
| OPow
| OXor
| OLshift
| ORshift
| OAnd
| OOr
| OGt
| OGe
| OLt
| OLe
| OEq
| ONe
| OContains

type unop =
| UNeg
| UPos
| UNot

type func =
| FLen
| FSum
| FMin
| FMax
| FAbs

type rootname =
| RThis
| RObj

type key =
| KName of name
| KIdx of z

type expr =
| XRoot of rootname
| XList
| XItem of expr * key
| XConst of val0
| XBin of binop * expr * expr
| XUn of unop * expr
| XFunc of func * expr

type mode =
| MParse
| MBuild
| MSize

type scope = { s_vals : (name * val0) list; s_index : val0 option }

type ctx = { c_scopes : scope list; c_top : (name * val0) list;
             c_topindex : z option; c_mode : mode; c_opaque : bool }

(** val top_ctx : (name * val0) list -> mode -> ctx **)

let top_ctx kw m =
  { c_scopes = []; c_top = kw; c_topindex = None; c_mode = m; c_opaque =
    false }

(** val push_scope : ctx -> ctx **)

let push_scope cx =
  let idx =
    match cx.c_scopes with
    | [] -> (match cx.c_topindex with
             | Some i -> Some (VInt i)
             | None -> None)
    | s :: _ -> s.s_index
  in
  { c_scopes = ({ s_vals = []; s_index = idx } :: cx.c_scopes); c_top =
  cx.c_top; c_topindex = cx.c_topindex; c_mode = cx.c_mode; c_opaque =
  cx.c_opaque }

(** val ctx_set : ctx -> name -> val0 -> ctx **)

let ctx_set cx k v =
  match cx.c_scopes with
  | [] ->
    { c_scopes = []; c_top = (dict_set k v cx.c_top); c_topindex =
      cx.c_topindex; c_mode = cx.c_mode; c_opaque = cx.c_opaque }
  | s :: t ->
    { c_scopes = ({ s_vals = (dict_set k v s.s_vals); s_index =
      s.s_index } :: t); c_top = cx.c_top; c_topindex = cx.c_topindex;
      c_mode = cx.c_mode; c_opaque = cx.c_opaque }

(** val ctx_update : ctx -> (name * val0) list -> ctx **)

let ctx_update cx kv =
  fold_left (fun c e -> ctx_set c (fst e) (snd e)) kv cx

(** val ctx_set_index : ctx -> z -> ctx **)

let ctx_set_index cx i =
  match cx.c_scopes with
  | [] ->
    { c_scopes = []; c_top = cx.c_top; c_topindex = (Some i); c_mode =
      cx.c_mode; c_opaque = cx.c_opaque }
  | s :: t ->
    { c_scopes = ({ s_vals = s.s_vals; s_index = (Some (VInt i)) } :: t);
      c_top = cx.c_top; c_topindex = cx.c_topindex; c_mode = cx.c_mode;
      c_opaque = cx.c_opaque }

(** val ctx_vals : ctx -> (name * val0) list **)

let ctx_vals cx =
  match cx.c_scopes with
  | [] -> cx.c_top
  | s :: _ -> s.s_vals

type cursor =
| CurScope of nat
| CurTop
| CurVal of val0

(** val n_parsing : name **)

let n_parsing =
  X5f :: (X70 :: (X61 :: (X72 :: (X73 :: (X69 :: (X6e :: (X67 :: [])))))))

(** val n_building : name **)

let n_building =
  X5f :: (X62 :: (X75 :: (X69 :: (X6c :: (X64 :: (X69 :: (X6e :: (X67 :: []))))))))

(** val n_sizing : name **)

let n_sizing =
  X5f :: (X73 :: (X69 :: (X7a :: (X69 :: (X6e :: (X67 :: []))))))

(** val n_params : name **)

let n_params =
  X5f :: (X70 :: (X61 :: (X72 :: (X61 :: (X6d :: (X73 :: []))))))

(** val n_root : name **)

let n_root =
  X5f :: (X72 :: (X6f :: (X6f :: (X74 :: []))))

(** val n_index : name **)

let n_index =
  X5f :: (X69 :: (X6e :: (X64 :: (X65 :: (X78 :: [])))))

(** val n_up : name **)

let n_up =
  X5f :: []

(** val n_subcons : name **)

let n_subcons =
  X5f :: (X73 :: (X75 :: (X62 :: (X63 :: (X6f :: (X6e :: (X73 :: [])))))))

(** val n_io : name **)

let n_io =
  X5f :: (X69 :: (X6f :: []))

(** val mode_flag : mode -> name -> bool option **)

let mode_flag m k =
  if name_eqb k n_parsing
  then Some (match m with
             | MParse -> true
             | _ -> false)
  else if name_eqb k n_building
       then Some (match m with
                  | MBuild -> true
                  | _ -> false)
       else if name_eqb k n_sizing
            then Some (match m with
                       | MSize -> true
                       | _ -> false)
            else None

(** val key_error : 'a1 res **)

let key_error =
  Err (EKey, None)

(** val type_error : 'a1 res **)

let type_error =
  Err (EType, None)

(** val item_scope : ctx -> nat -> name -> cursor res **)

let item_scope cx d k =
  match nth_error cx.c_scopes d with
  | Some s ->
    (match lookup k s.s_vals with
     | Some v -> Ok (CurVal v)
     | None ->
       (match mode_flag cx.c_mode k with
        | Some b -> Ok (CurVal (VBool b))
        | None ->
          if name_eqb k n_up
          then if Nat.eqb (S d) (length cx.c_scopes)
               then Ok CurTop
               else Ok (CurScope (S d))
          else if name_eqb k n_params
               then Ok CurTop
               else if name_eqb k n_root
                    then Ok (CurScope (sub (length cx.c_scopes) (S O)))
                    else if name_eqb k n_index
                         then Ok (CurVal
                                (match s.s_index with
                                 | Some v -> v
                                 | None -> VNone))
                         else if (||) (name_eqb k n_subcons) (name_eqb k n_io)
                              then unsupported
                              else key_error))
  | None -> unsupported

(** val item_top : ctx -> name -> cursor res **)

let item_top cx k =
  match lookup k cx.c_top with
  | Some v -> Ok (CurVal v)
  | None ->
    (match mode_flag cx.c_mode k with
     | Some b -> Ok (CurVal (VBool b))
     | None ->
       if name_eqb k n_params
       then Ok CurTop
       else if name_eqb k n_index
            then (match cx.c_topindex with
                  | Some i -> Ok (CurVal (VInt i))
                  | None -> if cx.c_opaque then unsupported else key_error)
            else if (&&) cx.c_opaque (is_private k)
                 then unsupported
                 else key_error)

(** val item_val : val0 -> key -> cursor res **)

let item_val v k =
  match v with
  | VBytes l ->
    (match k with
     | KName _ -> type_error
     | KIdx i ->
       let len = Z.of_nat (length l) in
       let j = if Z.ltb i Z0 then Z.add i len else i in
       if (||) (Z.ltb j Z0) (Z.leb len j)
       then Err (EIndexErr, None)
       else (match nth_error l (Z.to_nat j) with
             | Some w -> Ok (CurVal (VInt (Z.of_N (to_N0 w))))
             | None -> Err (EIndexErr, None)))
  | VStr _ -> unsupported
  | VList l ->
    (match k with
     | KName _ -> type_error
     | KIdx i ->
       let len = Z.of_nat (length l) in
       let j = if Z.ltb i Z0 then Z.add i len else i in
       if (||) (Z.ltb j Z0) (Z.leb len j)
       then Err (EIndexErr, None)
       else (match nth_error l (Z.to_nat j) with
             | Some w -> Ok (CurVal w)
             | None -> Err (EIndexErr, None)))
  | VDict kv ->
    (match k with
     | KName n0 ->
       (match lookup n0 kv with
        | Some w -> Ok (CurVal w)
        | None -> key_error)
     | KIdx _ -> key_error)
  | VEnum (_, _) -> unsupported
  | _ -> type_error

(** val item : ctx -> cursor -> key -> cursor res **)

let item cx c k =
  match c with
  | CurScope d ->
    (match k with
     | KName n0 -> item_scope cx d n0
     | KIdx _ -> key_error)
  | CurTop -> (match k with
               | KName n0 -> item_top cx n0
               | KIdx _ -> key_error)
  | CurVal v -> item_val v k

(** val zpow : z -> z -> z **)

let zpow =
  Z.pow

(** val list_leb :
    ('a1 -> 'a1 -> bool) -> ('a1 -> 'a1 -> bool) -> 'a1 list -> 'a1 list ->
    bool -> bool **)

let rec list_leb ltb0 eqb1 a b strict =
  match a with
  | [] -> (match b with
           | [] -> negb strict
           | _ :: _ -> true)
  | x :: a' ->
    (match b with
     | [] -> false
     | y :: b' ->
       if ltb0 x y
       then true
       else if eqb1 x y then list_leb ltb0 eqb1 a' b' strict else false)

(** val byte_ltb : byte -> byte -> bool **)

let byte_ltb a b =
  N.ltb (to_N0 a) (to_N0 b)

(** val cmp_op : binop -> bool -> bool -> bool **)

let cmp_op op lt eq =
  match op with
  | OGt -> (&&) (negb lt) (negb eq)
  | OGe -> negb lt
  | OLt -> lt
  | OLe -> (||) lt eq
  | OEq -> eq
  | ONe -> negb eq
  | _ -> false

(** val repeat_list : nat -> 'a1 list -> 'a1 list **)

let rec repeat_list n0 l =
  match n0 with
  | O -> []
  | S n' -> app l (repeat_list n' l)

(** val big_bound : z **)

let big_bound =
  Zpos (XO (XO (XO (XO (XO (XO (XO (XO (XO (XO (XO (XO XH))))))))))))

(** val apply_bin : binop -> val0 -> val0 -> val0 res **)

let apply_bin op a b =
  match op with
  | OEq -> Ok (VBool (val_eqb a b))
  | ONe -> Ok (VBool (negb (val_eqb a b)))
  | OContains ->
    (match a with
     | VBytes l ->
       (match b with
        | VInt z0 ->
          if (&&) (Z.leb Z0 z0)
               (Z.ltb z0 (Zpos (XO (XO (XO (XO (XO (XO (XO (XO XH))))))))))
          then Ok (VBool (existsb (fun x -> Z.eqb (Z.of_N (to_N0 x)) z0) l))
          else Err (EValue, None)
        | _ -> unsupported)
     | VList l -> Ok (VBool (existsb (fun x -> val_eqb x b) l))
     | _ -> unsupported)
  | _ ->
    (match int_of_val a with
     | Some x ->
       (match int_of_val b with
        | Some y ->
          (match op with
           | OAdd -> Ok (VInt (Z.add x y))
           | OSub -> Ok (VInt (Z.sub x y))
           | OMul -> Ok (VInt (Z.mul x y))
           | OTrueDiv ->
             if Z.eqb y Z0 then Err (EZeroDiv, None) else unsupported
           | OFloorDiv ->
             if Z.eqb y Z0
             then Err (EZeroDiv, None)
             else Ok (VInt (Z.div x y))
           | OMod ->
             if Z.eqb y Z0
             then Err (EZeroDiv, None)
             else Ok (VInt (Z.modulo x y))
           | OPow ->
             if Z.ltb y Z0
             then if Z.eqb x Z0 then Err (EZeroDiv, None) else unsupported
             else if Z.ltb big_bound y
                  then unsupported
                  else Ok (VInt (zpow x y))
           | OXor ->
             (match a with
              | VBool p ->
                (match b with
                 | VBool q -> Ok (VBool (xorb p q))
                 | _ -> Ok (VInt (Z.coq_lxor x y)))
              | _ -> Ok (VInt (Z.coq_lxor x y)))
           | OLshift ->
             if Z.ltb y Z0
             then Err (EValue, None)
             else if Z.ltb big_bound y
                  then unsupported
                  else Ok (VInt (Z.shiftl x y))
           | ORshift ->
             if Z.ltb y Z0
             then Err (EValue, None)
             else Ok (VInt (Z.shiftr x y))
           | OAnd ->
             (match a with
              | VBool p ->
                (match b with
                 | VBool q -> Ok (VBool ((&&) p q))
                 | _ -> Ok (VInt (Z.coq_land x y)))
              | _ -> Ok (VInt (Z.coq_land x y)))
           | OOr ->
             (match a with
              | VBool p ->
                (match b with
                 | VBool q -> Ok (VBool ((||) p q))
                 | _ -> Ok (VInt (Z.coq_lor x y)))
              | _ -> Ok (VInt (Z.coq_lor x y)))
           | OEq -> unsupported
           | ONe -> unsupported
           | OContains -> unsupported
           | _ -> Ok (VBool (cmp_op op (Z.ltb x y) (Z.eqb x y))))
        | None ->
          (match op with
           | OAdd ->
             (match a with
              | VInt _ ->
                (match b with
                 | VFloat _ -> unsupported
                 | VEnum (_, _) -> unsupported
                 | _ -> type_error)
              | VFloat _ -> unsupported
              | VBytes x0 ->
                (match b with
                 | VFloat _ -> unsupported
                 | VBytes y -> Ok (VBytes (app x0 y))
                 | VEnum (_, _) -> unsupported
                 | _ -> type_error)
              | VStr x0 ->
                (match b with
                 | VFloat _ -> unsupported
                 | VStr y -> Ok (VStr (app x0 y))
                 | VEnum (_, _) -> unsupported
                 | _ -> type_error)
              | VList x0 ->
                (match b with
                 | VFloat _ -> unsupported
                 | VList y -> Ok (VList (app x0 y))
                 | VEnum (_, _) -> unsupported
                 | _ -> type_error)
              | VEnum (_, _) -> unsupported
              | _ ->
                (match b with
                 | VFloat _ -> unsupported
                 | VEnum (_, _) -> unsupported
                 | _ -> type_error))
           | OMul ->
             (match a with
              | VNone ->
                (match b with
                 | VFloat _ -> unsupported
                 | VStr _ -> unsupported
                 | VList _ -> unsupported
                 | VEnum (_, _) -> unsupported
                 | _ -> type_error)
              | VBool _ ->
                (match b with
                 | VNone -> type_error
                 | VBool _ -> type_error
                 | VInt _ -> type_error
                 | VBytes x0 ->
                   (match int_of_val a with
                    | Some n0 ->
                      (match int_of_val b with
                       | Some n1 ->
                         if Z.ltb big_bound n1
                         then unsupported
                         else Ok (VBytes (repeat_list (Z.to_nat n1) x0))
                       | None ->
                         if Z.ltb big_bound n0
                         then unsupported
                         else Ok (VBytes (repeat_list (Z.to_nat n0) x0)))
                    | None ->
                      (match int_of_val b with
                       | Some n0 ->
                         if Z.ltb big_bound n0
                         then unsupported
                         else Ok (VBytes (repeat_list (Z.to_nat n0) x0))
                       | None -> unsupported))
                 | VDict _ -> type_error
                 | _ -> unsupported)
              | VInt _ ->
                (match b with
                 | VNone -> type_error
                 | VBool _ -> type_error
                 | VInt _ -> type_error
                 | VBytes x0 ->
                   (match int_of_val a with
                    | Some n0 ->
                      (match int_of_val b with
                       | Some n1 ->
                         if Z.ltb big_bound n1
                         then unsupported
                         else Ok (VBytes (repeat_list (Z.to_nat n1) x0))
                       | None ->
                         if Z.ltb big_bound n0
                         then unsupported
                         else Ok (VBytes (repeat_list (Z.to_nat n0) x0)))
                    | None ->
                      (match int_of_val b with
                       | Some n0 ->
                         if Z.ltb big_bound n0
                         then unsupported
                         else Ok (VBytes (repeat_list (Z.to_nat n0) x0))
                       | None -> unsupported))
                 | VDict _ -> type_error
                 | _ -> unsupported)
              | VBytes x0 ->
                (match b with
                 | VNone -> type_error
                 | VBool _ ->
                   (match int_of_val a with
                    | Some n0 ->
                      (match int_of_val b with
                       | Some n1 ->
                         if Z.ltb big_bound n1
                         then unsupported
                         else Ok (VBytes (repeat_list (Z.to_nat n1) x0))
                       | None ->
                         if Z.ltb big_bound n0
                         then unsupported
                         else Ok (VBytes (repeat_list (Z.to_nat n0) x0)))
                    | None ->
                      (match int_of_val b with
                       | Some n0 ->
                         if Z.ltb big_bound n0
                         then unsupported
                         else Ok (VBytes (repeat_list (Z.to_nat n0) x0))
                       | None -> unsupported))
                 | VInt _ ->
                   (match int_of_val a with
                    | Some n0 ->
                      (match int_of_val b with
                       | Some n1 ->
                         if Z.ltb big_bound n1
                         then unsupported
                         else Ok (VBytes (repeat_list (Z.to_nat n1) x0))
                       | None ->
                         if Z.ltb big_bound n0
                         then unsupported
                         else Ok (VBytes (repeat_list (Z.to_nat n0) x0)))
                    | None ->
                      (match int_of_val b with
                       | Some n0 ->
                         if Z.ltb big_bound n0
                         then unsupported
                         else Ok (VBytes (repeat_list (Z.to_nat n0) x0))
                       | None -> unsupported))
                 | VBytes _ -> type_error
                 | VDict _ -> type_error
                 | _ -> unsupported)
              | VDict _ ->
                (match b with
                 | VFloat _ -> unsupported
                 | VStr _ -> unsupported
                 | VList _ -> unsupported
                 | VEnum (_, _) -> unsupported
                 | _ -> type_error)
              | _ -> unsupported)
           | OMod ->
             (match a with
              | VNone ->
                (match b with
                 | VFloat _ -> unsupported
                 | VEnum (_, _) -> unsupported
                 | _ -> type_error)
              | VBool _ ->
                (match b with
                 | VFloat _ -> unsupported
                 | VEnum (_, _) -> unsupported
                 | _ -> type_error)
              | VInt _ ->
                (match b with
                 | VFloat _ -> unsupported
                 | VEnum (_, _) -> unsupported
                 | _ -> type_error)
              | VList _ ->
                (match b with
                 | VFloat _ -> unsupported
                 | VEnum (_, _) -> unsupported
                 | _ -> type_error)
              | VDict _ ->
                (match b with
                 | VFloat _ -> unsupported
                 | VEnum (_, _) -> unsupported
                 | _ -> type_error)
              | _ -> unsupported)
           | OGt ->
             (match a with
              | VInt _ ->
                (match b with
                 | VFloat _ -> unsupported
                 | VEnum (_, _) -> unsupported
                 | _ -> type_error)
              | VFloat _ -> unsupported
              | VBytes x0 ->
                (match b with
                 | VFloat _ -> unsupported
                 | VBytes y ->
                   Ok (VBool
                     (cmp_op op (list_leb byte_ltb eqb0 x0 y true)
                       (bytes_eqb x0 y)))
                 | VEnum (_, _) -> unsupported
                 | _ -> type_error)
              | VStr x0 ->
                (match b with
                 | VFloat _ -> unsupported
                 | VStr y ->
                   Ok (VBool
                     (cmp_op op (list_leb N.ltb N.eqb x0 y true)
                       (list_eqb N.eqb x0 y)))
                 | VEnum (_, _) -> unsupported
                 | _ -> type_error)
              | VList _ ->
                (match b with
                 | VFloat _ -> unsupported
                 | VList _ -> unsupported
                 | VEnum (_, _) -> unsupported
                 | _ -> type_error)
              | VEnum (_, _) -> unsupported
              | _ ->
                (match b with
                 | VFloat _ -> unsupported
                 | VEnum (_, _) -> unsupported
                 | _ -> type_error))
           | OGe ->
             (match a with
              | VInt _ ->
                (match b with
                 | VFloat _ -> unsupported
                 | VEnum (_, _) -> unsupported
                 | _ -> type_error)
              | VFloat _ -> unsupported
              | VBytes x0 ->
                (match b with
                 | VFloat _ -> unsupported
                 | VBytes y ->
                   Ok (VBool
                     (cmp_op op (list_leb byte_ltb eqb0 x0 y true)
                       (bytes_eqb x0 y)))
                 | VEnum (_, _) -> unsupported
                 | _ -> type_error)
              | VStr x0 ->
                (match b with
                 | VFloat _ -> unsupported
                 | VStr y ->
                   Ok (VBool
                     (cmp_op op (list_leb N.ltb N.eqb x0 y true)
                       (list_eqb N.eqb x0 y)))
                 | VEnum (_, _) -> unsupported
                 | _ -> type_error)
              | VList _ ->
                (match b with
                 | VFloat _ -> unsupported
                 | VList _ -> unsupported
                 | VEnum (_, _) -> unsupported
                 | _ -> type_error)
              | VEnum (_, _) -> unsupported
              | _ ->
                (match b with
                 | VFloat _ -> unsupported
                 | VEnum (_, _) -> unsupported
                 | _ -> type_error))
           | OLt ->
             (match a with
              | VInt _ ->
                (match b with
                 | VFloat _ -> unsupported
                 | VEnum (_, _) -> unsupported
                 | _ -> type_error)
              | VFloat _ -> unsupported
              | VBytes x0 ->
                (match b with
                 | VFloat _ -> unsupported
                 | VBytes y ->
                   Ok (VBool
                     (cmp_op op (list_leb byte_ltb eqb0 x0 y true)
                       (bytes_eqb x0 y)))
                 | VEnum (_, _) -> unsupported
                 | _ -> type_error)
              | VStr x0 ->
                (match b with
                 | VFloat _ -> unsupported
                 | VStr y ->
                   Ok (VBool
                     (cmp_op op (list_leb N.ltb N.eqb x0 y true)
                       (list_eqb N.eqb x0 y)))
                 | VEnum (_, _) -> unsupported
                 | _ -> type_error)
              | VList _ ->
                (match b with
                 | VFloat _ -> unsupported
                 | VList _ -> unsupported
                 | VEnum (_, _) -> unsupported
                 | _ -> type_error)
              | VEnum (_, _) -> unsupported
              | _ ->
                (match b with
                 | VFloat _ -> unsupported
                 | VEnum (_, _) -> unsupported
                 | _ -> type_error))
           | OLe ->
             (match a with
              | VInt _ ->
                (match b with
                 | VFloat _ -> unsupported
                 | VEnum (_, _) -> unsupported
                 | _ -> type_error)
              | VFloat _ -> unsupported
              | VBytes x0 ->
                (match b with
                 | VFloat _ -> unsupported
                 | VBytes y ->
                   Ok (VBool
                     (cmp_op op (list_leb byte_ltb eqb0 x0 y true)
                       (bytes_eqb x0 y)))
                 | VEnum (_, _) -> unsupported
                 | _ -> type_error)
              | VStr x0 ->
                (match b with
                 | VFloat _ -> unsupported
                 | VStr y ->
                   Ok (VBool
                     (cmp_op op (list_leb N.ltb N.eqb x0 y true)
                       (list_eqb N.eqb x0 y)))
                 | VEnum (_, _) -> unsupported
                 | _ -> type_error)
              | VList _ ->
                (match b with
                 | VFloat _ -> unsupported
                 | VList _ -> unsupported
                 | VEnum (_, _) -> unsupported
                 | _ -> type_error)
              | VEnum (_, _) -> unsupported
              | _ ->
                (match b with
                 | VFloat _ -> unsupported
                 | VEnum (_, _) -> unsupported
                 | _ -> type_error))
           | _ ->
             (match a with
              | VInt _ ->
                (match b with
                 | VFloat _ -> unsupported
                 | VEnum (_, _) -> unsupported
                 | _ -> type_error)
              | VFloat _ -> unsupported
              | VEnum (_, _) -> unsupported
              | _ ->
                (match b with
                 | VFloat _ -> unsupported
                 | VEnum (_, _) -> unsupported
                 | _ -> type_error))))
     | None ->
       (match op with
        | OAdd ->
          (match a with
           | VInt _ ->
             (match b with
              | VFloat _ -> unsupported
              | VEnum (_, _) -> unsupported
              | _ -> type_error)
           | VFloat _ -> unsupported
           | VBytes x ->
             (match b with
              | VFloat _ -> unsupported
              | VBytes y -> Ok (VBytes (app x y))
              | VEnum (_, _) -> unsupported
              | _ -> type_error)
           | VStr x ->
             (match b with
              | VFloat _ -> unsupported
              | VStr y -> Ok (VStr (app x y))
              | VEnum (_, _) -> unsupported
              | _ -> type_error)
           | VList x ->
             (match b with
              | VFloat _ -> unsupported
              | VList y -> Ok (VList (app x y))
              | VEnum (_, _) -> unsupported
              | _ -> type_error)
           | VEnum (_, _) -> unsupported
           | _ ->
             (match b with
              | VFloat _ -> unsupported
              | VEnum (_, _) -> unsupported
              | _ -> type_error))
        | OMul ->
          (match a with
           | VNone ->
             (match b with
              | VFloat _ -> unsupported
              | VStr _ -> unsupported
              | VList _ -> unsupported
              | VEnum (_, _) -> unsupported
              | _ -> type_error)
           | VBool _ ->
             (match b with
              | VNone -> type_error
              | VBool _ -> type_error
              | VInt _ -> type_error
              | VBytes x ->
                (match int_of_val a with
                 | Some n0 ->
                   (match int_of_val b with
                    | Some n1 ->
                      if Z.ltb big_bound n1
                      then unsupported
                      else Ok (VBytes (repeat_list (Z.to_nat n1) x))
                    | None ->
                      if Z.ltb big_bound n0
                      then unsupported
                      else Ok (VBytes (repeat_list (Z.to_nat n0) x)))
                 | None ->
                   (match int_of_val b with
                    | Some n0 ->
                      if Z.ltb big_bound n0
                      then unsupported
                      else Ok (VBytes (repeat_list (Z.to_nat n0) x))
                    | None -> unsupported))
              | VDict _ -> type_error
              | _ -> unsupported)
           | VInt _ ->
             (match b with
              | VNone -> type_error
              | VBool _ -> type_error
              | VInt _ -> type_error
              | VBytes x ->
                (match int_of_val a with
                 | Some n0 ->
                   (match int_of_val b with
                    | Some n1 ->
                      if Z.ltb big_bound n1
                      then unsupported
                      else Ok (VBytes (repeat_list (Z.to_nat n1) x))
                    | None ->
                      if Z.ltb big_bound n0
                      then unsupported
                      else Ok (VBytes (repeat_list (Z.to_nat n0) x)))
                 | None ->
                   (match int_of_val b with
                    | Some n0 ->
                      if Z.ltb big_bound n0
                      then unsupported
                      else Ok (VBytes (repeat_list (Z.to_nat n0) x))
                    | None -> unsupported))
              | VDict _ -> type_error
              | _ -> unsupported)
           | VBytes x ->
             (match b with
              | VNone -> type_error
              | VBool _ ->
                (match int_of_val a with
                 | Some n0 ->
                   (match int_of_val b with
                    | Some n1 ->
                      if Z.ltb big_bound n1
                      then unsupported
                      else Ok (VBytes (repeat_list (Z.to_nat n1) x))
                    | None ->
                      if Z.ltb big_bound n0
                      then unsupported
                      else Ok (VBytes (repeat_list (Z.to_nat n0) x)))
                 | None ->
                   (match int_of_val b with
                    | Some n0 ->
                      if Z.ltb big_bound n0
                      then unsupported
                      else Ok (VBytes (repeat_list (Z.to_nat n0) x))
                    | None -> unsupported))
              | VInt _ ->
                (match int_of_val a with
                 | Some n0 ->
                   (match int_of_val b with
                    | Some n1 ->
                      if Z.ltb big_bound n1
                      then unsupported
                      else Ok (VBytes (repeat_list (Z.to_nat n1) x))
                    | None ->
                      if Z.ltb big_bound n0
                      then unsupported
                      else Ok (VBytes (repeat_list (Z.to_nat n0) x)))
                 | None ->
                   (match int_of_val b with
                    | Some n0 ->
                      if Z.ltb big_bound n0
                      then unsupported
                      else Ok (VBytes (repeat_list (Z.to_nat n0) x))
                    | None -> unsupported))
              | VBytes _ -> type_error
              | VDict _ -> type_error
              | _ -> unsupported)
           | VDict _ ->
             (match b with
              | VFloat _ -> unsupported
              | VStr _ -> unsupported
              | VList _ -> unsupported
              | VEnum (_, _) -> unsupported
              | _ -> type_error)
           | _ -> unsupported)
        | OMod ->
          (match a with
           | VNone ->
             (match b with
              | VFloat _ -> unsupported
              | VEnum (_, _) -> unsupported
              | _ -> type_error)
           | VBool _ ->
             (match b with
              | VFloat _ -> unsupported
              | VEnum (_, _) -> unsupported
              | _ -> type_error)
           | VInt _ ->
             (match b with
              | VFloat _ -> unsupported
              | VEnum (_, _) -> unsupported
              | _ -> type_error)
           | VList _ ->
             (match b with
              | VFloat _ -> unsupported
              | VEnum (_, _) -> unsupported
              | _ -> type_error)
           | VDict _ ->
             (match b with
              | VFloat _ -> unsupported
              | VEnum (_, _) -> unsupported
              | _ -> type_error)
           | _ -> unsupported)
        | OGt ->
          (match a with
           | VInt _ ->
             (match b with
              | VFloat _ -> unsupported
              | VEnum (_, _) -> unsupported
              | _ -> type_error)
           | VFloat _ -> unsupported
           | VBytes x ->
             (match b with
              | VFloat _ -> unsupported
              | VBytes y ->
                Ok (VBool
                  (cmp_op op (list_leb byte_ltb eqb0 x y true)
                    (bytes_eqb x y)))
              | VEnum (_, _) -> unsupported
              | _ -> type_error)
           | VStr x ->
             (match b with
              | VFloat _ -> unsupported
              | VStr y ->
                Ok (VBool
                  (cmp_op op (list_leb N.ltb N.eqb x y true)
                    (list_eqb N.eqb x y)))
              | VEnum (_, _) -> unsupported
              | _ -> type_error)
           | VList _ ->
             (match b with
              | VFloat _ -> unsupported
              | VList _ -> unsupported
              | VEnum (_, _) -> unsupported
              | _ -> type_error)
           | VEnum (_, _) -> unsupported
           | _ ->
             (match b with
              | VFloat _ -> unsupported
              | VEnum (_, _) -> unsupported
              | _ -> type_error))
        | OGe ->
          (match a with
           | VInt _ ->
             (match b with
              | VFloat _ -> unsupported
              | VEnum (_, _) -> unsupported
              | _ -> type_error)
           | VFloat _ -> unsupported
           | VBytes x ->
             (match b with
              | VFloat _ -> unsupported
              | VBytes y ->
                Ok (VBool
                  (cmp_op op (list_leb byte_ltb eqb0 x y true)
                    (bytes_eqb x y)))
              | VEnum (_, _) -> unsupported
              | _ -> type_error)
           | VStr x ->
             (match b with
              | VFloat _ -> unsupported
              | VStr y ->
                Ok (VBool
                  (cmp_op op (list_leb N.ltb N.eqb x y true)
                    (list_eqb N.eqb x y)))
              | VEnum (_, _) -> unsupported
              | _ -> type_error)
           | VList _ ->
             (match b with
              | VFloat _ -> unsupported
              | VList _ -> unsupported
              | VEnum (_, _) -> unsupported
              | _ -> type_error)
           | VEnum (_, _) -> unsupported
           | _ ->
             (match b with
              | VFloat _ -> unsupported
              | VEnum (_, _) -> unsupported
              | _ -> type_error))
        | OLt ->
          (match a with
           | VInt _ ->
             (match b with
              | VFloat _ -> unsupported
              | VEnum (_, _) -> unsupported
              | _ -> type_error)
           | VFloat _ -> unsupported
           | VBytes x ->
             (match b with
              | VFloat _ -> unsupported
              | VBytes y ->
                Ok (VBool
                  (cmp_op op (list_leb byte_ltb eqb0 x y true)
                    (bytes_eqb x y)))
              | VEnum (_, _) -> unsupported
              | _ -> type_error)
           | VStr x ->
             (match b with
              | VFloat _ -> unsupported
              | VStr y ->
                Ok (VBool
                  (cmp_op op (list_leb N.ltb N.eqb x y true)
                    (list_eqb N.eqb x y)))
              | VEnum (_, _) -> unsupported
              | _ -> type_error)
           | VList _ ->
             (match b with
              | VFloat _ -> unsupported
              | VList _ -> unsupported
              | VEnum (_, _) -> unsupported
              | _ -> type_error)
           | VEnum (_, _) -> unsupported
           | _ ->
             (match b with
              | VFloat _ -> unsupported
              | VEnum (_, _) -> unsupported
              | _ -> type_error))
        | OLe ->
          (match a with
           | VInt _ ->
             (match b with
              | VFloat _ -> unsupported
              | VEnum (_, _) -> unsupported
              | _ -> type_error)
           | VFloat _ -> unsupported
           | VBytes x ->
             (match b with
              | VFloat _ -> unsupported
              | VBytes y ->
                Ok (VBool
                  (cmp_op op (list_leb byte_ltb eqb0 x y true)
                    (bytes_eqb x y)))
              | VEnum (_, _) -> unsupported
              | _ -> type_error)
           | VStr x ->
             (match b with
              | VFloat _ -> unsupported
              | VStr y ->
                Ok (VBool
                  (cmp_op op (list_leb N.ltb N.eqb x y true)
                    (list_eqb N.eqb x y)))
              | VEnum (_, _) -> unsupported
              | _ -> type_error)
           | VList _ ->
             (match b with
              | VFloat _ -> unsupported
              | VList _ -> unsupported
              | VEnum (_, _) -> unsupported
              | _ -> type_error)
           | VEnum (_, _) -> unsupported
           | _ ->
             (match b with
              | VFloat _ -> unsupported
              | VEnum (_, _) -> unsupported
              | _ -> type_error))
        | _ ->
          (match a with
           | VInt _ ->
             (match b with
              | VFloat _ -> unsupported
              | VEnum (_, _) -> unsupported
              | _ -> type_error)
           | VFloat _ -> unsupported
           | VEnum (_, _) -> unsupported
           | _ ->
             (match b with
              | VFloat _ -> unsupported
              | VEnum (_, _) -> unsupported
              | _ -> type_error))))

(** val apply_un : unop -> val0 -> val0 res **)

let apply_un op a =
  match op with
  | UNeg ->
    (match int_of_val a with
     | Some x -> Ok (VInt (Z.opp x))
     | None -> (match a with
                | VFloat _ -> unsupported
                | _ -> type_error))
  | UPos ->
    (match int_of_val a with
     | Some x -> Ok (VInt x)
     | None -> (match a with
                | VFloat _ -> unsupported
                | _ -> type_error))
  | UNot -> Ok (VBool (negb (truthy a)))

(** val sum_ints : val0 list -> val0 res **)

let sum_ints l =
  fold_left (fun acc v -> bind acc (fun a -> apply_bin OAdd a v)) l (Ok (VInt
    Z0))

(** val apply_func : func -> val0 -> val0 res **)

let apply_func f a =
  match f with
  | FLen ->
    (match a with
     | VBytes l -> Ok (VInt (Z.of_nat (length l)))
     | VStr l -> Ok (VInt (Z.of_nat (length l)))
     | VList l -> Ok (VInt (Z.of_nat (length l)))
     | VDict l -> Ok (VInt (Z.of_nat (length l)))
     | VEnum (l, _) -> Ok (VInt (Z.of_nat (length l)))
     | _ -> type_error)
  | FSum ->
    (match a with
     | VBytes l ->
       Ok (VInt (fold_left (fun acc b -> Z.add acc (Z.of_N (to_N0 b))) l Z0))
     | VStr _ -> unsupported
     | VList l -> sum_ints l
     | VDict _ -> unsupported
     | VEnum (_, _) -> unsupported
     | _ -> type_error)
  | FAbs ->
    (match a with
     | VBool b -> Ok (VInt (if b then Zpos XH else Z0))
     | VInt z0 -> Ok (VInt (Z.abs z0))
     | VFloat _ -> unsupported
     | _ -> type_error)
  | _ ->
    (match a with
     | VBytes b ->
       (match b with
        | [] -> Err (EValue, None)
        | _ :: _ -> unsupported)
     | VStr _ -> unsupported
     | VList l0 ->
       (match l0 with
        | [] -> Err (EValue, None)
        | x :: l ->
          if forallb is_int (x :: l)
          then fold_left (fun acc v ->
                 bind acc (fun m ->
                   match int_of_val m with
                   | Some p ->
                     (match int_of_val v with
                      | Some q ->
                        (match f with
                         | FMin -> if Z.ltb q p then Ok v else Ok m
                         | _ -> if Z.ltb p q then Ok v else Ok m)
                      | None -> unsupported)
                   | None -> unsupported)) l (Ok x)
          else unsupported)
     | VDict _ -> unsupported
     | VEnum (_, _) -> unsupported
     | _ -> type_error)

(** val cur_val : cursor -> val0 res **)

let cur_val = function
| CurVal v -> Ok v
| _ -> unsupported

(** val eval_cur : ctx -> cursor -> val0 option -> expr -> cursor res **)

let rec eval_cur cx first second = function
| XRoot _ -> Ok first
| XList ->
  (match second with
   | Some v -> Ok (CurVal v)
   | None -> Err (EIndexErr, None))
| XItem (e', k) -> bind (eval_cur cx first second e') (fun c -> item cx c k)
| XConst v -> Ok (CurVal v)
| XBin (op, a, b) ->
  bind (eval_cur cx first second a) (fun x ->
    bind (eval_cur cx first second b) (fun y ->
      bind (cur_val x) (fun xv ->
        bind (cur_val y) (fun yv ->
          bind (apply_bin op xv yv) (fun r -> Ok (CurVal r))))))
| XUn (op, a) ->
  bind (eval_cur cx first second a) (fun x ->
    bind (cur_val x) (fun xv ->
      bind (apply_un op xv) (fun r -> Ok (CurVal r))))
| XFunc (f, a) ->
  bind (eval_cur cx first second a) (fun x ->
    bind (cur_val x) (fun xv ->
      bind (apply_func f xv) (fun r -> Ok (CurVal r))))

(** val eval : ctx -> expr -> val0 res **)

let eval cx e =
  let first = match cx.c_scopes with
              | [] -> CurTop
              | _ :: _ -> CurScope O in
  bind (eval_cur cx first None e) cur_val

(** val eval_obj : ctx -> val0 -> val0 option -> expr -> val0 res **)

let eval_obj cx obj lst e =
  bind (eval_cur cx (CurVal obj) lst e) cur_val

type encoding =
| EncAscii
| EncUtf8
| EncUtf16
| EncUtf16le
| EncUtf16be
| EncUtf32
| EncUtf32le
| EncUtf32be

(** val is_surrogate : n -> bool **)

let is_surrogate c =
  (&&)
    (N.leb (Npos (XO (XO (XO (XO (XO (XO (XO (XO (XO (XO (XO (XI (XI (XO (XI
      XH)))))))))))))))) c)
    (N.leb c (Npos (XI (XI (XI (XI (XI (XI (XI (XI (XI (XI (XI (XI (XI (XO
      (XI XH)))))))))))))))))

(** val valid_cp : n -> bool **)

let valid_cp c =
  (&&)
    (N.leb c (Npos (XI (XI (XI (XI (XI (XI (XI (XI (XI (XI (XI (XI (XI (XI
      (XI (XI (XO (XO (XO (XO XH)))))))))))))))))))))) (negb (is_surrogate c))

(** val bN : byte -> n **)

let bN =
  to_N0

(** val ascii_decode : bytes -> n list option **)

let ascii_decode bs =
  if forallb (fun b ->
       N.ltb (bN b) (Npos (XO (XO (XO (XO (XO (XO (XO XH))))))))) bs
  then Some (map bN bs)
  else None

(** val ascii_encode : n list -> bytes option **)

let ascii_encode cps =
  if forallb (fun c -> N.ltb c (Npos (XO (XO (XO (XO (XO (XO (XO XH)))))))))
       cps
  then Some (map byte_of_N cps)
  else None

(** val utf8_enc1 : n -> bytes option **)

let utf8_enc1 c =
  if N.ltb c (Npos (XO (XO (XO (XO (XO (XO (XO XH))))))))
  then Some ((byte_of_N c) :: [])
  else if N.ltb c (Npos (XO (XO (XO (XO (XO (XO (XO (XO (XO (XO (XO
            XH))))))))))))
       then Some
              ((byte_of_N
                 (N.add (Npos (XO (XO (XO (XO (XO (XO (XI XH))))))))
                   (N.div c (Npos (XO (XO (XO (XO (XO (XO XH)))))))))) :: (
              (byte_of_N
                (N.add (Npos (XO (XO (XO (XO (XO (XO (XO XH))))))))
                  (N.modulo c (Npos (XO (XO (XO (XO (XO (XO XH)))))))))) :: []))
       else if is_surrogate c
            then None
            else if N.ltb c (Npos (XO (XO (XO (XO (XO (XO (XO (XO (XO (XO (XO
                      (XO (XO (XO (XO (XO XH)))))))))))))))))
                 then Some
                        ((byte_of_N
                           (N.add (Npos (XO (XO (XO (XO (XO (XI (XI
                             XH))))))))
                             (N.div c (Npos (XO (XO (XO (XO (XO (XO (XO (XO
                               (XO (XO (XO (XO XH)))))))))))))))) :: (
                        (byte_of_N
                          (N.add (Npos (XO (XO (XO (XO (XO (XO (XO XH))))))))
                            (N.modulo
                              (N.div c (Npos (XO (XO (XO (XO (XO (XO
                                XH)))))))) (Npos (XO (XO (XO (XO (XO (XO
                              XH)))))))))) :: ((byte_of_N
                                                 (N.add (Npos (XO (XO (XO (XO
                                                   (XO (XO (XO XH))))))))
                                                   (N.modulo c (Npos (XO (XO
                                                     (XO (XO (XO (XO
                                                     XH)))))))))) :: [])))
                 else if N.leb c (Npos (XI (XI (XI (XI (XI (XI (XI (XI (XI
                           (XI (XI (XI (XI (XI (XI (XI (XO (XO (XO (XO
                           XH)))))))))))))))))))))
                      then Some
                             ((byte_of_N
                                (N.add (Npos (XO (XO (XO (XO (XI (XI (XI
                                  XH))))))))
                                  (N.div c (Npos (XO (XO (XO (XO (XO (XO (XO
                                    (XO (XO (XO (XO (XO (XO (XO (XO (XO (XO
                                    (XO XH)))))))))))))))))))))) :: (
                             (byte_of_N
                               (N.add (Npos (XO (XO (XO (XO (XO (XO (XO
                                 XH))))))))
                                 (N.modulo
                                   (N.div c (Npos (XO (XO (XO (XO (XO (XO (XO
                                     (XO (XO (XO (XO (XO XH))))))))))))))
                                   (Npos (XO (XO (XO (XO (XO (XO XH)))))))))) :: (
                             (byte_of_N
                               (N.add (Npos (XO (XO (XO (XO (XO (XO (XO
                                 XH))))))))
                                 (N.modulo
                                   (N.div c (Npos (XO (XO (XO (XO (XO (XO
                                     XH)))))))) (Npos (XO (XO (XO (XO (XO (XO
                                   XH)))))))))) :: ((byte_of_N
                                                      (N.add (Npos (XO (XO
                                                        (XO (XO (XO (XO (XO
                                                        XH))))))))
                                                        (N.modulo c (Npos (XO
                                                          (XO (XO (XO (XO (XO
                                                          XH)))))))))) :: []))))
                      else None

(** val opt_concat : 'a1 list option list -> 'a1 list option **)

let rec opt_concat = function
| [] -> Some []
| o :: t ->
  (match o with
   | Some x ->
     (match opt_concat t with
      | Some r -> Some (app x r)
      | None -> None)
   | None -> None)

(** val utf8_encode : n list -> bytes option **)

let utf8_encode cps =
  opt_concat (map utf8_enc1 cps)

(** val is_cont : byte -> bool **)

let is_cont b =
  (&&) (N.leb (Npos (XO (XO (XO (XO (XO (XO (XO XH)))))))) (bN b))
    (N.ltb (bN b) (Npos (XO (XO (XO (XO (XO (XO (XI XH)))))))))

(** val utf8_decode_fuel : nat -> bytes -> n list option **)

let rec utf8_decode_fuel fuel bs =
  match fuel with
  | O -> (match bs with
          | [] -> Some []
          | _ :: _ -> None)
  | S f ->
    (match bs with
     | [] -> Some []
     | b0 :: t ->
       let n0 = bN b0 in
       if N.ltb n0 (Npos (XO (XO (XO (XO (XO (XO (XO XH))))))))
       then option_map (fun x -> n0 :: x) (utf8_decode_fuel f t)
       else if N.ltb n0 (Npos (XO (XI (XO (XO (XO (XO (XI XH))))))))
            then None
            else if N.ltb n0 (Npos (XO (XO (XO (XO (XO (XI (XI XH))))))))
                 then (match t with
                       | [] -> None
                       | b1 :: t' ->
                         if is_cont b1
                         then option_map (fun x ->
                                (N.add
                                  (N.mul
                                    (N.sub n0 (Npos (XO (XO (XO (XO (XO (XO
                                      (XI XH))))))))) (Npos (XO (XO (XO (XO
                                    (XO (XO XH))))))))
                                  (N.sub (bN b1) (Npos (XO (XO (XO (XO (XO
                                    (XO (XO XH)))))))))) :: x)
                                (utf8_decode_fuel f t')
                         else None)
                 else if N.ltb n0 (Npos (XO (XO (XO (XO (XI (XI (XI XH))))))))
                      then (match t with
                            | [] -> None
                            | b1 :: l ->
                              (match l with
                               | [] -> None
                               | b2 :: t' ->
                                 let c =
                                   N.add
                                     (N.add
                                       (N.mul
                                         (N.sub n0 (Npos (XO (XO (XO (XO (XO
                                           (XI (XI XH))))))))) (Npos (XO (XO
                                         (XO (XO (XO (XO (XO (XO (XO (XO (XO
                                         (XO XH))))))))))))))
                                       (N.mul
                                         (N.sub (bN b1) (Npos (XO (XO (XO (XO
                                           (XO (XO (XO XH))))))))) (Npos (XO
                                         (XO (XO (XO (XO (XO XH)))))))))
                                     (N.sub (bN b2) (Npos (XO (XO (XO (XO (XO
                                       (XO (XO XH)))))))))
                                 in
                                 if (&&)
                                      ((&&) ((&&) (is_cont b1) (is_cont b2))
                                        (N.leb (Npos (XO (XO (XO (XO (XO (XO
                                          (XO (XO (XO (XO (XO XH))))))))))))
                                          c)) (negb (is_surrogate c))
                                 then option_map (fun x -> c :: x)
                                        (utf8_decode_fuel f t')
                                 else None))
                      else if N.ltb n0 (Npos (XI (XO (XI (XO (XI (XI (XI
                                XH))))))))
                           then (match t with
                                 | [] -> None
                                 | b1 :: l ->
                                   (match l with
                                    | [] -> None
                                    | b2 :: l0 ->
                                      (match l0 with
                                       | [] -> None
                                       | b3 :: t' ->
                                         let c =
                                           N.add
                                             (N.add
                                               (N.add
                                                 (N.mul
                                                   (N.sub n0 (Npos (XO (XO
                                                     (XO (XO (XI (XI (XI
                                                     XH))))))))) (Npos (XO
                                                   (XO (XO (XO (XO (XO (XO
                                                   (XO (XO (XO (XO (XO (XO
                                                   (XO (XO (XO (XO (XO
                                                   XH))))))))))))))))))))
                                                 (N.mul
                                                   (N.sub (bN b1) (Npos (XO
                                                     (XO (XO (XO (XO (XO (XO
                                                     XH))))))))) (Npos (XO
                                                   (XO (XO (XO (XO (XO (XO
                                                   (XO (XO (XO (XO (XO
                                                   XH)))))))))))))))
                                               (N.mul
                                                 (N.sub (bN b2) (Npos (XO (XO
                                                   (XO (XO (XO (XO (XO
                                                   XH))))))))) (Npos (XO (XO
                                                 (XO (XO (XO (XO XH)))))))))
                                             (N.sub (bN b3) (Npos (XO (XO (XO
                                               (XO (XO (XO (XO XH)))))))))
                                         in
                                         if (&&)
                                              ((&&)
                                                ((&&)
                                                  ((&&) (is_cont b1)
                                                    (is_cont b2))
                                                  (is_cont b3))
                                                (N.leb (Npos (XO (XO (XO (XO
                                                  (XO (XO (XO (XO (XO (XO (XO
                                                  (XO (XO (XO (XO (XO
                                                  XH))))))))))))))))) c))
                                              (N.leb c (Npos (XI (XI (XI (XI
                                                (XI (XI (XI (XI (XI (XI (XI
                                                (XI (XI (XI (XI (XI (XO (XO
                                                (XO (XO
                                                XH))))))))))))))))))))))
                                         then option_map (fun x -> c :: x)
                                                (utf8_decode_fuel f t')
                                         else None)))
                           else None)

(** val utf8_decode : bytes -> n list option **)

let utf8_decode bs =
  utf8_decode_fuel (length bs) bs

(** val u16_bytes : bool -> n -> bytes **)

let u16_bytes le u =
  if le
  then (byte_of_N
         (N.modulo u (Npos (XO (XO (XO (XO (XO (XO (XO (XO XH))))))))))) :: (
         (byte_of_N
           (N.div u (Npos (XO (XO (XO (XO (XO (XO (XO (XO XH))))))))))) :: [])
  else (byte_of_N (N.div u (Npos (XO (XO (XO (XO (XO (XO (XO (XO XH))))))))))) :: (
         (byte_of_N
           (N.modulo u (Npos (XO (XO (XO (XO (XO (XO (XO (XO XH))))))))))) :: [])

(** val utf16_enc1 : bool -> n -> bytes option **)

let utf16_enc1 le c =
  if is_surrogate c
  then None
  else if N.ltb c (Npos (XO (XO (XO (XO (XO (XO (XO (XO (XO (XO (XO (XO (XO
            (XO (XO (XO XH)))))))))))))))))
       then Some (u16_bytes le c)
       else if N.leb c (Npos (XI (XI (XI (XI (XI (XI (XI (XI (XI (XI (XI (XI
                 (XI (XI (XI (XI (XO (XO (XO (XO XH)))))))))))))))))))))
            then let d =
                   N.sub c (Npos (XO (XO (XO (XO (XO (XO (XO (XO (XO (XO (XO
                     (XO (XO (XO (XO (XO XH)))))))))))))))))
                 in
                 Some
                 (app
                   (u16_bytes le
                     (N.add (Npos (XO (XO (XO (XO (XO (XO (XO (XO (XO (XO (XO
                       (XI (XI (XO (XI XH))))))))))))))))
                       (N.div d (Npos (XO (XO (XO (XO (XO (XO (XO (XO (XO (XO
                         XH))))))))))))))
                   (u16_bytes le
                     (N.add (Npos (XO (XO (XO (XO (XO (XO (XO (XO (XO (XO (XI
                       (XI (XI (XO (XI XH))))))))))))))))
                       (N.modulo d (Npos (XO (XO (XO (XO (XO (XO (XO (XO (XO
                         (XO XH)))))))))))))))
            else None

(** val utf16_encode_raw : bool -> n list -> bytes option **)

let utf16_encode_raw le cps =
  opt_concat (map (utf16_enc1 le) cps)

(** val units16 : bool -> bytes -> n list option **)

let rec units16 le = function
| [] -> Some []
| a :: l ->
  (match l with
   | [] -> None
   | b :: t ->
     option_map (fun x ->
       (if le
        then N.add (bN a)
               (N.mul (Npos (XO (XO (XO (XO (XO (XO (XO (XO XH)))))))))
                 (bN b))
        else N.add
               (N.mul (Npos (XO (XO (XO (XO (XO (XO (XO (XO XH)))))))))
                 (bN a)) (bN b)) :: x) (units16 le t))

(** val utf16_units_decode : n list -> n list option **)

let rec utf16_units_decode = function
| [] -> Some []
| u :: t ->
  if (&&)
       (N.leb (Npos (XO (XO (XO (XO (XO (XO (XO (XO (XO (XO (XO (XI (XI (XO
         (XI XH)))))))))))))))) u)
       (N.ltb u (Npos (XO (XO (XO (XO (XO (XO (XO (XO (XO (XO (XI (XI (XI (XO
         (XI XH)))))))))))))))))
  then (match t with
        | [] -> None
        | v :: t' ->
          if (&&)
               (N.leb (Npos (XO (XO (XO (XO (XO (XO (XO (XO (XO (XO (XI (XI
                 (XI (XO (XI XH)))))))))))))))) v)
               (N.leb v (Npos (XI (XI (XI (XI (XI (XI (XI (XI (XI (XI (XI (XI
                 (XI (XO (XI XH)))))))))))))))))
          then option_map (fun x ->
                 (N.add
                   (N.add (Npos (XO (XO (XO (XO (XO (XO (XO (XO (XO (XO (XO
                     (XO (XO (XO (XO (XO XH)))))))))))))))))
                     (N.mul
                       (N.sub u (Npos (XO (XO (XO (XO (XO (XO (XO (XO (XO (XO
                         (XO (XI (XI (XO (XI XH))))))))))))))))) (Npos (XO
                       (XO (XO (XO (XO (XO (XO (XO (XO (XO XH)))))))))))))
                   (N.sub v (Npos (XO (XO (XO (XO (XO (XO (XO (XO (XO (XO (XI
                     (XI (XI (XO (XI XH)))))))))))))))))) :: x)
                 (utf16_units_decode t')
          else None)
  else if (&&)
            (N.leb (Npos (XO (XO (XO (XO (XO (XO (XO (XO (XO (XO (XI (XI (XI
              (XO (XI XH)))))))))))))))) u)
            (N.leb u (Npos (XI (XI (XI (XI (XI (XI (XI (XI (XI (XI (XI (XI
              (XI (XO (XI XH)))))))))))))))))
       then None
       else option_map (fun x -> u :: x) (utf16_units_decode t)

(** val utf16_decode_raw : bool -> bytes -> n list option **)

let utf16_decode_raw le bs =
  match units16 le bs with
  | Some us -> utf16_units_decode us
  | None -> None

(** val u32_bytes : bool -> n -> bytes **)

let u32_bytes le c =
  let b0 =
    byte_of_N (N.modulo c (Npos (XO (XO (XO (XO (XO (XO (XO (XO XH))))))))))
  in
  let b1 =
    byte_of_N
      (N.modulo (N.div c (Npos (XO (XO (XO (XO (XO (XO (XO (XO XH))))))))))
        (Npos (XO (XO (XO (XO (XO (XO (XO (XO XH))))))))))
  in
  let b2 =
    byte_of_N
      (N.modulo
        (N.div c (Npos (XO (XO (XO (XO (XO (XO (XO (XO (XO (XO (XO (XO (XO
          (XO (XO (XO XH)))))))))))))))))) (Npos (XO (XO (XO (XO (XO (XO (XO
        (XO XH))))))))))
  in
  let b3 =
    byte_of_N
      (N.div c (Npos (XO (XO (XO (XO (XO (XO (XO (XO (XO (XO (XO (XO (XO (XO
        (XO (XO (XO (XO (XO (XO (XO (XO (XO (XO XH))))))))))))))))))))))))))
  in
  if le
  then b0 :: (b1 :: (b2 :: (b3 :: [])))
  else b3 :: (b2 :: (b1 :: (b0 :: [])))

(** val utf32_encode_raw : bool -> n list -> bytes option **)

let utf32_encode_raw le cps =
  if forallb valid_cp cps then Some (flat_map (u32_bytes le) cps) else None

(** val utf32_decode_raw : bool -> bytes -> n list option **)

let rec utf32_decode_raw le = function
| [] -> Some []
| a :: l ->
  (match l with
   | [] -> None
   | b :: l0 ->
     (match l0 with
      | [] -> None
      | c :: l1 ->
        (match l1 with
         | [] -> None
         | d :: t ->
           let v =
             if le
             then N.add
                    (N.add
                      (N.add (bN a)
                        (N.mul (Npos (XO (XO (XO (XO (XO (XO (XO (XO
                          XH))))))))) (bN b)))
                      (N.mul (Npos (XO (XO (XO (XO (XO (XO (XO (XO (XO (XO
                        (XO (XO (XO (XO (XO (XO XH))))))))))))))))) (bN c)))
                    (N.mul (Npos (XO (XO (XO (XO (XO (XO (XO (XO (XO (XO (XO
                      (XO (XO (XO (XO (XO (XO (XO (XO (XO (XO (XO (XO (XO
                      XH))))))))))))))))))))))))) (bN d))
             else N.add
                    (N.add
                      (N.add (bN d)
                        (N.mul (Npos (XO (XO (XO (XO (XO (XO (XO (XO
                          XH))))))))) (bN c)))
                      (N.mul (Npos (XO (XO (XO (XO (XO (XO (XO (XO (XO (XO
                        (XO (XO (XO (XO (XO (XO XH))))))))))))))))) (bN b)))
                    (N.mul (Npos (XO (XO (XO (XO (XO (XO (XO (XO (XO (XO (XO
                      (XO (XO (XO (XO (XO (XO (XO (XO (XO (XO (XO (XO (XO
                      XH))))))))))))))))))))))))) (bN a))
           in
           if valid_cp v
           then option_map (fun x -> v :: x) (utf32_decode_raw le t)
           else None)))

(** val decode : encoding -> bytes -> n list option **)

let decode e bs =
  match e with
  | EncAscii -> ascii_decode bs
  | EncUtf8 -> utf8_decode bs
  | EncUtf16 ->
    (match bs with
     | [] -> utf16_decode_raw true bs
     | b :: l ->
       (match b with
        | Xfe ->
          (match l with
           | [] -> utf16_decode_raw true bs
           | b0 :: t ->
             (match b0 with
              | Xff -> utf16_decode_raw false t
              | _ -> utf16_decode_raw true bs))
        | Xff ->
          (match l with
           | [] -> utf16_decode_raw true bs
           | b0 :: t ->
             (match b0 with
              | Xfe -> utf16_decode_raw true t
              | _ -> utf16_decode_raw true bs))
        | _ -> utf16_decode_raw true bs))
  | EncUtf16le -> utf16_decode_raw true bs
  | EncUtf16be -> utf16_decode_raw false bs
  | EncUtf32 ->
    (match bs with
     | [] -> utf32_decode_raw true bs
     | b :: l ->
       (match b with
        | X00 ->
          (match l with
           | [] -> utf32_decode_raw true bs
           | b0 :: l0 ->
             (match b0 with
              | X00 ->
                (match l0 with
                 | [] -> utf32_decode_raw true bs
                 | b1 :: l1 ->
                   (match b1 with
                    | Xfe ->
                      (match l1 with
                       | [] -> utf32_decode_raw true bs
                       | b2 :: t ->
                         (match b2 with
                          | Xff -> utf32_decode_raw false t
                          | _ -> utf32_decode_raw true bs))
                    | _ -> utf32_decode_raw true bs))
              | _ -> utf32_decode_raw true bs))
        | Xff ->
          (match l with
           | [] -> utf32_decode_raw true bs
           | b0 :: l0 ->
             (match b0 with
              | Xfe ->
                (match l0 with
                 | [] -> utf32_decode_raw true bs
                 | b1 :: l1 ->
                   (match b1 with
                    | X00 ->
                      (match l1 with
                       | [] -> utf32_decode_raw true bs
                       | b2 :: t ->
                         (match b2 with
                          | X00 -> utf32_decode_raw true t
                          | _ -> utf32_decode_raw true bs))
                    | _ -> utf32_decode_raw true bs))
              | _ -> utf32_decode_raw true bs))
        | _ -> utf32_decode_raw true bs))
  | EncUtf32le -> utf32_decode_raw true bs
  | EncUtf32be -> utf32_decode_raw false bs

(** val encode : encoding -> n list -> bytes option **)

let encode e cps =
  match e with
  | EncAscii -> ascii_encode cps
  | EncUtf8 -> utf8_encode cps
  | EncUtf16 ->
    option_map (fun b -> Xff :: (Xfe :: b)) (utf16_encode_raw true cps)
  | EncUtf16le -> utf16_encode_raw true cps
  | EncUtf16be -> utf16_encode_raw false cps
  | EncUtf32 ->
    option_map (fun b -> Xff :: (Xfe :: (X00 :: (X00 :: b))))
      (utf32_encode_raw true cps)
  | EncUtf32le -> utf32_encode_raw true cps
  | EncUtf32be -> utf32_encode_raw false cps

type fmt = { ebits : n; mbits : n }

(** val binary16 : fmt **)

let binary16 =
  { ebits = (Npos (XI (XO XH))); mbits = (Npos (XO (XI (XO XH)))) }

(** val binary32 : fmt **)

let binary32 =
  { ebits = (Npos (XO (XO (XO XH)))); mbits = (Npos (XI (XI (XI (XO XH))))) }

(** val binary64 : fmt **)

let binary64 =
  { ebits = (Npos (XI (XI (XO XH)))); mbits = (Npos (XO (XO (XI (XO (XI
    XH)))))) }

(** val bias : fmt -> z **)

let bias f =
  Z.of_N (N.sub (N.pow (Npos (XO XH)) (N.sub f.ebits (Npos XH))) (Npos XH))

(** val emax_field : fmt -> n **)

let emax_field f =
  N.sub (N.pow (Npos (XO XH)) f.ebits) (Npos XH)

(** val f_sign : fmt -> n -> n **)

let f_sign f p =
  N.modulo (N.shiftr p (N.add f.ebits f.mbits)) (Npos (XO XH))

(** val f_exp : fmt -> n -> n **)

let f_exp f p =
  N.modulo (N.shiftr p f.mbits) (N.pow (Npos (XO XH)) f.ebits)

(** val f_mant : fmt -> n -> n **)

let f_mant f p =
  N.modulo p (N.pow (Npos (XO XH)) f.mbits)

(** val f_pack : fmt -> n -> n -> n -> n **)

let f_pack f s e m =
  N.add
    (N.add (N.mul s (N.pow (Npos (XO XH)) (N.add f.ebits f.mbits)))
      (N.mul e (N.pow (Npos (XO XH)) f.mbits))) m

(** val is_nan : fmt -> n -> bool **)

let is_nan f p =
  (&&) (N.eqb (f_exp f p) (emax_field f)) (negb (N.eqb (f_mant f p) N0))

(** val is_inf : fmt -> n -> bool **)

let is_inf f p =
  (&&) (N.eqb (f_exp f p) (emax_field f)) (N.eqb (f_mant f p) N0)

(** val quiet_nan : fmt -> n -> n **)

let quiet_nan f s =
  f_pack f s (emax_field f) (N.pow (Npos (XO XH)) (N.sub f.mbits (Npos XH)))

(** val f_sig_ex : fmt -> n -> n * z **)

let f_sig_ex f p =
  let e = f_exp f p in
  let m = f_mant f p in
  if N.eqb e N0
  then (m, (Z.sub (Z.sub (Zpos XH) (bias f)) (Z.of_N f.mbits)))
  else ((N.add m (N.pow (Npos (XO XH)) f.mbits)),
         (Z.sub (Z.sub (Z.of_N e) (bias f)) (Z.of_N f.mbits)))

(** val rne_shift : n -> z -> n **)

let rne_shift sig0 sh =
  if Z.leb Z0 sh
  then N.mul sig0 (N.pow (Npos (XO XH)) (Z.to_N sh))
  else let k = Z.to_N (Z.opp sh) in
       let q = N.div sig0 (N.pow (Npos (XO XH)) k) in
       let r = N.modulo sig0 (N.pow (Npos (XO XH)) k) in
       let half = N.pow (Npos (XO XH)) (N.sub k (Npos XH)) in
       if N.ltb r half
       then q
       else if N.ltb half r
            then N.add q (Npos XH)
            else if N.even q then q else N.add q (Npos XH)

(** val f_round : fmt -> n -> n -> z -> n option **)

let f_round f s sig0 ex =
  if N.eqb sig0 N0
  then Some (f_pack f s N0 N0)
  else let m = Z.of_N f.mbits in
       let top = Z.add (Z.of_N (N.log2 sig0)) ex in
       let qmin = Z.sub (Z.sub (Zpos XH) (bias f)) m in
       let q = Z.max (Z.sub top m) qmin in
       let r = rne_shift sig0 (Z.sub ex q) in
       if N.eqb r (N.pow (Npos (XO XH)) (N.add f.mbits (Npos XH)))
       then let r0 = N.pow (Npos (XO XH)) f.mbits in
            let q0 = Z.add q (Zpos XH) in
            if N.ltb r0 (N.pow (Npos (XO XH)) f.mbits)
            then Some (f_pack f s N0 r0)
            else let e = Z.add (Z.add q0 m) (bias f) in
                 if Z.leb (Z.of_N (emax_field f)) e
                 then None
                 else Some
                        (f_pack f s (Z.to_N e)
                          (N.sub r0 (N.pow (Npos (XO XH)) f.mbits)))
       else if N.ltb r (N.pow (Npos (XO XH)) f.mbits)
            then Some (f_pack f s N0 r)
            else let e = Z.add (Z.add q m) (bias f) in
                 if Z.leb (Z.of_N (emax_field f)) e
                 then None
                 else Some
                        (f_pack f s (Z.to_N e)
                          (N.sub r (N.pow (Npos (XO XH)) f.mbits)))

(** val widen : fmt -> n -> n **)

let widen f p =
  let s = f_sign f p in
  if is_nan f p
  then quiet_nan binary64 s
  else if is_inf f p
       then f_pack binary64 s (emax_field binary64) N0
       else let (sig0, ex) = f_sig_ex f p in
            (match f_round binary64 s sig0 ex with
             | Some r -> r
             | None -> N0)

(** val narrow : fmt -> n -> n option **)

let narrow f p =
  let s = f_sign binary64 p in
  if is_nan binary64 p
  then Some (quiet_nan f s)
  else if is_inf binary64 p
       then Some (f_pack f s (emax_field f) N0)
       else let (sig0, ex) = f_sig_ex binary64 p in f_round f s sig0 ex

(** val f64_of_Z : z -> n option **)

let f64_of_Z z0 =
  let s = if Z.ltb z0 Z0 then Npos XH else N0 in
  let a = Z.to_N (Z.abs z0) in
  (match f_round binary64 s a Z0 with
   | Some r ->
     let (sig0, ex) = f_sig_ex binary64 r in
     if Z.leb Z0 ex
     then if N.eqb (N.mul sig0 (N.pow (Npos (XO XH)) (Z.to_N ex))) a
          then Some r
          else None
     else if N.eqb sig0 (N.mul a (N.pow (Npos (XO XH)) (Z.to_N (Z.opp ex))))
          then Some r
          else None
   | None -> None)

type istream = { idata : bytes; ipos : n; ibase : n; iseekable : bool }

(** val nlen : 'a1 list -> n **)

let nlen l =
  N.of_nat (length l)

(** val istream_of : bytes -> istream **)

let istream_of data =
  { idata = data; ipos = N0; ibase = N0; iseekable = true }

(** val substream : bytes -> n -> istream **)

let substream data base =
  { idata = data; ipos = N0; ibase = base; iseekable = true }

(** val iset_pos : istream -> n -> istream **)

let iset_pos s p =
  { idata = s.idata; ipos = p; ibase = s.ibase; iseekable = s.iseekable }

(** val itell : istream -> z **)

let itell s =
  Z.of_N (N.add s.ibase s.ipos)

(** val iabs : istream -> n **)

let iabs s =
  N.add s.ibase s.ipos

(** val iavail : istream -> bytes **)

let iavail s =
  if N.leb (nlen s.idata) s.ipos then [] else skipn (N.to_nat s.ipos) s.idata

(** val iread : istream -> z -> path -> (bytes * istream) res **)

let iread s n0 p =
  if Z.ltb n0 Z0
  then raise EStream p
  else let av = iavail s in
       if Z.ltb (Z.of_nat (length av)) n0
       then raise EStream p
       else Ok ((firstn (Z.to_nat n0) av),
              (iset_pos s (N.add s.ipos (Z.to_N n0))))

(** val iread_all : istream -> bytes * istream **)

let iread_all s =
  ((iavail s), (iset_pos s (N.max s.ipos (nlen s.idata))))

(** val iseek : istream -> z -> z -> path -> (z * istream) res **)

let iseek s off whence p =
  if negb s.iseekable
  then if (&&) (Z.eqb whence Z0) (Z.eqb off (itell s))
       then Ok ((itell s), s)
       else raise EStream p
  else if Z.eqb whence Z0
       then let rel = Z.sub off (Z.of_N s.ibase) in
            if Z.ltb rel Z0
            then raise EStream p
            else let s' = iset_pos s (Z.to_N rel) in Ok ((itell s'), s')
       else if Z.eqb whence (Zpos XH)
            then let np = Z.max Z0 (Z.add (Z.of_N s.ipos) off) in
                 let s' = iset_pos s (Z.to_N np) in Ok ((itell s'), s')
            else if Z.eqb whence (Zpos (XO XH))
                 then let np =
                        Z.max Z0 (Z.add (Z.of_nat (length s.idata)) off)
                      in
                      let s' = iset_pos s (Z.to_N np) in Ok ((itell s'), s')
                 else raise EStream p

type ostream = { odata : bytes; opos : n; oseekable : bool }

(** val ostream_new : ostream **)

let ostream_new =
  { odata = []; opos = N0; oseekable = true }

(** val otell : ostream -> z **)

let otell o =
  Z.of_N o.opos

(** val zeros : nat -> bytes **)

let zeros n0 =
  repeat X00 n0

(** val alloc_bound : z **)

let alloc_bound =
  Zpos (XO (XO (XO (XO (XO (XO (XO (XO (XO (XO (XO (XO (XO (XO (XO (XO (XO
    (XO (XO (XO XH))))))))))))))))))))

(** val owrite_raw : ostream -> bytes -> ostream res **)

let owrite_raw o d =
  let cur = o.odata in
  let len = nlen cur in
  if N.leb o.opos len
  then let k = N.to_nat o.opos in
       Ok { odata =
       (app (firstn k cur) (app d (skipn (add k (length d)) cur))); opos =
       (N.add o.opos (nlen d)); oseekable = o.oseekable }
  else if Z.ltb alloc_bound (Z.of_N (N.sub o.opos len))
       then unsupported
       else Ok { odata =
              (app cur (app (zeros (N.to_nat (N.sub o.opos len))) d)); opos =
              (N.add o.opos (nlen d)); oseekable = o.oseekable }

(** val owrite : ostream -> bytes -> z -> path -> ostream res **)

let owrite o d len p =
  if Z.ltb len Z0
  then raise EStream p
  else if negb (Z.eqb (Z.of_nat (length d)) len)
       then raise EStream p
       else owrite_raw o d

(** val oseek : ostream -> z -> z -> path -> (z * ostream) res **)

let oseek o off whence p =
  if negb o.oseekable
  then if (&&) (Z.eqb whence Z0) (Z.eqb off (otell o))
       then Ok ((otell o), o)
       else raise EStream p
  else if Z.eqb whence Z0
       then if Z.ltb off Z0
            then raise EStream p
            else Ok (off, { odata = o.odata; opos = (Z.to_N off); oseekable =
                   true })
       else if Z.eqb whence (Zpos XH)
            then let np = Z.max Z0 (Z.add (Z.of_N o.opos) off) in
                 Ok (np, { odata = o.odata; opos = (Z.to_N np); oseekable =
                 true })
            else if Z.eqb whence (Zpos (XO XH))
                 then let np =
                        Z.max Z0 (Z.add (Z.of_nat (length o.odata)) off)
                      in
                      Ok (np, { odata = o.odata; opos = (Z.to_N np);
                      oseekable = true })
                 else raise EStream p

(** val oread : ostream -> z -> path -> (bytes * ostream) res **)

let oread o n0 p =
  if Z.ltb n0 Z0
  then raise EStream p
  else let av =
         if N.leb (nlen o.odata) o.opos
         then []
         else skipn (N.to_nat o.opos) o.odata
       in
       if Z.ltb (Z.of_nat (length av)) n0
       then raise EStream p
       else Ok ((firstn (Z.to_nat n0) av), { odata = o.odata; opos =
              (N.add o.opos (Z.to_N n0)); oseekable = o.oseekable })

type endian =
| Big
| Little

type fcode =
| FB
| FH
| FL
| FQ
| Fb
| Fh
| Fl
| Fq
| Fe
| Ff
| Fd

type bfun =
| BFbytes2bits
| BFbits2bytes
| BFswapbytes
| BFswapbitsinbytes

type sizefun =
| SFdiv8
| SFmul8
| SFid
| SFnone

type hashfun =
| HSum8
| HXor8
| HLen

type unionsel =
| USNone
| USIndex of z
| USName of name

type con =
| CFormat of endian * fcode
| CBytesInt of expr * bool * bool
| CBitsInt of expr * bool * bool
| CVarInt
| CZigZag
| CBytes of expr
| CGreedyBytes
| CFlag
| CPass
| CTerminated
| CError
| CTell
| CIndex
| CComputed of expr
| CCheck of expr
| CStopIf of expr
| CSeek of expr * expr
| CStringEncoded of con * encoding
| CEnum of con * (name * z) list
| CFlagsEnum of con * (name * z) list
| CMapping of con * (val0 * val0) list
| CHex of con
| CHexDump of con
| CExprValidator of con * expr
| COneOf of con * val0 list
| CNoneOf of con * val0 list
| CExprAdapter of con * expr * expr
| CStruct of con list
| CSequence of con list
| CFocusedSeq of name * con list
| CUnion of unionsel * con list
| CSelect of con list
| CIfThenElse of expr * con * con
| CSwitch of expr * (val0 * con) list * con
| CArray of expr * con
| CGreedyRange of con
| CRepeatUntil of expr * con
| CRenamed of name * con
| CConst of val0 * con
| CRebuild of con * expr
| CDefault of con * expr
| CPadded of expr * con * byte
| CAligned of expr * con * byte
| CPointer of expr * con
| CPeek of con
| COffsettedEnd of expr * con
| CRawCopy of con
| CPrefixed of con * con * bool
| CFixedSized of expr * con
| CNullTerminated of con * bytes * bool * bool * bool
| CNullStripped of con * bytes
| CTransformed of con * bfun * z option * bfun * z option
| CRestreamed of con * bfun * z * bfun * z * sizefun
| CProcessXor of expr * con
| CProcessRotl of expr * expr * con
| CChecksum of con * hashfun * expr
| CLazy of con
| CLazyStruct of con list
| CLazyArray of expr * con

(** val name_of : con -> name option **)

let name_of = function
| CRenamed (n0, _) -> Some n0
| _ -> None

(** val buildnone : con -> bool **)

let rec buildnone = function
| CFormat (_, _) -> false
| CBytesInt (_, _, _) -> false
| CBitsInt (_, _, _) -> false
| CVarInt -> false
| CZigZag -> false
| CBytes _ -> false
| CGreedyBytes -> false
| CFlag -> false
| CStringEncoded (c0, _) -> buildnone c0
| CEnum (c0, _) -> buildnone c0
| CFlagsEnum (c0, _) -> buildnone c0
| CMapping (c0, _) -> buildnone c0
| CHex c0 -> buildnone c0
| CHexDump c0 -> buildnone c0
| CExprValidator (c0, _) -> buildnone c0
| COneOf (c0, _) -> buildnone c0
| CNoneOf (c0, _) -> buildnone c0
| CExprAdapter (c0, _, _) -> buildnone c0
| CStruct cs -> forallb buildnone cs
| CSequence cs -> forallb buildnone cs
| CFocusedSeq (_, _) -> false
| CUnion (_, _) -> false
| CSelect cs -> existsb buildnone cs
| CIfThenElse (_, a, b) -> (&&) (buildnone a) (buildnone b)
| CSwitch (_, cases, d) ->
  (&&) (forallb (fun vc -> buildnone (snd vc)) cases) (buildnone d)
| CArray (_, c0) -> buildnone c0
| CGreedyRange c0 -> buildnone c0
| CRepeatUntil (_, c0) -> buildnone c0
| CRenamed (_, c0) -> buildnone c0
| CPadded (_, c0, _) -> buildnone c0
| CAligned (_, c0, _) -> buildnone c0
| CPointer (_, c0) -> buildnone c0
| COffsettedEnd (_, c0) -> buildnone c0
| CRawCopy c0 -> buildnone c0
| CPrefixed (_, c0, _) -> buildnone c0
| CFixedSized (_, c0) -> buildnone c0
| CNullTerminated (c0, _, _, _, _) -> buildnone c0
| CNullStripped (c0, _) -> buildnone c0
| CTransformed (c0, _, _, _, _) -> buildnone c0
| CRestreamed (c0, _, _, _, _, _) -> buildnone c0
| CProcessXor (_, c0) -> buildnone c0
| CProcessRotl (_, _, c0) -> buildnone c0
| CLazy c0 -> buildnone c0
| CLazyStruct cs -> forallb buildnone cs
| CLazyArray (_, c0) -> buildnone c0
| _ -> true

(** val fcode_size : fcode -> nat **)

let fcode_size = function
| FB -> S O
| FH -> S (S O)
| FL -> S (S (S (S O)))
| Fb -> S O
| Fh -> S (S O)
| Fl -> S (S (S (S O)))
| Fe -> S (S O)
| Ff -> S (S (S (S O)))
| _ -> S (S (S (S (S (S (S (S O)))))))

(** val fcode_signed : fcode -> bool **)

let fcode_signed = function
| Fb -> true
| Fh -> true
| Fl -> true
| Fq -> true
| _ -> false

(** val fcode_float : fcode -> bool **)

let fcode_float = function
| Fe -> true
| Ff -> true
| Fd -> true
| _ -> false

(** val apply_bfun : bfun -> bytes -> bytes res **)

let apply_bfun f d =
  match f with
  | BFbytes2bits -> Ok (bytes2bits d)
  | BFbits2bytes ->
    (match bits2bytes d with
     | B2BOk r -> Ok r
     | B2BLen -> Err (EValue, None)
     | B2BKey -> Err (EKey, None))
  | BFswapbytes -> Ok (swapbytes d)
  | BFswapbitsinbytes -> Ok (swapbitsinbytes d)

(** val apply_sizefun : sizefun -> z -> z **)

let apply_sizefun f n0 =
  match f with
  | SFdiv8 -> Z.div n0 (Zpos (XO (XO (XO XH))))
  | SFmul8 -> Z.mul n0 (Zpos (XO (XO (XO XH))))
  | _ -> n0

(** val apply_hash : hashfun -> bytes -> val0 **)

let apply_hash h d =
  match h with
  | HSum8 ->
    VInt
      (Z.of_N
        (fold_left (fun a b ->
          N.modulo (N.add a (to_N0 b)) (Npos (XO (XO (XO (XO (XO (XO (XO (XO
            XH)))))))))) d N0))
  | HXor8 ->
    VInt (Z.of_N (fold_left (fun a b -> N.coq_lxor a (to_N0 b)) d N0))
  | HLen -> VInt (Z.of_nat (length d))

(** val eval_int : ctx -> expr -> z res **)

let eval_int cx e =
  bind (eval cx e) (fun v ->
    match v with
    | VBool b -> Ok (if b then Zpos XH else Z0)
    | VInt z0 -> Ok z0
    | VFloat _ -> unsupported
    | _ -> type_error)

(** val catch_key : 'a1 res -> path -> 'a1 res **)

let catch_key r p =
  match r with
  | Ok _ -> r
  | Err (e, _) ->
    (match e with
     | EKey -> raise ESizeof p
     | EAttr -> raise ESizeof p
     | _ -> r)

(** val sum_sizes :
    (con -> ctx -> path -> z res) -> ctx -> path -> con list -> z res **)

let rec sum_sizes s cx p = function
| [] -> Ok Z0
| c :: t ->
  bind (s c cx p) (fun a ->
    bind (sum_sizes s cx p t) (fun b -> Ok (Z.add a b)))

(** val find_case : val0 -> (val0 * 'a1) list -> 'a1 option **)

let rec find_case k = function
| [] -> None
| p :: t -> let (v, a) = p in if val_eqb k v then Some a else find_case k t

(** val hashable : val0 -> bool **)

let hashable = function
| VList _ -> false
| VDict _ -> false
| _ -> true

(** val sizeof : con -> ctx -> path -> z res **)

let rec sizeof c cx p =
  match c with
  | CFormat (_, f) -> Ok (Z.of_nat (fcode_size f))
  | CBytesInt (len, _, _) -> catch_key (eval_int cx len) p
  | CBitsInt (len, _, _) -> catch_key (eval_int cx len) p
  | CBytes len -> catch_key (eval_int cx len) p
  | CFlag -> Ok (Zpos XH)
  | CPass -> Ok Z0
  | CTell -> Ok Z0
  | CIndex -> Ok Z0
  | CComputed _ -> Ok Z0
  | CCheck _ -> Ok Z0
  | CStringEncoded (c0, _) -> sizeof c0 cx p
  | CEnum (c0, _) -> sizeof c0 cx p
  | CFlagsEnum (c0, _) -> sizeof c0 cx p
  | CMapping (c0, _) -> sizeof c0 cx p
  | CHex c0 -> sizeof c0 cx p
  | CHexDump c0 -> sizeof c0 cx p
  | CExprValidator (c0, _) -> sizeof c0 cx p
  | COneOf (c0, _) -> sizeof c0 cx p
  | CNoneOf (c0, _) -> sizeof c0 cx p
  | CExprAdapter (c0, _, _) -> sizeof c0 cx p
  | CStruct cs -> catch_key (sum_sizes sizeof (push_scope cx) p cs) p
  | CSequence cs -> catch_key (sum_sizes sizeof (push_scope cx) p cs) p
  | CFocusedSeq (_, cs) -> catch_key (sum_sizes sizeof (push_scope cx) p cs) p
  | CIfThenElse (e, a, b) ->
    bind (catch_key (eval cx e) p) (fun v ->
      if truthy v then sizeof a cx p else sizeof b cx p)
  | CSwitch (e, cases, d) ->
    catch_key
      (bind (eval cx e) (fun k ->
        if negb (hashable k)
        then type_error
        else let rec go = function
             | [] -> sizeof d cx p
             | p0 :: t ->
               let (v, c') = p0 in
               if val_eqb k v then sizeof c' cx p else go t
             in go cases)) p
  | CArray (count, c0) ->
    bind (catch_key (eval_int cx count) p) (fun n0 ->
      bind (sizeof c0 cx p) (fun s -> Ok (Z.mul n0 s)))
  | CRenamed (n0, c0) -> sizeof c0 cx (app p (n0 :: []))
  | CConst (_, c0) -> sizeof c0 cx p
  | CRebuild (c0, _) -> sizeof c0 cx p
  | CDefault (c0, _) -> sizeof c0 cx p
  | CPadded (len, _, _) ->
    catch_key
      (bind (eval_int cx len) (fun n0 ->
        if Z.ltb n0 Z0 then raise EPadding p else Ok n0)) p
  | CAligned (m, c0, _) ->
    catch_key
      (bind (eval_int cx m) (fun n0 ->
        if Z.ltb n0 (Zpos (XO XH))
        then raise EPadding p
        else bind (sizeof c0 cx p) (fun s -> Ok
               (Z.add s (Z.modulo (Z.opp s) n0))))) p
  | CPointer (_, _) -> Ok Z0
  | CPeek _ -> Ok Z0
  | CRawCopy c0 -> sizeof c0 cx p
  | CPrefixed (lc, c0, _) ->
    bind (sizeof lc cx p) (fun a ->
      bind (sizeof c0 cx p) (fun b -> Ok (Z.add a b)))
  | CFixedSized (len, _) ->
    bind (catch_key (eval_int cx len) p) (fun n0 ->
      if Z.ltb n0 Z0 then raise EPadding p else Ok n0)
  | CTransformed (_, _, da, _, ea) ->
    (match da with
     | Some a ->
       (match ea with
        | Some b -> if Z.eqb a b then Ok b else raise ESizeof p
        | None -> raise ESizeof p)
     | None -> raise ESizeof p)
  | CRestreamed (c0, _, _, _, _, sf) ->
    (match sf with
     | SFnone -> raise ESizeof p
     | _ -> bind (sizeof c0 cx p) (fun s -> Ok (apply_sizefun sf s)))
  | CProcessXor (_, c0) -> sizeof c0 cx p
  | CProcessRotl (_, _, c0) -> sizeof c0 cx p
  | CChecksum (c0, _, _) -> sizeof c0 cx p
  | CLazy c0 -> sizeof c0 cx p
  | CLazyStruct cs -> catch_key (sum_sizes sizeof (push_scope cx) p cs) p
  | CLazyArray (count, c0) ->
    bind (catch_key (eval_int cx count) p) (fun n0 ->
      bind (sizeof c0 cx p) (fun s -> Ok (Z.mul n0 s)))
  | _ -> raise ESizeof p

type parser0 = ctx -> path -> istream -> (val0 * istream) res

(** val vint_of : val0 -> z res **)

let vint_of = function
| VBool b -> Ok (if b then Zpos XH else Z0)
| VInt z0 -> Ok z0
| VFloat _ -> unsupported
| _ -> type_error

(** val fmt_of : fcode -> fmt **)

let fmt_of = function
| Fe -> binary16
| Ff -> binary32
| _ -> binary64

(** val parse_format :
    endian -> fcode -> path -> istream -> (val0 * istream) res **)

let parse_format en f p s =
  bind (iread s (Z.of_nat (fcode_size f)) p) (fun pat ->
    let (d, s') = pat in
    let d0 = match en with
             | Big -> d
             | Little -> rev d in
    let n0 = be_decode d0 in
    if fcode_float f
    then Ok ((VFloat (widen (fmt_of f) n0)), s')
    else Ok ((VInt
           (unpattern (fcode_signed f)
             (N.mul (Npos (XO (XO (XO XH)))) (N.of_nat (fcode_size f))) n0)),
           s'))

(** val varint_loop : nat -> istream -> path -> (n * istream) res **)

let rec varint_loop fuel s p =
  match fuel with
  | O -> Err (EDiverge, None)
  | S f ->
    bind (iread s (Zpos XH) p) (fun pat ->
      let (d, s') = pat in
      (match d with
       | [] -> raise EStream p
       | b :: _ ->
         let n0 = to_N0 b in
         if N.ltb n0 (Npos (XO (XO (XO (XO (XO (XO (XO XH))))))))
         then Ok (n0, s')
         else bind (varint_loop f s' p) (fun pat0 ->
                let (hi, s'') = pat0 in
                Ok
                ((N.add
                   (N.mul hi (Npos (XO (XO (XO (XO (XO (XO (XO XH)))))))))
                   (N.sub n0 (Npos (XO (XO (XO (XO (XO (XO (XO XH)))))))))),
                s''))))

(** val parse_varint : istream -> path -> (n * istream) res **)

let parse_varint s p =
  varint_loop (S (length (iavail s))) s p

(** val is_stopif : con -> bool **)

let is_stopif = function
| CStopIf _ -> true
| CRenamed (_, c0) -> (match c0 with
                       | CStopIf _ -> true
                       | _ -> false)
| _ -> false

(** val struct_loop :
    (con -> parser0) -> con list -> ctx -> path -> (name * val0) list ->
    istream -> (((name * val0) list * ctx) * istream) res **)

let rec struct_loop p cs cx p0 acc s =
  match cs with
  | [] -> Ok ((acc, cx), s)
  | c :: t ->
    (match p c cx p0 s with
     | Ok a ->
       let (v, s') = a in
       (match name_of c with
        | Some n0 ->
          struct_loop p t (ctx_set cx n0 v) p0 (dict_set n0 v acc) s'
        | None -> struct_loop p t cx p0 acc s')
     | Err (e, q) ->
       (match e with
        | EStopField -> if is_stopif c then Ok ((acc, cx), s) else unsupported
        | _ -> Err (e, q)))

(** val seq_loop :
    (con -> parser0) -> con list -> ctx -> path -> istream -> (val0
    list * istream) res **)

let rec seq_loop p cs cx p0 s =
  match cs with
  | [] -> Ok ([], s)
  | c :: t ->
    (match p c cx p0 s with
     | Ok a ->
       let (v, s') = a in
       let cx' = match name_of c with
                 | Some n0 -> ctx_set cx n0 v
                 | None -> cx
       in
       bind (seq_loop p t cx' p0 s') (fun pat ->
         let (vs, s'') = pat in Ok ((v :: vs), s''))
     | Err (e, q) ->
       (match e with
        | EStopField -> if is_stopif c then Ok ([], s) else unsupported
        | _ -> Err (e, q)))

(** val focus_loop :
    (con -> parser0) -> name -> con list -> ctx -> path -> val0 option ->
    istream -> (val0 option * istream) res **)

let rec focus_loop p sel cs cx p0 fin s =
  match cs with
  | [] -> Ok (fin, s)
  | c :: t ->
    bind (p c cx p0 s) (fun pat ->
      let (v, s') = pat in
      (match name_of c with
       | Some n0 ->
         focus_loop p sel t (ctx_set cx n0 v) p0
           (if name_eqb n0 sel then Some v else fin) s'
       | None -> focus_loop p sel t cx p0 fin s'))

(** val iter_pos : ('a1 -> 'a1 res) -> positive -> 'a1 -> 'a1 res **)

let rec iter_pos f n0 a =
  match n0 with
  | XI n' ->
    bind (f a) (fun a1 ->
      bind (iter_pos f n' a1) (fun a2 -> iter_pos f n' a2))
  | XO n' -> bind (iter_pos f n' a) (fun a1 -> iter_pos f n' a1)
  | XH -> f a

(** val iter_N : ('a1 -> 'a1 res) -> n -> 'a1 -> 'a1 res **)

let iter_N f n0 a =
  match n0 with
  | N0 -> Ok a
  | Npos p -> iter_pos f p a

(** val count_step :
    parser0 -> ctx -> path -> ((z * val0 list) * istream) -> ((z * val0
    list) * istream) res **)

let count_step p cx p0 = function
| (p1, s) ->
  let (i, acc) = p1 in
  bind (p (ctx_set_index cx i) p0 s) (fun pat ->
    let (v, s1) = pat in Ok (((Z.add i (Zpos XH)), (v :: acc)), s1))

(** val count_loop :
    parser0 -> n -> ctx -> path -> istream -> (val0 list * istream) res **)

let count_loop p n0 cx p0 s =
  bind (iter_N (count_step p cx p0) n0 ((Z0, []), s)) (fun pat ->
    let (p1, s') = pat in let (_, acc) = p1 in Ok ((rev acc), s'))

(** val swallowed : err -> bool **)

let swallowed = function
| EExplicit -> false
| EStopField -> false
| EDiverge -> false
| EUnsupported -> false
| _ -> true

(** val iseek_back : istream -> path -> (z * istream) res **)

let iseek_back s p =
  if s.iseekable then iseek s (itell s) Z0 p else unsupported

(** val greedy_loop :
    parser0 -> nat -> z -> ctx -> path -> istream -> (val0 list * istream) res **)

let rec greedy_loop p fuel i cx p0 s =
  match fuel with
  | O -> Err (EDiverge, None)
  | S f ->
    (match p (ctx_set_index cx i) p0 s with
     | Ok a ->
       let (v, s1) = a in
       bind (greedy_loop p f (Z.add i (Zpos XH)) cx p0 s1) (fun pat ->
         let (vs, s2) = pat in Ok ((v :: vs), s2))
     | Err (e, q) ->
       (match e with
        | EStream ->
          if swallowed e
          then bind (iseek_back s p0) (fun pat ->
                 let (_, s') = pat in Ok ([], s'))
          else Err (e, q)
        | EFormatField ->
          if swallowed e
          then bind (iseek_back s p0) (fun pat ->
                 let (_, s') = pat in Ok ([], s'))
          else Err (e, q)
        | EInteger ->
          if swallowed e
          then bind (iseek_back s p0) (fun pat ->
                 let (_, s') = pat in Ok ([], s'))
          else Err (e, q)
        | EString ->
          if swallowed e
          then bind (iseek_back s p0) (fun pat ->
                 let (_, s') = pat in Ok ([], s'))
          else Err (e, q)
        | EMapping ->
          if swallowed e
          then bind (iseek_back s p0) (fun pat ->
                 let (_, s') = pat in Ok ([], s'))
          else Err (e, q)
        | ERange ->
          if swallowed e
          then bind (iseek_back s p0) (fun pat ->
                 let (_, s') = pat in Ok ([], s'))
          else Err (e, q)
        | ERepeat ->
          if swallowed e
          then bind (iseek_back s p0) (fun pat ->
                 let (_, s') = pat in Ok ([], s'))
          else Err (e, q)
        | EConst ->
          if swallowed e
          then bind (iseek_back s p0) (fun pat ->
                 let (_, s') = pat in Ok ([], s'))
          else Err (e, q)
        | EIndexField ->
          if swallowed e
          then bind (iseek_back s p0) (fun pat ->
                 let (_, s') = pat in Ok ([], s'))
          else Err (e, q)
        | ECheck ->
          if swallowed e
          then bind (iseek_back s p0) (fun pat ->
                 let (_, s') = pat in Ok ([], s'))
          else Err (e, q)
        | EExplicit ->
          if swallowed e
          then bind (iseek_back s p0) (fun pat ->
                 let (_, s') = pat in Ok ([], s'))
          else Err (e, q)
        | EUnion ->
          if swallowed e
          then bind (iseek_back s p0) (fun pat ->
                 let (_, s') = pat in Ok ([], s'))
          else Err (e, q)
        | ESelect ->
          if swallowed e
          then bind (iseek_back s p0) (fun pat ->
                 let (_, s') = pat in Ok ([], s'))
          else Err (e, q)
        | ESwitch ->
          if swallowed e
          then bind (iseek_back s p0) (fun pat ->
                 let (_, s') = pat in Ok ([], s'))
          else Err (e, q)
        | EStopField -> unsupported
        | EPadding ->
          if swallowed e
          then bind (iseek_back s p0) (fun pat ->
                 let (_, s') = pat in Ok ([], s'))
          else Err (e, q)
        | ETerminated ->
          if swallowed e
          then bind (iseek_back s p0) (fun pat ->
                 let (_, s') = pat in Ok ([], s'))
          else Err (e, q)
        | ERawCopy ->
          if swallowed e
          then bind (iseek_back s p0) (fun pat ->
                 let (_, s') = pat in Ok ([], s'))
          else Err (e, q)
        | ERotation ->
          if swallowed e
          then bind (iseek_back s p0) (fun pat ->
                 let (_, s') = pat in Ok ([], s'))
          else Err (e, q)
        | EChecksum ->
          if swallowed e
          then bind (iseek_back s p0) (fun pat ->
                 let (_, s') = pat in Ok ([], s'))
          else Err (e, q)
        | ESizeof ->
          if swallowed e
          then bind (iseek_back s p0) (fun pat ->
                 let (_, s') = pat in Ok ([], s'))
          else Err (e, q)
        | EValidation ->
          if swallowed e
          then bind (iseek_back s p0) (fun pat ->
                 let (_, s') = pat in Ok ([], s'))
          else Err (e, q)
        | EAdaptation ->
          if swallowed e
          then bind (iseek_back s p0) (fun pat ->
                 let (_, s') = pat in Ok ([], s'))
          else Err (e, q)
        | ECancel ->
          if swallowed e
          then bind (iseek_back s p0) (fun pat ->
                 let (_, s') = pat in Ok ([], s'))
          else Err (e, q)
        | EConstruct ->
          if swallowed e
          then bind (iseek_back s p0) (fun pat ->
                 let (_, s') = pat in Ok ([], s'))
          else Err (e, q)
        | EKey ->
          if swallowed e
          then bind (iseek_back s p0) (fun pat ->
                 let (_, s') = pat in Ok ([], s'))
          else Err (e, q)
        | EType ->
          if swallowed e
          then bind (iseek_back s p0) (fun pat ->
                 let (_, s') = pat in Ok ([], s'))
          else Err (e, q)
        | EAttr ->
          if swallowed e
          then bind (iseek_back s p0) (fun pat ->
                 let (_, s') = pat in Ok ([], s'))
          else Err (e, q)
        | EValue ->
          if swallowed e
          then bind (iseek_back s p0) (fun pat ->
                 let (_, s') = pat in Ok ([], s'))
          else Err (e, q)
        | EIndexErr ->
          if swallowed e
          then bind (iseek_back s p0) (fun pat ->
                 let (_, s') = pat in Ok ([], s'))
          else Err (e, q)
        | EZeroDiv ->
          if swallowed e
          then bind (iseek_back s p0) (fun pat ->
                 let (_, s') = pat in Ok ([], s'))
          else Err (e, q)
        | EOverflow ->
          if swallowed e
          then bind (iseek_back s p0) (fun pat ->
                 let (_, s') = pat in Ok ([], s'))
          else Err (e, q)
        | EForeign ->
          if swallowed e
          then bind (iseek_back s p0) (fun pat ->
                 let (_, s') = pat in Ok ([], s'))
          else Err (e, q)
        | EDiverge ->
          if swallowed e
          then bind (iseek_back s p0) (fun pat ->
                 let (_, s') = pat in Ok ([], s'))
          else Err (e, q)
        | EUnsupported ->
          if swallowed e
          then bind (iseek_back s p0) (fun pat ->
                 let (_, s') = pat in Ok ([], s'))
          else Err (e, q)))

(** val until_loop :
    parser0 -> expr -> nat -> z -> val0 list -> ctx -> path -> istream ->
    (val0 list * istream) res **)

let rec until_loop p pred fuel i acc cx p0 s =
  match fuel with
  | O -> Err (EDiverge, None)
  | S f ->
    let cxi = ctx_set_index cx i in
    bind (p cxi p0 s) (fun pat ->
      let (v, s1) = pat in
      let acc' = app acc (v :: []) in
      bind (eval_obj cxi v (Some (VList acc')) pred) (fun t ->
        if truthy t
        then Ok (acc', s1)
        else until_loop p pred f (Z.add i (Zpos XH)) acc' cx p0 s1))

(** val select_loop :
    (con -> parser0) -> con list -> ctx -> path -> istream ->
    (val0 * istream) res **)

let rec select_loop p cs cx p0 s =
  match cs with
  | [] -> raise ESelect p0
  | c :: t ->
    (match p c cx p0 s with
     | Ok r -> Ok r
     | Err (e, q) ->
       if swallowed e
       then bind (iseek_back s p0) (fun pat ->
              let (_, s') = pat in select_loop p t cx p0 s')
       else if err_eqb e EStopField then unsupported else Err (e, q))

(** val union_loop :
    (con -> parser0) -> con list -> z -> ctx -> path -> (name * val0) list ->
    ((z * name option) * z) list -> istream -> ((((name * val0)
    list * ctx) * ((z * name option) * z) list) * istream) res **)

let rec union_loop p cs i cx p0 acc fw s =
  match cs with
  | [] -> Ok (((acc, cx), fw), s)
  | c :: t ->
    bind (p c cx p0 s) (fun pat ->
      let (v, s1) = pat in
      (match name_of c with
       | Some n0 ->
         let acc' = dict_set n0 v acc in
         let cx' = ctx_set cx n0 v in
         bind (iseek s1 (itell s) Z0 p0) (fun pat0 ->
           let (_, s2) = pat0 in
           union_loop p t (Z.add i (Zpos XH)) cx' p0 acc'
             (app fw (((i, (name_of c)), (itell s1)) :: [])) s2)
       | None ->
         bind (iseek s1 (itell s) Z0 p0) (fun pat0 ->
           let (_, s2) = pat0 in
           union_loop p t (Z.add i (Zpos XH)) cx p0 acc
             (app fw (((i, (name_of c)), (itell s1)) :: [])) s2)))

(** val nullterm_scan :
    nat -> bytes -> bool -> bool -> bool -> bytes -> istream -> path ->
    (bytes * istream) res **)

let rec nullterm_scan fuel term incl consume req acc s p =
  match fuel with
  | O -> Err (EDiverge, None)
  | S f ->
    (match iread s (Z.of_nat (length term)) p with
     | Ok a ->
       let (b, s') = a in
       if bytes_eqb b term
       then let acc' = if incl then app acc b else acc in
            if consume
            then Ok (acc', s')
            else bind (iseek s' (Z.opp (Z.of_nat (length term))) (Zpos XH) p)
                   (fun pat -> let (_, s'') = pat in Ok (acc', s''))
       else nullterm_scan f term incl consume req (app acc b) s' p
     | Err (e, q) -> if req then Err (e, q) else Ok (acc, (snd (iread_all s))))

(** val strip_units : nat -> bytes -> bytes -> bytes **)

let rec strip_units fuel pad data =
  match fuel with
  | O -> data
  | S f ->
    let u = length pad in
    let n0 = length data in
    if (&&) (Nat.leb u n0) (bytes_eqb (skipn (sub n0 u) data) pad)
    then strip_units f pad (firstn (sub n0 u) data)
    else data

(** val null_strip : bytes -> bytes -> bytes **)

let null_strip pad data =
  let u = length pad in
  let n0 = length data in
  let tail = Nat.modulo n0 u in
  let data1 =
    if (&&) (negb (Nat.eqb tail O))
         (bytes_eqb (skipn (sub n0 tail) data) (firstn tail pad))
    then firstn (sub n0 tail) data
    else data
  in
  strip_units (length data1) pad data1

(** val last_label : z -> (name * z) list -> name option -> name option **)

let rec last_label z0 table acc =
  match table with
  | [] -> acc
  | p :: t ->
    let (l, v) = p in last_label z0 t (if Z.eqb v z0 then Some l else acc)

(** val n_flagsenum : name **)

let n_flagsenum =
  X5f :: (X66 :: (X6c :: (X61 :: (X67 :: (X73 :: (X65 :: (X6e :: (X75 :: (X6d :: [])))))))))

(** val mapping_decode :
    val0 -> (val0 * val0) list -> val0 option -> val0 option **)

let rec mapping_decode obj table acc =
  match table with
  | [] -> acc
  | p :: t ->
    let (k, v) = p in
    mapping_decode obj t (if val_eqb v obj then Some k else acc)

(** val xor_data : val0 -> bytes -> path -> bytes res **)

let xor_data pad data p =
  let pad0 =
    match pad with
    | VBytes b0 ->
      (match b0 with
       | [] -> pad
       | b :: l ->
         (match l with
          | [] -> VInt (Z.of_N (to_N0 b))
          | _ :: _ -> pad))
    | _ -> pad
  in
  (match pad0 with
   | VBool _ -> unsupported
   | VInt z0 ->
     if Z.eqb z0 Z0
     then Ok data
     else (match data with
           | [] -> Ok []
           | _ :: _ ->
             if (&&) (Z.leb Z0 z0)
                  (Z.ltb z0 (Zpos (XO (XO (XO (XO (XO (XO (XO (XO XH))))))))))
             then Ok (map (fun b -> xor_byte b (byte_of_N (Z.to_N z0))) data)
             else Err (EValue, None))
   | VBytes k ->
     if (&&)
          (Nat.leb (length k) (S (S (S (S (S (S (S (S (S (S (S (S (S (S (S (S
            (S (S (S (S (S (S (S (S (S (S (S (S (S (S (S (S (S (S (S (S (S (S
            (S (S (S (S (S (S (S (S (S (S (S (S (S (S (S (S (S (S (S (S (S (S
            (S (S (S (S
            O)))))))))))))))))))))))))))))))))))))))))))))))))))))))))))))))))
          (forallb (fun b -> eqb0 b X00) k)
     then Ok data
     else Ok (xor_cycle k data)
   | _ -> raise EString p)

(** val decode_units : bfun -> bytes list -> bytes list option **)

let rec decode_units f = function
| [] -> Some []
| u :: t ->
  (match apply_bfun f u with
   | Ok d ->
     (match decode_units f t with
      | Some r -> Some (d :: r)
      | None -> None)
   | Err (_, _) -> None)

(** val units_needed : nat -> bytes list -> nat * nat **)

let rec units_needed k dec =
  match k with
  | O -> (O, O)
  | S _ ->
    (match dec with
     | [] -> (O, O)
     | d :: t ->
       let (j, tot) = units_needed (sub k (length d)) t in
       ((S j), (add (length d) tot)))

(** val oneof_mem : val0 -> val0 list -> bool res **)

let oneof_mem obj vs =
  if hashable obj
  then Ok (existsb (fun v -> val_eqb obj v) vs)
  else type_error

(** val parse : con -> ctx -> path -> istream -> (val0 * istream) res **)

let rec parse c cx p s =
  match c with
  | CFormat (en, f) -> parse_format en f p s
  | CBytesInt (len, signed, swapped) ->
    bind (eval_int cx len) (fun n0 ->
      if Z.leb n0 Z0
      then raise EInteger p
      else bind (iread s n0 p) (fun pat ->
             let (d, s') = pat in
             let d0 = if swapped then swapbytes d else d in
             (match bytes2integer d0 signed with
              | Some z0 -> Ok ((VInt z0), s')
              | None -> raise EInteger p)))
  | CBitsInt (len, signed, swapped) ->
    bind (eval_int cx len) (fun n0 ->
      if Z.leb n0 Z0
      then raise EInteger p
      else bind (iread s n0 p) (fun pat ->
             let (d, s') = pat in
             (match if swapped then swapbytesinbits d else Some d with
              | Some d' ->
                (match bits2integer d' signed with
                 | Some z0 -> Ok ((VInt z0), s')
                 | None -> raise EInteger p)
              | None -> raise EInteger p)))
  | CVarInt ->
    bind (parse_varint s p) (fun pat ->
      let (n0, s') = pat in Ok ((VInt (Z.of_N n0)), s'))
  | CZigZag ->
    bind (parse_varint s p) (fun pat ->
      let (n0, s') = pat in Ok ((VInt (zigzag_dec n0)), s'))
  | CBytes len ->
    bind (eval_int cx len) (fun n0 ->
      bind (iread s n0 p) (fun pat ->
        let (d, s') = pat in Ok ((VBytes d), s')))
  | CGreedyBytes -> let (d, s') = iread_all s in Ok ((VBytes d), s')
  | CFlag ->
    bind (iread s (Zpos XH) p) (fun pat ->
      let (d, s') = pat in Ok ((VBool (negb (bytes_eqb d (X00 :: [])))), s'))
  | CPass -> Ok (VNone, s)
  | CTerminated ->
    (match iavail s with
     | [] -> Ok (VNone, s)
     | _ :: _ -> raise ETerminated p)
  | CError -> raise EExplicit p
  | CTell -> Ok ((VInt (itell s)), s)
  | CIndex ->
    (match cx.c_scopes with
     | [] ->
       Ok ((match cx.c_topindex with
            | Some i -> VInt i
            | None -> VNone), s)
     | sc :: _ -> Ok ((match sc.s_index with
                       | Some v -> v
                       | None -> VNone), s))
  | CComputed e -> bind (eval cx e) (fun v -> Ok (v, s))
  | CCheck e ->
    bind (eval cx e) (fun v ->
      if truthy v then Ok (VNone, s) else raise ECheck p)
  | CStopIf e ->
    bind (eval cx e) (fun v ->
      if truthy v then raise EStopField p else Ok (VNone, s))
  | CSeek (at_, wh) ->
    bind (eval_int cx at_) (fun a ->
      bind (eval_int cx wh) (fun w ->
        bind (iseek s a w p) (fun pat ->
          let (r, s') = pat in Ok ((VInt r), s'))))
  | CStringEncoded (c', enc) ->
    bind (parse c' cx p s) (fun pat ->
      let (v, s') = pat in
      (match v with
       | VBytes d ->
         (match decode enc d with
          | Some cps -> Ok ((VStr cps), s')
          | None -> raise EString p)
       | _ -> raise EString p))
  | CEnum (c', table) ->
    bind (parse c' cx p s) (fun pat ->
      let (v, s') = pat in
      (match v with
       | VBool b ->
         let z0 = if b then Zpos XH else Z0 in
         (match last_label z0 table None with
          | Some l -> Ok ((VEnum (l, z0)), s')
          | None -> Ok ((VInt z0), s'))
       | VInt z0 ->
         (match last_label z0 table None with
          | Some l -> Ok ((VEnum (l, z0)), s')
          | None -> Ok ((VInt z0), s'))
       | VEnum (_, z0) ->
         (match last_label z0 table None with
          | Some l -> Ok ((VEnum (l, z0)), s')
          | None -> Ok ((VInt z0), s'))
       | _ -> unsupported))
  | CFlagsEnum (c', table) ->
    bind (parse c' cx p s) (fun pat ->
      let (v, s') = pat in
      bind (vint_of v) (fun z0 -> Ok ((VDict ((n_flagsenum, (VBool
        true)) :: (fold_left (fun acc e ->
                    dict_set (fst e) (VBool
                      (Z.eqb (Z.coq_land z0 (snd e)) (snd e))) acc) table []))),
        s')))
  | CMapping (c', table) ->
    bind (parse c' cx p s) (fun pat ->
      let (v, s') = pat in
      if negb (hashable v)
      then raise EMapping p
      else (match mapping_decode v table None with
            | Some k -> Ok (k, s')
            | None -> raise EMapping p))
  | CHex c' ->
    bind (parse c' cx p s) (fun pat ->
      let (v, s') = pat in
      (match v with
       | VBool _ -> bind (sizeof c' cx p) (fun _ -> Ok (v, s'))
       | VInt _ -> bind (sizeof c' cx p) (fun _ -> Ok (v, s'))
       | VEnum (_, _) -> bind (sizeof c' cx p) (fun _ -> Ok (v, s'))
       | _ -> Ok (v, s')))
  | CHexDump c' -> parse c' cx p s
  | CExprValidator (c', e) ->
    bind (parse c' cx p s) (fun pat ->
      let (v, s') = pat in
      bind (eval_obj cx v None e) (fun t ->
        if truthy t then Ok (v, s') else raise EValidation p))
  | COneOf (c', vs) ->
    bind (parse c' cx p s) (fun pat ->
      let (v, s') = pat in
      bind (oneof_mem v vs) (fun b ->
        if b then Ok (v, s') else raise EValidation p))
  | CNoneOf (c', vs) ->
    bind (parse c' cx p s) (fun pat ->
      let (v, s') = pat in
      bind (oneof_mem v vs) (fun b ->
        if b then raise EValidation p else Ok (v, s')))
  | CExprAdapter (c', dec, _) ->
    bind (parse c' cx p s) (fun pat ->
      let (v, s') = pat in bind (eval_obj cx v None dec) (fun r -> Ok (r, s')))
  | CStruct cs ->
    bind (struct_loop parse cs (push_scope cx) p [] s) (fun pat ->
      let (p0, s') = pat in let (kv, _) = p0 in Ok ((VDict kv), s'))
  | CSequence cs ->
    bind (seq_loop parse cs (push_scope cx) p s) (fun pat ->
      let (vs, s') = pat in Ok ((VList vs), s'))
  | CFocusedSeq (sel, cs) ->
    bind (focus_loop parse sel cs (push_scope cx) p None s) (fun pat ->
      let (fin, s') = pat in
      (match fin with
       | Some v -> Ok (v, s')
       | None -> Err (EForeign, None)))
  | CUnion (sel, cs) ->
    let cx' = push_scope cx in
    bind (union_loop parse cs Z0 cx' p [] [] s) (fun pat ->
      let (p0, s') = pat in
      let (p1, fw) = p0 in
      let (kv, _) = p1 in
      (match sel with
       | USNone -> Ok ((VDict kv), s')
       | USIndex i ->
         (match find (fun e -> Z.eqb (fst (fst e)) i) fw with
          | Some p2 ->
            let (_, pos) = p2 in
            bind (iseek s' pos Z0 p) (fun pat0 ->
              let (_, s'') = pat0 in Ok ((VDict kv), s''))
          | None -> key_error)
       | USName n0 ->
         (match find (fun e ->
                  match snd (fst e) with
                  | Some m -> name_eqb m n0
                  | None -> false) (rev fw) with
          | Some p2 ->
            let (_, pos) = p2 in
            bind (iseek s' pos Z0 p) (fun pat0 ->
              let (_, s'') = pat0 in Ok ((VDict kv), s''))
          | None -> key_error)))
  | CSelect cs -> select_loop parse cs cx p s
  | CIfThenElse (e, a, b) ->
    bind (eval cx e) (fun v ->
      if truthy v then parse a cx p s else parse b cx p s)
  | CSwitch (e, cases, d) ->
    bind (eval cx e) (fun k ->
      if negb (hashable k)
      then type_error
      else let rec go = function
           | [] -> parse d cx p s
           | p0 :: t ->
             let (v, c') = p0 in if val_eqb k v then parse c' cx p s else go t
           in go cases)
  | CArray (count, c') ->
    bind (eval_int cx count) (fun n0 ->
      if Z.ltb n0 Z0
      then raise ERange p
      else bind (count_loop (parse c') (Z.to_N n0) cx p s) (fun pat ->
             let (vs, s') = pat in Ok ((VList vs), s')))
  | CGreedyRange c' ->
    bind
      (greedy_loop (parse c')
        (add (length s.idata) (S (S (S (S (S (S (S (S (S (S (S (S (S (S (S (S
          (S (S (S (S (S (S (S (S (S (S (S (S (S (S (S (S (S (S (S (S (S (S
          (S (S (S (S (S (S (S (S (S (S (S (S (S (S (S (S (S (S (S (S (S (S
          (S (S (S (S
          O)))))))))))))))))))))))))))))))))))))))))))))))))))))))))))))))))
        Z0 cx p s) (fun pat -> let (vs, s') = pat in Ok ((VList vs), s'))
  | CRepeatUntil (pred, c') ->
    bind
      (until_loop (parse c') pred
        (add (length s.idata) (S (S (S (S (S (S (S (S (S (S (S (S (S (S (S (S
          (S (S (S (S (S (S (S (S (S (S (S (S (S (S (S (S (S (S (S (S (S (S
          (S (S (S (S (S (S (S (S (S (S (S (S (S (S (S (S (S (S (S (S (S (S
          (S (S (S (S
          O)))))))))))))))))))))))))))))))))))))))))))))))))))))))))))))))))
        Z0 [] cx p s) (fun pat -> let (vs, s') = pat in Ok ((VList vs), s'))
  | CRenamed (n0, c') -> parse c' cx (app p (n0 :: [])) s
  | CConst (v, c') ->
    bind (parse c' cx p s) (fun pat ->
      let (w, s') = pat in if val_eqb w v then Ok (w, s') else raise EConst p)
  | CRebuild (c', _) -> parse c' cx p s
  | CDefault (c', _) -> parse c' cx p s
  | CPadded (len, c', _) ->
    bind (eval_int cx len) (fun n0 ->
      if Z.ltb n0 Z0
      then raise EPadding p
      else bind (parse c' cx p s) (fun pat ->
             let (v, s1) = pat in
             let pad = Z.sub n0 (Z.sub (itell s1) (itell s)) in
             if Z.ltb pad Z0
             then raise EPadding p
             else bind (iread s1 pad p) (fun pat0 ->
                    let (_, s2) = pat0 in Ok (v, s2))))
  | CAligned (m, c', _) ->
    bind (eval_int cx m) (fun n0 ->
      if Z.ltb n0 (Zpos (XO XH))
      then raise EPadding p
      else bind (parse c' cx p s) (fun pat ->
             let (v, s1) = pat in
             let pad = Z.modulo (Z.opp (Z.sub (itell s1) (itell s))) n0 in
             bind (iread s1 pad p) (fun pat0 ->
               let (_, s2) = pat0 in Ok (v, s2))))
  | CPointer (off, c') ->
    bind (eval_int cx off) (fun o ->
      bind (iseek s o (if Z.ltb o Z0 then Zpos (XO XH) else Z0) p)
        (fun pat ->
        let (_, s1) = pat in
        bind (parse c' cx p s1) (fun pat0 ->
          let (v, s2) = pat0 in
          bind (iseek s2 (itell s) Z0 p) (fun pat1 ->
            let (_, s3) = pat1 in Ok (v, s3)))))
  | CPeek c' ->
    let r = parse c' cx p s in
    let back =
      match r with
      | Ok a -> let (_, s1) = a in iseek s1 (itell s) Z0 p
      | Err (_, _) -> iseek_back s p
    in
    bind back (fun pat ->
      let (_, sb) = pat in
      (match r with
       | Ok a -> let (v, _) = a in Ok (v, sb)
       | Err (e, q) ->
         if err_eqb e EExplicit
         then Err (e, q)
         else if is_construct_error e then Ok (VNone, sb) else Err (e, q)))
  | COffsettedEnd (off, c') ->
    bind (eval_int cx off) (fun o ->
      bind (iseek s Z0 (Zpos (XO XH)) p) (fun pat ->
        let (endpos, s1) = pat in
        bind (iseek s1 (itell s) Z0 p) (fun pat0 ->
          let (_, s2) = pat0 in
          let len = Z.sub (Z.add endpos o) (itell s) in
          bind (iread s2 len p) (fun pat1 ->
            let (d, s3) = pat1 in
            bind (parse c' cx p (substream d (iabs s))) (fun pat2 ->
              let (v, _) = pat2 in Ok (v, s3))))))
  | CRawCopy c' ->
    bind (parse c' cx p s) (fun pat ->
      let (v, s1) = pat in
      let o1 = itell s in
      let o2 = itell s1 in
      bind (iseek s1 o1 Z0 p) (fun pat0 ->
        let (_, s2) = pat0 in
        bind (iread s2 (Z.sub o2 o1) p) (fun pat1 ->
          let (d, s3) = pat1 in
          Ok ((VDict (((X64 :: (X61 :: (X74 :: (X61 :: [])))), (VBytes
          d)) :: (((X76 :: (X61 :: (X6c :: (X75 :: (X65 :: []))))),
          v) :: (((X6f :: (X66 :: (X66 :: (X73 :: (X65 :: (X74 :: (X31 :: []))))))),
          (VInt
          o1)) :: (((X6f :: (X66 :: (X66 :: (X73 :: (X65 :: (X74 :: (X32 :: []))))))),
          (VInt
          o2)) :: (((X6c :: (X65 :: (X6e :: (X67 :: (X74 :: (X68 :: [])))))),
          (VInt (Z.sub o2 o1))) :: [])))))), s3))))
  | CPrefixed (lc, c', incl) ->
    bind (parse lc cx p s) (fun pat ->
      let (lv, s1) = pat in
      bind (vint_of lv) (fun n0 ->
        bind
          (if incl
           then bind (sizeof lc cx p) (fun k -> Ok (Z.sub n0 k))
           else Ok n0) (fun n1 ->
          bind (iread s1 n1 p) (fun pat0 ->
            let (d, s2) = pat0 in
            bind (parse c' cx p (substream d (iabs s1))) (fun pat1 ->
              let (v, _) = pat1 in Ok (v, s2))))))
  | CFixedSized (len, c') ->
    bind (eval_int cx len) (fun n0 ->
      if Z.ltb n0 Z0
      then raise EPadding p
      else bind (iread s n0 p) (fun pat ->
             let (d, s1) = pat in
             bind (parse c' cx p (substream d (iabs s))) (fun pat0 ->
               let (v, _) = pat0 in Ok (v, s1))))
  | CNullTerminated (c', term, incl, consume, req) ->
    (match term with
     | [] -> raise EPadding p
     | _ :: _ ->
       bind
         (nullterm_scan (S (length (iavail s))) term incl consume req [] s p)
         (fun pat ->
         let (d, s1) = pat in
         bind (parse c' cx p (substream d (iabs s))) (fun pat0 ->
           let (v, _) = pat0 in Ok (v, s1))))
  | CNullStripped (c', pad) ->
    (match pad with
     | [] -> raise EPadding p
     | _ :: _ ->
       let (d, s1) = iread_all s in
       bind (parse c' cx p (substream (null_strip pad d) (iabs s)))
         (fun pat -> let (v, _) = pat in Ok (v, s1)))
  | CTransformed (c', df, da, _, _) ->
    bind (match da with
          | Some n0 -> iread s n0 p
          | None -> Ok (iread_all s)) (fun pat ->
      let (d, s1) = pat in
      bind (apply_bfun df d) (fun d' ->
        bind (parse c' cx p (istream_of d')) (fun pat0 ->
          let (v, _) = pat0 in Ok (v, s1))))
  | CRestreamed (c', df, du, _, _, _) ->
    if Z.ltb du (Zpos XH)
    then unsupported
    else let av = iavail s in
         let units = chunksn (Z.to_nat du) (length av) av in
         (match decode_units df units with
          | Some dec ->
            bind
              (parse c' cx p { idata = (concat dec); ipos = N0; ibase = N0;
                iseekable = false }) (fun pat ->
              let (v, si) = pat in
              let k = N.to_nat (N.min si.ipos (nlen (concat dec))) in
              let (j, tot) = units_needed k dec in
              if Nat.eqb tot k
              then Ok (v,
                     (iset_pos s
                       (N.add s.ipos (nlen (concat (firstn j units))))))
              else Err (EValue, None))
          | None -> unsupported)
  | CProcessXor (key0, c') ->
    bind (eval cx key0) (fun k ->
      match k with
      | VBool _ ->
        let (d, s1) = iread_all s in
        bind (xor_data k d p) (fun d' ->
          bind (parse c' cx p (substream d' (iabs s))) (fun pat ->
            let (v, _) = pat in Ok (v, s1)))
      | VInt _ ->
        let (d, s1) = iread_all s in
        bind (xor_data k d p) (fun d' ->
          bind (parse c' cx p (substream d' (iabs s))) (fun pat ->
            let (v, _) = pat in Ok (v, s1)))
      | VBytes _ ->
        let (d, s1) = iread_all s in
        bind (xor_data k d p) (fun d' ->
          bind (parse c' cx p (substream d' (iabs s))) (fun pat ->
            let (v, _) = pat in Ok (v, s1)))
      | _ -> raise EString p)
  | CProcessRotl (amount, group, c') ->
    bind (eval_int cx amount) (fun a ->
      bind (eval_int cx group) (fun g ->
        if Z.ltb g (Zpos XH)
        then raise ERotation p
        else if Z.ltb alloc_bound g
             then unsupported
             else let am =
                    Z.to_N (Z.modulo a (Z.mul g (Zpos (XO (XO (XO XH))))))
                  in
                  let (d, s1) = iread_all s in
                  (match rotate_left am (Z.to_nat g) d with
                   | Some d' ->
                     bind (parse c' cx p (istream_of d')) (fun pat ->
                       let (v, _) = pat in Ok (v, s1))
                   | None -> raise ERotation p)))
  | CChecksum (c', h, data) ->
    bind (parse c' cx p s) (fun pat ->
      let (h1, s1) = pat in
      bind (eval cx data) (fun d ->
        match d with
        | VBytes bs ->
          if val_eqb h1 (apply_hash h bs)
          then Ok (h1, s1)
          else raise EChecksum p
        | _ -> unsupported))
  | CLazy c' ->
    bind (sizeof c' cx p) (fun n0 ->
      match c' with
      | CFormat (_, _) ->
        bind (iseek s n0 (Zpos XH) p) (fun pat ->
          let (_, s1) = pat in
          bind (parse c' cx p s) (fun pat0 -> let (v, _) = pat0 in Ok (v, s1)))
      | CBytesInt (_, _, _) ->
        bind (iseek s n0 (Zpos XH) p) (fun pat ->
          let (_, s1) = pat in
          bind (parse c' cx p s) (fun pat0 -> let (v, _) = pat0 in Ok (v, s1)))
      | CBitsInt (_, _, _) ->
        bind (iseek s n0 (Zpos XH) p) (fun pat ->
          let (_, s1) = pat in
          bind (parse c' cx p s) (fun pat0 -> let (v, _) = pat0 in Ok (v, s1)))
      | CVarInt ->
        bind (iseek s n0 (Zpos XH) p) (fun pat ->
          let (_, s1) = pat in
          bind (parse c' cx p s) (fun pat0 -> let (v, _) = pat0 in Ok (v, s1)))
      | CZigZag ->
        bind (iseek s n0 (Zpos XH) p) (fun pat ->
          let (_, s1) = pat in
          bind (parse c' cx p s) (fun pat0 -> let (v, _) = pat0 in Ok (v, s1)))
      | CBytes _ ->
        bind (iseek s n0 (Zpos XH) p) (fun pat ->
          let (_, s1) = pat in
          bind (parse c' cx p s) (fun pat0 -> let (v, _) = pat0 in Ok (v, s1)))
      | CGreedyBytes ->
        bind (iseek s n0 (Zpos XH) p) (fun pat ->
          let (_, s1) = pat in
          bind (parse c' cx p s) (fun pat0 -> let (v, _) = pat0 in Ok (v, s1)))
      | CFlag ->
        bind (iseek s n0 (Zpos XH) p) (fun pat ->
          let (_, s1) = pat in
          bind (parse c' cx p s) (fun pat0 -> let (v, _) = pat0 in Ok (v, s1)))
      | CPass ->
        bind (iseek s n0 (Zpos XH) p) (fun pat ->
          let (_, s1) = pat in
          bind (parse c' cx p s) (fun pat0 -> let (v, _) = pat0 in Ok (v, s1)))
      | CTerminated ->
        bind (iseek s n0 (Zpos XH) p) (fun pat ->
          let (_, s1) = pat in
          bind (parse c' cx p s) (fun pat0 -> let (v, _) = pat0 in Ok (v, s1)))
      | CError ->
        bind (iseek s n0 (Zpos XH) p) (fun pat ->
          let (_, s1) = pat in
          bind (parse c' cx p s) (fun pat0 -> let (v, _) = pat0 in Ok (v, s1)))
      | CTell ->
        bind (iseek s n0 (Zpos XH) p) (fun pat ->
          let (_, s1) = pat in
          bind (parse c' cx p s) (fun pat0 -> let (v, _) = pat0 in Ok (v, s1)))
      | CIndex ->
        bind (iseek s n0 (Zpos XH) p) (fun pat ->
          let (_, s1) = pat in
          bind (parse c' cx p s) (fun pat0 -> let (v, _) = pat0 in Ok (v, s1)))
      | CComputed _ ->
        bind (iseek s n0 (Zpos XH) p) (fun pat ->
          let (_, s1) = pat in
          bind (parse c' cx p s) (fun pat0 -> let (v, _) = pat0 in Ok (v, s1)))
      | CCheck _ ->
        bind (iseek s n0 (Zpos XH) p) (fun pat ->
          let (_, s1) = pat in
          bind (parse c' cx p s) (fun pat0 -> let (v, _) = pat0 in Ok (v, s1)))
      | CStopIf _ ->
        bind (iseek s n0 (Zpos XH) p) (fun pat ->
          let (_, s1) = pat in
          bind (parse c' cx p s) (fun pat0 -> let (v, _) = pat0 in Ok (v, s1)))
      | CSeek (_, _) ->
        bind (iseek s n0 (Zpos XH) p) (fun pat ->
          let (_, s1) = pat in
          bind (parse c' cx p s) (fun pat0 -> let (v, _) = pat0 in Ok (v, s1)))
      | CStringEncoded (_, _) ->
        bind (iseek s n0 (Zpos XH) p) (fun pat ->
          let (_, s1) = pat in
          bind (parse c' cx p s) (fun pat0 -> let (v, _) = pat0 in Ok (v, s1)))
      | CEnum (_, _) ->
        bind (iseek s n0 (Zpos XH) p) (fun pat ->
          let (_, s1) = pat in
          bind (parse c' cx p s) (fun pat0 -> let (v, _) = pat0 in Ok (v, s1)))
      | CFlagsEnum (_, _) ->
        bind (iseek s n0 (Zpos XH) p) (fun pat ->
          let (_, s1) = pat in
          bind (parse c' cx p s) (fun pat0 -> let (v, _) = pat0 in Ok (v, s1)))
      | CMapping (_, _) ->
        bind (iseek s n0 (Zpos XH) p) (fun pat ->
          let (_, s1) = pat in
          bind (parse c' cx p s) (fun pat0 -> let (v, _) = pat0 in Ok (v, s1)))
      | CHex _ ->
        bind (iseek s n0 (Zpos XH) p) (fun pat ->
          let (_, s1) = pat in
          bind (parse c' cx p s) (fun pat0 -> let (v, _) = pat0 in Ok (v, s1)))
      | CHexDump _ ->
        bind (iseek s n0 (Zpos XH) p) (fun pat ->
          let (_, s1) = pat in
          bind (parse c' cx p s) (fun pat0 -> let (v, _) = pat0 in Ok (v, s1)))
      | CExprValidator (_, _) ->
        bind (iseek s n0 (Zpos XH) p) (fun pat ->
          let (_, s1) = pat in
          bind (parse c' cx p s) (fun pat0 -> let (v, _) = pat0 in Ok (v, s1)))
      | COneOf (_, _) ->
        bind (iseek s n0 (Zpos XH) p) (fun pat ->
          let (_, s1) = pat in
          bind (parse c' cx p s) (fun pat0 -> let (v, _) = pat0 in Ok (v, s1)))
      | CNoneOf (_, _) ->
        bind (iseek s n0 (Zpos XH) p) (fun pat ->
          let (_, s1) = pat in
          bind (parse c' cx p s) (fun pat0 -> let (v, _) = pat0 in Ok (v, s1)))
      | CExprAdapter (_, _, _) ->
        bind (iseek s n0 (Zpos XH) p) (fun pat ->
          let (_, s1) = pat in
          bind (parse c' cx p s) (fun pat0 -> let (v, _) = pat0 in Ok (v, s1)))
      | CStruct _ ->
        bind (iseek s n0 (Zpos XH) p) (fun pat ->
          let (_, s1) = pat in
          bind (parse c' cx p s) (fun pat0 -> let (v, _) = pat0 in Ok (v, s1)))
      | CSequence _ ->
        bind (iseek s n0 (Zpos XH) p) (fun pat ->
          let (_, s1) = pat in
          bind (parse c' cx p s) (fun pat0 -> let (v, _) = pat0 in Ok (v, s1)))
      | CFocusedSeq (_, _) ->
        bind (iseek s n0 (Zpos XH) p) (fun pat ->
          let (_, s1) = pat in
          bind (parse c' cx p s) (fun pat0 -> let (v, _) = pat0 in Ok (v, s1)))
      | CUnion (_, _) ->
        bind (iseek s n0 (Zpos XH) p) (fun pat ->
          let (_, s1) = pat in
          bind (parse c' cx p s) (fun pat0 -> let (v, _) = pat0 in Ok (v, s1)))
      | CSelect _ ->
        bind (iseek s n0 (Zpos XH) p) (fun pat ->
          let (_, s1) = pat in
          bind (parse c' cx p s) (fun pat0 -> let (v, _) = pat0 in Ok (v, s1)))
      | CIfThenElse (_, _, _) ->
        bind (iseek s n0 (Zpos XH) p) (fun pat ->
          let (_, s1) = pat in
          bind (parse c' cx p s) (fun pat0 -> let (v, _) = pat0 in Ok (v, s1)))
      | CSwitch (_, _, _) ->
        bind (iseek s n0 (Zpos XH) p) (fun pat ->
          let (_, s1) = pat in
          bind (parse c' cx p s) (fun pat0 -> let (v, _) = pat0 in Ok (v, s1)))
      | CArray (_, _) ->
        bind (iseek s n0 (Zpos XH) p) (fun pat ->
          let (_, s1) = pat in
          bind (parse c' cx p s) (fun pat0 -> let (v, _) = pat0 in Ok (v, s1)))
      | CGreedyRange _ ->
        bind (iseek s n0 (Zpos XH) p) (fun pat ->
          let (_, s1) = pat in
          bind (parse c' cx p s) (fun pat0 -> let (v, _) = pat0 in Ok (v, s1)))
      | CRepeatUntil (_, _) ->
        bind (iseek s n0 (Zpos XH) p) (fun pat ->
          let (_, s1) = pat in
          bind (parse c' cx p s) (fun pat0 -> let (v, _) = pat0 in Ok (v, s1)))
      | CRenamed (_, _) ->
        bind (iseek s n0 (Zpos XH) p) (fun pat ->
          let (_, s1) = pat in
          bind (parse c' cx p s) (fun pat0 -> let (v, _) = pat0 in Ok (v, s1)))
      | CConst (_, _) ->
        bind (iseek s n0 (Zpos XH) p) (fun pat ->
          let (_, s1) = pat in
          bind (parse c' cx p s) (fun pat0 -> let (v, _) = pat0 in Ok (v, s1)))
      | CRebuild (_, _) ->
        bind (iseek s n0 (Zpos XH) p) (fun pat ->
          let (_, s1) = pat in
          bind (parse c' cx p s) (fun pat0 -> let (v, _) = pat0 in Ok (v, s1)))
      | CDefault (_, _) ->
        bind (iseek s n0 (Zpos XH) p) (fun pat ->
          let (_, s1) = pat in
          bind (parse c' cx p s) (fun pat0 -> let (v, _) = pat0 in Ok (v, s1)))
      | CPadded (_, _, _) ->
        bind (iseek s n0 (Zpos XH) p) (fun pat ->
          let (_, s1) = pat in
          bind (parse c' cx p s) (fun pat0 -> let (v, _) = pat0 in Ok (v, s1)))
      | CAligned (_, _, _) ->
        bind (iseek s n0 (Zpos XH) p) (fun pat ->
          let (_, s1) = pat in
          bind (parse c' cx p s) (fun pat0 -> let (v, _) = pat0 in Ok (v, s1)))
      | CPointer (_, _) ->
        bind (iseek s n0 (Zpos XH) p) (fun pat ->
          let (_, s1) = pat in
          bind (parse c' cx p s) (fun pat0 -> let (v, _) = pat0 in Ok (v, s1)))
      | CPeek _ ->
        bind (iseek s n0 (Zpos XH) p) (fun pat ->
          let (_, s1) = pat in
          bind (parse c' cx p s) (fun pat0 -> let (v, _) = pat0 in Ok (v, s1)))
      | COffsettedEnd (_, _) ->
        bind (iseek s n0 (Zpos XH) p) (fun pat ->
          let (_, s1) = pat in
          bind (parse c' cx p s) (fun pat0 -> let (v, _) = pat0 in Ok (v, s1)))
      | CRawCopy _ ->
        bind (iseek s n0 (Zpos XH) p) (fun pat ->
          let (_, s1) = pat in
          bind (parse c' cx p s) (fun pat0 -> let (v, _) = pat0 in Ok (v, s1)))
      | CPrefixed (_, _, _) -> unsupported
      | CFixedSized (_, _) ->
        bind (iseek s n0 (Zpos XH) p) (fun pat ->
          let (_, s1) = pat in
          bind (parse c' cx p s) (fun pat0 -> let (v, _) = pat0 in Ok (v, s1)))
      | CNullTerminated (_, _, _, _, _) ->
        bind (iseek s n0 (Zpos XH) p) (fun pat ->
          let (_, s1) = pat in
          bind (parse c' cx p s) (fun pat0 -> let (v, _) = pat0 in Ok (v, s1)))
      | CNullStripped (_, _) ->
        bind (iseek s n0 (Zpos XH) p) (fun pat ->
          let (_, s1) = pat in
          bind (parse c' cx p s) (fun pat0 -> let (v, _) = pat0 in Ok (v, s1)))
      | CTransformed (_, _, _, _, _) ->
        bind (iseek s n0 (Zpos XH) p) (fun pat ->
          let (_, s1) = pat in
          bind (parse c' cx p s) (fun pat0 -> let (v, _) = pat0 in Ok (v, s1)))
      | CRestreamed (_, _, _, _, _, _) ->
        bind (iseek s n0 (Zpos XH) p) (fun pat ->
          let (_, s1) = pat in
          bind (parse c' cx p s) (fun pat0 -> let (v, _) = pat0 in Ok (v, s1)))
      | CProcessXor (_, _) ->
        bind (iseek s n0 (Zpos XH) p) (fun pat ->
          let (_, s1) = pat in
          bind (parse c' cx p s) (fun pat0 -> let (v, _) = pat0 in Ok (v, s1)))
      | CProcessRotl (_, _, _) ->
        bind (iseek s n0 (Zpos XH) p) (fun pat ->
          let (_, s1) = pat in
          bind (parse c' cx p s) (fun pat0 -> let (v, _) = pat0 in Ok (v, s1)))
      | CChecksum (_, _, _) ->
        bind (iseek s n0 (Zpos XH) p) (fun pat ->
          let (_, s1) = pat in
          bind (parse c' cx p s) (fun pat0 -> let (v, _) = pat0 in Ok (v, s1)))
      | CLazy _ ->
        bind (iseek s n0 (Zpos XH) p) (fun pat ->
          let (_, s1) = pat in
          bind (parse c' cx p s) (fun pat0 -> let (v, _) = pat0 in Ok (v, s1)))
      | CLazyStruct _ ->
        bind (iseek s n0 (Zpos XH) p) (fun pat ->
          let (_, s1) = pat in
          bind (parse c' cx p s) (fun pat0 -> let (v, _) = pat0 in Ok (v, s1)))
      | CLazyArray (_, _) ->
        bind (iseek s n0 (Zpos XH) p) (fun pat ->
          let (_, s1) = pat in
          bind (parse c' cx p s) (fun pat0 -> let (v, _) = pat0 in Ok (v, s1))))
  | _ -> unsupported

(** val parse_at :
    con -> (name * val0) list -> bytes -> n -> (val0 * z) res **)

let parse_at c kw data start =
  bind
    (parse c (top_ctx kw MParse) [] { idata = data; ipos = start; ibase = N0;
      iseekable = true }) (fun pat -> let (v, s) = pat in Ok (v, (itell s)))

type builder = val0 -> ctx -> path -> ostream -> (val0 * ostream) res

(** val write_val : ostream -> val0 -> z -> path -> ostream res **)

let write_val o v len p =
  match v with
  | VBytes d -> owrite o d len p
  | _ -> raise EString p

(** val build_format :
    endian -> fcode -> val0 -> path -> ostream -> (val0 * ostream) res **)

let build_format en f obj p o =
  let sz = fcode_size f in
  let emit = fun n0 ->
    let d = be_encode sz n0 in
    let d0 = match en with
             | Big -> d
             | Little -> rev d in
    bind (owrite o d0 (Z.of_nat sz) p) (fun o' -> Ok (obj, o'))
  in
  if fcode_float f
  then (match obj with
        | VBool _ ->
          (match int_of_val obj with
           | Some z0 ->
             (match f64_of_Z z0 with
              | Some b ->
                (match narrow (fmt_of f) b with
                 | Some n0 -> emit n0
                 | None -> raise EFormatField p)
              | None -> unsupported)
           | None -> unsupported)
        | VInt _ ->
          (match int_of_val obj with
           | Some z0 ->
             (match f64_of_Z z0 with
              | Some b ->
                (match narrow (fmt_of f) b with
                 | Some n0 -> emit n0
                 | None -> raise EFormatField p)
              | None -> unsupported)
           | None -> unsupported)
        | VFloat b ->
          (match narrow (fmt_of f) b with
           | Some n0 -> emit n0
           | None -> raise EFormatField p)
        | _ -> raise EFormatField p)
  else (match int_of_val obj with
        | Some z0 ->
          if in_range (fcode_signed f)
               (N.mul (Npos (XO (XO (XO XH)))) (N.of_nat sz)) z0
          then emit
                 (pattern (N.mul (Npos (XO (XO (XO XH)))) (N.of_nat sz)) z0)
          else raise EFormatField p
        | None -> raise EFormatField p)

(** val struct_bloop :
    (con -> builder) -> (name * val0) list -> con list -> ctx -> path ->
    ostream -> (ctx * ostream) res **)

let rec struct_bloop b obj cs cx p o =
  match cs with
  | [] -> Ok (cx, o)
  | c :: t ->
    let sub0 =
      match name_of c with
      | Some n0 ->
        (match lookup n0 obj with
         | Some v -> Ok v
         | None -> if buildnone c then Ok VNone else key_error)
      | None -> if buildnone c then Ok VNone else key_error
    in
    bind sub0 (fun subobj ->
      let cx1 =
        match name_of c with
        | Some n0 -> ctx_set cx n0 subobj
        | None -> cx
      in
      (match b c subobj cx1 p o with
       | Ok a ->
         let (r, o') = a in
         let cx2 =
           match name_of c with
           | Some n0 -> ctx_set cx1 n0 r
           | None -> cx1
         in
         struct_bloop b obj t cx2 p o'
       | Err (e, q) ->
         (match e with
          | EStopField -> if is_stopif c then Ok (cx1, o) else unsupported
          | _ -> Err (e, q))))

(** val seq_bloop :
    (con -> builder) -> con list -> val0 list -> ctx -> path -> ostream ->
    (val0 list * ostream) res **)

let rec seq_bloop b cs objs cx p o =
  match cs with
  | [] -> Ok ([], o)
  | c :: t ->
    (match objs with
     | [] -> Err (EForeign, None)
     | subobj :: objs' ->
       let cx1 =
         match name_of c with
         | Some n0 -> ctx_set cx n0 subobj
         | None -> cx
       in
       (match b c subobj cx1 p o with
        | Ok a ->
          let (r, o') = a in
          let cx2 =
            match name_of c with
            | Some n0 -> ctx_set cx1 n0 r
            | None -> cx1
          in
          bind (seq_bloop b t objs' cx2 p o') (fun pat ->
            let (rs, o'') = pat in Ok ((r :: rs), o''))
        | Err (e, q) ->
          (match e with
           | EStopField -> if is_stopif c then Ok ([], o) else unsupported
           | _ -> Err (e, q))))

(** val focus_bloop :
    (con -> builder) -> name -> val0 -> con list -> ctx -> path -> val0
    option -> ostream -> (val0 option * ostream) res **)

let rec focus_bloop b sel obj cs cx p fin o =
  match cs with
  | [] -> Ok (fin, o)
  | c :: t ->
    let is_sel =
      match name_of c with
      | Some n0 -> name_eqb n0 sel
      | None -> false
    in
    bind (b c (if is_sel then obj else VNone) cx p o) (fun pat ->
      let (r, o') = pat in
      let cx' = match name_of c with
                | Some n0 -> ctx_set cx n0 r
                | None -> cx
      in
      focus_bloop b sel obj t cx' p (if is_sel then Some r else fin) o')

(** val count_bloop :
    builder -> val0 list -> z -> ctx -> path -> ostream -> (val0
    list * ostream) res **)

let rec count_bloop b objs i cx p o =
  match objs with
  | [] -> Ok ([], o)
  | e :: t ->
    bind (b e (ctx_set_index cx i) p o) (fun pat ->
      let (r, o1) = pat in
      bind (count_bloop b t (Z.add i (Zpos XH)) cx p o1) (fun pat0 ->
        let (rs, o2) = pat0 in Ok ((r :: rs), o2)))

(** val until_bloop :
    builder -> expr -> val0 list -> z -> val0 list -> ctx -> path -> ostream
    -> (val0 list * ostream) res **)

let rec until_bloop b pred objs i acc cx p o =
  match objs with
  | [] -> raise ERepeat p
  | e :: t ->
    let cxi = ctx_set_index cx i in
    bind (b e cxi p o) (fun pat ->
      let (r, o1) = pat in
      let acc' = app acc (r :: []) in
      bind (eval_obj cxi e (Some (VList acc')) pred) (fun tv ->
        if truthy tv
        then Ok (acc', o1)
        else until_bloop b pred t (Z.add i (Zpos XH)) acc' cx p o1))

(** val reenter_ctx : ctx -> ctx **)

let reenter_ctx cx =
  match cx.c_scopes with
  | [] ->
    { c_scopes = []; c_top = cx.c_top; c_topindex = cx.c_topindex; c_mode =
      MBuild; c_opaque = cx.c_opaque }
  | sc :: _ ->
    { c_scopes = []; c_top = sc.s_vals; c_topindex =
      (match sc.s_index with
       | Some v -> (match v with
                    | VInt i -> Some i
                    | _ -> None)
       | None -> None); c_mode = MBuild; c_opaque = true }

(** val select_bloop :
    (con -> builder) -> val0 -> con list -> ctx -> path -> ostream ->
    (val0 * ostream) res **)

let rec select_bloop b obj cs cx p o =
  match cs with
  | [] -> raise ESelect p
  | c :: t ->
    (match b c obj (reenter_ctx cx) [] ostream_new with
     | Ok a ->
       let (_, o1) = a in
       bind (owrite o o1.odata (Z.of_nat (length o1.odata)) p) (fun o' -> Ok
         (obj, o'))
     | Err (e, q) ->
       if swallowed e
       then select_bloop b obj t cx p o
       else if err_eqb e EStopField then unsupported else Err (e, q))

(** val cp_is_space : n -> bool **)

let cp_is_space c =
  (||) (N.eqb c (Npos (XO (XO (XO (XO (XO XH)))))))
    ((&&) (N.leb (Npos (XI (XO (XO XH)))) c)
      (N.leb c (Npos (XI (XO (XI XH))))))

(** val lstrip : n list -> n list **)

let rec lstrip l = match l with
| [] -> []
| c :: t -> if cp_is_space c then lstrip t else l

(** val strip : n list -> n list **)

let strip l =
  rev (lstrip (rev (lstrip l)))

(** val split_bar : n list -> n list -> n list list **)

let rec split_bar l cur =
  match l with
  | [] -> (rev cur) :: []
  | c :: t ->
    if N.eqb c (Npos (XO (XO (XI (XI (XI (XI XH)))))))
    then (rev cur) :: (split_bar t [])
    else split_bar t (c :: cur)

(** val label_value : (name * z) list -> n list -> z option **)

let label_value table cps =
  match find (fun e -> list_eqb N.eqb (map to_N0 (fst e)) cps) (rev table) with
  | Some p -> let (_, z0) = p in Some z0
  | None -> None

(** val cps_of_name : name -> n list **)

let cps_of_name n0 =
  map to_N0 n0

(** val flags_encode : (name * z) list -> val0 -> path -> val0 res **)

let flags_encode table obj p =
  match obj with
  | VBool _ -> Ok obj
  | VInt _ -> Ok obj
  | VStr _ ->
    let cps =
      match obj with
      | VNone -> []
      | VBool _ -> []
      | VInt _ -> []
      | VFloat _ -> []
      | VBytes _ -> []
      | VStr c -> c
      | VEnum (l, _) -> cps_of_name l
      | _ -> []
    in
    fold_left (fun acc part ->
      bind acc (fun a ->
        let nm = strip part in
        (match nm with
         | [] -> Ok a
         | _ :: _ ->
           (match label_value table nm with
            | Some z0 ->
              (match a with
               | VInt f -> Ok (VInt (Z.coq_lor f z0))
               | _ -> raise EMapping p)
            | None -> raise EMapping p)))) (split_bar cps []) (Ok (VInt Z0))
  | VDict kv ->
    fold_left (fun acc e ->
      bind acc (fun a ->
        if is_private (fst e)
        then Ok a
        else if truthy (snd e)
             then (match label_value table (cps_of_name (fst e)) with
                   | Some z0 ->
                     (match a with
                      | VInt f -> Ok (VInt (Z.coq_lor f z0))
                      | _ -> raise EMapping p)
                   | None -> raise EMapping p)
             else Ok a)) kv (Ok (VInt Z0))
  | VEnum (_, _) ->
    let cps =
      match obj with
      | VNone -> []
      | VBool _ -> []
      | VInt _ -> []
      | VFloat _ -> []
      | VBytes _ -> []
      | VStr c -> c
      | VEnum (l, _) -> cps_of_name l
      | _ -> []
    in
    fold_left (fun acc part ->
      bind acc (fun a ->
        let nm = strip part in
        (match nm with
         | [] -> Ok a
         | _ :: _ ->
           (match label_value table nm with
            | Some z0 ->
              (match a with
               | VInt f -> Ok (VInt (Z.coq_lor f z0))
               | _ -> raise EMapping p)
            | None -> raise EMapping p)))) (split_bar cps []) (Ok (VInt Z0))
  | _ -> raise EMapping p

(** val n_data : name **)

let n_data =
  X64 :: (X61 :: (X74 :: (X61 :: [])))

(** val n_value : name **)

let n_value =
  X76 :: (X61 :: (X6c :: (X75 :: (X65 :: []))))

(** val n_offset1 : name **)

let n_offset1 =
  X6f :: (X66 :: (X66 :: (X73 :: (X65 :: (X74 :: (X31 :: []))))))

(** val n_offset2 : name **)

let n_offset2 =
  X6f :: (X66 :: (X66 :: (X73 :: (X65 :: (X74 :: (X32 :: []))))))

(** val n_length : name **)

let n_length =
  X6c :: (X65 :: (X6e :: (X67 :: (X74 :: (X68 :: [])))))

(** val build :
    con -> val0 -> ctx -> path -> ostream -> (val0 * ostream) res **)

let rec build c obj cx p o =
  match c with
  | CFormat (en, f) -> build_format en f obj p o
  | CBytesInt (len, signed, swapped) ->
    (match int_of_val obj with
     | Some z0 ->
       bind (eval_int cx len) (fun n0 ->
         if Z.leb n0 Z0
         then raise EInteger p
         else if Z.ltb (Zpos (XO (XO (XO (XO (XO (XO (XO (XO (XO (XO (XO (XO
                   (XO (XO (XO (XO XH))))))))))))))))) n0
              then unsupported
              else (match integer2bytes z0 (Z.to_nat n0) signed with
                    | Some d ->
                      let d0 = if swapped then swapbytes d else d in
                      bind (owrite o d0 n0 p) (fun o' -> Ok (obj, o'))
                    | None -> raise EInteger p))
     | None -> raise EInteger p)
  | CBitsInt (len, signed, swapped) ->
    (match int_of_val obj with
     | Some z0 ->
       bind (eval_int cx len) (fun n0 ->
         if Z.leb n0 Z0
         then raise EInteger p
         else if Z.ltb (Zpos (XO (XO (XO (XO (XO (XO (XO (XO (XO (XO (XO (XO
                   (XO (XO (XO (XO XH))))))))))))))))) n0
              then unsupported
              else (match integer2bits z0 (Z.to_nat n0) signed with
                    | Some d ->
                      (match if swapped then swapbytesinbits d else Some d with
                       | Some d' ->
                         bind (owrite o d' n0 p) (fun o' -> Ok (obj, o'))
                       | None -> raise EInteger p)
                    | None -> raise EInteger p))
     | None -> raise EInteger p)
  | CVarInt ->
    (match int_of_val obj with
     | Some z0 ->
       if Z.ltb z0 Z0
       then raise EInteger p
       else let d = varint_encode (Z.to_N z0) in
            bind (owrite o d (Z.of_nat (length d)) p) (fun o' -> Ok (obj, o'))
     | None -> raise EInteger p)
  | CZigZag ->
    (match int_of_val obj with
     | Some z0 ->
       let d = varint_encode (zigzag_enc z0) in
       bind (owrite o d (Z.of_nat (length d)) p) (fun o' -> Ok (obj, o'))
     | None -> raise EInteger p)
  | CBytes len ->
    bind (eval_int cx len) (fun n0 ->
      match int_of_val obj with
      | Some z0 ->
        if Z.ltb n0 (Zpos XH)
        then Err (EValue, None)
        else if Z.ltb (Zpos (XO (XO (XO (XO (XO (XO (XO (XO (XO (XO (XO (XO
                  (XO (XO (XO (XO XH))))))))))))))))) n0
             then unsupported
             else (match integer2bytes z0 (Z.to_nat n0) false with
                   | Some d ->
                     bind (owrite o d n0 p) (fun o' -> Ok ((VBytes d), o'))
                   | None -> Err (EValue, None))
      | None -> bind (write_val o obj n0 p) (fun o' -> Ok (obj, o')))
  | CGreedyBytes ->
    (match obj with
     | VNone -> type_error
     | VBool _ -> type_error
     | VInt _ -> type_error
     | VFloat _ -> type_error
     | VBytes d ->
       bind (owrite o d (Z.of_nat (length d)) p) (fun o' -> Ok (obj, o'))
     | _ -> raise EString p)
  | CFlag ->
    bind (owrite o ((if truthy obj then X01 else X00) :: []) (Zpos XH) p)
      (fun o' -> Ok (obj, o'))
  | CError -> raise EExplicit p
  | CTell -> Ok ((VInt (otell o)), o)
  | CIndex ->
    (match cx.c_scopes with
     | [] ->
       Ok ((match cx.c_topindex with
            | Some i -> VInt i
            | None -> VNone), o)
     | sc :: _ -> Ok ((match sc.s_index with
                       | Some v -> v
                       | None -> VNone), o))
  | CComputed e -> bind (eval cx e) (fun v -> Ok (v, o))
  | CCheck e ->
    bind (eval cx e) (fun v ->
      if truthy v then Ok (VNone, o) else raise ECheck p)
  | CStopIf e ->
    bind (eval cx e) (fun v ->
      if truthy v then raise EStopField p else Ok (VNone, o))
  | CSeek (at_, wh) ->
    bind (eval_int cx at_) (fun a ->
      bind (eval_int cx wh) (fun w ->
        bind (oseek o a w p) (fun pat ->
          let (r, o') = pat in Ok ((VInt r), o'))))
  | CStringEncoded (c', enc) ->
    let enc_of = fun cps ->
      match cps with
      | [] -> Ok (VBytes [])
      | _ :: _ ->
        (match encode enc cps with
         | Some d -> Ok (VBytes d)
         | None -> raise EString p)
    in
    bind
      (match obj with
       | VStr cps -> enc_of cps
       | VEnum (l, _) -> enc_of (cps_of_name l)
       | _ -> raise EString p) (fun obj2 ->
      bind (build c' obj2 cx p o) (fun pat ->
        let (_, o') = pat in Ok (obj, o')))
  | CEnum (c', table) ->
    bind
      (match obj with
       | VBool _ -> Ok obj
       | VInt _ -> Ok obj
       | VStr cps ->
         (match label_value table cps with
          | Some z0 -> Ok (VInt z0)
          | None -> raise EMapping p)
       | VList _ -> type_error
       | VDict _ -> type_error
       | VEnum (l, _) ->
         (match label_value table (cps_of_name l) with
          | Some z0 -> Ok (VInt z0)
          | None -> raise EMapping p)
       | _ -> raise EMapping p) (fun obj2 ->
      bind (build c' obj2 cx p o) (fun pat ->
        let (_, o') = pat in Ok (obj, o')))
  | CFlagsEnum (c', table) ->
    bind (flags_encode table obj p) (fun obj2 ->
      bind (build c' obj2 cx p o) (fun pat ->
        let (_, o') = pat in Ok (obj, o')))
  | CMapping (c', table) ->
    if negb (hashable obj)
    then raise EMapping p
    else (match find_case obj table with
          | Some v ->
            bind (build c' v cx p o) (fun pat ->
              let (_, o') = pat in Ok (obj, o'))
          | None -> raise EMapping p)
  | CHex c' ->
    bind (build c' obj cx p o) (fun pat -> let (_, o') = pat in Ok (obj, o'))
  | CHexDump c' ->
    bind (build c' obj cx p o) (fun pat -> let (_, o') = pat in Ok (obj, o'))
  | CExprValidator (c', e) ->
    bind (eval_obj cx obj None e) (fun t ->
      if truthy t
      then bind (build c' obj cx p o) (fun pat ->
             let (_, o') = pat in Ok (obj, o'))
      else raise EValidation p)
  | COneOf (c', vs) ->
    bind (oneof_mem obj vs) (fun b ->
      if b
      then bind (build c' obj cx p o) (fun pat ->
             let (_, o') = pat in Ok (obj, o'))
      else raise EValidation p)
  | CNoneOf (c', vs) ->
    bind (oneof_mem obj vs) (fun b ->
      if b
      then raise EValidation p
      else bind (build c' obj cx p o) (fun pat ->
             let (_, o') = pat in Ok (obj, o')))
  | CExprAdapter (c', _, enc) ->
    bind (eval_obj cx obj None enc) (fun obj2 ->
      bind (build c' obj2 cx p o) (fun pat ->
        let (_, o') = pat in Ok (obj, o')))
  | CStruct cs ->
    bind
      (match obj with
       | VNone -> Ok []
       | VDict kv -> Ok kv
       | _ -> unsupported) (fun kv ->
      let cx' = ctx_update (push_scope cx) kv in
      bind (struct_bloop build kv cs cx' p o) (fun pat ->
        let (cx'', o') = pat in Ok ((VDict (ctx_vals cx'')), o')))
  | CSequence cs ->
    bind
      (match obj with
       | VNone -> Ok (map (fun _ -> VNone) cs)
       | VList l -> Ok l
       | _ -> unsupported) (fun objs ->
      bind (seq_bloop build cs objs (push_scope cx) p o) (fun pat ->
        let (rs, o') = pat in Ok ((VList rs), o')))
  | CFocusedSeq (sel, cs) ->
    let cx' = ctx_set (push_scope cx) sel obj in
    bind (focus_bloop build sel obj cs cx' p None o) (fun pat ->
      let (fin, o') = pat in
      (match fin with
       | Some v -> Ok (v, o')
       | None -> Err (EForeign, None)))
  | CUnion (_, cs) ->
    (match obj with
     | VDict kv ->
       let cx' = ctx_update (push_scope cx) kv in
       let rec go = function
       | [] -> raise EUnion p
       | c' :: t ->
         let pick =
           match name_of c' with
           | Some n0 ->
             (match lookup n0 kv with
              | Some v -> Some v
              | None -> if buildnone c' then Some VNone else None)
           | None -> if buildnone c' then Some VNone else None
         in
         (match pick with
          | Some subobj ->
            let cx1 =
              match name_of c' with
              | Some n0 -> ctx_set cx' n0 subobj
              | None -> cx'
            in
            bind (build c' subobj cx1 p o) (fun pat ->
              let (r, o') = pat in
              (match name_of c' with
               | Some n0 -> Ok ((VDict ((n0, r) :: [])), o')
               | None -> unsupported))
          | None -> go t)
       in go cs
     | _ -> unsupported)
  | CSelect cs -> select_bloop build obj cs cx p o
  | CIfThenElse (e, a, b) ->
    bind (eval cx e) (fun v ->
      if truthy v then build a obj cx p o else build b obj cx p o)
  | CSwitch (e, cases, d) ->
    bind (eval cx e) (fun k ->
      if negb (hashable k)
      then type_error
      else let rec go = function
           | [] -> build d obj cx p o
           | p0 :: t ->
             let (v, c') = p0 in
             if val_eqb k v then build c' obj cx p o else go t
           in go cases)
  | CArray (count, c') ->
    bind (eval_int cx count) (fun n0 ->
      if Z.ltb n0 Z0
      then raise ERange p
      else (match obj with
            | VNone -> type_error
            | VBool _ -> type_error
            | VInt _ -> type_error
            | VFloat _ -> type_error
            | VList l ->
              if negb (Z.eqb (Z.of_nat (length l)) n0)
              then raise ERange p
              else bind (count_bloop (build c') l Z0 cx p o) (fun pat ->
                     let (rs, o') = pat in Ok ((VList rs), o'))
            | _ -> unsupported))
  | CGreedyRange c' ->
    (match obj with
     | VNone -> type_error
     | VBool _ -> type_error
     | VInt _ -> type_error
     | VFloat _ -> type_error
     | VList l ->
       bind (count_bloop (build c') l Z0 cx p o) (fun pat ->
         let (rs, o') = pat in Ok ((VList rs), o'))
     | _ -> unsupported)
  | CRepeatUntil (pred, c') ->
    (match obj with
     | VNone -> type_error
     | VBool _ -> type_error
     | VInt _ -> type_error
     | VFloat _ -> type_error
     | VList l ->
       bind (until_bloop (build c') pred l Z0 [] cx p o) (fun pat ->
         let (rs, o') = pat in Ok ((VList rs), o'))
     | _ -> unsupported)
  | CRenamed (n0, c') -> build c' obj cx (app p (n0 :: [])) o
  | CConst (v, c') ->
    (match obj with
     | VNone -> build c' v cx p o
     | _ -> if val_eqb obj v then build c' v cx p o else raise EConst p)
  | CRebuild (c', e) -> bind (eval cx e) (fun v -> build c' v cx p o)
  | CDefault (c', e) ->
    (match obj with
     | VNone -> bind (eval cx e) (fun v -> build c' v cx p o)
     | _ -> build c' obj cx p o)
  | CPadded (len, c', pat) ->
    bind (eval_int cx len) (fun n0 ->
      if Z.ltb n0 Z0
      then raise EPadding p
      else bind (build c' obj cx p o) (fun pat0 ->
             let (r, o1) = pat0 in
             let pad = Z.sub n0 (Z.sub (otell o1) (otell o)) in
             if Z.ltb pad Z0
             then raise EPadding p
             else if Z.ltb alloc_bound pad
                  then unsupported
                  else bind (owrite o1 (repeat pat (Z.to_nat pad)) pad p)
                         (fun o2 -> Ok (r, o2))))
  | CAligned (m, c', pat) ->
    bind (eval_int cx m) (fun n0 ->
      if Z.ltb n0 (Zpos (XO XH))
      then raise EPadding p
      else bind (build c' obj cx p o) (fun pat0 ->
             let (r, o1) = pat0 in
             let pad = Z.modulo (Z.opp (Z.sub (otell o1) (otell o))) n0 in
             if Z.ltb alloc_bound pad
             then unsupported
             else bind (owrite o1 (repeat pat (Z.to_nat pad)) pad p)
                    (fun o2 -> Ok (r, o2))))
  | CPointer (off, c') ->
    bind (eval_int cx off) (fun a ->
      bind (oseek o a (if Z.ltb a Z0 then Zpos (XO XH) else Z0) p)
        (fun pat ->
        let (_, o1) = pat in
        bind (build c' obj cx p o1) (fun pat0 ->
          let (r, o2) = pat0 in
          bind (oseek o2 (otell o) Z0 p) (fun pat1 ->
            let (_, o3) = pat1 in Ok (r, o3)))))
  | COffsettedEnd (_, c') -> build c' obj cx p o
  | CRawCopy c' ->
    bind
      (match obj with
       | VNone ->
         if buildnone c' then Ok ((n_value, VNone) :: []) else type_error
       | VDict kv -> Ok kv
       | _ -> unsupported) (fun kv ->
      match lookup n_data kv with
      | Some data ->
        bind
          (match data with
           | VBytes d -> Ok (Z.of_nat (length d))
           | VStr l -> Ok (Z.of_nat (length l))
           | VList l -> Ok (Z.of_nat (length l))
           | VDict l -> Ok (Z.of_nat (length l))
           | _ -> type_error) (fun len ->
          bind (write_val o data len p) (fun o1 ->
            let o1v = otell o in
            let o2v = otell o1 in
            Ok ((VDict
            (dict_update kv ((n_data, data) :: ((n_offset1, (VInt
              o1v)) :: ((n_offset2, (VInt o2v)) :: ((n_length, (VInt
              (Z.sub o2v o1v))) :: [])))))), o1)))
      | None ->
        (match lookup n_value kv with
         | Some value ->
           bind (build c' value cx p o) (fun pat ->
             let (r, o1) = pat in
             let value' = match r with
                          | VNone -> value
                          | _ -> r in
             let o1v = otell o in
             let o2v = otell o1 in
             bind (oseek o1 o1v Z0 p) (fun pat0 ->
               let (_, o2) = pat0 in
               bind (oread o2 (Z.sub o2v o1v) p) (fun pat1 ->
                 let (d, o3) = pat1 in
                 Ok ((VDict
                 (dict_update kv ((n_data, (VBytes d)) :: ((n_value,
                   value') :: ((n_offset1, (VInt o1v)) :: ((n_offset2, (VInt
                   o2v)) :: ((n_length, (VInt (Z.sub o2v o1v))) :: []))))))),
                 o3))))
         | None -> raise ERawCopy p))
  | CPrefixed (lc, c', incl) ->
    bind (build c' obj cx p ostream_new) (fun pat ->
      let (r, o2) = pat in
      let data = o2.odata in
      bind
        (if incl
         then bind (sizeof lc cx p) (fun k -> Ok
                (Z.add (Z.of_nat (length data)) k))
         else Ok (Z.of_nat (length data))) (fun len ->
        bind (build lc (VInt len) cx p o) (fun pat0 ->
          let (_, o1) = pat0 in
          bind (owrite o1 data (Z.of_nat (length data)) p) (fun o' -> Ok (r,
            o')))))
  | CFixedSized (len, c') ->
    bind (eval_int cx len) (fun n0 ->
      if Z.ltb n0 Z0
      then raise EPadding p
      else bind (build c' obj cx p ostream_new) (fun pat ->
             let (r, o2) = pat in
             let data = o2.odata in
             let pad = Z.sub n0 (Z.of_nat (length data)) in
             if Z.ltb pad Z0
             then raise EPadding p
             else if Z.ltb alloc_bound pad
                  then unsupported
                  else bind (owrite o data (Z.of_nat (length data)) p)
                         (fun o1 ->
                         bind (owrite o1 (zeros (Z.to_nat pad)) pad p)
                           (fun o' -> Ok (r, o')))))
  | CNullTerminated (c', term, _, _, _) ->
    bind (build c' obj cx p o) (fun pat ->
      let (r, o1) = pat in
      bind (owrite o1 term (Z.of_nat (length term)) p) (fun o' -> Ok (r, o')))
  | CNullStripped (c', _) -> build c' obj cx p o
  | CTransformed (c', _, _, ef, ea) ->
    bind (build c' obj cx p ostream_new) (fun pat ->
      let (r, o2) = pat in
      bind (apply_bfun ef o2.odata) (fun d ->
        match ea with
        | Some n0 ->
          if negb (Z.eqb (Z.of_nat (length d)) n0)
          then raise EStream p
          else bind (owrite o d (Z.of_nat (length d)) p) (fun o' -> Ok (r,
                 o'))
        | None ->
          bind (owrite o d (Z.of_nat (length d)) p) (fun o' -> Ok (r, o'))))
  | CRestreamed (c', _, _, ef, eu, _) ->
    if Z.ltb eu (Zpos XH)
    then unsupported
    else bind
           (build c' obj cx p { odata = []; opos = N0; oseekable = false })
           (fun pat ->
           let (_, o2) = pat in
           let d = o2.odata in
           let units = chunksn (Z.to_nat eu) (length d) d in
           if negb (Nat.eqb (Nat.modulo (length d) (Z.to_nat eu)) O)
           then (match decode_units ef
                         (firstn (Nat.div (length d) (Z.to_nat eu)) units) with
                 | Some _ -> Err (EValue, None)
                 | None -> unsupported)
           else (match decode_units ef units with
                 | Some enc ->
                   let e = concat enc in
                   bind (owrite o e (Z.of_nat (length e)) p) (fun o' -> Ok
                     (obj, o'))
                 | None -> unsupported))
  | CProcessXor (key0, c') ->
    bind (eval cx key0) (fun k ->
      match k with
      | VBool _ ->
        bind (build c' obj cx p ostream_new) (fun pat ->
          let (r, o2) = pat in
          bind (xor_data k o2.odata p) (fun d ->
            bind (owrite o d (Z.of_nat (length d)) p) (fun o' -> Ok (r, o'))))
      | VInt _ ->
        bind (build c' obj cx p ostream_new) (fun pat ->
          let (r, o2) = pat in
          bind (xor_data k o2.odata p) (fun d ->
            bind (owrite o d (Z.of_nat (length d)) p) (fun o' -> Ok (r, o'))))
      | VBytes _ ->
        bind (build c' obj cx p ostream_new) (fun pat ->
          let (r, o2) = pat in
          bind (xor_data k o2.odata p) (fun d ->
            bind (owrite o d (Z.of_nat (length d)) p) (fun o' -> Ok (r, o'))))
      | _ -> raise EString p)
  | CProcessRotl (amount, group, c') ->
    bind (eval_int cx amount) (fun a ->
      bind (eval_int cx group) (fun g ->
        if Z.ltb g (Zpos XH)
        then raise ERotation p
        else if Z.ltb alloc_bound g
             then unsupported
             else let am =
                    Z.to_N
                      (Z.modulo (Z.opp a) (Z.mul g (Zpos (XO (XO (XO XH))))))
                  in
                  bind (build c' obj cx p ostream_new) (fun pat ->
                    let (r, o2) = pat in
                    (match rotate_left am (Z.to_nat g) o2.odata with
                     | Some d ->
                       bind (owrite o d (Z.of_nat (length d)) p) (fun o' ->
                         Ok (r, o'))
                     | None -> raise ERotation p))))
  | CChecksum (c', h, data) ->
    bind (eval cx data) (fun d ->
      match d with
      | VBytes bs ->
        let h2 = apply_hash h bs in
        bind (build c' h2 cx p o) (fun pat ->
          let (_, o') = pat in Ok (h2, o'))
      | _ -> unsupported)
  | CLazy c' -> build c' obj cx p o
  | CLazyStruct cs ->
    bind
      (match obj with
       | VNone -> Ok []
       | VDict kv -> Ok kv
       | _ -> unsupported) (fun kv ->
      let cx' = ctx_update (push_scope cx) kv in
      bind (struct_bloop build kv cs cx' p o) (fun pat ->
        let (cx'', o') = pat in Ok ((VDict (ctx_vals cx'')), o')))
  | CLazyArray (count, c') ->
    bind (eval_int cx count) (fun n0 ->
      if Z.ltb n0 Z0
      then raise ERange p
      else (match obj with
            | VNone -> type_error
            | VBool _ -> type_error
            | VInt _ -> type_error
            | VFloat _ -> type_error
            | VList l ->
              if negb (Z.eqb (Z.of_nat (length l)) n0)
              then raise ERange p
              else bind (count_bloop (build c') l Z0 cx p o) (fun pat ->
                     let (rs, o') = pat in Ok ((VList rs), o'))
            | _ -> unsupported))
  | _ -> Ok (obj, o)

(** val build_bytes :
    con -> val0 -> (name * val0) list -> (val0 * bytes) res **)

let build_bytes c obj kw =
  bind (build c obj (top_ctx kw MBuild) [] ostream_new) (fun pat ->
    let (r, o) = pat in Ok (r, o.odata))

type request =
| RParse of con * (name * val0) list * bytes * n
| RBuild of con * val0 * (name * val0) list
| RSizeof of con * (name * val0) list
| REval of expr * (name * val0) list

type response =
| ROkParse of val0 * z
| ROkBuild of val0 * bytes
| ROkSize of z
| ROkVal of val0
| RErr of err * path option

(** val run : request -> response **)

let run = function
| RParse (c, kw, data, start) ->
  (match parse_at c kw data start with
   | Ok a -> let (v, pos) = a in ROkParse (v, pos)
   | Err (e, p) -> RErr (e, p))
| RBuild (c, obj, kw) ->
  (match build_bytes c obj kw with
   | Ok a -> let (r0, out) = a in ROkBuild (r0, out)
   | Err (e, p) -> RErr (e, p))
| RSizeof (c, kw) ->
  (match sizeof c (top_ctx kw MSize) [] with
   | Ok n0 -> ROkSize n0
   | Err (e, p) -> RErr (e, p))
| REval (e, kw) ->
  (match eval (top_ctx kw MParse) e with
   | Ok v -> ROkVal v
   | Err (e0, p) -> RErr (e0, p))
