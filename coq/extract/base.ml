(* hand-written glue: s-expressions and the base types of the extracted model *)
open Model

type sexp = A of string | L of sexp list

let rec show = function
  | A s -> s
  | L l -> "(" ^ String.concat " " (List.map show l) ^ ")"

let rec show_buf b = function
  | A s -> Buffer.add_string b s
  | L l -> Buffer.add_char b '(';
      List.iteri (fun i x -> if i > 0 then Buffer.add_char b ' '; show_buf b x) l;
      Buffer.add_char b ')'

(* parse one s-expression from a string starting at position i *)
let parse_sexp (s : string) (start : int) : sexp * int =
  let n = String.length s in
  let rec skip i = if i < n && (s.[i] = ' ' || s.[i] = '\t') then skip (i + 1) else i in
  let rec one i =
    let i = skip i in
    if i >= n then failwith "sexp: eof"
    else if s.[i] = '(' then
      let rec items i acc =
        let i = skip i in
        if i >= n then failwith "sexp: unclosed"
        else if s.[i] = ')' then (L (List.rev acc), i + 1)
        else let (x, j) = one i in items j (x :: acc) in
      items (i + 1) []
    else begin
      let j = ref i in
      while !j < n && s.[!j] <> ' ' && s.[!j] <> '(' && s.[!j] <> ')' && s.[!j] <> '\t' do incr j done;
      (A (String.sub s i (!j - i)), !j)
    end in
  one start

let rec pos_of_int (i : int) : positive =
  if i = 1 then XH else if i land 1 = 0 then XO (pos_of_int (i lsr 1)) else XI (pos_of_int (i lsr 1))
let n_of_int i = if i = 0 then N0 else Npos (pos_of_int i)
let z_of_int i = if i = 0 then Z0 else if i > 0 then Zpos (pos_of_int i) else Zneg (pos_of_int (- i))
let rec nat_of_int i = if i <= 0 then O else S (nat_of_int (i - 1))
let rec int_of_nat = function O -> 0 | S k -> 1 + int_of_nat k

(* small positives to int; None when more than 60 bits *)
let int_of_pos_opt (p : positive) : int option =
  let rec go p depth = if depth > 60 then None else
    match p with
    | XH -> Some 1
    | XO q -> (match go q (depth + 1) with Some v -> Some (2 * v) | None -> None)
    | XI q -> (match go q (depth + 1) with Some v -> Some (2 * v + 1) | None -> None) in
  go p 0

let ten = n_of_int 10
let n_of_dec (s : string) : n =
  let acc = ref N0 in
  String.iter (fun ch ->
    if ch < '0' || ch > '9' then failwith ("bad number: " ^ s);
    acc := N.add (N.mul !acc ten) (n_of_int (Char.code ch - 48))) s;
  !acc

let rec dec_of_n (x : n) : string =
  match x with
  | N0 -> "0"
  | Npos p ->
    (match int_of_pos_opt p with
     | Some i -> string_of_int i
     | None ->
       let (q, r) = N.div_eucl x ten in
       let d = match r with N0 -> 0 | Npos rp -> (match int_of_pos_opt rp with Some i -> i | None -> 0) in
       dec_of_n q ^ string_of_int d)

let n_of_sexp = function A s -> n_of_dec s | s -> failwith ("bad N: " ^ show s)
let z_of_sexp = function
  | A s when String.length s > 0 && s.[0] = '-' -> Z.opp (Z.of_N (n_of_dec (String.sub s 1 (String.length s - 1))))
  | A s -> Z.of_N (n_of_dec s)
  | s -> failwith ("bad Z: " ^ show s)
let nat_of_sexp = function A s -> nat_of_int (int_of_string s) | s -> failwith ("bad nat: " ^ show s)
let bool_of_sexp = function A "T" -> true | A "F" -> false | s -> failwith ("bad bool: " ^ show s)

let byte_of_int (i : int) : byte =
  match of_N0 (n_of_int i) with Some b -> b | None -> failwith "byte_of_int"
let int_of_byte (b : byte) : int =
  match to_N0 b with N0 -> 0 | Npos p -> (match int_of_pos_opt p with Some i -> i | None -> 0)
let byte_table : byte array = Array.init 256 byte_of_int

let hexval c = match c with
  | '0'..'9' -> Char.code c - 48 | 'a'..'f' -> Char.code c - 87 | 'A'..'F' -> Char.code c - 55
  | _ -> failwith "bad hex"
let bytes_of_sexp = function
  | A s when String.length s >= 1 && s.[0] = 'x' ->
      let n = (String.length s - 1) / 2 in
      let rec go i acc = if i < 0 then acc
        else go (i - 1) (byte_table.(16 * hexval s.[1 + 2 * i] + hexval s.[2 + 2 * i]) :: acc) in
      go (n - 1) []
  | s -> failwith ("bad bytes: " ^ show s)
let byte_of_sexp s = match bytes_of_sexp s with [b] -> b | _ -> failwith "bad byte"

let list_of_sexp f = function L l -> List.map f l | s -> failwith ("bad list: " ^ show s)
let option_of_sexp f = function A "N" -> None | L [A "S"; x] -> Some (f x) | s -> failwith ("bad option: " ^ show s)
let pair_of_sexp f g = function L [a; b] -> (f a, g b) | s -> failwith ("bad pair: " ^ show s)

let sexp_of_n x = A (dec_of_n x)
let sexp_of_z = function
  | Z0 -> A "0"
  | Zpos p -> A (dec_of_n (Npos p))
  | Zneg p -> A ("-" ^ dec_of_n (Npos p))
let sexp_of_nat k = A (string_of_int (int_of_nat k))
let sexp_of_bool b = A (if b then "T" else "F")
let sexp_of_bytes (l : byte list) =
  let b = Buffer.create (2 * List.length l + 1) in
  Buffer.add_char b 'x';
  List.iter (fun x -> Buffer.add_string b (Printf.sprintf "%02x" (int_of_byte x))) l;
  A (Buffer.contents b)
let sexp_of_byte x = sexp_of_bytes [x]
let sexp_of_list f l = L (List.map f l)
let sexp_of_option f = function None -> A "N" | Some x -> L [A "S"; f x]
let sexp_of_pair f g (a, b) = L [f a; g b]
