(* C03 - encodings match an independent executable specification of each wire format.
   Only statements; every proof is `exact <lemma of proofs/>`. *)
From Coq Require Import ZArith NArith List Bool.
From Coq Require Import Strings.Byte.
Require Import Bytes Value Expr Codec Float Stream Syntax Sizeof Parse Build BytesFacts StreamFacts PrimFacts.
Import ListNotations.

(* Two's complement, any width: the pattern of an in-range integer denotes that integer back. *)
Theorem C03_twos_complement : forall signed bits z,
  (0 < bits)%N -> in_range signed bits z = true -> unpattern signed bits (pattern bits z) = z.
Proof. exact unpattern_pattern. Qed.
Print Assumptions C03_twos_complement.

(* Big-endian base-256 digits, any width. *)
Theorem C03_big_endian_digits : forall w n, (n < 256 ^ N.of_nat w)%N -> be_decode (be_encode w n) = n.
Proof. exact be_roundtrip. Qed.
Print Assumptions C03_big_endian_digits.

Theorem C03_big_endian_unique : forall bs, be_encode (length bs) (be_decode bs) = bs.
Proof. exact be_encode_decode. Qed.
Print Assumptions C03_big_endian_unique.

(* BytesInteger of any width n, signedness and byte order: build emits exactly the digits of the
   two's-complement pattern (reversed when swapped), or IntegerError when out of range. *)
Theorem C03_bytesinteger_build : forall n s sw z cx p o,
  (0 < n <= 65536)%Z -> app_mode o ->
  build (CBytesInt (kint n) s sw) (VInt z) cx p o =
  if in_range s (8 * N.of_nat (Z.to_nat n)) z
  then Ok (VInt z, oapp o (endian_of sw (be_encode (Z.to_nat n) (pattern (8 * N.of_nat (Z.to_nat n)) z))))
  else Err EInteger (Some p).
Proof. exact bytesint_build. Qed.
Print Assumptions C03_bytesinteger_build.

(* ... and parse returns the two's-complement value of the next n bytes and consumes exactly n. *)
Theorem C03_bytesinteger_parse : forall n s sw d rest pre base sk cx p,
  (0 < n)%Z -> Z.of_nat (length d) = n ->
  parse (CBytesInt (kint n) s sw) cx p (at_pos pre (d ++ rest) base sk) =
  Ok (VInt (unpattern s (8 * N.of_nat (length d)) (be_decode (endian_of sw d))), at_pos (pre ++ d) rest base sk).
Proof. exact bytesint_parse. Qed.
Print Assumptions C03_bytesinteger_parse.

Theorem C03_bytesinteger_truncated : forall n s sw body pre base sk cx p,
  (Z.of_nat (length body) < n)%Z ->
  parse (CBytesInt (kint n) s sw) cx p (at_pos pre body base sk) = Err EStream (Some p).
Proof. exact bytesint_parse_short. Qed.
Print Assumptions C03_bytesinteger_truncated.

(* FormatField integer formats B H L Q b h l q in either byte order. *)
Theorem C03_formatfield_build : forall en f z cx p o,
  fcode_float f = false -> app_mode o ->
  build (CFormat en f) (VInt z) cx p o =
  if in_range (fcode_signed f) (8 * N.of_nat (fcode_size f)) z
  then Ok (VInt z, oapp o (endian_fmt en (be_encode (fcode_size f) (pattern (8 * N.of_nat (fcode_size f)) z))))
  else Err EFormatField (Some p).
Proof. exact format_int_build. Qed.
Print Assumptions C03_formatfield_build.

Theorem C03_formatfield_parse : forall en f d rest pre base sk cx p,
  fcode_float f = false -> length d = fcode_size f ->
  parse (CFormat en f) cx p (at_pos pre (d ++ rest) base sk) =
  Ok (VInt (unpattern (fcode_signed f) (8 * N.of_nat (fcode_size f)) (be_decode (endian_fmt en d))),
      at_pos (pre ++ d) rest base sk).
Proof. exact format_int_parse. Qed.
Print Assumptions C03_formatfield_parse.

(* LEB128: the relation leb128 n bs is the wire format, written without reference to the algorithms.
   Build emits a well-formed encoding of the value; parse accepts every well-formed encoding (minimal
   or not), returns its value and consumes exactly its bytes. *)
Theorem C03_varint_build_wellformed : forall x, leb128 x (varint_encode x).
Proof. exact varint_encode_leb. Qed.
Print Assumptions C03_varint_build_wellformed.

Theorem C03_varint_parse_complete : forall enc n pre rest base sk p,
  leb128 n enc ->
  parse_varint (at_pos pre (enc ++ rest) base sk) p = Ok (n, at_pos (pre ++ enc) rest base sk).
Proof. exact varint_parse_spec. Qed.
Print Assumptions C03_varint_parse_complete.

Theorem C03_varint_parse_sound : forall bs n rest,
  varint_decode bs = Some (n, rest) -> exists enc, bs = enc ++ rest /\ leb128 n enc.
Proof. exact varint_decode_spec. Qed.
Print Assumptions C03_varint_parse_sound.

Theorem C03_varint_rejects_unterminated : forall body pre base sk cx p,
  forallb (fun b => (128 <=? Byte.to_N b)%N) body = true ->
  parse CVarInt cx p (at_pos pre body base sk) = Err EStream (Some p).
Proof. exact varint_parse_truncated. Qed.
Print Assumptions C03_varint_rejects_unterminated.

(* ZigZag: z >= 0 -> 2z, z < 0 -> -2z-1, and back. *)
Theorem C03_zigzag_spec : forall z, Z.of_N (zigzag_enc z) = (if (0 <=? z)%Z then 2 * z else - 2 * z - 1)%Z.
Proof. exact zigzag_spec. Qed.
Print Assumptions C03_zigzag_spec.

Theorem C03_zigzag_inverse : forall z, zigzag_dec (zigzag_enc z) = z.
Proof. exact zigzag_roundtrip. Qed.
Print Assumptions C03_zigzag_inverse.

Theorem C03_zigzag_onto : forall n, zigzag_enc (zigzag_dec n) = n.
Proof. exact zigzag_surj. Qed.
Print Assumptions C03_zigzag_onto.

(* non-vacuity: concrete instances evaluated by the kernel *)
Example C03_ex_int24sl :
  build_bytes (CBytesInt (kint 3) true true) (VInt (-2)) [] = Ok (VInt (-2), [xfe; xff; xff]) /\
  parse_at (CBytesInt (kint 3) true true) [] [xfe; xff; xff; x00] 0 = Ok (VInt (-2), 3%Z).
Proof. split; vm_compute; reflexivity. Qed.
Example C03_ex_varint :
  build_bytes CVarInt (VInt 300) [] = Ok (VInt 300, [xac; x02]) /\
  parse_at CVarInt [] [xac; x82; x00; x07] 0 = Ok (VInt 300, 3%Z).
Proof. split; vm_compute; reflexivity. Qed.

(* Half precision, exhaustively: all 65536 patterns (proofs/FloatFacts.v). *)
Require Import FloatFacts.
Theorem C03_half_roundtrip : forall p, (p < 65536)%N -> is_nan binary16 p = false -> narrow binary16 (widen binary16 p) = Some p.
Proof. exact half_roundtrip. Qed.
Print Assumptions C03_half_roundtrip.

Theorem C03_half_nan_canonical : forall p, (p < 65536)%N -> is_nan binary16 p = true ->
  narrow binary16 (widen binary16 p) = Some (quiet_nan binary16 (f_sign binary16 p)).
Proof. exact half_nan_canonical. Qed.
Print Assumptions C03_half_nan_canonical.

Theorem C03_half_widen_injective : forall p q, (p < 65536)%N -> (q < 65536)%N -> is_nan binary16 p = false -> is_nan binary16 q = false ->
  widen binary16 p = widen binary16 q -> p = q.
Proof. exact half_widen_injective. Qed.
Print Assumptions C03_half_widen_injective.

(* Single and double precision, every pattern, by arithmetic on the rounding function (proofs/Float32.v, proofs/FloatField.v). *)
Require Import Float32 FloatField.
Theorem C03_single_roundtrip : forall p, (p < 4294967296)%N -> is_nan binary32 p = false -> narrow binary32 (widen binary32 p) = Some p.
Proof. exact single_roundtrip. Qed.
Print Assumptions C03_single_roundtrip.

Theorem C03_single_widen_injective : forall p q, (p < 4294967296)%N -> (q < 4294967296)%N -> is_nan binary32 p = false -> is_nan binary32 q = false ->
  widen binary32 p = widen binary32 q -> p = q.
Proof. exact single_widen_injective. Qed.
Print Assumptions C03_single_widen_injective.

Theorem C03_double_identity : forall p, (p < 18446744073709551616)%N -> is_nan binary64 p = false -> widen binary64 p = p /\ narrow binary64 p = Some p.
Proof. exact double_identity. Qed.
Print Assumptions C03_double_identity.

Theorem C03_float32_field : forall en d rest pre base sk cx p cx2 p2 o, length d = 4%nat -> app_mode o ->
  is_nan binary32 (pattern_of en d) = false ->
  exists x, parse (CFormat en Ff) cx p (at_pos pre (d ++ rest) base sk) = Ok (VFloat x, at_pos (pre ++ d) rest base sk) /\
            build (CFormat en Ff) (VFloat x) cx2 p2 o = Ok (VFloat x, oapp o d).
Proof. exact float32_parse_then_build. Qed.
Print Assumptions C03_float32_field.

(* Values that are not integers have no integer encoding: every integer field refuses them with its own error class, whatever int() would
   have made of them (floats, numeric strings, byte strings, None, lists, containers).   [proofs/PrimFacts.v] *)
Theorem C03_integer_fields_refuse_non_integers : forall obj cx p o, int_of_val obj = None ->
  (forall len s sw, build (CBytesInt len s sw) obj cx p o = Err EInteger (Some p)) /\
  (forall len s sw, build (CBitsInt len s sw) obj cx p o = Err EInteger (Some p)) /\
  build CVarInt obj cx p o = Err EInteger (Some p) /\
  build CZigZag obj cx p o = Err EInteger (Some p) /\
  (forall en f, fcode_float f = false -> build (CFormat en f) obj cx p o = Err EFormatField (Some p)).
Proof. exact integer_fields_refuse_non_integers. Qed.
Print Assumptions C03_integer_fields_refuse_non_integers.

Theorem C03_int_of_val_only_ints : forall v, int_of_val v <> None -> exists z, v = VInt z \/ exists b, v = VBool b /\ z = (if b then 1 else 0)%Z.
Proof. exact int_of_val_only_ints. Qed.
Print Assumptions C03_int_of_val_only_ints.

Example C03_ex_non_integers :
  int_of_val (VFloat 0) = None /\ int_of_val (VStr [49; 50]%N) = None /\ int_of_val (VBytes [x33]) = None /\ int_of_val VNone = None /\
  int_of_val (VList [VInt 1]) = None /\ int_of_val (VDict []) = None.
Proof. repeat split. Qed.
