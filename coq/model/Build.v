(* _build, class by class. *)
From Coq Require Import ZArith NArith List Bool.
From Coq Require Import Strings.Byte.
Require Import Bytes Value Expr Codec Float Stream Syntax Sizeof Parse.
Import ListNotations.

Definition builder := val -> ctx -> path -> ostream -> res (val * ostream).

(* stream_write(stream, data, length, path): the isinstance(bytes) check comes first *)
Definition write_val (o : ostream) (v : val) (len : Z) (p : path) : res ostream :=
  match v with
  | VBytes d => owrite o d len p
  | _ => raise EString p
  end.

Definition build_format (en : endian) (f : fcode) (obj : val) (p : path) (o : ostream) : res (val * ostream) :=
  let sz := fcode_size f in
  let emit (n : N) :=
    let d := be_encode sz n in
    let d := match en with Big => d | Little => rev d end in
    let* o' := owrite o d (Z.of_nat sz) p in Ok (obj, o') in
  if fcode_float f then
    match obj with
    | VFloat b => match narrow (fmt_of f) b with Some n => emit n | None => raise EFormatField p end
    | VInt _ | VBool _ =>
        match int_of_val obj with
        | Some z => match f64_of_Z z with
                    | Some b => match narrow (fmt_of f) b with Some n => emit n | None => raise EFormatField p end
                    | None => unsupported
                    end
        | None => unsupported
        end
    | _ => raise EFormatField p
    end
  else
    match int_of_val obj with
    | Some z => if in_range (fcode_signed f) (8 * N.of_nat sz) z then emit (pattern (8 * N.of_nat sz) z)
                else raise EFormatField p
    | None => raise EFormatField p
    end.

Definition struct_bloop (B : con -> builder) (obj : list (name * val)) :=
  fix go (cs : list con) (cx : ctx) (p : path) (o : ostream) : res (ctx * ostream) :=
    match cs with
    | [] => Ok (cx, o)
    | c :: t =>
        let sub := match name_of c with
                   | Some n => match lookup n obj with
                               | Some v => Ok v
                               | None => if buildnone c then Ok VNone else key_error
                               end
                   | None => if buildnone c then Ok VNone else key_error
                   end in
        let* subobj := sub in
        let cx1 := match name_of c with Some n => ctx_set cx n subobj | None => cx end in
        match B c subobj cx1 p o with
        | Ok (r, o') =>
            let cx2 := match name_of c with Some n => ctx_set cx1 n r | None => cx1 end in
            go t cx2 p o'
        | Err EStopField q => if is_stopif c then Ok (cx1, o) else unsupported
        | Err e q => Err e q
        end
    end.

Definition seq_bloop (B : con -> builder) :=
  fix go (cs : list con) (objs : list val) (cx : ctx) (p : path) (o : ostream) : res (list val * ostream) :=
    match cs with
    | [] => Ok ([], o)
    | c :: t =>
        match objs with
        | [] => Err EForeign None                    (* StopIteration from next(objiter) *)
        | subobj :: objs' =>
            let cx1 := match name_of c with Some n => ctx_set cx n subobj | None => cx end in
            match B c subobj cx1 p o with
            | Ok (r, o') =>
                let cx2 := match name_of c with Some n => ctx_set cx1 n r | None => cx1 end in
                let* (rs, o'') := go t objs' cx2 p o' in Ok (r :: rs, o'')
            | Err EStopField q => if is_stopif c then Ok ([], o) else unsupported
            | Err e q => Err e q
            end
        end
    end.

Definition focus_bloop (B : con -> builder) (sel : name) (obj : val) :=
  fix go (cs : list con) (cx : ctx) (p : path) (fin : option val) (o : ostream)
    : res (option val * ostream) :=
    match cs with
    | [] => Ok (fin, o)
    | c :: t =>
        let is_sel := match name_of c with Some n => name_eqb n sel | None => false end in
        let* (r, o') := B c (if is_sel then obj else VNone) cx p o in
        let cx' := match name_of c with Some n => ctx_set cx n r | None => cx end in
        go t cx' p (if is_sel then Some r else fin) o'
    end.

Definition count_bloop (B : builder) :=
  fix go (objs : list val) (i : Z) (cx : ctx) (p : path) (o : ostream) : res (list val * ostream) :=
    match objs with
    | [] => Ok ([], o)
    | e :: t =>
        let* (r, o1) := B e (ctx_set_index cx i) p o in
        let* (rs, o2) := go t (i + 1)%Z cx p o1 in Ok (r :: rs, o2)
    end.

Definition until_bloop (B : builder) (pred : expr) :=
  fix go (objs : list val) (i : Z) (acc : list val) (cx : ctx) (p : path) (o : ostream)
    : res (list val * ostream) :=
    match objs with
    | [] => raise ERepeat p
    | e :: t =>
        let cxi := ctx_set_index cx i in
        let* (r, o1) := B e cxi p o in
        let acc' := acc ++ [r] in
        let* tv := eval_obj cxi e (Some (VList acc')) pred in
        if truthy tv then Ok (acc', o1) else go t (i + 1)%Z acc' cx p o1
    end.

(* the context Select._build hands to sc.build(obj, **context) *)
Definition reenter_ctx (cx : ctx) : ctx :=
  match c_scopes cx with
  | [] => mkCtx [] (c_top cx) (c_topindex cx) MBuild (c_opaque cx)
  | sc :: _ =>
      mkCtx [] (s_vals sc) (match s_index sc with Some (VInt i) => Some i | _ => None end) MBuild true
  end.

Definition select_bloop (B : con -> builder) (obj : val) :=
  fix go (cs : list con) (cx : ctx) (p : path) (o : ostream) : res (val * ostream) :=
    match cs with
    | [] => raise ESelect p
    | c :: t =>
        match B c obj (reenter_ctx cx) [] ostream_new with
        | Ok (_, o1) => let* o' := owrite o (odata o1) (Z.of_nat (length (odata o1))) p in Ok (obj, o')
        | Err e q =>
            if swallowed e then go t cx p o
            else if err_eqb e EStopField then unsupported
            else Err e q
        end
    end.

Definition cp_is_space (c : N) : bool :=
  (N.eqb c 32 || ((9 <=? c) && (c <=? 13)))%N.
Fixpoint lstrip (l : list N) : list N :=
  match l with c :: t => if cp_is_space c then lstrip t else l | [] => [] end.
Definition strip (l : list N) : list N := rev (lstrip (rev (lstrip l))).
Fixpoint split_bar (l : list N) (cur : list N) : list (list N) :=
  match l with
  | [] => [rev cur]
  | c :: t => if N.eqb c 124 then rev cur :: split_bar t [] else split_bar t (c :: cur)
  end.

Definition label_value (table : list (name * Z)) (cps : list N) : option Z :=
  match find (fun e => list_eqb N.eqb (map Byte.to_N (fst e)) cps) (rev table) with
  | Some (_, z) => Some z
  | None => None
  end.

Definition cps_of_name (n : name) : list N := map Byte.to_N n.

Definition flags_encode (table : list (name * Z)) (obj : val) (p : path) : res val :=
  match obj with
  | VInt _ | VBool _ => Ok obj
  | VStr _ | VEnum _ _ =>
      let cps := match obj with VStr c => c | VEnum l _ => cps_of_name l | _ => [] end in
      fold_left (fun acc part =>
        let* a := acc in
        let nm := strip part in
        match nm with
        | [] => Ok a
        | _ => match label_value table nm, a with
               | Some z, VInt f => Ok (VInt (Z.lor f z))
               | _, _ => raise EMapping p
               end
        end) (split_bar cps []) (Ok (VInt 0))
  | VDict kv =>
      fold_left (fun acc e =>
        let* a := acc in
        if is_private (fst e) then Ok a
        else if truthy (snd e) then
          match label_value table (cps_of_name (fst e)), a with
          | Some z, VInt f => Ok (VInt (Z.lor f z))
          | _, _ => raise EMapping p
          end
        else Ok a) kv (Ok (VInt 0))
  | _ => raise EMapping p
  end.

Definition n_data : name := [x64; x61; x74; x61].
Definition n_value : name := [x76; x61; x6c; x75; x65].
Definition n_offset1 : name := [x6f; x66; x66; x73; x65; x74; x31].
Definition n_offset2 : name := [x6f; x66; x66; x73; x65; x74; x32].
Definition n_length : name := [x6c; x65; x6e; x67; x74; x68].

Fixpoint build (c : con) (obj : val) (cx : ctx) (p : path) (o : ostream) {struct c} : res (val * ostream) :=
  match c with
  | CFormat en f => build_format en f obj p o
  | CBytesInt len signed swapped =>
      match int_of_val obj with
      | None => raise EInteger p
      | Some z =>
          let* n := eval_int cx len in
          if (n <=? 0)%Z then raise EInteger p else
          if (65536 <? n)%Z then unsupported else
          match integer2bytes z (Z.to_nat n) signed with
          | None => raise EInteger p
          | Some d => let d := if swapped then swapbytes d else d in
                      let* o' := owrite o d n p in Ok (obj, o')
          end
      end
  | CBitsInt len signed swapped =>
      match int_of_val obj with
      | None => raise EInteger p
      | Some z =>
          let* n := eval_int cx len in
          if (n <=? 0)%Z then raise EInteger p else
          if (65536 <? n)%Z then unsupported else
          match integer2bits z (Z.to_nat n) signed with
          | None => raise EInteger p
          | Some d => match (if swapped then swapbytesinbits d else Some d) with
                      | None => raise EInteger p
                      | Some d' => let* o' := owrite o d' n p in Ok (obj, o')
                      end
          end
      end
  | CVarInt =>
      match int_of_val obj with
      | None => raise EInteger p
      | Some z => if (z <? 0)%Z then raise EInteger p else
                  let d := varint_encode (Z.to_N z) in
                  let* o' := owrite o d (Z.of_nat (length d)) p in Ok (obj, o')
      end
  | CZigZag =>
      match int_of_val obj with
      | None => raise EInteger p
      | Some z => let d := varint_encode (zigzag_enc z) in
                  let* o' := owrite o d (Z.of_nat (length d)) p in Ok (obj, o')
      end
  | CBytes len =>
      let* n := eval_int cx len in
      match int_of_val obj with
      | Some z =>
          (* integer2bytes(obj, length): its ValueError is reported as IntegerError *)
          if (n <? 1)%Z then raise EInteger p else
          if (65536 <? n)%Z then unsupported else
          match integer2bytes z (Z.to_nat n) false with
          | Some d => let* o' := owrite o d n p in Ok (VBytes d, o')
          | None => raise EInteger p
          end
      | None => let* o' := write_val o obj n p in Ok (obj, o')
      end
  | CGreedyBytes =>
      match obj with
      | VBytes d => let* o' := owrite o d (Z.of_nat (length d)) p in Ok (obj, o')
      | _ => raise EString p      (* anything that is not bytes / bytearray *)
      end
  | CFlag =>
      let* o' := owrite o [if truthy obj then x01 else x00] 1 p in Ok (obj, o')
  | CPass | CTerminated => Ok (obj, o)
  | CError => raise EExplicit p
  | CTell => Ok (VInt (otell o), o)
  | CIndex =>
      match c_scopes cx with
      | sc :: _ => Ok (match s_index sc with Some v => v | None => VNone end, o)
      | [] => Ok (match c_topindex cx with Some i => VInt i | None => VNone end, o)
      end
  | CComputed e => let* v := eval cx e in Ok (v, o)
  | CCheck e => let* v := eval cx e in if truthy v then Ok (VNone, o) else raise ECheck p
  | CStopIf e => let* v := eval cx e in if truthy v then raise EStopField p else Ok (VNone, o)
  | CSeek at_ wh =>
      let* a := eval_int cx at_ in
      let* w := eval_int cx wh in
      let* (r, o') := oseek_user o a w p in Ok (VInt r, o')
  | CStringEncoded c' enc =>
      let enc_of (cps : list N) :=
        match cps with
        | [] => Ok (VBytes [])
        | _ => match encode enc cps with Some d => Ok (VBytes d) | None => raise EString p end
        end in
      let* obj2 := match obj with
                   | VStr cps => enc_of cps
                   | VEnum l _ => enc_of (cps_of_name l)
                   | _ => raise EString p
                   end in
      let* (_, o') := build c' obj2 cx p o in Ok (obj, o')
  | CEnum c' table =>
      let* obj2 := match obj with
                   | VInt _ | VBool _ => Ok obj
                   | VStr cps => match label_value table cps with Some z => Ok (VInt z) | None => raise EMapping p end
                   | VEnum l _ => match label_value table (cps_of_name l) with Some z => Ok (VInt z) | None => raise EMapping p end
                   | _ => raise EMapping p      (* unknown or unhashable *)
                   end in
      let* (_, o') := build c' obj2 cx p o in Ok (obj, o')
  | CFlagsEnum c' table =>
      let* obj2 := flags_encode table obj p in
      let* (_, o') := build c' obj2 cx p o in Ok (obj, o')
  | CMapping c' table =>
      if negb (hashable obj) then raise EMapping p else
      match find_case obj table with
      | Some v => let* (_, o') := build c' v cx p o in Ok (obj, o')
      | None => raise EMapping p
      end
  | CHex c' | CHexDump c' => let* (_, o') := build c' obj cx p o in Ok (obj, o')
  | CExprValidator c' e =>
      let* t := eval_obj cx obj None e in
      if truthy t then let* (_, o') := build c' obj cx p o in Ok (obj, o') else raise EValidation p
  | COneOf c' vs =>
      let* b := oneof_mem obj vs in
      if b then let* (_, o') := build c' obj cx p o in Ok (obj, o') else raise EValidation p
  | CNoneOf c' vs =>
      let* b := oneof_mem obj vs in
      if b then raise EValidation p else let* (_, o') := build c' obj cx p o in Ok (obj, o')
  | CExprAdapter c' _ enc =>
      let* obj2 := eval_obj cx obj None enc in
      let* (_, o') := build c' obj2 cx p o in Ok (obj, o')
  | CStruct cs | CLazyStruct cs =>
      let* kv := match obj with
                 | VNone => Ok []
                 | VDict kv => Ok kv
                 | _ => unsupported
                 end in
      let cx' := ctx_update (push_scope cx) kv in
      let* (cx'', o') := struct_bloop build kv cs cx' p o in
      Ok (VDict (ctx_vals cx''), o')
  | CSequence cs =>
      let* objs := match obj with
                   | VNone => Ok (map (fun _ => VNone) cs)
                   | VList l => Ok l
                   | _ => unsupported
                   end in
      let* (rs, o') := seq_bloop build cs objs (push_scope cx) p o in Ok (VList rs, o')
  | CFocusedSeq sel cs =>
      let cx' := ctx_set (push_scope cx) sel obj in
      let* (fin, o') := focus_bloop build sel obj cs cx' p None o in
      match fin with
      | Some v => Ok (v, o')
      | None => Err EForeign None
      end
  | CUnion _ cs =>
      match obj with
      | VDict kv =>
          let cx' := ctx_update (push_scope cx) kv in
          (fix go (cs : list con) : res (val * ostream) :=
             match cs with
             | [] => raise EUnion p
             | c' :: t =>
                 let pick := match name_of c' with
                             | Some n => match lookup n kv with
                                         | Some v => Some v
                                         | None => if buildnone c' then Some VNone else None
                                         end
                             | None => if buildnone c' then Some VNone else None
                             end in
                 match pick with
                 | None => go t
                 | Some subobj =>
                     let cx1 := match name_of c' with Some n => ctx_set cx' n subobj | None => cx' end in
                     let* (r, o') := build c' subobj cx1 p o in
                     match name_of c' with
                     | Some n => Ok (VDict [(n, r)], o')
                     | None => unsupported          (* Container({None: buildret}) *)
                     end
                 end
             end) cs
      | _ => unsupported
      end
  | CSelect cs => select_bloop build obj cs cx p o
  | CIfThenElse e a b =>
      let* v := eval cx e in
      if truthy v then build a obj cx p o else build b obj cx p o
  | CSwitch e cases d =>
      let* k := eval cx e in
      if negb (hashable k) then type_error else
      (fix go (cases : list (val * con)) : res (val * ostream) :=
         match cases with
         | [] => build d obj cx p o
         | (v, c') :: t => if val_eqb k v then build c' obj cx p o else go t
         end) cases
  | CArray count c' | CLazyArray count c' =>
      let* n := eval_int cx count in
      if (n <? 0)%Z then raise ERange p else
      match obj with
      | VList l =>
          if negb (Z.of_nat (length l) =? n)%Z then raise ERange p else
          let* (rs, o') := count_bloop (build c') l 0%Z cx p o in Ok (VList rs, o')
      | VNone | VInt _ | VBool _ | VFloat _ => type_error     (* len(obj) *)
      | _ => unsupported
      end
  | CGreedyRange c' =>
      match obj with
      | VList l => let* (rs, o') := count_bloop (build c') l 0%Z cx p o in Ok (VList rs, o')
      | VNone | VInt _ | VBool _ | VFloat _ => type_error
      | _ => unsupported
      end
  | CRepeatUntil pred c' =>
      match obj with
      | VList l => let* (rs, o') := until_bloop (build c') pred l 0%Z [] cx p o in Ok (VList rs, o')
      | VNone | VInt _ | VBool _ | VFloat _ => type_error
      | _ => unsupported
      end
  | CRenamed n c' => build c' obj cx (p ++ [n]) o
  | CConst v c' =>
      match obj with
      | VNone => build c' v cx p o
      | _ => if val_eqb obj v then build c' v cx p o else raise EConst p
      end
  | CRebuild c' e => let* v := eval cx e in build c' v cx p o
  | CDefault c' e =>
      match obj with
      | VNone => let* v := eval cx e in build c' v cx p o
      | _ => build c' obj cx p o
      end
  | CPadded len c' pat =>
      let* n := eval_int cx len in
      if (n <? 0)%Z then raise EPadding p else
      let* (r, o1) := build c' obj cx p o in
      let pad := (n - (otell o1 - otell o))%Z in
      if (pad <? 0)%Z then raise EPadding p else
      if (alloc_bound <? pad)%Z then unsupported else
      let* o2 := owrite o1 (repeat pat (Z.to_nat pad)) pad p in Ok (r, o2)
  | CAligned m c' pat =>
      let* n := eval_int cx m in
      if (n <? 2)%Z then raise EPadding p else
      let* (r, o1) := build c' obj cx p o in
      let pad := ((- (otell o1 - otell o)) mod n)%Z in
      if (alloc_bound <? pad)%Z then unsupported else
      let* o2 := owrite o1 (repeat pat (Z.to_nat pad)) pad p in Ok (r, o2)
  | CPointer off c' =>
      let* a := eval_int cx off in
      let* (_, o1) := oseek_user o a (if (a <? 0)%Z then 2 else 0)%Z p in
      let* (r, o2) := build c' obj cx p o1 in
      let* (_, o3) := oseek o2 (otell o) 0 p in Ok (r, o3)
  | CPeek _ => Ok (obj, o)
  | COffsettedEnd _ c' | CNullStripped c' _ | CLazy c' => build c' obj cx p o
  | CRawCopy c' =>
      let* kv := match obj with
                 | VNone => if buildnone c' then Ok [(n_value, VNone)] else type_error
                 | VDict kv => Ok kv
                 | _ => unsupported
                 end in
      match lookup n_data kv with
      | Some data =>
          let* len := match data with
                      | VBytes d => Ok (Z.of_nat (length d))
                      | VStr l => Ok (Z.of_nat (length l))
                      | VList l => Ok (Z.of_nat (length l))
                      | VDict l => Ok (Z.of_nat (length l))
                      | _ => type_error end in
          let* o1 := write_val o data len p in
          let o1v := otell o in let o2v := otell o1 in
          Ok (VDict (dict_update kv [(n_data, data); (n_offset1, VInt o1v); (n_offset2, VInt o2v);
                                     (n_length, VInt (o2v - o1v))]), o1)
      | None =>
          match lookup n_value kv with
          | Some value =>
              let* (r, o1) := build c' value cx p o in
              let value' := match r with VNone => value | _ => r end in
              let o1v := otell o in let o2v := otell o1 in
              let* (_, o2) := oseek o1 o1v 0 p in
              let* (d, o3) := oread o2 (o2v - o1v) p in
              Ok (VDict (dict_update kv [(n_data, VBytes d); (n_value, value'); (n_offset1, VInt o1v);
                                         (n_offset2, VInt o2v); (n_length, VInt (o2v - o1v))]), o3)
          | None => raise ERawCopy p
          end
      end
  | CPrefixed lc c' incl =>
      let* (r, o2) := build c' obj cx p ostream_new in
      let data := odata o2 in
      let* len := (if incl then let* k := sizeof lc cx p in Ok (Z.of_nat (length data) + k)%Z
                   else Ok (Z.of_nat (length data))) in
      let* (_, o1) := build lc (VInt len) cx p o in
      let* o' := owrite o1 data (Z.of_nat (length data)) p in Ok (r, o')
  | CFixedSized len c' =>
      let* n := eval_int cx len in
      if (n <? 0)%Z then raise EPadding p else
      let* (r, o2) := build c' obj cx p ostream_new in
      let data := odata o2 in
      let pad := (n - Z.of_nat (length data))%Z in
      if (pad <? 0)%Z then raise EPadding p else
      if (alloc_bound <? pad)%Z then unsupported else
      let* o1 := owrite o data (Z.of_nat (length data)) p in
      let* o' := owrite o1 (zeros (Z.to_nat pad)) pad p in Ok (r, o')
  | CNullTerminated c' term _ _ _ =>
      let* (r, o1) := build c' obj cx p o in
      let* o' := owrite o1 term (Z.of_nat (length term)) p in Ok (r, o')
  | CTransformed c' _ _ ef ea =>
      let* (r, o2) := build c' obj cx p ostream_new in
      let* d := apply_bfun ef (odata o2) in
      match ea with
      | Some n => if negb (Z.of_nat (length d) =? n)%Z then raise EStream p
                  else let* o' := owrite o d (Z.of_nat (length d)) p in Ok (r, o')
      | None => let* o' := owrite o d (Z.of_nat (length d)) p in Ok (r, o')
      end
  | CRestreamed c' _ _ ef eu _ =>
      if (eu <? 1)%Z then unsupported else
      let* (_, o2) := build c' obj cx p (mkO [] 0%N false) in
      let d := odata o2 in
      let units := chunksn (Z.to_nat eu) (length d) d in
      if negb (Nat.eqb (Nat.modulo (length d) (Z.to_nat eu)) 0) then
        (match decode_units ef (firstn (Nat.div (length d) (Z.to_nat eu)) units) with
         | Some _ => raise EStream p       (* close(): unwritten bytes remain -> StreamError *)
         | None => unsupported end)
      else
        match decode_units ef units with
        | None => unsupported
        | Some enc => let e := concat enc in
                      let* o' := owrite o e (Z.of_nat (length e)) p in Ok (obj, o')
        end
  | CProcessXor key c' =>
      let* k := eval cx key in
      match k with
      | VInt _ | VBytes _ | VBool _ =>
          let* _ := xor_data k [] p in            (* the pad is validated before the sub-construct is built *)
          let* (r, o2) := build c' obj cx p ostream_new in
          let* d := xor_data k (odata o2) p in
          let* o' := owrite o d (Z.of_nat (length d)) p in Ok (r, o')
      | _ => raise EString p
      end
  | CProcessRotl amount group c' =>
      let* a := eval_int cx amount in
      let* g := eval_int cx group in
      if (g <? 1)%Z then raise ERotation p else
      if (alloc_bound <? g)%Z then unsupported else
      let am := Z.to_N ((- a) mod (g * 8)) in
      let* (r, o2) := build c' obj cx p ostream_new in
      match rotate_left am (Z.to_nat g) (odata o2) with
      | None => raise ERotation p
      | Some d => let* o' := owrite o d (Z.of_nat (length d)) p in Ok (r, o')
      end
  | CChecksum c' h data =>
      let* d := eval cx data in
      match d with
      | VBytes bs =>
          let h2 := apply_hash h bs in
          let* (_, o') := build c' h2 cx p o in Ok (h2, o')
      | _ => unsupported
      end
  end.

(* d.build(obj, **kw) *)
Definition build_bytes (c : con) (obj : val) (kw : list (name * val)) : res (val * bytes) :=
  let* (r, o) := build c obj (top_ctx kw MBuild) [] ostream_new in Ok (r, odata o).
