(* export_ksy: the schema construct emits (the _compileseq / _compileprimitivetype / _compilefulltype fallback ladder over
   the per-class _emitseq / _emitprimitivetype / _emitfulltype, with the KsyGen id allocator), a reference reading of that
   schema dialect on bytes, and the construct's own layout to compare with. *)
From Coq Require Import ZArith NArith List Bool.
From Coq Require Import Strings.Byte.
Require Import Bytes Value Expr Codec Float Stream Syntax Sizeof Parse Build.
Import ListNotations.
Local Open Scope nat_scope.

(* ---- the schema as data ---- *)
Inductive kprim :=
| KPInt (signed : bool) (nbytes : N) (le : bool)      (* u1be, s3le, ... *)
| KPFloat (nbytes : N) (le : bool)                     (* f2be, f4le, f8be *)
| KPBits (n : Z)                                       (* bN *)
| KPVlq.                                               (* vlq_base128_le *)

Inductive ksize := KSInt (z : Z) | KSExpr (e : expr) | KSName (n : name).

Inductive ktype :=
| KTPrim (p : kprim)
| KTUser (n : name)
| KTStr | KTStrz
| KTSwitch (e : expr) (t f : ktype)
| KTMissing.                                           (* 'type': None -- an emitter returned nothing *)

Inductive krepeat := KRNone | KRExpr (n : ksize) | KREos | KRUntil (e : expr).

Inductive kfield :=
| KField (id : option name) (ty : option ktype) (size : option ksize) (size_eos : bool) (contents : option bytes)
         (rep : krepeat) (cond : option expr) (term : option (byte * (bool * (bool * bool))))   (* terminator, include, consume, eos-error *)
         (pad_right : option byte) (enc : option encoding) (enum : option name) (flag : bool).

Inductive kschema :=
| KSchema (seq : list kfield) (types : list (name * list kfield)) (enums : list (name * list (Z * name))).

Definition blank : kfield := KField None None None false None KRNone None None None None None false.
Definition f_id (f : kfield) := let '(KField i _ _ _ _ _ _ _ _ _ _ _) := f in i.
Definition f_ty (f : kfield) := let '(KField _ t _ _ _ _ _ _ _ _ _ _) := f in t.
Definition f_size (f : kfield) := let '(KField _ _ s _ _ _ _ _ _ _ _ _) := f in s.
Definition f_eos (f : kfield) := let '(KField _ _ _ e _ _ _ _ _ _ _ _) := f in e.
Definition f_contents (f : kfield) := let '(KField _ _ _ _ c _ _ _ _ _ _ _) := f in c.
Definition f_rep (f : kfield) := let '(KField _ _ _ _ _ r _ _ _ _ _ _) := f in r.
Definition f_cond (f : kfield) := let '(KField _ _ _ _ _ _ c _ _ _ _ _) := f in c.
Definition f_term (f : kfield) := let '(KField _ _ _ _ _ _ _ t _ _ _ _) := f in t.
Definition f_pad (f : kfield) := let '(KField _ _ _ _ _ _ _ _ p _ _ _) := f in p.
Definition f_enc (f : kfield) := let '(KField _ _ _ _ _ _ _ _ _ e _ _) := f in e.
Definition f_enum (f : kfield) := let '(KField _ _ _ _ _ _ _ _ _ _ e _) := f in e.
Definition f_flag (f : kfield) := let '(KField _ _ _ _ _ _ _ _ _ _ _ b) := f in b.

(* dict(a, **b) / r.update(b): the keys of b win *)
Definition omerge {A} (a b : option A) : option A := match b with Some _ => b | None => a end.
Definition merge (a b : kfield) : kfield :=
  KField (omerge (f_id a) (f_id b)) (omerge (f_ty a) (f_ty b)) (omerge (f_size a) (f_size b)) (f_eos a || f_eos b)
         (omerge (f_contents a) (f_contents b)) (match f_rep b with KRNone => f_rep a | r => r end) (omerge (f_cond a) (f_cond b))
         (omerge (f_term a) (f_term b)) (omerge (f_pad a) (f_pad b)) (omerge (f_enc a) (f_enc b)) (omerge (f_enum a) (f_enum b))
         (f_flag a || f_flag b).

Definition with_id (n : option name) (f : kfield) := let '(KField _ t s e c r co te p en em fl) := f in KField n t s e c r co te p en em fl.
Definition with_ty (t : ktype) (f : kfield) := let '(KField i _ s e c r co te p en em fl) := f in KField i (Some t) s e c r co te p en em fl.
Definition with_size (z : ksize) (f : kfield) := let '(KField i t _ e c r co te p en em fl) := f in KField i t (Some z) e c r co te p en em fl.
Definition with_eos (b : bool) (f : kfield) := let '(KField i t s _ c r co te p en em fl) := f in KField i t s b c r co te p en em fl.
Definition with_contents (d : bytes) (f : kfield) := let '(KField i t s e _ r co te p en em fl) := f in KField i t s e (Some d) r co te p en em fl.
Definition with_rep (r : krepeat) (f : kfield) := let '(KField i t s e c _ co te p en em fl) := f in KField i t s e c r co te p en em fl.
Definition with_cond (x : expr) (f : kfield) := let '(KField i t s e c r _ te p en em fl) := f in KField i t s e c r (Some x) te p en em fl.
Definition with_term (x : byte * (bool * (bool * bool))) (f : kfield) := let '(KField i t s e c r co _ p en em fl) := f in KField i t s e c r co (Some x) p en em fl.
Definition with_pad (b : byte) (f : kfield) := let '(KField i t s e c r co te _ en em fl) := f in KField i t s e c r co te (Some b) en em fl.
Definition with_enc (x : encoding) (f : kfield) := let '(KField i t s e c r co te p _ em fl) := f in KField i t s e c r co te p (Some x) em fl.
Definition with_enum (n : name) (f : kfield) := let '(KField i t s e c r co te p en _ fl) := f in KField i t s e c r co te p en (Some n) fl.
Definition with_flag (f : kfield) := let '(KField i t s e c r co te p en em _) := f in KField i t s e c r co te p en em true.

(* ---- KsyGen ---- *)
Record kgen := mkGen { g_next : nat; g_types : list (name * list kfield); g_enums : list (name * list (Z * name)) }.
Definition gen0 : kgen := mkGen 0 [] [].

(* decimal digits of a nat, for "type_%s" % id *)
Fixpoint digits_fuel (fuel n : nat) (acc : list byte) : list byte :=
  match fuel with
  | O => acc
  | S f =>
      let d := Nat.modulo n 10 in
      let c := byte_of_N (N.of_nat (48 + d)) in
      if Nat.ltb n 10 then c :: acc else digits_fuel f (Nat.div n 10) (c :: acc)
  end.
Definition digits (n : nat) : list byte := digits_fuel (S n) n [].

Definition n_type_ : name := [x74; x79; x70; x65; x5f].          (* type_ *)
Definition n_enum_ : name := [x65; x6e; x75; x6d; x5f].          (* enum_ *)
Definition n_x : name := [x78].
Definition n_lengthfield : name := [x6c; x65; x6e; x67; x74; x68; x66; x69; x65; x6c; x64].
Definition n_countfield : name := [x63; x6f; x75; x6e; x74; x66; x69; x65; x6c; x64].
Definition n_kdata : name := [x64; x61; x74; x61].

(* what an emitter can do *)
Inductive emitted (A : Type) := NotImpl | Broken | Done (a : A) (g : kgen).
Arguments NotImpl {A}. Arguments Broken {A}. Arguments Done {A} a g.

(* the three emitters of one construct, each a function of (generator state, bitwise) *)
Record emitters := mkEm {
  e_seq : kgen -> bool -> emitted (list kfield);
  e_prim : kgen -> bool -> emitted ktype;
  e_full : kgen -> bool -> emitted kfield
}.

(* the fallback ladder (Construct._compileseq / _compileprimitivetype / _compilefulltype): each falls back to the next
   with recursion+1 and gives up at 3.  Unrolled: r counts the hops already made. *)
Fixpoint ladder_seq (fuel : nat) (em : emitters) (g : kgen) (bw : bool) : emitted (list kfield) :=
  match fuel with
  | O => Broken
  | S f =>
      match e_seq em g bw with
      | Done l g' => Done l g'
      | Broken => Broken
      | NotImpl =>
          match ladder_full f em g bw with
          | Done fld g' => Done [with_id (Some n_x) fld] g'
          | _ => Broken
          end
      end
  end
with ladder_prim (fuel : nat) (em : emitters) (g : kgen) (bw : bool) : emitted ktype :=
  match fuel with
  | O => Broken
  | S f =>
      match e_prim em g bw with
      | Done t g' => Done t g'
      | Broken => Broken
      | NotImpl =>
          (* name = "type_%s" % ksy.allocateId(); ksy.types[name] = dict(seq=self._compileseq(...)) *)
          let id := S (g_next g) in
          let nm := n_type_ ++ digits id in
          match ladder_seq f em (mkGen id (g_types g) (g_enums g)) bw with
          | Done l g' => Done (KTUser nm) (mkGen (g_next g') (g_types g' ++ [(nm, l)]) (g_enums g'))
          | _ => Broken
          end
      end
  end
with ladder_full (fuel : nat) (em : emitters) (g : kgen) (bw : bool) : emitted kfield :=
  match fuel with
  | O => Broken
  | S f =>
      match e_full em g bw with
      | Done fld g' => Done fld g'
      | Broken => Broken
      | NotImpl =>
          match ladder_prim f em g bw with
          | Done t g' => Done (with_ty t blank) g'
          | _ => Broken
          end
      end
  end.

(* recursion >= 3 raises: the entry call has recursion 0, so three hops are allowed *)
Definition compile_seq := ladder_seq 3.
Definition compile_prim := ladder_prim 3.
Definition compile_full := ladder_full 3.

Definition none3 : emitters := mkEm (fun _ _ => NotImpl) (fun _ _ => NotImpl) (fun _ _ => NotImpl).
Definition only_prim (t : bool -> option ktype) : emitters :=
  mkEm (fun _ _ => NotImpl) (fun g bw => match t bw with Some x => Done x g | None => Broken end) (fun _ _ => NotImpl).
Definition only_full (f : kgen -> bool -> emitted kfield) : emitters := mkEm (fun _ _ => NotImpl) (fun _ _ => NotImpl) f.
Definition passthrough (em : emitters) : emitters :=
  mkEm (fun g bw => compile_seq em g bw) (fun g bw => compile_prim em g bw) (fun g bw => compile_full em g bw).

Definition size_of_expr (e : expr) : ksize :=
  match e with XConst (VInt z) => KSInt z | _ => KSExpr e end.

Definition const_int (e : expr) : option Z := match e with XConst (VInt z) => Some z | XConst (VBool b) => Some (if b then 1 else 0)%Z | _ => None end.

(* sc._compilefulltype for every member, threading the generator *)
Definition full_all (F : con -> emitters) :=
  fix go (cs : list con) (g : kgen) (bw : bool) : emitted (list kfield) :=
    match cs with
    | [] => Done [] g
    | c :: t =>
        match compile_full (F c) g bw with
        | Done f g1 => match go t g1 bw with Done l g2 => Done (f :: l) g2 | _ => Broken end
        | _ => Broken
        end
    end.

Definition zeros_unit (e : encoding) : bytes := repeat x00 (encoding_unit e).

(* the emitters, class by class; macros whose instances carry their own emitter are recognised by their shape
   (tools/reify.py refuses an object of that shape without the instance attribute, and vice versa) *)
Fixpoint emit (c : con) : emitters :=
  match c with
  | CFormat en f =>
      only_prim (fun bw =>
        let n := N.of_nat (fcode_size f) in
        let le := match en with Little => true | Big => false end in
        if fcode_float f then (if bw then None else Some (KTPrim (KPFloat n le)))
        else if bw then (if fcode_signed f || le then None else Some (KTPrim (KPBits (8 * Z.of_N n))))
        else Some (KTPrim (KPInt (fcode_signed f) n le)))
  | CBytesInt len signed swapped =>
      only_prim (fun bw =>
        match const_int len with
        | Some n => if bw then (if signed || swapped then None else Some (KTPrim (KPBits (8 * n))))
                    else Some (KTPrim (KPInt signed (Z.to_N n) swapped))
        | None => None
        end)
  | CBitsInt len signed swapped =>
      only_prim (fun _ => match const_int len with
                          | Some n => if signed || swapped then None else Some (KTPrim (KPBits n))
                          | None => None end)
  | CVarInt => only_prim (fun _ => Some (KTPrim KPVlq))
  | CBytes len => only_full (fun g _ => Done (with_size (size_of_expr len) blank) g)
  | CGreedyBytes => only_full (fun g _ => Done (with_eos true blank) g)
  | CFlag => only_full (fun g bw => Done (with_flag (with_ty (KTPrim (if bw then KPBits 1 else KPInt false 1 false)) blank)) g)
  | CPass => only_full (fun g _ => Done (with_size (KSInt 0) blank) g)
  | CEnum c' table =>
      only_full (fun g bw =>
        let id := S (g_next g) in
        let nm := n_enum_ ++ digits id in
        let g1 := mkGen id (g_types g) (g_enums g ++ [(nm, map (fun e => (snd e, fst e)) table)]) in
        match compile_prim (emit c') g1 bw with
        | Done t g2 => Done (with_enum nm (with_ty t blank)) g2
        | _ => Broken
        end)
  | CFocusedSeq _ [CRenamed _ (CRebuild lc _); CRenamed _ (CArray _ el)] =>
      (* PrefixedArray: the macro's own _emitseq *)
      mkEm (fun g bw => match compile_prim (emit lc) g bw with
                        | Done t g1 => match compile_prim (emit el) g1 bw with
                                       | Done t2 g2 => Done [with_ty t (with_id (Some n_countfield) blank);
                                                             with_rep (KRExpr (KSName n_countfield)) (with_ty t2 (with_id (Some n_kdata) blank))] g2
                                       | _ => Broken end
                        | _ => Broken end)
           (fun _ _ => NotImpl) (fun _ _ => NotImpl)
  | CStruct cs | CSequence cs | CFocusedSeq _ cs =>
      mkEm (fun g bw => full_all emit cs g bw) (fun _ _ => NotImpl) (fun _ _ => NotImpl)
  | CArray count c' =>
      only_full (fun g bw => match compile_prim (emit c') g bw with
                             | Done t g' => Done (with_rep (KRExpr (size_of_expr count)) (with_ty t blank)) g'
                             | _ => Broken end)
  | CGreedyRange c' =>
      only_full (fun g bw => match compile_prim (emit c') g bw with
                             | Done t g' => Done (with_rep KREos (with_ty t blank)) g'
                             | _ => Broken end)
  | CRepeatUntil pred c' =>
      only_full (fun g bw => match compile_prim (emit c') g bw with
                             | Done t g' => Done (with_rep (KRUntil pred) (with_ty t blank)) g'
                             | _ => Broken end)
  | CRenamed n c' =>
      let em := emit c' in
      mkEm (fun g bw => compile_seq em g bw) (fun g bw => compile_prim em g bw)
           (fun g bw => match compile_full em g bw with
                        | Done f g' => Done (merge (with_id (Some n) blank) f) g'
                        | _ => Broken end)
  | CConst v c' =>
      only_full (fun g _ =>
        match build_bytes c' v [] with
        | Ok (_, d) => Done (with_contents d blank) g
        | Err _ _ => Broken
        end)
  | CRebuild c' _ | CDefault c' _ | CHex c' | CHexDump c' => passthrough (emit c')
  (* Bitwise / Bytewise: the macros' own emitters compile the subcon with the bitwise flag set / cleared *)
  | CTransformed c' BFbytes2bits _ BFbits2bytes _ | CRestreamed c' BFbytes2bits _ BFbits2bytes _ _ =>
      let em := emit c' in
      mkEm (fun g _ => compile_seq em g true) (fun g _ => compile_prim em g true) (fun g _ => compile_full em g true)
  | CTransformed c' BFbits2bytes _ BFbytes2bits _ | CRestreamed c' BFbits2bytes _ BFbytes2bits _ _ =>
      let em := emit c' in
      mkEm (fun g _ => compile_seq em g false) (fun g _ => compile_prim em g false) (fun g _ => compile_full em g false)
  | CIfThenElse cond a CPass =>
      (* If(cond, a): the macro's own _emitfulltype *)
      only_full (fun g bw => match compile_prim (emit a) g bw with
                             | Done t g' => Done (with_cond cond (with_ty t blank)) g'
                             | _ => Broken end)
  | CIfThenElse cond a b =>
      only_full (fun g bw =>
        match compile_prim (emit a) g bw with
        | Done ta g1 => match compile_prim (emit b) g1 bw with
                        | Done tb g2 => Done (with_ty (KTSwitch cond ta tb) blank) g2
                        | _ => Broken end
        | _ => Broken
        end)
  | CPadded len CPass _ =>
      (* Padding(len) *)
      mkEm (fun _ _ => NotImpl)
           (fun g bw => if bw then match const_int len with Some n => Done (KTPrim (KPBits n)) g | None => Broken end else NotImpl)
           (fun g bw => if bw then NotImpl else Done (with_size (size_of_expr len) blank) g)
  | CPadded len c' _ =>
      only_full (fun g bw => match compile_prim (emit c') g bw with
                             | Done t g' => Done (with_ty t (with_size (size_of_expr len) blank)) g'
                             | _ => Broken end)
  | CStringEncoded (CNullTerminated CGreedyBytes _ false true true) enc =>
      only_full (fun g _ => Done (with_enc enc (with_ty KTStrz blank)) g)                       (* CString *)
  | CStringEncoded CGreedyBytes enc =>
      only_full (fun g _ => Done (with_enc enc (with_ty KTStr (with_eos true blank))) g)          (* GreedyString *)
  | CStringEncoded (CFixedSized len (CNullStripped CGreedyBytes _)) enc =>
      only_full (fun g _ => Done (with_enc enc (with_ty KTStrz (with_size (size_of_expr len) blank))) g)   (* PaddedString *)
  | CStringEncoded (CPrefixed lf CGreedyBytes false) enc =>
      (* PascalString *)
      mkEm (fun g bw => match compile_prim (emit lf) g bw with
                        | Done t g' => Done [with_ty t (with_id (Some n_lengthfield) blank);
                                             with_enc enc (with_ty KTStr (with_size (KSName n_lengthfield) (with_id (Some n_kdata) blank)))] g'
                        | _ => Broken end)
           (fun _ _ => NotImpl) (fun _ _ => NotImpl)
  | CPrefixed lf c' _ =>
      mkEm (fun g bw => match compile_prim (emit lf) g bw with
                        | Done t g1 => match compile_prim (emit c') g1 bw with
                                       | Done t2 g2 => Done [with_ty t (with_id (Some n_lengthfield) blank);
                                                             with_ty t2 (with_size (KSName n_lengthfield) (with_id (Some n_kdata) blank))] g2
                                       | _ => Broken end
                        | _ => Broken end)
           (fun _ _ => NotImpl) (fun _ _ => NotImpl)
  | CFixedSized len c' =>
      only_full (fun g bw => match compile_full (emit c') g bw with
                             | Done f g' => Done (merge (with_size (size_of_expr len) blank) f) g'
                             | _ => Broken end)
  | CNullTerminated c' term incl consume req =>
      match term with
      | [t] => only_full (fun g bw => match compile_full (emit c') g bw with
                                      | Done f g' => Done (merge (with_term (t, (incl, (consume, req))) blank) (with_eos false f)) g'
                                      | _ => Broken end)
      | _ => none3
      end
  | CNullStripped c' pad =>
      match pad with
      | [b] => only_full (fun g bw => match compile_full (emit c') g bw with
                                      | Done f g' => Done (merge (with_pad b blank) f) g'
                                      | _ => Broken end)
      | _ => none3
      end
  | _ => none3
  end.

(* export_ksy: main = dict(meta, seq = self._compileseq(gen), instances, enums, types) *)
Definition ksy_emit (c : con) : option kschema :=
  match compile_seq (emit c) gen0 false with
  | Done l g => Some (KSchema l (g_types g) (g_enums g))
  | _ => None
  end.

(* ================= a reference reading of the schema ================= *)
(* Kaitai Struct meaning of each key, with the spellings construct emits.  Field values are model values; the value of a
   user type is the dictionary of its named fields.  Bit-sized types are outside this reading (BitStruct is checked on
   the library side only). *)
Definition fieldrec := (option name * Z * Z * val)%type.

Definition lookup_type (sch : kschema) (n : name) : option (list kfield) :=
  let '(KSchema _ ts _) := sch in
  match find (fun e => name_eqb (fst e) n) ts with Some (_, l) => Some l | None => None end.
Definition lookup_enum (sch : kschema) (n : name) : option (list (Z * name)) :=
  let '(KSchema _ _ es) := sch in
  match find (fun e => name_eqb (fst e) n) es with Some (_, l) => Some l | None => None end.

Definition ksize_val (cx : ctx) (z : ksize) : res Z :=
  match z with
  | KSInt n => Ok n
  | KSExpr e => eval_int cx e
  | KSName n => eval_int cx (XItem (XRoot RThis) (KName n))
  end.

Definition read_prim (p : kprim) (s : istream) (pth : path) : res (val * istream) :=
  match p with
  | KPInt signed n le =>
      let* (d, s') := iread s (Z.of_N n) pth in
      let d := if le then rev d else d in
      Ok (VInt (unpattern signed (8 * n) (be_decode d)), s')
  | KPFloat n le =>
      let* (d, s') := iread s (Z.of_N n) pth in
      let d := if le then rev d else d in
      let fm := if (n =? 2)%N then binary16 else if (n =? 4)%N then binary32 else binary64 in
      Ok (VFloat (widen fm (be_decode d)), s')
  | KPVlq => let* (n, s') := parse_varint s pth in Ok (VInt (Z.of_N n), s')
  | KPBits _ => unsupported
  end.

(* cut raw at the first terminator byte (terminator inside a sized region) *)
Fixpoint cut_at (t : byte) (incl : bool) (d : bytes) : bytes :=
  match d with
  | [] => []
  | b :: r => if Byte.eqb b t then (if incl then [b] else []) else b :: cut_at t incl r
  end.

Fixpoint rstrip (p : byte) (d : bytes) : bytes :=
  match d with
  | [] => []
  | b :: r => match rstrip p r with
              | [] => if Byte.eqb b p then [] else [b]
              | r' => b :: r'
              end
  end.

(* strz inside a region: up to the first all-zero unit *)
Fixpoint cut_unit (fuel unit : nat) (d : bytes) : bytes :=
  match fuel with
  | O => []
  | S f =>
      if Nat.ltb (length d) unit then [] else
      if forallb (fun b => Byte.eqb b x00) (firstn unit d) then [] else firstn unit d ++ cut_unit f unit (skipn unit d)
  end.

Definition apply_enum (sch : kschema) (en : option name) (v : val) : res val :=
  match en with
  | None => Ok v
  | Some n =>
      match lookup_enum sch n with
      | None => key_error
      | Some table =>
          match v with
          | VInt z => match find (fun e => Z.eqb (fst e) z) (rev table) with
                      | Some (_, l) => Ok (VEnum l z)
                      | None => Ok v
                      end
          | _ => Ok v
          end
      end
  end.

Definition kdict (fs : list fieldrec) : val :=
  VDict (flat_map (fun r => match r with (Some n, _, _, v) => [(n, v)] | _ => [] end) fs).

Fixpoint iseq (fuel : nat) (sch : kschema) (fs : list kfield) (cx : ctx) (pth : path) (s : istream) {struct fuel}
  : res (list fieldrec * istream) :=
  match fuel with
  | O => Err EDiverge None
  | S f =>
      (fix go (fs : list kfield) (cx : ctx) (s : istream) : res (list fieldrec * istream) :=
         match fs with
         | [] => Ok ([], s)
         | fd :: t =>
             let* (v, s') := ifield f sch fd cx pth s in
             let cx' := match f_id fd with Some n => ctx_set cx n v | None => cx end in
             let* (rest, s'') := go t cx' s' in
             Ok ((f_id fd, itell s, itell s', v) :: rest, s'')
         end) fs cx s
  end
with ifield (fuel : nat) (sch : kschema) (fd : kfield) (cx : ctx) (pth : path) (s : istream) {struct fuel} : res (val * istream) :=
  match fuel with
  | O => Err EDiverge None
  | S f =>
      let* go_on := match f_cond fd with
                    | None => Ok true
                    | Some e => let* v := eval cx e in Ok (truthy v)
                    end in
      if negb go_on then Ok (VNone, s) else
      let finish (v : val) : res val :=
        let v := if f_flag fd then (match v with VInt z => VBool (negb (Z.eqb z 0)) | _ => v end) else v in
        match v with
        | VList l => let* l' := (fix m (l : list val) := match l with [] => Ok [] | x :: r => let* x' := apply_enum sch (f_enum fd) x in let* r' := m r in Ok (x' :: r') end) l in Ok (VList l')
        | _ => apply_enum sch (f_enum fd) v
        end in
      match f_rep fd with
      | KRNone => let* (v, s') := ione f sch fd cx pth s in let* v' := finish v in Ok (v', s')
      | KRExpr n =>
          let* k := ksize_val cx n in
          let* (vs, s') := (fix rep (k : nat) (s : istream) : res (list val * istream) :=
                              match k with
                              | O => Ok ([], s)
                              | S k' => let* (v, s1) := ione f sch fd cx pth s in let* (r, s2) := rep k' s1 in Ok (v :: r, s2)
                              end) (Z.to_nat k) s in
          let* v' := finish (VList vs) in Ok (v', s')
      | KREos =>
          let* (vs, s') := (fix rep (fu : nat) (s : istream) : res (list val * istream) :=
                              match fu with
                              | O => Err EDiverge None
                              | S fu' => match iavail s with
                                         | [] => Ok ([], s)
                                         | _ => let* (v, s1) := ione f sch fd cx pth s in let* (r, s2) := rep fu' s1 in Ok (v :: r, s2)
                                         end
                              end) (S (length (iavail s))) s in
          let* v' := finish (VList vs) in Ok (v', s')
      | KRUntil e =>
          let* (vs, s') := (fix rep (fu : nat) (acc : list val) (s : istream) : res (list val * istream) :=
                              match fu with
                              | O => Err EDiverge None
                              | S fu' => let* (v, s1) := ione f sch fd cx pth s in
                                         let* t := eval_obj cx v (Some (VList (acc ++ [v]))) e in
                                         if truthy t then Ok (acc ++ [v], s1) else rep fu' (acc ++ [v]) s1
                              end) (length (idata s) + 64) [] s in
          let* v' := finish (VList vs) in Ok (v', s')
      end
  end
with ione (fuel : nat) (sch : kschema) (fd : kfield) (cx : ctx) (pth : path) (s : istream) {struct fuel} : res (val * istream) :=
  match fuel with
  | O => Err EDiverge None
  | S f =>
      let typed (raw : option (bytes * istream)) : res (val * istream) :=
        (* raw = Some (region, stream after it): the type reads inside the region; None: the type reads the stream *)
        let src := match raw with Some (d, _) => substream d (iabs s) | None => s end in
        let after (s1 : istream) := match raw with Some (_, s2) => s2 | None => s1 end in
        match f_ty fd with
        | None => match raw with Some (d, s2) => Ok (VBytes d, s2) | None => unsupported end
        | Some KTMissing => unsupported
        | Some (KTPrim p) => let* (v, s1) := read_prim p src pth in Ok (v, after s1)
        | Some (KTUser n) =>
            match lookup_type sch n with
            | None => key_error
            | Some fs => let* (recs, s1) := iseq f sch fs (push_scope cx) pth src in Ok (kdict recs, after s1)
            end
        | Some (KTSwitch e ta tb) =>
            let* k := eval cx e in
            let pick := if truthy k then ta else tb in
            match pick with
            | KTPrim p => let* (v, s1) := read_prim p src pth in Ok (v, after s1)
            | KTUser n =>
                match lookup_type sch n with
                | None => key_error
                | Some fs => let* (recs, s1) := iseq f sch fs (push_scope cx) pth src in Ok (kdict recs, after s1)
                end
            | _ => unsupported
            end
        | Some KTStr | Some KTStrz =>
            match raw, f_enc fd with
            | Some (d, s2), Some enc =>
                let d := match f_ty fd with Some KTStrz => cut_unit (S (length d)) (encoding_unit enc) d | _ => d end in
                match decode enc d with Some cps => Ok (VStr cps, s2) | None => raise EString pth end
            | _, _ => unsupported
            end
        end in
      match f_contents fd with
      | Some want =>
          let* (d, s') := iread s (Z.of_nat (length want)) pth in
          if bytes_eqb d want then Ok (VBytes d, s') else raise EConst pth
      | None =>
          let post (d : bytes) : bytes :=
            let d := match f_term fd with Some (t, (incl, _)) => cut_at t incl d | None => d end in
            match f_pad fd with Some b => rstrip b d | None => d end in
          match f_size fd with
          | Some z =>
              let* n := ksize_val cx z in
              let* (d, s') := iread s n pth in typed (Some (post d, s'))
          | None =>
              if f_eos fd then let '(d, s') := iread_all s in typed (Some (post d, s'))
              else
                match f_term fd, f_ty fd, f_enc fd with
                | Some (t, (incl, (consume, req))), _, _ =>
                    let* (d, s') := nullterm_scan (S (length (iavail s))) [t] incl consume req [] s pth in
                    typed (Some (match f_pad fd with Some b => rstrip b d | None => d end, s'))
                | None, Some KTStrz, Some enc =>
                    let* (d, s') := nullterm_scan (S (length (iavail s))) (zeros_unit enc) false true true [] s pth in
                    match decode enc d with Some cps => Ok (VStr cps, s') | None => raise EString pth end
                | None, _, _ => typed None
                end
          end
      end
  end.

Definition ksy_interp (sch : kschema) (kw : list (name * val)) (data : bytes) : res (list fieldrec) :=
  let '(KSchema sq _ _) := sch in
  let* (recs, _) := iseq (64 + length data) sch sq (push_scope (top_ctx kw MParse)) [] (istream_of data) in Ok recs.

(* ================= the construct's own layout ================= *)
Definition layout_loop (P : con -> parser) :=
  fix go (cs : list con) (cx : ctx) (p : path) (s : istream) : res (list fieldrec * istream) :=
    match cs with
    | [] => Ok ([], s)
    | c :: t =>
        let* (v, s') := P c cx p s in
        let cx' := match name_of c with Some n => ctx_set cx n v | None => cx end in
        let* (rest, s'') := go t cx' p s' in
        Ok ((name_of c, itell s, itell s', v) :: rest, s'')
    end.

Definition ksy_layout (c : con) (kw : list (name * val)) (data : bytes) : res (list fieldrec) :=
  match c with
  | CStruct cs => let* (recs, _) := layout_loop parse cs (push_scope (top_ctx kw MParse)) [] (istream_of data) in Ok recs
  | _ => let* (v, s') := parse c (top_ctx kw MParse) [] (istream_of data) in Ok [(Some n_x, 0%Z, itell s', v)]
  end.
