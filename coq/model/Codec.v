(* The string codecs construct delegates to (CPython's, strict error handling), on code points. *)
From Coq Require Import ZArith NArith List Bool.
From Coq Require Import Strings.Byte.
Require Import Bytes.
Import ListNotations.
Open Scope N_scope.

Inductive encoding :=
| EncAscii | EncUtf8 | EncUtf16 | EncUtf16le | EncUtf16be | EncUtf32 | EncUtf32le | EncUtf32be.

(* possiblestringencodings[...] : the unit size *)
Definition encoding_unit (e : encoding) : nat :=
  match e with
  | EncAscii | EncUtf8 => 1
  | EncUtf16 | EncUtf16le | EncUtf16be => 2
  | EncUtf32 | EncUtf32le | EncUtf32be => 4
  end%nat.

Definition is_surrogate (c : N) : bool := (55296 <=? c) && (c <=? 57343).
Definition valid_cp (c : N) : bool := (c <=? 1114111) && negb (is_surrogate c).

Definition bN (b : byte) : N := Byte.to_N b.

(* ---- ascii ---- *)
Definition ascii_decode (bs : bytes) : option (list N) :=
  if forallb (fun b => bN b <? 128) bs then Some (map bN bs) else None.
Definition ascii_encode (cps : list N) : option bytes :=
  if forallb (fun c => c <? 128) cps then Some (map byte_of_N cps) else None.

(* ---- utf-8 ---- *)
Definition utf8_enc1 (c : N) : option bytes :=
  if c <? 128 then Some [byte_of_N c]
  else if c <? 2048 then Some [byte_of_N (192 + c / 64); byte_of_N (128 + c mod 64)]
  else if is_surrogate c then None
  else if c <? 65536 then Some [byte_of_N (224 + c / 4096); byte_of_N (128 + (c / 64) mod 64); byte_of_N (128 + c mod 64)]
  else if c <=? 1114111 then
    Some [byte_of_N (240 + c / 262144); byte_of_N (128 + (c / 4096) mod 64);
          byte_of_N (128 + (c / 64) mod 64); byte_of_N (128 + c mod 64)]
  else None.

Fixpoint opt_concat {A} (l : list (option (list A))) : option (list A) :=
  match l with
  | [] => Some []
  | None :: _ => None
  | Some x :: t => match opt_concat t with Some r => Some (x ++ r) | None => None end
  end.

Definition utf8_encode (cps : list N) : option bytes := opt_concat (map utf8_enc1 cps).

Definition is_cont (b : byte) : bool := (128 <=? bN b) && (bN b <? 192).

Fixpoint utf8_decode_fuel (fuel : nat) (bs : bytes) : option (list N) :=
  match fuel with
  | O => match bs with [] => Some [] | _ => None end
  | S f =>
    match bs with
    | [] => Some []
    | b0 :: t =>
      let n0 := bN b0 in
      if n0 <? 128 then option_map (cons n0) (utf8_decode_fuel f t)
      else if n0 <? 194 then None
      else if n0 <? 224 then
        match t with
        | b1 :: t' => if is_cont b1 then option_map (cons ((n0 - 192) * 64 + (bN b1 - 128))) (utf8_decode_fuel f t')
                      else None
        | _ => None end
      else if n0 <? 240 then
        match t with
        | b1 :: b2 :: t' =>
            let c := (n0 - 224) * 4096 + (bN b1 - 128) * 64 + (bN b2 - 128) in
            if is_cont b1 && is_cont b2 && (2048 <=? c) && negb (is_surrogate c)
            then option_map (cons c) (utf8_decode_fuel f t') else None
        | _ => None end
      else if n0 <? 245 then
        match t with
        | b1 :: b2 :: b3 :: t' =>
            let c := (n0 - 240) * 262144 + (bN b1 - 128) * 4096 + (bN b2 - 128) * 64 + (bN b3 - 128) in
            if is_cont b1 && is_cont b2 && is_cont b3 && (65536 <=? c) && (c <=? 1114111)
            then option_map (cons c) (utf8_decode_fuel f t') else None
        | _ => None end
      else None
    end
  end.
Definition utf8_decode (bs : bytes) : option (list N) := utf8_decode_fuel (length bs) bs.

(* ---- utf-16 ---- *)
Definition u16_bytes (le : bool) (u : N) : bytes :=
  if le then [byte_of_N (u mod 256); byte_of_N (u / 256)] else [byte_of_N (u / 256); byte_of_N (u mod 256)].

Definition utf16_enc1 (le : bool) (c : N) : option bytes :=
  if is_surrogate c then None
  else if c <? 65536 then Some (u16_bytes le c)
  else if c <=? 1114111 then
    let d := c - 65536 in Some (u16_bytes le (55296 + d / 1024) ++ u16_bytes le (56320 + d mod 1024))
  else None.
Definition utf16_encode_raw (le : bool) (cps : list N) : option bytes := opt_concat (map (utf16_enc1 le) cps).

Fixpoint units16 (le : bool) (bs : bytes) : option (list N) :=
  match bs with
  | [] => Some []
  | a :: b :: t => option_map (cons (if le then bN a + 256 * bN b else 256 * bN a + bN b)) (units16 le t)
  | _ => None
  end.

Fixpoint utf16_units_decode (us : list N) : option (list N) :=
  match us with
  | [] => Some []
  | u :: t =>
      if (55296 <=? u) && (u <? 56320) then
        match t with
        | v :: t' => if (56320 <=? v) && (v <=? 57343)
                     then option_map (cons (65536 + (u - 55296) * 1024 + (v - 56320))) (utf16_units_decode t')
                     else None
        | [] => None end
      else if (56320 <=? u) && (u <=? 57343) then None
      else option_map (cons u) (utf16_units_decode t)
  end.

Definition utf16_decode_raw (le : bool) (bs : bytes) : option (list N) :=
  match units16 le bs with Some us => utf16_units_decode us | None => None end.

(* ---- utf-32 ---- *)
Definition u32_bytes (le : bool) (c : N) : bytes :=
  let b0 := byte_of_N (c mod 256) in let b1 := byte_of_N ((c / 256) mod 256) in
  let b2 := byte_of_N ((c / 65536) mod 256) in let b3 := byte_of_N (c / 16777216) in
  if le then [b0; b1; b2; b3] else [b3; b2; b1; b0].
Definition utf32_encode_raw (le : bool) (cps : list N) : option bytes :=
  if forallb valid_cp cps then Some (flat_map (u32_bytes le) cps) else None.
Fixpoint utf32_decode_raw (le : bool) (bs : bytes) : option (list N) :=
  match bs with
  | [] => Some []
  | a :: b :: c :: d :: t =>
      let v := if le then bN a + 256 * bN b + 65536 * bN c + 16777216 * bN d
               else bN d + 256 * bN c + 65536 * bN b + 16777216 * bN a in
      if valid_cp v then option_map (cons v) (utf32_decode_raw le t) else None
  | _ => None
  end.

(* bytes.decode(encoding): None = UnicodeDecodeError.  The BOM codecs default to little endian
   (this platform) and consume a leading BOM. *)
Definition decode (e : encoding) (bs : bytes) : option (list N) :=
  match e with
  | EncAscii => ascii_decode bs
  | EncUtf8 => utf8_decode bs
  | EncUtf16le => utf16_decode_raw true bs
  | EncUtf16be => utf16_decode_raw false bs
  | EncUtf16 =>
      match bs with
      | xff :: xfe :: t => utf16_decode_raw true t
      | xfe :: xff :: t => utf16_decode_raw false t
      | _ => utf16_decode_raw true bs
      end
  | EncUtf32le => utf32_decode_raw true bs
  | EncUtf32be => utf32_decode_raw false bs
  | EncUtf32 =>
      match bs with
      | xff :: xfe :: x00 :: x00 :: t => utf32_decode_raw true t
      | x00 :: x00 :: xfe :: xff :: t => utf32_decode_raw false t
      | _ => utf32_decode_raw true bs
      end
  end.

(* str.encode(encoding): None = UnicodeEncodeError *)
Definition encode (e : encoding) (cps : list N) : option bytes :=
  match e with
  | EncAscii => ascii_encode cps
  | EncUtf8 => utf8_encode cps
  | EncUtf16le => utf16_encode_raw true cps
  | EncUtf16be => utf16_encode_raw false cps
  | EncUtf16 => option_map (fun b => xff :: xfe :: b) (utf16_encode_raw true cps)
  | EncUtf32le => utf32_encode_raw true cps
  | EncUtf32be => utf32_encode_raw false cps
  | EncUtf32 => option_map (fun b => xff :: xfe :: x00 :: x00 :: b) (utf32_encode_raw true cps)
  end.
