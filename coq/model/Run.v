(* The request/response interface the extracted driver serves. *)
From Coq Require Import ZArith NArith List Bool.
From Coq Require Import Strings.Byte.
Require Import Bytes Value Expr Codec Float Stream Syntax Sizeof Parse Build Hex Containers Lazy Compiled Ksy PyExpr.
Import ListNotations.

Inductive request :=
| RParse (c : con) (kw : list (name * val)) (data : bytes) (start : N)
| RBuild (c : con) (obj : val) (kw : list (name * val))
| RSizeof (c : con) (kw : list (name * val))
| REval (e : expr) (kw : list (name * val))
| RHexdump (data : bytes) (linesize : N)
| RHexundump (text : bytes) (linesize : N)
| RCops (ops : list cop)
| RLazy (c : con) (kw : list (name * val)) (data : bytes) (start : N) (h : list nat)
| RCParse (c : con) (kw : list (name * val)) (data : bytes) (start : N)
| RCBuild (c : con) (obj : val) (kw : list (name * val))
| RKsyEmit (c : con)
| RKsyInterp (sch : kschema) (kw : list (name * val)) (data : bytes)
| RKsyLayout (c : con) (kw : list (name * val)) (data : bytes)
| RExprPrint (e : expr)
| RExprRead (ts : list tok).

Inductive response :=
| ROkParse (v : val) (pos : Z)
| ROkBuild (ret : val) (out : bytes)
| ROkSize (n : Z)
| ROkVal (v : val)
| ROkBytes (b : bytes)
| ROuts (o : list cout)
| ROkLazy (pos : Z) (o : list lout)
| ROkKsy (s : option kschema)
| ROkFields (f : list fieldrec)
| ROkToks (t : option (list tok))
| ROkExpr (e : option expr)
| RErr (e : err) (p : option path).

Definition run (r : request) : response :=
  match r with
  | RParse c kw data start =>
      match parse_at c kw data start with
      | Ok (v, pos) => ROkParse v pos
      | Err e p => RErr e p
      end
  | RBuild c obj kw =>
      match build_bytes c obj kw with
      | Ok (r, out) => ROkBuild r out
      | Err e p => RErr e p
      end
  | RSizeof c kw =>
      match sizeof c (top_ctx kw MSize) [] with
      | Ok n => ROkSize n
      | Err e p => RErr e p
      end
  | REval e kw =>
      match eval (top_ctx kw MParse) e with
      | Ok v => ROkVal v
      | Err e p => RErr e p
      end
  | RHexdump data ls =>
      match hexdump data (N.to_nat ls) with Some s => ROkBytes s | None => RErr EValue None end
  | RHexundump text ls =>
      match hexundump text (N.to_nat ls) with Some s => ROkBytes s | None => RErr EValue None end
  | RCops ops => ROuts (run_cops ops)
  | RLazy c kw data start h =>
      match lazy_run c kw data start h with
      | Ok (pos, outs) => ROkLazy pos outs
      | Err e p => RErr e p
      end
  | RCParse c kw data start =>
      match cparse_at c kw data start with
      | Ok (v, pos) => ROkParse v pos
      | Err e p => RErr e p
      end
  | RCBuild c obj kw =>
      match cbuild_bytes c obj kw with
      | Ok (r, out) => ROkBuild r out
      | Err e p => RErr e p
      end
  | RKsyEmit c => ROkKsy (ksy_emit c)
  | RKsyInterp sch kw data =>
      match ksy_interp sch kw data with
      | Ok recs => ROkFields recs
      | Err e p => RErr e p
      end
  | RKsyLayout c kw data =>
      match ksy_layout c kw data with
      | Ok recs => ROkFields recs
      | Err e p => RErr e p
      end
  | RExprPrint e => ROkToks (pr e)
  | RExprRead ts => ROkExpr (pyparse ts)
  end.
