(* The syntax of constructs: one constructor per class of core.py in scope, carrying what the
   class stores.  Macros (Optional, If, Padding, PrefixedArray, PaddedString, Bitwise, Int8ub ...)
   are not constructors; the reifier expands them exactly as the library does. *)
From Coq Require Import ZArith NArith List Bool.
From Coq Require Import Strings.Byte.
Require Import Bytes Value Expr Codec.
Import ListNotations.

Inductive endian := Big | Little.          (* '=' is resolved by the reifier from sys.byteorder *)
Inductive fcode := FB | FH | FL | FQ | Fb | Fh | Fl | Fq | Fe | Ff | Fd.

(* the byte functions the library passes to Transformed / Restreamed *)
Inductive bfun := BFbytes2bits | BFbits2bytes | BFswapbytes | BFswapbitsinbytes.
(* the sizecomputer lambdas of Bitwise / Bytewise / BitsSwapped *)
Inductive sizefun := SFdiv8 | SFmul8 | SFid | SFnone.
(* hash functions usable in-model for Checksum *)
Inductive hashfun := HSum8 | HXor8 | HLen.

Inductive unionsel := USNone | USIndex (i : Z) | USName (n : name).

Inductive con :=
(* primitives *)
| CFormat (en : endian) (f : fcode)
| CBytesInt (len : expr) (signed : bool) (swapped : bool)
| CBitsInt (len : expr) (signed : bool) (swapped : bool)
| CVarInt
| CZigZag
| CBytes (len : expr)
| CGreedyBytes
| CFlag
| CPass
| CTerminated
| CError
| CTell
| CIndex
| CComputed (e : expr)
| CCheck (e : expr)
| CStopIf (e : expr)
| CSeek (at_ : expr) (whence : expr)
(* adapters *)
| CStringEncoded (c : con) (enc : encoding)
| CEnum (c : con) (table : list (name * Z))
| CFlagsEnum (c : con) (table : list (name * Z))
| CMapping (c : con) (table : list (val * val))      (* encmapping: obj -> encoded *)
| CHex (c : con)
| CHexDump (c : con)
| CExprValidator (c : con) (e : expr)
| COneOf (c : con) (vs : list val)
| CNoneOf (c : con) (vs : list val)
| CExprAdapter (c : con) (dec enc : expr)
(* composites *)
| CStruct (cs : list con)
| CSequence (cs : list con)
| CFocusedSeq (sel : name) (cs : list con)
| CUnion (sel : unionsel) (cs : list con)
| CSelect (cs : list con)
| CIfThenElse (e : expr) (ct ce : con)
| CSwitch (e : expr) (cases : list (val * con)) (dflt : con)
| CArray (count : expr) (c : con)
| CGreedyRange (c : con)
| CRepeatUntil (pred : expr) (c : con)
| CRenamed (n : name) (c : con)
| CConst (v : val) (c : con)
| CRebuild (c : con) (e : expr)
| CDefault (c : con) (e : expr)
(* stream manipulation *)
| CPadded (len : expr) (c : con) (pat : byte)
| CAligned (modulus : expr) (c : con) (pat : byte)
| CPointer (off : expr) (c : con)
| CPeek (c : con)
| COffsettedEnd (off : expr) (c : con)
| CRawCopy (c : con)
| CPrefixed (lc : con) (c : con) (incl : bool)
| CFixedSized (len : expr) (c : con)
| CNullTerminated (c : con) (term : bytes) (incl consume req : bool)
| CNullStripped (c : con) (pad : bytes)
| CTransformed (c : con) (df : bfun) (da : option Z) (ef : bfun) (ea : option Z)
| CRestreamed (c : con) (df : bfun) (du : Z) (ef : bfun) (eu : Z) (sf : sizefun)
| CProcessXor (key : expr) (c : con)
| CProcessRotl (amount group : expr) (c : con)
| CChecksum (c : con) (h : hashfun) (data : expr)
(* lazy *)
| CLazy (c : con)
| CLazyStruct (cs : list con)
| CLazyArray (count : expr) (c : con).

(* sc.name *)
Definition name_of (c : con) : option name :=
  match c with CRenamed n _ => Some n | _ => None end.

(* sc.flagbuildnone, as the constructors compute it *)
Fixpoint buildnone (c : con) : bool :=
  match c with
  | CPass | CTerminated | CError | CTell | CIndex | CComputed _ | CCheck _ | CStopIf _ | CSeek _ _ => true
  | CConst _ _ | CRebuild _ _ | CDefault _ _ | CPeek _ | CChecksum _ _ _ => true
  | CStruct cs | CSequence cs | CLazyStruct cs => forallb buildnone cs
  | CFocusedSeq _ _ | CUnion _ _ => false
  | CSelect cs => existsb buildnone cs
  | CIfThenElse _ a b => buildnone a && buildnone b
  | CSwitch _ cases d => forallb (fun vc => buildnone (snd vc)) cases && buildnone d
  (* Subconstruct: inherits *)
  | CStringEncoded c _ | CEnum c _ | CFlagsEnum c _ | CMapping c _ | CHex c | CHexDump c
  | CExprValidator c _ | COneOf c _ | CNoneOf c _ | CExprAdapter c _ _
  | CArray _ c | CGreedyRange c | CRepeatUntil _ c | CRenamed _ c
  | CPadded _ c _ | CAligned _ c _ | CPointer _ c | COffsettedEnd _ c | CRawCopy c
  | CPrefixed _ c _ | CFixedSized _ c | CNullTerminated c _ _ _ _ | CNullStripped c _
  | CTransformed c _ _ _ _ | CRestreamed c _ _ _ _ _ | CProcessXor _ c | CProcessRotl _ _ c
  | CLazy c | CLazyArray _ c => buildnone c
  | _ => false
  end.

Definition fcode_size (f : fcode) : nat :=
  match f with
  | FB | Fb => 1 | FH | Fh | Fe => 2 | FL | Fl | Ff => 4 | FQ | Fq | Fd => 8
  end%nat.
Definition fcode_signed (f : fcode) : bool :=
  match f with Fb | Fh | Fl | Fq => true | _ => false end.
Definition fcode_float (f : fcode) : bool :=
  match f with Fe | Ff | Fd => true | _ => false end.

Definition apply_bfun (f : bfun) (d : bytes) : res bytes :=
  match f with
  | BFbytes2bits => Ok (bytes2bits d)
  | BFbits2bytes => match bits2bytes d with
                    | B2BOk r => Ok r | B2BLen => Err EValue None | B2BKey => Err EKey None end
  | BFswapbytes => Ok (swapbytes d)
  | BFswapbitsinbytes => Ok (swapbitsinbytes d)
  end.

Definition apply_sizefun (f : sizefun) (n : Z) : Z :=
  match f with SFdiv8 => (n / 8)%Z | SFmul8 => (n * 8)%Z | SFid => n | SFnone => n end.

Definition apply_hash (h : hashfun) (d : bytes) : val :=
  match h with
  | HSum8 => VInt (Z.of_N (fold_left (fun a b => (a + Byte.to_N b) mod 256)%N d 0%N))
  | HXor8 => VInt (Z.of_N (fold_left (fun a b => N.lxor a (Byte.to_N b)) d 0%N))
  | HLen => VInt (Z.of_nat (length d))
  end.
