(* C17: call histories over a pool of objects.  The code that runs at call time is summarised, function by
   function, by the set of state it may write (gen/Effects.v, regenerated from the source on every run).  Here:
   what a history of such executions can do to the state of the pool, for any history and any interleaving. *)
From Coq Require Import ZArith NArith List Bool.
From Coq Require Import Strings.Byte.
Require Import Bytes Value.
Import ListNotations.

Definition descr := list byte.            (* "self.stream2", "global TABLE", "class Struct", ... *)
Definition oid := nat.                    (* an object of the pool; module and class objects are objects too *)
Definition store := oid -> descr -> option val.

Definition descr_eqb (a b : descr) : bool := bytes_eqb a b.

(* one execution of function fn of class / module owner on object obj, and the stores it performed *)
Record event := mkEv {
  e_obj : oid;
  e_owner : list byte;
  e_fn : list byte;
  e_writes : list (descr * option val)
}.

Definition upd (st : store) (o : oid) (d : descr) (v : option val) : store :=
  fun o' d' => if Nat.eqb o' o && descr_eqb d' d then v else st o' d'.

Definition apply_event (st : store) (e : event) : store :=
  fold_left (fun s w => upd s (e_obj e) (fst w) (snd w)) (e_writes e) st.

Definition run (h : list event) (st : store) : store := fold_left apply_event h st.

(* the summary table: (owner, function, write set, called from inside the package) *)
Definition row := (list byte * list byte * list descr * bool)%type.

Definition mem_descr (d : descr) (l : list descr) : bool := existsb (descr_eqb d) l.

(* the event is an execution of a function of the table and stays within its write set *)
Definition event_in (tbl : list row) (e : event) : bool :=
  existsb (fun r => let '(o, f, ws, _) := r in
                    bytes_eqb o (e_owner e) && bytes_eqb f (e_fn e) &&
                    forallb (fun w => mem_descr (fst w) ws) (e_writes e)) tbl.

(* interleavings of the histories of several workers *)
Inductive interleave : list (list event) -> list event -> Prop :=
| il_nil ts : Forall (fun t => t = []) ts -> interleave ts []
| il_step pre e t post h : interleave (pre ++ t :: post) h -> interleave (pre ++ (e :: t) :: post) (e :: h).
