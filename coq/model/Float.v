(* IEEE-754 binary16/32/64 as bit patterns (N).  A Python float is a binary64 pattern.
   widen: exact conversion to binary64 (struct.unpack 'e'/'f').
   narrow: round-to-nearest-even conversion from binary64 (struct.pack 'e'/'f'), None when a finite
   value overflows the target (struct raises OverflowError, FormatField reports FormatFieldError). *)
From Coq Require Import ZArith NArith List Bool.
Open Scope N_scope.

Record fmt := mkFmt { ebits : N; mbits : N }.
Definition binary16 := mkFmt 5 10.
Definition binary32 := mkFmt 8 23.
Definition binary64 := mkFmt 11 52.

Definition bias (f : fmt) : Z := Z.of_N (2 ^ (ebits f - 1) - 1).
Definition emax_field (f : fmt) : N := 2 ^ ebits f - 1.

Definition f_sign (f : fmt) (p : N) : N := N.shiftr p (ebits f + mbits f) mod 2.
Definition f_exp (f : fmt) (p : N) : N := N.shiftr p (mbits f) mod 2 ^ ebits f.
Definition f_mant (f : fmt) (p : N) : N := p mod 2 ^ mbits f.
Definition f_pack (f : fmt) (s e m : N) : N := s * 2 ^ (ebits f + mbits f) + e * 2 ^ mbits f + m.

Definition is_nan (f : fmt) (p : N) : bool := (f_exp f p =? emax_field f) && negb (f_mant f p =? 0).
Definition is_inf (f : fmt) (p : N) : bool := (f_exp f p =? emax_field f) && (f_mant f p =? 0).

Definition quiet_nan (f : fmt) (s : N) : N := f_pack f s (emax_field f) (2 ^ (mbits f - 1)).

(* |x| = sig * 2^ex for a finite pattern *)
Definition f_sig_ex (f : fmt) (p : N) : N * Z :=
  let e := f_exp f p in let m := f_mant f p in
  if e =? 0 then (m, (1 - bias f - Z.of_N (mbits f))%Z)
  else (m + 2 ^ mbits f, (Z.of_N e - bias f - Z.of_N (mbits f))%Z).

(* round-to-nearest-even of sig * 2^sh for sh possibly negative *)
Definition rne_shift (sig : N) (sh : Z) : N :=
  if (0 <=? sh)%Z then sig * 2 ^ Z.to_N sh
  else
    let k := Z.to_N (- sh) in
    let q := sig / 2 ^ k in
    let r := sig mod 2 ^ k in
    let half := 2 ^ (k - 1) in
    if r <? half then q
    else if half <? r then q + 1
    else if N.even q then q else q + 1.

(* encode sign s and magnitude sig * 2^ex into format f with RNE; None = overflow *)
Definition f_round (f : fmt) (s : N) (sig : N) (ex : Z) : option N :=
  if sig =? 0 then Some (f_pack f s 0 0)
  else
    let m := Z.of_N (mbits f) in
    let top := (Z.of_N (N.log2 sig) + ex)%Z in           (* floor(log2 |x|) *)
    let qmin := (1 - bias f - m)%Z in
    let q := Z.max (top - m) qmin in
    let r := rne_shift sig (ex - q) in
    let '(r, q) := if r =? 2 ^ (mbits f + 1) then (2 ^ mbits f, (q + 1)%Z) else (r, q) in
    if r <? 2 ^ mbits f then Some (f_pack f s 0 r)      (* subnormal (q = qmin) *)
    else
      let e := (q + m + bias f)%Z in
      if (Z.of_N (emax_field f) <=? e)%Z then None
      else Some (f_pack f s (Z.to_N e) (r - 2 ^ mbits f)).

Definition widen (f : fmt) (p : N) : N :=
  let s := f_sign f p in
  if is_nan f p then quiet_nan binary64 s
  else if is_inf f p then f_pack binary64 s (emax_field binary64) 0
  else let '(sig, ex) := f_sig_ex f p in
       match f_round binary64 s sig ex with Some r => r | None => 0 end.

Definition narrow (f : fmt) (p : N) : option N :=
  let s := f_sign binary64 p in
  if is_nan binary64 p then Some (quiet_nan f s)
  else if is_inf binary64 p then Some (f_pack f s (emax_field f) 0)
  else let '(sig, ex) := f_sig_ex binary64 p in f_round f s sig ex.

(* exact conversion of an integer to binary64 when it is exactly representable, else None *)
Definition f64_of_Z (z : Z) : option N :=
  let s := if (z <? 0)%Z then 1 else 0 in
  let a := Z.to_N (Z.abs z) in
  match f_round binary64 s a 0 with
  | Some r => let '(sig, ex) := f_sig_ex binary64 r in
              if (0 <=? ex)%Z then (if sig * 2 ^ Z.to_N ex =? a then Some r else None)
              else (if sig =? a * 2 ^ Z.to_N (- ex) then Some r else None)
  | None => None
  end.
