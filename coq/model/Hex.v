(* construct/lib/hex.py: hexdump / hexundump on character strings (characters are bytes: the output is ASCII). *)
From Coq Require Import ZArith NArith List Bool.
From Coq Require Import Strings.Byte.
Require Import Bytes.
Import ListNotations.

Definition str := list byte.

Definition sp : byte := x20.
Definition nl : byte := x0a.

(* format(i, 'X') digit *)
Definition hexdigit (n : N) : byte :=
  match n with
  | 0 => x30 | 1 => x31 | 2 => x32 | 3 => x33 | 4 => x34 | 5 => x35 | 6 => x36 | 7 => x37
  | 8 => x38 | 9 => x39 | 10 => x41 | 11 => x42 | 12 => x43 | 13 => x44 | 14 => x45 | _ => x46
  end%N.

(* HEXPRINT[b] = format(b, '02X') *)
Definition hexpair (b : byte) : str := [hexdigit (Byte.to_N b / 16); hexdigit (Byte.to_N b mod 16)].

(* PRINTABLE[b] *)
Definition printable (b : byte) : byte := if ((32 <=? Byte.to_N b) && (Byte.to_N b <? 128))%N then b else x2e.

(* "%0wX" % n *)
Fixpoint hexnum (w : nat) (n : N) : str :=
  match w with
  | O => []
  | S w' => hexnum w' (n / 16) ++ [hexdigit (n mod 16)]
  end.

Fixpoint join (sep : str) (l : list str) : str :=
  match l with
  | [] => []
  | [x] => x
  | x :: t => x ++ sep ++ join sep t
  end.

(* "%-ws" % s *)
Definition ljust (w : nat) (s : str) : str := s ++ repeat sp (w - length s).

(* one line: fmt % (i, hextext, rawtext) *)
Definition dump_line (offw : nat) (linesize : nat) (off : N) (chunk : bytes) : str :=
  hexnum offw off ++ [sp; sp; sp] ++ ljust (3 * linesize - 1) (join [sp] (map hexpair chunk)) ++ [sp; sp; sp] ++ map printable chunk.

Fixpoint dump_lines (offw linesize : nat) (fuel : nat) (off : N) (data : bytes) : list str :=
  match fuel with
  | O => []
  | S f => match data with
           | [] => []
           | _ => dump_line offw linesize off (firstn linesize data)
                  :: dump_lines offw linesize f (off + N.of_nat linesize) (skipn linesize data)
           end
  end.

Definition header : str := [x68;x65;x78;x75;x6e;x64;x75;x6d;x70;x28;x22;x22;x22].     (* the header line: hexundump( followed by three double quotes *)
Definition footer : str := [x22;x22;x22;x29].                                         (* the footer line: three double quotes and a closing parenthesis *)

(* hexdump(data, linesize); None = ValueError (too long) or a non-positive line size (range() step 0) *)
Definition hexdump (data : bytes) (linesize : nat) : option str :=
  match linesize with
  | O => None
  | _ =>
    let n := N.of_nat (length data) in
    if (n <? 65536)%N then Some (join [nl] ([header] ++ dump_lines 4 linesize (length data) 0 data ++ [footer; []]))
    else if (n <? 4294967296)%N then Some (join [nl] ([header] ++ dump_lines 8 linesize (length data) 0 data ++ [footer; []]))
    else None
  end.

(* ---- hexundump ---- *)

(* s.split(c) *)
Fixpoint split_on (c : byte) (s : str) (cur : str) : list str :=
  match s with
  | [] => [rev cur]
  | x :: t => if Byte.eqb x c then rev cur :: split_on c t [] else split_on c t (x :: cur)
  end.

(* s[s.find(" "):] ; find returns -1 when absent: s[-1:] is the last character *)
Fixpoint from_first_space (s : str) : option str :=
  match s with
  | [] => None
  | x :: t => if Byte.eqb x sp then Some s else from_first_space t
  end.
Definition after_offset (s : str) : str :=
  match from_first_space s with
  | Some r => r
  | None => match rev s with [] => [] | l :: _ => [l] end
  end.

Definition is_ws (b : byte) : bool :=
  match b with x20 | x09 | x0a | x0b | x0c | x0d | x1c | x1d | x1e | x1f => true | _ => false end.

Fixpoint lstrip_ws (s : str) : str :=
  match s with x :: t => if is_ws x then lstrip_ws t else s | [] => [] end.

(* s.split(): maximal runs of non-whitespace *)
Fixpoint split_ws (s : str) (cur : str) : list str :=
  match s with
  | [] => match cur with [] => [] | _ => [rev cur] end
  | x :: t => if is_ws x then (match cur with [] => split_ws t [] | _ => rev cur :: split_ws t [] end)
              else split_ws t (x :: cur)
  end.

Definition hexval (b : byte) : option N :=
  let n := Byte.to_N b in
  if ((48 <=? n) && (n <=? 57))%N then Some (n - 48)%N
  else if ((65 <=? n) && (n <=? 70))%N then Some (n - 55)%N
  else if ((97 <=? n) && (n <=? 102))%N then Some (n - 87)%N
  else None.

(* int(s, 16) for a token of hex digits (no sign / prefix / underscore forms: outside the model), then int2byte *)
Fixpoint parse_hex (s : str) (acc : N) : option N :=
  match s with
  | [] => Some acc
  | x :: t => match hexval x with Some d => parse_hex t (acc * 16 + d)%N | None => None end
  end.

Definition token_byte (s : str) : option byte :=
  match s with
  | [] => None
  | _ => match parse_hex s 0 with
         | Some n => if (n <? 256)%N then Some (byte_of_N n) else None
         | None => None
         end
  end.

Fixpoint all_some {A} (l : list (option A)) : option (list A) :=
  match l with
  | [] => Some []
  | Some x :: t => match all_some t with Some r => Some (x :: r) | None => None end
  | None :: _ => None
  end.

Definition undump_line (linesize : nat) (line : str) : option bytes :=
  all_some (map token_byte (split_ws (firstn (3 * linesize) (lstrip_ws (after_offset line))) [])).

(* lines[1:-2] *)
Definition middle {A} (l : list A) : list A := firstn (length l - 3) (skipn 1 l).

(* hexundump(data, linesize); None = an exception (ValueError from int(), ...) *)
Definition hexundump (text : str) (linesize : nat) : option bytes :=
  match all_some (map (undump_line linesize) (middle (split_on nl text []))) with
  | Some ls => Some (concat ls)
  | None => None
  end.
