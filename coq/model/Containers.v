(* Container / ListContainer objects on a heap (object identity matters for copy, deepcopy, pickle).
   A node is a leaf value, a Container (insertion-ordered entries, each a reference) or a list of
   references.  The `alias` bit of a Container says whether attribute access works (the instance
   __dict__ is the dictionary itself). *)
From Coq Require Import ZArith NArith List Bool.
From Coq Require Import Strings.Byte.
Require Import Bytes Float Value.
Import ListNotations.

Inductive node :=
| NLeaf (v : val)
| NDict (alias : bool) (kv : list (name * nat))
| NList (l : list nat).

Definition heap := list node.

Definition alloc (h : heap) (n : node) : heap * nat := (h ++ [n], length h).

Fixpoint set_nth {A} (i : nat) (x : A) (l : list A) : list A :=
  match l, i with
  | [], _ => []
  | _ :: t, O => x :: t
  | y :: t, S i' => y :: set_nth i' x t
  end.

(* thread the heap through a list *)
Fixpoint map_heap {A B} (F : heap -> A -> heap * B) (h : heap) (l : list A) : heap * list B :=
  match l with
  | [] => (h, [])
  | x :: t => let '(h1, y) := F h x in let '(h2, ys) := map_heap F h1 t in (h2, y :: ys)
  end.

Definition on_entry (F : heap -> val -> heap * nat) (h : heap) (e : name * val) : heap * (name * nat) :=
  let '(h', r) := F h (snd e) in (h', (fst e, r)).
Definition on_ref (F : heap -> nat -> heap * nat) (h : heap) (e : name * nat) : heap * (name * nat) :=
  let '(h', r) := F h (snd e) in (h', (fst e, r)).

(* build a value on the heap; leaves are immutable values *)
Fixpoint store (fuel : nat) (h : heap) (v : val) : heap * nat :=
  match fuel with
  | O => alloc h (NLeaf v)
  | S f =>
    match v with
    | VDict kv => let '(h', refs) := map_heap (on_entry (store f)) h kv in alloc h' (NDict true refs)
    | VList l => let '(h', refs) := map_heap (store f) h l in alloc h' (NList refs)
    | _ => alloc h (NLeaf v)
    end
  end.

(* read a value back *)
Fixpoint load (fuel : nat) (h : heap) (id : nat) : val :=
  match fuel with
  | O => VNone
  | S f =>
    match nth_error h id with
    | Some (NLeaf v) => v
    | Some (NDict _ kv) => VDict (map (fun e => (fst e, load f h (snd e))) kv)
    | Some (NList l) => VList (map (load f h) l)
    | None => VNone
    end
  end.

(* copy.deepcopy / pickle round trip: a fresh structure, attribute access re-established *)
Fixpoint deepcopy (fuel : nat) (h : heap) (id : nat) : heap * nat :=
  match fuel with
  | O => alloc h (NLeaf VNone)
  | S f =>
    match nth_error h id with
    | Some (NLeaf v) => alloc h (NLeaf v)
    | Some (NDict _ kv) => let '(h', refs) := map_heap (on_ref (deepcopy f)) h kv in alloc h' (NDict true refs)
    | Some (NList l) => let '(h', refs) := map_heap (deepcopy f) h l in alloc h' (NList refs)
    | None => alloc h (NLeaf VNone)
    end
  end.

(* Container.copy / copy.copy: a new top-level object sharing the children *)
Definition shallowcopy (h : heap) (id : nat) : heap * nat :=
  match nth_error h id with
  | Some (NDict _ kv) => alloc h (NDict true kv)
  | Some (NList l) => alloc h (NList l)
  | Some n => alloc h n
  | None => alloc h (NLeaf VNone)
  end.

Inductive step := SKey (k : name) | SIdx (i : nat).

(* follow a path of keys / indices from an object *)
Fixpoint resolve (h : heap) (id : nat) (path : list step) : option nat :=
  match path with
  | [] => Some id
  | SKey k :: t =>
      match nth_error h id with
      | Some (NDict _ kv) =>
          match find (fun e => name_eqb (fst e) k) kv with
          | Some (_, r) => resolve h r t
          | None => None
          end
      | _ => None
      end
  | SIdx i :: t =>
      match nth_error h id with
      | Some (NList l) => match nth_error l i with Some r => resolve h r t | None => None end
      | _ => None
      end
  end.

Fixpoint ref_set (k : name) (r : nat) (kv : list (name * nat)) : list (name * nat) :=
  match kv with
  | [] => [(k, r)]
  | (k', r') :: t => if name_eqb k k' then (k, r) :: t else (k', r') :: ref_set k r t
  end.

(* obj[path][k] = v  (or obj[path].k = v: the same thing when the alias bit is set) *)
Definition set_entry (h : heap) (id : nat) (k : name) (v : val) : option heap :=
  match nth_error h id with
  | Some (NDict a kv) =>
      let '(h1, r) := store 64 h v in
      Some (set_nth id (NDict a (ref_set k r kv)) h1)
  | _ => None
  end.

Definition del_entry (h : heap) (id : nat) (k : name) : option heap :=
  match nth_error h id with
  | Some (NDict a kv) =>
      if existsb (fun e => name_eqb (fst e) k) kv
      then Some (set_nth id (NDict a (filter (fun e => negb (name_eqb (fst e) k)) kv)) h)
      else None
  | _ => None
  end.

Definition append_item (h : heap) (id : nat) (v : val) : option heap :=
  match nth_error h id with
  | Some (NList l) => let '(h1, r) := store 64 h v in Some (set_nth id (NList (l ++ [r])) h1)
  | _ => None
  end.

(* getattr(obj, k): works only through the alias *)
Definition get_attr (h : heap) (id : nat) (k : name) : option val :=
  match nth_error h id with
  | Some (NDict true kv) =>
      match find (fun e => name_eqb (fst e) k) kv with
      | Some (_, r) => Some (load 64 h r)
      | None => None
      end
  | _ => None
  end.

(* ---- a little operation language over numbered handles, run against the real containers ---- *)
Inductive cop :=
| CNew (v : val)                       (* push a new object built from a value *)
| CCopy (src : nat)                    (* push copy.copy(handle src) *)
| CDeepcopy (src : nat)
| CPickle (src : nat)
| CSet (hd : nat) (path : list step) (k : name) (v : val)
| CDel (hd : nat) (path : list step) (k : name)
| CAppend (hd : nat) (path : list step) (v : val)
| CObserve (hd : nat)                  (* output the whole value *)
| CAttr (hd : nat) (path : list step) (k : name)   (* output getattr *)
| CEq (a b : nat).                     (* output a == b *)

Inductive cout := OVal (v : val) | OBool (b : bool) | OFail.

Definition run_cop (st : heap * list nat) (o : cop) : (heap * list nat) * list cout :=
  let '(h, hs) := st in
  let hd i := nth_error hs i in
  match o with
  | CNew v => let '(h', r) := store 64 h v in ((h', hs ++ [r]), [])
  | CCopy s => match hd s with Some id => let '(h', r) := shallowcopy h id in ((h', hs ++ [r]), []) | None => (st, [OFail]) end
  | CDeepcopy s | CPickle s =>
      match hd s with Some id => let '(h', r) := deepcopy 64 h id in ((h', hs ++ [r]), []) | None => (st, [OFail]) end
  | CSet i path k v =>
      match hd i with
      | Some id => match resolve h id path with
                   | Some t => match set_entry h t k v with Some h' => ((h', hs), []) | None => (st, [OFail]) end
                   | None => (st, [OFail]) end
      | None => (st, [OFail]) end
  | CDel i path k =>
      match hd i with
      | Some id => match resolve h id path with
                   | Some t => match del_entry h t k with Some h' => ((h', hs), []) | None => (st, [OFail]) end
                   | None => (st, [OFail]) end
      | None => (st, [OFail]) end
  | CAppend i path v =>
      match hd i with
      | Some id => match resolve h id path with
                   | Some t => match append_item h t v with Some h' => ((h', hs), []) | None => (st, [OFail]) end
                   | None => (st, [OFail]) end
      | None => (st, [OFail]) end
  | CObserve i => match hd i with Some id => (st, [OVal (load 64 h id)]) | None => (st, [OFail]) end
  | CAttr i path k =>
      match hd i with
      | Some id => match resolve h id path with
                   | Some t => match get_attr h t k with Some v => (st, [OVal v]) | None => (st, [OFail]) end
                   | None => (st, [OFail]) end
      | None => (st, [OFail]) end
  | CEq a b => match hd a, hd b with
               | Some x, Some y => (st, [OBool (val_eqb (load 64 h x) (load 64 h y))])
               | _, _ => (st, [OFail]) end
  end.

Definition run_cops (ops : list cop) : list cout :=
  snd (fold_left (fun acc o => let '(st, out) := acc in let '(st', o') := run_cop st o in (st', out ++ o')) ops (([], []), [])).
