(* _sizeof, class by class. *)
From Coq Require Import ZArith NArith List Bool.
From Coq Require Import Strings.Byte.
Require Import Bytes Value Expr Codec Stream Syntax.
Import ListNotations.

(* evaluate(param, context) where the code then uses the value as an integer *)
Definition eval_int (cx : ctx) (e : expr) : res Z :=
  let* v := eval cx e in
  match v with
  | VInt z => Ok z
  | VBool b => Ok (if b then 1 else 0)%Z
  | VFloat _ => unsupported
  | _ => type_error
  end.

(* except (KeyError, AttributeError): raise SizeofError(path=path) *)
Definition catch_key {A} (r : res A) (p : path) : res A :=
  match r with
  | Err (EKey | EAttr) _ => raise ESizeof p
  | _ => r
  end.

Definition sum_sizes (S : con -> ctx -> path -> res Z) (cx : ctx) (p : path) :=
  fix go (cs : list con) : res Z :=
    match cs with
    | [] => Ok 0%Z
    | c :: t => let* a := S c cx p in let* b := go t in Ok (a + b)%Z
    end.

Fixpoint find_case {A} (k : val) (cases : list (val * A)) : option A :=
  match cases with
  | [] => None
  | (v, a) :: t => if val_eqb k v then Some a else find_case k t
  end.

Definition hashable (v : val) : bool :=
  match v with VList _ | VDict _ => false | _ => true end.

Fixpoint sizeof (c : con) (cx : ctx) (p : path) {struct c} : res Z :=
  match c with
  | CFormat _ f => Ok (Z.of_nat (fcode_size f))
  | CBytesInt len _ _ | CBitsInt len _ _ | CBytes len => catch_key (eval_int cx len) p
  | CFlag => Ok 1%Z
  | CPass | CTell | CIndex | CComputed _ | CCheck _ => Ok 0%Z
  | CVarInt | CZigZag | CGreedyBytes | CTerminated | CError | CStopIf _ | CSeek _ _ => raise ESizeof p
  | CStringEncoded c _ | CEnum c _ | CFlagsEnum c _ | CMapping c _ | CHex c | CHexDump c
  | CExprValidator c _ | COneOf c _ | CNoneOf c _ | CExprAdapter c _ _
  | CConst _ c | CRebuild c _ | CDefault c _ | CRawCopy c | CProcessXor _ c | CProcessRotl _ _ c
  | CLazy c => sizeof c cx p
  | CChecksum c _ _ => sizeof c cx p
  | CStruct cs | CSequence cs | CFocusedSeq _ cs | CLazyStruct cs =>
      catch_key (sum_sizes sizeof (push_scope cx) p cs) p
  | CUnion _ _ | CSelect _ | CGreedyRange _ | CRepeatUntil _ _ | COffsettedEnd _ _
  | CNullTerminated _ _ _ _ _ | CNullStripped _ _ => raise ESizeof p
  | CIfThenElse e a b =>
      let* v := catch_key (eval cx e) p in
      if truthy v then sizeof a cx p else sizeof b cx p
  | CSwitch e cases d =>
      catch_key (
        let* k := eval cx e in
        if negb (hashable k) then type_error else
        (fix go (cases : list (val * con)) : res Z :=
           match cases with
           | [] => sizeof d cx p
           | (v, c') :: t => if val_eqb k v then sizeof c' cx p else go t
           end) cases) p
  | CArray count c | CLazyArray count c =>
      let* n := catch_key (eval_int cx count) p in
      let* s := sizeof c cx p in Ok (n * s)%Z
  | CRenamed n c => sizeof c cx (p ++ [n])
  | CPadded len _ _ =>
      catch_key (let* n := eval_int cx len in if (n <? 0)%Z then raise EPadding p else Ok n) p
  | CAligned m c _ =>
      catch_key (
        let* n := eval_int cx m in
        if (n <? 2)%Z then raise EPadding p else
        let* s := sizeof c cx p in Ok (s + (- s) mod n)%Z) p
  | CPointer _ _ | CPeek _ => Ok 0%Z
  | CPrefixed lc c _ => let* a := sizeof lc cx p in let* b := sizeof c cx p in Ok (a + b)%Z
  | CFixedSized len _ =>
      let* n := catch_key (eval_int cx len) p in if (n <? 0)%Z then raise EPadding p else Ok n
  | CTransformed _ _ da _ ea =>
      match da, ea with
      | Some a, Some b => if Z.eqb a b then Ok b else raise ESizeof p
      | _, _ => raise ESizeof p
      end
  | CRestreamed c _ _ _ _ sf =>
      match sf with
      | SFnone => raise ESizeof p
      | _ => let* s := sizeof c cx p in Ok (apply_sizefun sf s)
      end
  end.
