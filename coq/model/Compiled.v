(* What the code that compile() emits does, class by class (the _emitparse / _emitbuild methods of core.py).
   The emitted code differs from the interpreter where the emitters differ from _parse / _build:
   - reads are io.read(n): no length check (short reads return what is there, a negative n reads everything);
   - Array / RepeatUntil do not maintain _index;
   - Padded / Aligned pad by the subcon's STATIC sizeof(), taken at compile time, not by what was consumed;
   - Union decides at compile time, from static sizes, whether to seek forward;
   - failures are whatever Python raises (struct.error, KeyError, ...), not ConstructErrors;
   - classes without an emitter are linked back to the interpreter (their whole subtree is interpreted).
   Context expressions are inlined as text (repr) and evaluated by Python: here they are evaluated by the same
   eval as the interpreter's; that the text means the expression is property C11. *)
From Coq Require Import ZArith NArith List Bool.
From Coq Require Import Strings.Byte.
Require Import Bytes Value Expr Codec Float Stream Syntax Sizeof Parse Build.
Import ListNotations.

(* io.read(n) on a BytesIO *)
Definition cread (s : istream) (n : Z) : bytes * istream :=
  if (n <? 0)%Z then iread_all s
  else
    let av := iavail s in
    let k := Nat.min (Z.to_nat n) (length av) in
    (firstn k av, iset_pos s (ipos s + N.of_nat k)).

Definition foreign {A} : res A := Err EForeign None.

(* subcon.sizeof() evaluated while compiling: no context *)
Definition static_size (c : con) : res Z := sizeof c (top_ctx [] MSize) [].

Definition decode_format (en : endian) (f : fcode) (d : bytes) : val :=
  let d := match en with Big => d | Little => rev d end in
  let n := be_decode d in
  if fcode_float f then VFloat (widen (fmt_of f) n)
  else VInt (unpattern (fcode_signed f) (8 * N.of_nat (fcode_size f)) n).

(* RepeatUntil as emitted: obj_, list_; `this` in the predicate is the element, as in the interpreter -- no _index *)
Definition cuntil_loop (P : parser) (pred : expr) :=
  fix go (fuel : nat) (acc : list val) (cx : ctx) (p : path) (s : istream) : res (list val * istream) :=
    match fuel with
    | O => Err EDiverge None
    | S f =>
        let* (v, s1) := P cx p s in
        let acc' := acc ++ [v] in
        let* t := eval_obj cx v (Some (VList acc')) pred in
        if truthy t then Ok (acc', s1) else go f acc' cx p s1
    end.

Definition last_pos (fw : list (Z * option name * Z)) : option Z :=
  match rev fw with (_, _, pos) :: _ => Some pos | [] => None end.

Definition union_index (sel : unionsel) (cs : list con) : option nat :=
  match sel with
  | USNone => None
  | USIndex i => if (i <? 0)%Z then None else Some (Z.to_nat i)
  | USName n =>
      (fix go (cs : list con) (k : nat) : option nat :=
         match cs with
         | [] => None
         | c :: t => match name_of c with
                     | Some m => if name_eqb m n then Some k else go t (S k)
                     | None => go t (S k)
                     end
         end) cs O
  end.

Fixpoint cparse (c : con) (cx : ctx) (p : path) (s : istream) {struct c} : res (val * istream) :=
  match c with
  | CFormat en f =>
      let '(d, s') := cread s (Z.of_nat (fcode_size f)) in
      if Nat.eqb (length d) (fcode_size f) then Ok (decode_format en f d, s') else foreign     (* struct.error *)
  | CBytesInt len signed swapped =>
      let* n := eval_int cx len in
      let '(d, s') := cread s n in
      let d := if swapped then swapbytes d else d in
      match bytes2integer d signed with
      | Some z => Ok (VInt z, s')
      | None => foreign
      end
  | CBitsInt len signed swapped =>
      let* n := eval_int cx len in
      let '(d, s') := cread s n in
      match (if swapped then swapbytesinbits d else Some d) with
      | None => foreign
      | Some d' => match bits2integer d' signed with
                   | Some z => Ok (VInt z, s')
                   | None => foreign
                   end
      end
  | CBytes len =>
      let* n := eval_int cx len in
      let '(d, s') := cread s n in Ok (VBytes d, s')
  | CGreedyBytes => let '(d, s') := iread_all s in Ok (VBytes d, s')
  | CFlag => let '(d, s') := cread s 1 in Ok (VBool (negb (bytes_eqb d [x00])), s')
  | CPass => Ok (VNone, s)
  | CError => raise EExplicit p
  | CTell => Ok (VInt (itell s), s)
  | CComputed e => let* v := eval cx e in Ok (v, s)
  | CCheck e => let* v := eval cx e in if truthy v then Ok (VNone, s) else raise ECheck p
  | CStopIf e => let* v := eval cx e in if truthy v then raise EStopField p else Ok (VNone, s)
  | CSeek at_ wh =>
      let* a := eval_int cx at_ in
      let* w := eval_int cx wh in
      let* (r, s') := iseek_user s a w p in Ok (VInt r, s')
  | CEnum c' table =>
      let* (v, s') := cparse c' cx p s in
      match v with
      | VInt z | VEnum _ z =>
          match last_label z table None with
          | Some l => Ok (VEnum l z, s')
          | None => Ok (VInt z, s')
          end
      | VBool b => let z := (if b then 1 else 0)%Z in
          match last_label z table None with
          | Some l => Ok (VEnum l z, s')
          | None => Ok (VInt z, s')
          end
      | _ => unsupported
      end
  | CFlagsEnum c' table =>
      let* (v, s') := cparse c' cx p s in
      let* z := vint_of v in
      (* Container(k=bool(x & v == v), ...): no _flagsenum marker *)
      Ok (VDict (fold_left (fun acc e => dict_set (fst e) (VBool (Z.eqb (Z.land z (snd e)) (snd e))) acc) table []), s')
  | CMapping c' table =>
      let* (v, s') := cparse c' cx p s in
      if negb (hashable v) then type_error else
      match mapping_decode v table None with
      | Some k => Ok (k, s')
      | None => key_error
      end
  | CHex c' | CHexDump c' => cparse c' cx p s
  | CStruct cs =>
      let* (kv, _, s') := struct_loop cparse cs (push_scope cx) p [] s in Ok (VDict kv, s')
  | CSequence cs =>
      let* (vs, s') := seq_loop cparse cs (push_scope cx) p s in Ok (VList vs, s')
  | CFocusedSeq sel cs =>
      let* (fin, s') := focus_loop cparse sel cs (push_scope cx) p None s in
      match fin with
      | Some v => Ok (v, s')
      | None => key_error
      end
  | CUnion sel cs =>
      let cx' := push_scope cx in
      let* (kv, cx'', fw, s') := union_loop cparse cs 0%Z cx' p [] [] s in
      match union_index sel cs with
      | None => match sel with USNone => Ok (VDict kv, s') | _ => unsupported end      (* compile() raises *)
      | Some idx =>
          match nth_error cs idx, last cs CPass with
          | Some csel, clast =>
              match static_size csel, static_size clast with
              | Ok a, Ok b =>
                  let target := if (a =? b)%Z then last_pos fw
                                else match nth_error fw idx with Some (_, _, pos) => Some pos | None => None end in
                  match target with
                  | Some pos => let* (_, s'') := iseek s' pos 0 p in Ok (VDict kv, s'')
                  | None => unsupported
                  end
              | _, _ => unsupported          (* compile() raises SizeofError *)
              end
          | None, _ => unsupported
          end
      end
  | CIfThenElse e a b =>
      let* v := eval cx e in
      if truthy v then cparse a cx p s else cparse b cx p s
  | CSwitch e cases d =>
      let* k := eval cx e in
      if negb (hashable k) then type_error else
      (fix go (cases : list (val * con)) : res (val * istream) :=
         match cases with
         | [] => cparse d cx p s
         | (v, c') :: t => if val_eqb k v then cparse c' cx p s else go t
         end) cases
  | CArray count c' =>
      let* n := eval_int cx count in
      if (n <? 0)%Z then Ok (VList [], s) else          (* range(negative) is empty *)
      let* (vs, s') := count_loop (fun _ p s => cparse c' cx p s) (Z.to_N n) cx p s in Ok (VList vs, s')
  | CRepeatUntil pred c' =>
      let* (vs, s') := cuntil_loop (cparse c') pred (length (idata s) + 64) [] cx p s in
      Ok (VList vs, s')
  | CRenamed n c' => cparse c' cx (p ++ [n]) s
  | CConst v c' =>
      let* (w, s') := cparse c' cx p s in
      if val_eqb w v then Ok (w, s') else raise EConst p
  | CRebuild c' _ | CDefault c' _ => cparse c' cx p s
  | CPadded len c' _ =>
      let* sz := static_size c' in
      let* (v, s1) := cparse c' cx p s in
      let* n := eval_int cx len in
      let '(_, s2) := cread s1 (n - sz) in Ok (v, s2)
  | CAligned m c' _ =>
      let* sz := static_size c' in
      let* (v, s1) := cparse c' cx p s in
      let* n := eval_int cx m in
      if (n =? 0)%Z then Err EZeroDiv None else
      let '(_, s2) := cread s1 ((- sz) mod n) in Ok (v, s2)
  | CPointer off c' =>
      let* o := eval_int cx off in
      let* (_, s1) := iseek_user s o (if (o <? 0)%Z then 2 else 0)%Z p in
      let* (v, s2) := cparse c' cx p s1 in
      let* (_, s3) := iseek s2 (itell s) 0 p in Ok (v, s3)
  | CPeek c' =>
      let r := cparse c' cx p s in
      let back := match r with
                  | Ok (_, s1) => iseek s1 (itell s) 0 p
                  | Err _ _ => iseek_back s p
                  end in
      let* (_, sb) := back in
      match r with
      | Ok (v, _) => Ok (v, sb)
      | Err e q => if err_eqb e EExplicit then Err e q
                   else if is_construct_error e then Ok (VNone, sb) else Err e q
      end
  | CPrefixed lc c' incl =>
      let* sub := (if incl then static_size lc else Ok 0%Z) in
      let* (lv, s1) := cparse lc cx p s in
      let* n := vint_of lv in
      let '(d, s2) := cread s1 (n - sub) in
      let* (v, _) := cparse c' cx p (substream d (iabs s1)) in Ok (v, s2)
  | CFixedSized len c' =>
      let* n := eval_int cx len in
      let '(d, s1) := cread s n in
      let* (v, _) := cparse c' cx p (substream d (iabs s)) in Ok (v, s1)
  (* no emitter: linked back to the interpreter *)
  | _ => parse c cx p s
  end.

(* ---- building ---- *)

Definition craw_write (o : ostream) (v : val) : res ostream :=
  match v with
  | VBytes d => owrite_raw o d
  | _ => type_error
  end.

(* Array as emitted: ListContainer(reuse(obj[i], ...) for i in range(count)) -- no length check, no _index *)
Definition ccount_bloop (B : builder) :=
  fix go (k : nat) (objs : list val) (cx : ctx) (p : path) (o : ostream) : res (list val * ostream) :=
    match k with
    | O => Ok ([], o)
    | S k' =>
        match objs with
        | [] => Err EIndexErr None
        | e :: t =>
            let* (r, o1) := B e cx p o in
            let* (rs, o2) := go k' t cx p o1 in Ok (r :: rs, o2)
        end
    end.

Definition cuntil_bloop (B : builder) (pred : expr) :=
  fix go (objs : list val) (acc : list val) (cx : ctx) (p : path) (o : ostream) : res (list val * ostream) :=
    match objs with
    | [] => foreign                                  (* StopIteration *)
    | e :: t =>
        let* (r, o1) := B e cx p o in
        let acc' := acc ++ [r] in
        (* the emitted predicate reads obj_ = the supplied item, list_ = what the builders returned *)
        let* tv := eval_obj cx e (Some (VList acc')) pred in
        if truthy tv then Ok (acc', o1) else go t acc' cx p o1
    end.

Fixpoint cbuild (c : con) (obj : val) (cx : ctx) (p : path) (o : ostream) {struct c} : res (val * ostream) :=
  match c with
  | CFormat en f =>
      match build_format en f obj p o with
      | Ok r => Ok r
      | Err EUnsupported q => Err EUnsupported q
      | Err _ _ => foreign                          (* struct.error *)
      end
  | CBytesInt len signed swapped =>
      match int_of_val obj with
      | None => type_error
      | Some z =>
          let* n := eval_int cx len in
          if (n <? 0)%Z then Err EValue None else
          if (65536 <? n)%Z then unsupported else
          match integer2bytes z (Z.to_nat n) signed with
          | None => Err EValue None
          | Some d => let d := if swapped then swapbytes d else d in
                      let* o' := owrite_raw o d in Ok (obj, o')
          end
      end
  | CBitsInt len signed swapped =>
      match int_of_val obj with
      | None => type_error
      | Some z =>
          let* n := eval_int cx len in
          if (n <? 0)%Z then Err EValue None else
          if (65536 <? n)%Z then unsupported else
          match integer2bits z (Z.to_nat n) signed with
          | None => Err EValue None
          | Some d => match (if swapped then swapbytesinbits d else Some d) with
                      | None => Err EValue None
                      | Some d' => let* o' := owrite_raw o d' in Ok (obj, o')
                      end
          end
      end
  | CBytes len =>
      let* n := eval_int cx len in
      match int_of_val obj with
      | Some z =>
          if (n <? 1)%Z then Err EValue None else
          if (65536 <? n)%Z then unsupported else
          match integer2bytes z (Z.to_nat n) false with
          | Some d => let* o' := owrite_raw o d in Ok (VBytes d, o')
          | None => Err EValue None
          end
      | None => let* o' := craw_write o obj in Ok (obj, o')          (* no length check *)
      end
  | CGreedyBytes => let* o' := craw_write o obj in Ok (obj, o')
  | CFlag => let* o' := owrite_raw o [if truthy obj then x01 else x00] in Ok (obj, o')
  | CPass => Ok (obj, o)
  | CError => raise EExplicit p
  | CTell => Ok (VInt (otell o), o)
  | CComputed e => let* v := eval cx e in Ok (v, o)
  | CCheck e => let* v := eval cx e in if truthy v then Ok (VNone, o) else raise ECheck p
  | CStopIf e => let* v := eval cx e in if truthy v then raise EStopField p else Ok (VNone, o)
  | CSeek at_ wh =>
      let* a := eval_int cx at_ in
      let* w := eval_int cx wh in
      let* (r, o') := oseek_user o a w p in Ok (VInt r, o')
  | CEnum c' table =>
      (* encmapping.get(obj, obj) *)
      let obj2 := match obj with
                  | VStr cps => match label_value table cps with Some z => VInt z | None => obj end
                  | VEnum l _ => match label_value table (cps_of_name l) with Some z => VInt z | None => obj end
                  | _ => obj
                  end in
      if negb (hashable obj) then type_error else
      let* (_, o') := cbuild c' obj2 cx p o in Ok (obj, o')
  | CMapping c' table =>
      if negb (hashable obj) then type_error else
      match find_case obj table with
      | Some v => let* (_, o') := cbuild c' v cx p o in Ok (obj, o')
      | None => key_error
      end
  | CStruct cs =>
      let* kv := match obj with
                 | VNone => Ok []
                 | VDict kv => Ok kv
                 | _ => unsupported
                 end in
      let cx' := ctx_update (push_scope cx) kv in
      let* (cx'', o') := struct_bloop cbuild kv cs cx' p o in
      Ok (VDict (ctx_vals cx''), o')
  | CSequence cs =>
      let* objs := match obj with
                   | VNone => Ok (map (fun _ => VNone) cs)
                   | VList l => Ok l
                   | _ => unsupported
                   end in
      let* (rs, o') := seq_bloop cbuild cs objs (push_scope cx) p o in Ok (VList rs, o')
  | CFocusedSeq sel cs =>
      let cx' := ctx_set (push_scope cx) sel obj in
      let* (fin, o') := focus_bloop cbuild sel obj cs cx' p None o in
      match fin with
      | Some v => Ok (v, o')
      | None => foreign
      end
  | CUnion _ cs =>
      match obj with
      | VDict kv =>
          let cx' := ctx_update (push_scope cx) kv in
          (fix go (cs : list con) : res (val * ostream) :=
             match cs with
             | [] => raise EUnion p
             | c' :: t =>
                 let pick := match name_of c' with
                             | Some n => match lookup n kv with
                                         | Some v => Some v
                                         | None => if buildnone c' then Some VNone else None
                                         end
                             | None => if buildnone c' then Some VNone else None
                             end in
                 match pick with
                 | None => go t
                 | Some subobj =>
                     let cx1 := match name_of c' with Some n => ctx_set cx' n subobj | None => cx' end in
                     let* (r, o') := cbuild c' subobj cx1 p o in
                     match name_of c' with
                     | Some n => Ok (VDict [(n, r)], o')
                     | None => unsupported
                     end
                 end
             end) cs
      | _ => unsupported
      end
  | CIfThenElse e a b =>
      let* v := eval cx e in
      if truthy v then cbuild a obj cx p o else cbuild b obj cx p o
  | CSwitch e cases d =>
      let* k := eval cx e in
      if negb (hashable k) then type_error else
      (fix go (cases : list (val * con)) : res (val * ostream) :=
         match cases with
         | [] => cbuild d obj cx p o
         | (v, c') :: t => if val_eqb k v then cbuild c' obj cx p o else go t
         end) cases
  | CArray count c' =>
      let* n := eval_int cx count in
      match obj with
      | VList l =>
          let* (rs, o') := ccount_bloop (cbuild c') (Z.to_nat n) l cx p o in Ok (VList rs, o')
      | VNone | VInt _ | VBool _ | VFloat _ => if (n <=? 0)%Z then Ok (VList [], o) else type_error
      | _ => unsupported
      end
  | CRepeatUntil pred c' =>
      match obj with
      | VList l => let* (rs, o') := cuntil_bloop (cbuild c') pred l [] cx p o in Ok (VList rs, o')
      | VNone | VInt _ | VBool _ | VFloat _ => type_error
      | _ => unsupported
      end
  | CRenamed n c' => cbuild c' obj cx (p ++ [n]) o
  | CConst v c' =>
      (* the value is built whatever was given: no comparison *)
      match v, c' with
      | VBytes d, CBytes _ => let* o' := owrite_raw o d in Ok (v, o')
      | _, _ => cbuild c' v cx p o
      end
  | CRebuild c' e => let* v := eval cx e in cbuild c' v cx p o
  | CDefault c' e =>
      match obj with
      | VNone => let* v := eval cx e in cbuild c' v cx p o
      | _ => cbuild c' obj cx p o
      end
  | CPadded len c' pat =>
      let* sz := static_size c' in
      let* (r, o1) := cbuild c' obj cx p o in
      let* n := eval_int cx len in
      let pad := (n - sz)%Z in
      if (alloc_bound <? pad)%Z then unsupported else
      let* o2 := owrite_raw o1 (repeat pat (Z.to_nat pad)) in Ok (r, o2)      (* pattern * negative = empty *)
  | CAligned m c' pat =>
      let* sz := static_size c' in
      let* (r, o1) := cbuild c' obj cx p o in
      let* n := eval_int cx m in
      if (n =? 0)%Z then Err EZeroDiv None else
      let pad := ((- sz) mod n)%Z in
      if (alloc_bound <? pad)%Z then unsupported else
      let* o2 := owrite_raw o1 (repeat pat (Z.to_nat pad)) in Ok (r, o2)
  | CPointer off c' =>
      let* a := eval_int cx off in
      let* (_, o1) := oseek_user o a (if (a <? 0)%Z then 2 else 0)%Z p in
      let* (r, o2) := cbuild c' obj cx p o1 in
      let* (_, o3) := oseek o2 (otell o) 0 p in Ok (r, o3)
  | CPeek _ => Ok (obj, o)
  (* no _emitbuild: linked back to the interpreter *)
  | _ => build c obj cx p o
  end.

(* compiled.parse(data, **kw) / compiled.build(obj, **kw): Compiled._parse / _build call the emitted functions with
   the call's context *)
Definition cparse_at (c : con) (kw : list (name * val)) (data : bytes) (start : N) : res (val * Z) :=
  let* (v, s) := cparse c (top_ctx kw MParse) [] (mkI data start 0%N true) in Ok (v, itell s).

Definition cbuild_bytes (c : con) (obj : val) (kw : list (name * val)) : res (val * bytes) :=
  let* (r, o) := cbuild c obj (top_ctx kw MBuild) [] ostream_new in Ok (r, odata o).
