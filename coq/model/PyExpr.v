(* repr() of a context expression (construct/expr.py: Path/Path2/BinExpr/UniExpr/FuncPath.__repr__, _operandrepr) as a list of
   Python tokens, and the part of Python's expression grammar those tokens live in (atoms, subscripts, calls, unary + - not,
   the binary operators with their precedence and associativity) as a precedence-climbing parser.  The printer is compared
   with tokenize(repr(e)) and the parser with ast.parse on every run (correspondence); PyExprFacts proves that parsing what
   is printed gives back the expression. *)
From Coq Require Import ZArith NArith List Bool.
From Coq Require Import Strings.Byte.
Require Import Bytes Value Expr.
Import ListNotations.

Inductive pname := NThis | NObj | NLst | NFunc (f : func) | NTrue | NFalse | NNone.

Inductive tok :=
| TLP | TRP | TLB | TRB
| TOp (o : binop)            (* + and - are also the unary signs; OContains is the keyword `in` *)
| TNot
| TName (n : pname)
| TInt (n : N)               (* the tokenizer has no negative literals *)
| TStr (s : list N)
| TBytes (b : bytes).

(* ---- printing ---- *)
Definition cps_of_name (n : name) : list N := map Byte.to_N n.
Fixpoint name_of_cps (l : list N) : option name :=
  match l with
  | [] => Some []
  | c :: t => match Byte.of_N c, name_of_cps t with Some b, Some r => Some (b :: r) | _, _ => None end
  end.

Definition pr_int (z : Z) : list tok :=
  if (z <? 0)%Z then [TOp OSub; TInt (Z.to_N (- z))] else [TInt (Z.to_N z)].

(* constants with a literal spelling; floats (inf and nan have none), containers and labels are outside *)
Definition pr_const (v : val) : option (list tok) :=
  match v with
  | VInt z => Some (pr_int z)
  | VBool true => Some [TName NTrue]
  | VBool false => Some [TName NFalse]
  | VNone => Some [TName NNone]
  | VStr s => Some [TStr s]
  | VBytes b => Some [TBytes b]
  | _ => None
  end.

Definition pr_key (k : key) : list tok :=
  match k with KName n => [TStr (cps_of_name n)] | KIdx i => pr_int i end.

Definition un_tok (u : unop) : tok := match u with UNeg => TOp OSub | UPos => TOp OAdd | UNot => TNot end.

(* _operandrepr: nested unary expressions and negative numbers are parenthesised *)
Definition needs_parens (e : expr) : bool :=
  match e with
  | XUn _ _ => true
  | XConst (VInt z) => (z <? 0)%Z
  | _ => false
  end.

Fixpoint pr (e : expr) : option (list tok) :=
  let operand (x : expr) :=
    match pr x with
    | Some t => Some (if needs_parens x then TLP :: t ++ [TRP] else t)
    | None => None
    end in
  match e with
  | XRoot RThis => Some [TName NThis]
  | XRoot RObj => Some [TName NObj]
  | XList => Some [TName NLst]
  | XItem e' k => match pr e' with Some t => Some (t ++ TLB :: pr_key k ++ [TRB]) | None => None end
  | XConst v => pr_const v
  | XBin op a b =>
      match operand a, operand b with
      | Some ta, Some tb => Some (TLP :: ta ++ TOp op :: tb ++ [TRP])
      | _, _ => None
      end
  | XUn u a => match operand a with Some ta => Some (un_tok u :: ta) | None => None end
  | XFunc f a => match pr a with Some ta => Some (TName (NFunc f) :: TLP :: ta ++ [TRP]) | None => None end
  end.

(* ---- Python's grammar for these tokens ---- *)
(* binding strength of the binary operators (comparison < | < ^ < & < shifts < + - < * / // % < unary < ** ) *)
Definition prec (o : binop) : nat :=
  match o with
  | OGt | OGe | OLt | OLe | OEq | ONe | OContains => 3
  | OOr => 4
  | OXor => 5
  | OAnd => 6
  | OLshift | ORshift => 7
  | OAdd | OSub => 8
  | OMul | OTrueDiv | OFloorDiv | OMod => 9
  | OPow => 11
  end.
Definition unary_prec : nat := 10.
Definition is_cmp (o : binop) : bool := Nat.eqb (prec o) 3.
(* what the right operand is parsed at: one above for the left-associative operators; a ** b ** c groups to the right and
   its right operand is a `factor`, which admits a sign *)
Definition rhs_prec (o : binop) : nat := match o with OPow => unary_prec | _ => S (prec o) end.

Definition key_of_expr (e : expr) : option key :=
  match e with
  | XConst (VStr s) => match name_of_cps s with Some n => Some (KName n) | None => None end
  | XConst (VInt z) => Some (KIdx z)
  | XUn UNeg (XConst (VInt z)) => Some (KIdx (- z))
  | _ => None
  end.

(* `a in b` is operator.contains(b, a) *)
Definition mk_bin (o : binop) (l r : expr) : expr :=
  match o with OContains => XBin OContains r l | _ => XBin o l r end.

Fixpoint pexpr (fuel : nat) (minp : nat) (ts : list tok) {struct fuel} : option (expr * list tok) :=
  match fuel with
  | O => None
  | S f =>
      match ts with
      | TNot :: ts1 =>
          (* not_test: only where a whole test is allowed; nothing binary continues it *)
          if Nat.leb minp 2 then
            match pexpr f 2 ts1 with Some (a, ts2) => Some (XUn UNot a, ts2) | None => None end
          else None
      | TOp OSub :: ts1 =>
          match pexpr f unary_prec ts1 with Some (a, ts2) => ploop f minp false (XUn UNeg a) ts2 | None => None end
      | TOp OAdd :: ts1 =>
          match pexpr f unary_prec ts1 with Some (a, ts2) => ploop f minp false (XUn UPos a) ts2 | None => None end
      | _ =>
          match patom f ts with
          | Some (a, ts1) => match ptrail f a ts1 with Some (a', ts2) => ploop f minp false a' ts2 | None => None end
          | None => None
          end
      end
  end
with ploop (fuel : nat) (minp : nat) (seen_cmp : bool) (left : expr) (ts : list tok) {struct fuel} : option (expr * list tok) :=
  match fuel with
  | O => None
  | S f =>
      match ts with
      | TOp o :: ts1 =>
          if Nat.leb minp (prec o) then
            if is_cmp o && seen_cmp then None          (* a < b < c is a conjunction, not a tree of these operators *)
            else match pexpr f (rhs_prec o) ts1 with
                 | Some (r, ts2) => ploop f minp (is_cmp o) (mk_bin o left r) ts2
                 | None => None
                 end
          else Some (left, ts)
      | _ => Some (left, ts)
      end
  end
with patom (fuel : nat) (ts : list tok) {struct fuel} : option (expr * list tok) :=
  match fuel with
  | O => None
  | S f =>
      match ts with
      | TName NThis :: ts1 => Some (XRoot RThis, ts1)
      | TName NObj :: ts1 => Some (XRoot RObj, ts1)
      | TName NLst :: ts1 => Some (XList, ts1)
      | TName NTrue :: ts1 => Some (XConst (VBool true), ts1)
      | TName NFalse :: ts1 => Some (XConst (VBool false), ts1)
      | TName NNone :: ts1 => Some (XConst VNone, ts1)
      | TName (NFunc fn) :: TLP :: ts1 =>
          match pexpr f 0 ts1 with
          | Some (a, TRP :: ts2) => Some (XFunc fn a, ts2)
          | _ => None
          end
      | TInt n :: ts1 => Some (XConst (VInt (Z.of_N n)), ts1)
      | TStr s :: ts1 => Some (XConst (VStr s), ts1)
      | TBytes b :: ts1 => Some (XConst (VBytes b), ts1)
      | TLP :: ts1 =>
          match pexpr f 0 ts1 with
          | Some (a, TRP :: ts2) => Some (a, ts2)
          | _ => None
          end
      | _ => None
      end
  end
with ptrail (fuel : nat) (a : expr) (ts : list tok) {struct fuel} : option (expr * list tok) :=
  match fuel with
  | O => None
  | S f =>
      match ts with
      | TLB :: ts1 =>
          match pexpr f 0 ts1 with
          | Some (k, TRB :: ts2) =>
              match key_of_expr k with Some k' => ptrail f (XItem a k') ts2 | None => None end
          | _ => None
          end
      | _ => Some (a, ts)
      end
  end.

Definition pyparse (ts : list tok) : option expr :=
  match pexpr (8 * length ts + 8) 0 ts with
  | Some (e, []) => Some e
  | _ => None
  end.

(* what Python's parser gives for a negative literal: the sign applied to the magnitude *)
Fixpoint unfold_neg (e : expr) : expr :=
  match e with
  | XConst (VInt z) => if (z <? 0)%Z then XUn UNeg (XConst (VInt (- z))) else e
  | XItem e' k => XItem (unfold_neg e') k
  | XBin o a b => XBin o (unfold_neg a) (unfold_neg b)
  | XUn u a => XUn u (unfold_neg a)
  | XFunc f a => XFunc f (unfold_neg a)
  | _ => e
  end.
