(* Context expressions (construct/expr.py), contexts (the scope chain the interpreters build),
   and evaluation mirroring Path/BinExpr/UniExpr/FuncPath.__call__. *)
From Coq Require Import ZArith NArith List Bool.
From Coq Require Import Strings.Byte.
Require Import Bytes Value.
Import ListNotations.

Inductive binop :=
| OAdd | OSub | OMul | OTrueDiv | OFloorDiv | OMod | OPow | OXor | OLshift | ORshift | OAnd | OOr
| OGt | OGe | OLt | OLe | OEq | ONe | OContains.
Inductive unop := UNeg | UPos | UNot.
Inductive func := FLen | FSum | FMin | FMax | FAbs.
Inductive rootname := RThis | RObj.

Inductive key := KName (n : name) | KIdx (i : Z).

Inductive expr :=
| XRoot (r : rootname)               (* this / obj_ : the first call argument *)
| XList                              (* list_ : the second call argument *)
| XItem (e : expr) (k : key)         (* e.k  /  e[k] *)
| XConst (v : val)                   (* a non-callable operand *)
| XBin (op : binop) (a b : expr)
| XUn (op : unop) (a : expr)
| XFunc (f : func) (a : expr).       (* len_(a) ... *)

(* ---- contexts ---- *)

Inductive mode := MParse | MBuild | MSize.

(* one scope pushed by Struct/Sequence/FocusedSeq/Union/LazyStruct *)
Record scope := mkScope { s_vals : list (name * val); s_index : option val }.
(* s_index: the value under "_index" (a pushed scope always has the key; None here means the
   Python value None, which the code stores when the parent has no _index) *)

Record ctx := mkCtx {
  c_scopes : list scope;            (* innermost first *)
  c_top : list (name * val);        (* the call's keyword arguments *)
  c_topindex : option Z;            (* _index written into the top context by a repeater, if any *)
  c_mode : mode;
  c_opaque : bool                   (* the top context was made from a scope by Select._build /
                                       a re-entrant public call: its special keys are outside the model *)
}.

Definition top_ctx (kw : list (name * val)) (m : mode) : ctx := mkCtx [] kw None m false.

Definition push_scope (cx : ctx) : ctx :=
  let idx := match c_scopes cx with
             | s :: _ => s_index s
             | [] => match c_topindex cx with Some i => Some (VInt i) | None => None end
             end in
  mkCtx (mkScope [] idx :: c_scopes cx) (c_top cx) (c_topindex cx) (c_mode cx) (c_opaque cx).

(* context[name] = v in the innermost scope (or the top context) *)
Definition ctx_set (cx : ctx) (k : name) (v : val) : ctx :=
  match c_scopes cx with
  | s :: t => mkCtx (mkScope (dict_set k v (s_vals s)) (s_index s) :: t) (c_top cx) (c_topindex cx) (c_mode cx) (c_opaque cx)
  | [] => mkCtx [] (dict_set k v (c_top cx)) (c_topindex cx) (c_mode cx) (c_opaque cx)
  end.

Definition ctx_update (cx : ctx) (kv : list (name * val)) : ctx :=
  fold_left (fun c e => ctx_set c (fst e) (snd e)) kv cx.

(* context._index = i *)
Definition ctx_set_index (cx : ctx) (i : Z) : ctx :=
  match c_scopes cx with
  | s :: t => mkCtx (mkScope (s_vals s) (Some (VInt i)) :: t) (c_top cx) (c_topindex cx) (c_mode cx) (c_opaque cx)
  | [] => mkCtx [] (c_top cx) (Some i) (c_mode cx) (c_opaque cx)
  end.

(* the values of the innermost scope as a dictionary (what Struct._build returns) *)
Definition ctx_vals (cx : ctx) : list (name * val) :=
  match c_scopes cx with s :: _ => s_vals s | [] => c_top cx end.

(* ---- evaluation ---- *)

(* what a sub-expression denotes: a scope of the chain (by depth, 0 = innermost), the top context,
   or a plain value *)
Inductive cursor := CurScope (d : nat) | CurTop | CurVal (v : val).

Definition n_parsing : name := [x5f; x70; x61; x72; x73; x69; x6e; x67].          (* _parsing *)
Definition n_building : name := [x5f; x62; x75; x69; x6c; x64; x69; x6e; x67].    (* _building *)
Definition n_sizing : name := [x5f; x73; x69; x7a; x69; x6e; x67].                (* _sizing *)
Definition n_params : name := [x5f; x70; x61; x72; x61; x6d; x73].                (* _params *)
Definition n_root : name := [x5f; x72; x6f; x6f; x74].                            (* _root *)
Definition n_index : name := [x5f; x69; x6e; x64; x65; x78].                      (* _index *)
Definition n_up : name := [x5f].                                                  (* _ *)
Definition n_subcons : name := [x5f; x73; x75; x62; x63; x6f; x6e; x73].          (* _subcons *)
Definition n_io : name := [x5f; x69; x6f].                                        (* _io *)

Definition mode_flag (m : mode) (k : name) : option bool :=
  if name_eqb k n_parsing then Some (match m with MParse => true | _ => false end)
  else if name_eqb k n_building then Some (match m with MBuild => true | _ => false end)
  else if name_eqb k n_sizing then Some (match m with MSize => true | _ => false end)
  else None.

Definition key_error {A} : res A := Err EKey None.
Definition type_error {A} : res A := Err EType None.

(* ctx_cursor[k] *)
Definition item_scope (cx : ctx) (d : nat) (k : name) : res cursor :=
  match nth_error (c_scopes cx) d with
  | None => unsupported
  | Some s =>
      match lookup k (s_vals s) with
      | Some v => Ok (CurVal v)          (* a member value shadows nothing special: names never start with _ *)
      | None =>
          match mode_flag (c_mode cx) k with
          | Some b => Ok (CurVal (VBool b))
          | None =>
              if name_eqb k n_up then
                (if Nat.eqb (S d) (length (c_scopes cx)) then Ok CurTop else Ok (CurScope (S d)))
              else if name_eqb k n_params then Ok CurTop
              else if name_eqb k n_root then Ok (CurScope (length (c_scopes cx) - 1))
              else if name_eqb k n_index then
                Ok (CurVal (match s_index s with Some v => v | None => VNone end))
              else if name_eqb k n_subcons || name_eqb k n_io then unsupported
              else key_error
          end
      end
  end.

Definition item_top (cx : ctx) (k : name) : res cursor :=
  match lookup k (c_top cx) with
  | Some v => Ok (CurVal v)
  | None =>
      match mode_flag (c_mode cx) k with
      | Some b => Ok (CurVal (VBool b))
      | None =>
          if name_eqb k n_params then Ok CurTop
          else if name_eqb k n_index then
            match c_topindex cx with
            | Some i => Ok (CurVal (VInt i))
            | None => if c_opaque cx then unsupported else key_error end
          else if c_opaque cx && is_private k then unsupported
          else key_error
      end
  end.

(* value[k] : plain Python subscripting *)
Definition item_val (v : val) (k : key) : res cursor :=
  match v, k with
  | VDict kv, KName n => match lookup n kv with Some w => Ok (CurVal w) | None => key_error end
  | VDict _, KIdx _ => key_error
  | VList l, KIdx i =>
      let len := Z.of_nat (length l) in
      let j := (if i <? 0 then i + len else i)%Z in
      if ((j <? 0) || (len <=? j))%Z then Err EIndexErr None
      else match nth_error l (Z.to_nat j) with Some w => Ok (CurVal w) | None => Err EIndexErr None end
  | VList _, KName _ => type_error
  | VBytes l, KIdx i =>
      let len := Z.of_nat (length l) in
      let j := (if i <? 0 then i + len else i)%Z in
      if ((j <? 0) || (len <=? j))%Z then Err EIndexErr None
      else match nth_error l (Z.to_nat j) with
           | Some w => Ok (CurVal (VInt (Z.of_N (Byte.to_N w)))) | None => Err EIndexErr None end
  | VBytes _, KName _ => type_error
  | VStr _, _ => unsupported
  | VEnum _ _, _ => unsupported
  | _, _ => type_error
  end.

Definition item (cx : ctx) (c : cursor) (k : key) : res cursor :=
  match c, k with
  | CurScope d, KName n => item_scope cx d n
  | CurScope _, KIdx _ => key_error
  | CurTop, KName n => item_top cx n
  | CurTop, KIdx _ => key_error
  | CurVal v, _ => item_val v k
  end.

(* ---- Python operator semantics on values ---- *)

Definition zpow (a : Z) (b : Z) : Z := Z.pow a b.

Fixpoint list_leb {A} (ltb eqb : A -> A -> bool) (a b : list A) (strict : bool) : bool :=
  match a, b with
  | [], [] => negb strict
  | [], _ :: _ => true
  | _ :: _, [] => false
  | x :: a', y :: b' => if ltb x y then true else if eqb x y then list_leb ltb eqb a' b' strict else false
  end.

Definition byte_ltb (a b : byte) : bool := (Byte.to_N a <? Byte.to_N b)%N.

Definition cmp_op (op : binop) (lt eq : bool) : bool :=
  match op with
  | OGt => negb lt && negb eq | OGe => negb lt | OLt => lt | OLe => lt || eq
  | OEq => eq | ONe => negb eq | _ => false
  end.

Fixpoint repeat_list {A} (n : nat) (l : list A) : list A :=
  match n with O => [] | S n' => l ++ repeat_list n' l end.

(* shift amounts and exponents above this bound are outside the model (the real code would
   allocate astronomically large integers) *)
Definition big_bound : Z := 4096.

Definition apply_bin (op : binop) (a b : val) : res val :=
  match op with
  | OEq => Ok (VBool (val_eqb a b))
  | ONe => Ok (VBool (negb (val_eqb a b)))
  | OContains =>
      match a, b with
      | VList l, _ => Ok (VBool (existsb (fun x => val_eqb x b) l))
      | VBytes l, VInt z => if ((0 <=? z) && (z <? 256))%Z
                            then Ok (VBool (existsb (fun x => Z.eqb (Z.of_N (Byte.to_N x)) z) l))
                            else Err EValue None
      | VDict kv, _ => unsupported
      | _, _ => unsupported
      end
  | _ =>
    match int_of_val a, int_of_val b with
    | Some x, Some y =>
        match op with
        | OAdd => Ok (VInt (x + y))
        | OSub => Ok (VInt (x - y))
        | OMul => Ok (VInt (x * y))
        | OTrueDiv => if Z.eqb y 0 then Err EZeroDiv None else unsupported
        | OFloorDiv => if Z.eqb y 0 then Err EZeroDiv None else Ok (VInt (x / y))
        | OMod => if Z.eqb y 0 then Err EZeroDiv None else Ok (VInt (x mod y))
        | OPow => if (y <? 0)%Z then (if Z.eqb x 0 then Err EZeroDiv None else unsupported)
                  else if (big_bound <? y)%Z then unsupported else Ok (VInt (zpow x y))
        | OXor => match a, b with
                  | VBool p, VBool q => Ok (VBool (xorb p q))
                  | _, _ => Ok (VInt (Z.lxor x y)) end
        | OAnd => match a, b with
                  | VBool p, VBool q => Ok (VBool (andb p q))
                  | _, _ => Ok (VInt (Z.land x y)) end
        | OOr => match a, b with
                 | VBool p, VBool q => Ok (VBool (orb p q))
                 | _, _ => Ok (VInt (Z.lor x y)) end
        | OLshift => if (y <? 0)%Z then Err EValue None
                     else if (big_bound <? y)%Z then unsupported else Ok (VInt (Z.shiftl x y))
        | ORshift => if (y <? 0)%Z then Err EValue None else Ok (VInt (Z.shiftr x y))
        | OGt | OGe | OLt | OLe => Ok (VBool (cmp_op op (x <? y)%Z (x =? y)%Z))
        | _ => unsupported
        end
    | _, _ =>
        match op, a, b with
        | OAdd, VBytes x, VBytes y => Ok (VBytes (x ++ y))
        | OAdd, VStr x, VStr y => Ok (VStr (x ++ y))
        | OAdd, VList x, VList y => Ok (VList (x ++ y))
        | OMul, VBytes x, (VInt _ | VBool _) | OMul, (VInt _ | VBool _), VBytes x =>
            match int_of_val a, int_of_val b with
            | _, Some n | Some n, _ =>
                if (big_bound <? n)%Z then unsupported else Ok (VBytes (repeat_list (Z.to_nat n) x))
            | _, _ => unsupported
            end
        | (OGt | OGe | OLt | OLe), VBytes x, VBytes y =>
            Ok (VBool (cmp_op op (list_leb byte_ltb Byte.eqb x y true) (bytes_eqb x y)))
        | (OGt | OGe | OLt | OLe), VStr x, VStr y =>
            Ok (VBool (cmp_op op (list_leb N.ltb N.eqb x y true) (list_eqb N.eqb x y)))
        | _, VFloat _, _ | _, _, VFloat _ => unsupported
        | _, VEnum _ _, _ | _, _, VEnum _ _ => unsupported
        | (OMul | OMod), VStr _, _ | OMul, _, VStr _ | OMul, VList _, _ | OMul, _, VList _
        | OMod, VBytes _, _ => unsupported
        | (OGt | OGe | OLt | OLe), VList _, VList _ => unsupported
        | _, _, _ => type_error
        end
    end
  end.

Definition apply_un (op : unop) (a : val) : res val :=
  match op with
  | UNot => Ok (VBool (negb (truthy a)))
  | UNeg => match int_of_val a with Some x => Ok (VInt (- x)) | None =>
              match a with VFloat _ => unsupported | _ => type_error end end
  | UPos => match int_of_val a with Some x => Ok (VInt x) | None =>
              match a with VFloat _ => unsupported | _ => type_error end end
  end.

Definition sum_ints (l : list val) : res val :=
  fold_left (fun acc v => let* a := acc in apply_bin OAdd a v) l (Ok (VInt 0)).

Definition apply_func (f : func) (a : val) : res val :=
  match f with
  | FLen =>
      match a with
      | VBytes l => Ok (VInt (Z.of_nat (length l)))
      | VStr l => Ok (VInt (Z.of_nat (length l)))
      | VList l => Ok (VInt (Z.of_nat (length l)))
      | VDict l => Ok (VInt (Z.of_nat (length l)))
      | VEnum l _ => Ok (VInt (Z.of_nat (length l)))
      | _ => type_error
      end
  | FSum => match a with
            | VList l => sum_ints l
            | VBytes l => Ok (VInt (fold_left (fun acc b => acc + Z.of_N (Byte.to_N b)) l 0))%Z
            | VDict _ | VStr _ | VEnum _ _ => unsupported
            | _ => type_error end
  | FMin | FMax =>
      match a with
      | VList [] => Err EValue None
      | VList (x :: l) =>
          if forallb is_int (x :: l) then
            fold_left (fun acc v =>
              let* m := acc in
              match int_of_val m, int_of_val v with
              | Some p, Some q =>
                  (* min/max keep the first of equal elements *)
                  match f with
                  | FMin => if (q <? p)%Z then Ok v else Ok m
                  | _ => if (p <? q)%Z then Ok v else Ok m
                  end
              | _, _ => unsupported
              end) l (Ok x)
          else unsupported
      | VBytes [] => Err EValue None
      | VBytes _ | VStr _ | VDict _ | VEnum _ _ => unsupported
      | _ => type_error
      end
  | FAbs => match a with
            | VInt z => Ok (VInt (Z.abs z))
            | VBool b => Ok (VInt (if b then 1 else 0))
            | VFloat _ => unsupported
            | _ => type_error end
  end.

(* The value a cursor denotes when used as an operand.  A scope as an operand (e.g. this == x)
   is outside the model. *)
Definition cur_val (c : cursor) : res val :=
  match c with CurVal v => Ok v | _ => unsupported end.

(* eval e (first, second): expr(first, second, ...) *)
Fixpoint eval_cur (cx : ctx) (first : cursor) (second : option val) (e : expr) : res cursor :=
  match e with
  | XRoot _ => Ok first
  | XList => match second with Some v => Ok (CurVal v) | None => Err EIndexErr None end
  | XItem e' k => let* c := eval_cur cx first second e' in item cx c k
  | XConst v => Ok (CurVal v)
  | XBin op a b =>
      let* x := eval_cur cx first second a in
      let* y := eval_cur cx first second b in
      let* xv := cur_val x in let* yv := cur_val y in
      let* r := apply_bin op xv yv in Ok (CurVal r)
  | XUn op a =>
      let* x := eval_cur cx first second a in
      let* xv := cur_val x in
      let* r := apply_un op xv in Ok (CurVal r)
  | XFunc f a =>
      let* x := eval_cur cx first second a in
      let* xv := cur_val x in
      let* r := apply_func f xv in Ok (CurVal r)
  end.

(* evaluate(param, context) for a context parameter *)
Definition eval (cx : ctx) (e : expr) : res val :=
  let first := match c_scopes cx with [] => CurTop | _ => CurScope 0 end in
  let* c := eval_cur cx first None e in cur_val c.

(* predicate(obj, ctx) / validator(obj, ctx) / predicate(obj, list, ctx) *)
Definition eval_obj (cx : ctx) (obj : val) (lst : option val) (e : expr) : res val :=
  let* c := eval_cur cx (CurVal obj) lst e in cur_val c.
