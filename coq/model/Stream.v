(* Streams: io.BytesIO, BytesIOWithOffsets (a region of a parent stream that reports absolute
   offsets) and the view RestreamedBytesIO gives of a stream (tell counts bytes, seek only to the
   current position).  stream_read/_write/_seek/_tell of core.py with their StreamError. *)
From Coq Require Import ZArith NArith List Bool.
From Coq Require Import Strings.Byte.
Require Import Bytes Value.
Import ListNotations.

Record istream := mkI {
  idata : bytes;      (* the whole buffer *)
  ipos : nat;         (* position in the buffer (may exceed its length after a seek) *)
  ibase : nat;        (* absolute offset of idata[0] in the outermost stream *)
  iseekable : bool    (* false: RestreamedBytesIO *)
}.

Definition istream_of (data : bytes) : istream := mkI data 0 0 true.
Definition substream (data : bytes) (base : nat) : istream := mkI data 0 base true.
Definition iset_pos (s : istream) (p : nat) : istream := mkI (idata s) p (ibase s) (iseekable s).

Definition itell (s : istream) : Z := Z.of_nat (ibase s + ipos s).
Definition iavail (s : istream) : bytes := skipn (ipos s) (idata s).

(* stream_read(stream, length, path) *)
Definition iread (s : istream) (n : Z) (p : path) : res (bytes * istream) :=
  if (n <? 0)%Z then raise EStream p
  else
    let k := Z.to_nat n in
    let av := iavail s in
    if Nat.ltb (length av) k then raise EStream p
    else Ok (firstn k av, iset_pos s (ipos s + k)).

(* stream_read_entire *)
Definition iread_all (s : istream) : bytes * istream :=
  (iavail s, iset_pos s (Nat.max (ipos s) (length (idata s)))).

(* stream_seek(stream, offset, whence, path); returns the new absolute position *)
Definition iseek (s : istream) (off : Z) (whence : Z) (p : path) : res (Z * istream) :=
  if negb (iseekable s) then
    (if (whence =? 0)%Z && (off =? itell s)%Z then Ok (itell s, s) else raise EStream p)
  else if (whence =? 0)%Z then
    let rel := (off - Z.of_nat (ibase s))%Z in
    if (rel <? 0)%Z then raise EStream p
    else let s' := iset_pos s (Z.to_nat rel) in Ok (itell s', s')
  else if (whence =? 1)%Z then
    let np := Z.max 0 (Z.of_nat (ipos s) + off) in
    let s' := iset_pos s (Z.to_nat np) in Ok (itell s', s')
  else if (whence =? 2)%Z then
    let np := Z.max 0 (Z.of_nat (length (idata s)) + off) in
    let s' := iset_pos s (Z.to_nat np) in Ok (itell s', s')
  else raise EStream p.

(* ---- output ---- *)
Record ostream := mkO {
  odata : bytes;
  opos : nat;
  oseekable : bool
}.
Definition ostream_new : ostream := mkO [] 0 true.
Definition otell (o : ostream) : Z := Z.of_nat (opos o).

Definition zeros (n : nat) : bytes := repeat x00 n.

(* BytesIO.write at the current position: overwrite, extend, zero-fill a gap *)
Definition owrite_raw (o : ostream) (d : bytes) : ostream :=
  let cur := odata o in
  let pre := if Nat.leb (opos o) (length cur) then firstn (opos o) cur
             else cur ++ zeros (opos o - length cur) in
  mkO (pre ++ d ++ skipn (opos o + length d) cur) (opos o + length d) (oseekable o).

(* stream_write(stream, data, length, path) for a bytes value *)
Definition owrite (o : ostream) (d : bytes) (len : Z) (p : path) : res ostream :=
  if (len <? 0)%Z then raise EStream p
  else if negb (Z.of_nat (length d) =? len)%Z then raise EStream p
  else Ok (owrite_raw o d).

Definition oseek (o : ostream) (off : Z) (whence : Z) (p : path) : res (Z * ostream) :=
  if negb (oseekable o) then
    (if (whence =? 0)%Z && (off =? otell o)%Z then Ok (otell o, o) else raise EStream p)
  else if (whence =? 0)%Z then
    if (off <? 0)%Z then raise EStream p
    else Ok (off, mkO (odata o) (Z.to_nat off) true)
  else if (whence =? 1)%Z then
    let np := Z.max 0 (Z.of_nat (opos o) + off) in Ok (np, mkO (odata o) (Z.to_nat np) true)
  else if (whence =? 2)%Z then
    let np := Z.max 0 (Z.of_nat (length (odata o)) + off) in Ok (np, mkO (odata o) (Z.to_nat np) true)
  else raise EStream p.

(* stream_read on an output BytesIO (RawCopy reads back what was built) *)
Definition oread (o : ostream) (n : Z) (p : path) : res (bytes * ostream) :=
  if (n <? 0)%Z then raise EStream p
  else
    let k := Z.to_nat n in
    let av := skipn (opos o) (odata o) in
    if Nat.ltb (length av) k then raise EStream p
    else Ok (firstn k av, mkO (odata o) (opos o + k) (oseekable o)).
