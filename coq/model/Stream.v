(* Streams: io.BytesIO, BytesIOWithOffsets (a region of a parent stream that reports absolute
   offsets) and the view RestreamedBytesIO gives of a stream (tell counts bytes, seek only to the
   current position).  stream_read/_write/_seek/_tell of core.py with their StreamError.
   Positions are binary numbers (N): a seek may go anywhere, far beyond the data. *)
From Coq Require Import ZArith NArith List Bool.
From Coq Require Import Strings.Byte.
Require Import Bytes Value.
Import ListNotations.

Record istream := mkI {
  idata : bytes;      (* the whole buffer *)
  ipos : N;           (* position in the buffer (may exceed its length after a seek) *)
  ibase : N;          (* absolute offset of idata[0] in the outermost stream *)
  iseekable : bool    (* false: RestreamedBytesIO *)
}.

Definition nlen {A} (l : list A) : N := N.of_nat (length l).

Definition istream_of (data : bytes) : istream := mkI data 0 0 true.
Definition substream (data : bytes) (base : N) : istream := mkI data 0 base true.
Definition iset_pos (s : istream) (p : N) : istream := mkI (idata s) p (ibase s) (iseekable s).

Definition itell (s : istream) : Z := Z.of_N (ibase s + ipos s).
Definition iabs (s : istream) : N := (ibase s + ipos s)%N.
(* the unread bytes *)
Definition iavail (s : istream) : bytes :=
  if (nlen (idata s) <=? ipos s)%N then [] else skipn (N.to_nat (ipos s)) (idata s).

(* stream_read(stream, length, path) *)
Definition iread (s : istream) (n : Z) (p : path) : res (bytes * istream) :=
  if (n <? 0)%Z then raise EStream p
  else
    let av := iavail s in
    if (Z.of_nat (length av) <? n)%Z then raise EStream p
    else Ok (firstn (Z.to_nat n) av, iset_pos s (ipos s + Z.to_N n)).

(* stream_read_entire *)
Definition iread_all (s : istream) : bytes * istream :=
  (iavail s, iset_pos s (N.max (ipos s) (nlen (idata s)))).

(* io.BytesIO positions are C ssize_t: an offset or a resulting position beyond it is OverflowError, which
   stream_seek reports as StreamError.  Only Seek and Pointer pass user-controlled offsets: they use iseek_user /
   oseek_user; the library's own seeks go back to positions that tell() returned. *)
Definition pos_max : Z := 9223372036854775807.
Definition seek_overflows (off cur : Z) : bool := ((pos_max <? off) || (off <? - pos_max - 1) || (pos_max <? cur + off))%Z.

(* stream_seek(stream, offset, whence, path); returns the new absolute position *)
Definition iseek (s : istream) (off : Z) (whence : Z) (p : path) : res (Z * istream) :=
  if negb (iseekable s) then
    (if (whence =? 0)%Z && (off =? itell s)%Z then Ok (itell s, s) else raise EStream p)
  else if (whence =? 0)%Z then
    let rel := (off - Z.of_N (ibase s))%Z in
    if (rel <? 0)%Z then raise EStream p
    else let s' := iset_pos s (Z.to_N rel) in Ok (itell s', s')
  else if (whence =? 1)%Z then
    let np := Z.max 0 (Z.of_N (ipos s) + off) in
    let s' := iset_pos s (Z.to_N np) in Ok (itell s', s')
  else if (whence =? 2)%Z then
    let np := Z.max 0 (Z.of_nat (length (idata s)) + off) in
    let s' := iset_pos s (Z.to_N np) in Ok (itell s', s')
  else raise EStream p.

(* ---- output ---- *)
Record ostream := mkO {
  odata : bytes;
  opos : N;
  oseekable : bool
}.
Definition ostream_new : ostream := mkO [] 0 true.
Definition otell (o : ostream) : Z := Z.of_N (opos o).

Definition zeros (n : nat) : bytes := repeat x00 n.

(* allocations above this many bytes (zero fill after a far seek, padding) are outside the model:
   the real code would raise MemoryError or run for a very long time *)
Definition alloc_bound : Z := 1048576.

(* BytesIO.write at the current position: overwrite, extend, zero-fill a gap *)
Definition owrite_raw (o : ostream) (d : bytes) : res ostream :=
  let cur := odata o in
  let len := nlen cur in
  if (opos o <=? len)%N then
    let k := N.to_nat (opos o) in
    Ok (mkO (firstn k cur ++ d ++ skipn (k + length d) cur) (opos o + nlen d) (oseekable o))
  else if (alloc_bound <? Z.of_N (opos o - len))%Z then unsupported
  else Ok (mkO (cur ++ zeros (N.to_nat (opos o - len)) ++ d) (opos o + nlen d) (oseekable o)).

(* stream_write(stream, data, length, path) for a bytes value *)
Definition owrite (o : ostream) (d : bytes) (len : Z) (p : path) : res ostream :=
  if (len <? 0)%Z then raise EStream p
  else if negb (Z.of_nat (length d) =? len)%Z then raise EStream p
  else owrite_raw o d.

Definition oseek (o : ostream) (off : Z) (whence : Z) (p : path) : res (Z * ostream) :=
  if negb (oseekable o) then
    (if (whence =? 0)%Z && (off =? otell o)%Z then Ok (otell o, o) else raise EStream p)
  else if (whence =? 0)%Z then
    if (off <? 0)%Z then raise EStream p
    else Ok (off, mkO (odata o) (Z.to_N off) true)
  else if (whence =? 1)%Z then
    let np := Z.max 0 (Z.of_N (opos o) + off) in Ok (np, mkO (odata o) (Z.to_N np) true)
  else if (whence =? 2)%Z then
    let np := Z.max 0 (Z.of_nat (length (odata o)) + off) in Ok (np, mkO (odata o) (Z.to_N np) true)
  else raise EStream p.

(* stream_read on an output BytesIO (RawCopy reads back what was built) *)
Definition oread (o : ostream) (n : Z) (p : path) : res (bytes * ostream) :=
  if (n <? 0)%Z then raise EStream p
  else
    let av := if (nlen (odata o) <=? opos o)%N then [] else skipn (N.to_nat (opos o)) (odata o) in
    if (Z.of_nat (length av) <? n)%Z then raise EStream p
    else Ok (firstn (Z.to_nat n) av, mkO (odata o) (opos o + Z.to_N n) (oseekable o)).

Definition iseek_user (s : istream) (off : Z) (whence : Z) (p : path) : res (Z * istream) :=
  if iseekable s && seek_overflows off (if (whence =? 1)%Z then Z.of_N (ipos s) else if (whence =? 2)%Z then Z.of_nat (length (idata s)) else 0%Z)
  then raise EStream p else iseek s off whence p.
Definition oseek_user (o : ostream) (off : Z) (whence : Z) (p : path) : res (Z * ostream) :=
  if oseekable o && seek_overflows off (if (whence =? 1)%Z then Z.of_N (opos o) else if (whence =? 2)%Z then Z.of_nat (length (odata o)) else 0%Z)
  then raise EStream p else oseek o off whence p.
