(* Byte-level algorithms of construct/lib/binary.py and of the integer constructs of core.py
   (VarInt, ZigZag).  Executable definitions only; facts are in proofs/BytesFacts.v. *)
From Coq Require Import ZArith NArith List Bool.
From Coq Require Import Strings.Byte.
Import ListNotations.
Open Scope N_scope.

Definition byte_of_N (n : N) : byte :=
  match Byte.of_N (n mod 256) with Some b => b | None => x00 end.

Definition bytes := list byte.

(* int.to_bytes(number, width, 'big') on the non-negative pattern *)
Fixpoint be_encode (w : nat) (n : N) : bytes :=
  match w with
  | O => []
  | S w' => be_encode w' (n / 256) ++ [byte_of_N n]
  end.

(* int.from_bytes(data, 'big') *)
Definition be_decode (bs : bytes) : N :=
  fold_left (fun acc b => acc * 256 + Byte.to_N b) bs 0.

(* two's complement range of [bits] bits *)
Definition in_range (signed : bool) (bits : N) (z : Z) : bool :=
  if signed then ((- Z.of_N (2 ^ bits / 2) <=? z) && (z <=? Z.of_N (2 ^ bits / 2) - 1))%Z
  else ((0 <=? z) && (z <=? Z.of_N (2 ^ bits) - 1))%Z.

(* the non-negative bit pattern of z in [bits] bits *)
Definition pattern (bits : N) (z : Z) : N := Z.to_N (z mod Z.of_N (2 ^ bits)).

(* value of a pattern under two's complement *)
Definition unpattern (signed : bool) (bits : N) (n : N) : Z :=
  if signed && (2 ^ bits / 2 <=? n) then (Z.of_N n - Z.of_N (2 ^ bits))%Z else Z.of_N n.

(* integer2bytes(number, width, signed): None = ValueError *)
Definition integer2bytes (z : Z) (w : nat) (signed : bool) : option bytes :=
  match w with
  | O => None
  | _ => if in_range signed (8 * N.of_nat w) z then Some (be_encode w (pattern (8 * N.of_nat w) z)) else None
  end.

(* bytes2integer(data, signed): None = ValueError (empty) *)
Definition bytes2integer (bs : bytes) (signed : bool) : option Z :=
  match bs with
  | [] => None
  | _ => Some (unpattern signed (8 * N.of_nat (length bs)) (be_decode bs))
  end.

(* ---- bit strings: one byte (x00 / x01) per bit ---- *)

Definition bit_of_bool (b : bool) : byte := if b then x01 else x00.

(* width bits of n, most significant first *)
Fixpoint bits_of_N (w : nat) (n : N) : bytes :=
  match w with
  | O => []
  | S w' => bits_of_N w' (n / 2) ++ [bit_of_bool (N.odd n)]
  end.

(* integer2bits: None = ValueError *)
Definition integer2bits (z : Z) (w : nat) (signed : bool) : option bytes :=
  match w with
  | O => None
  | _ => if in_range signed (N.of_nat w) z then Some (bits_of_N w (pattern (N.of_nat w) z)) else None
  end.

(* bits2integer: number = number << 1 | b over *all* bytes (they need not be 0/1) *)
Definition bits_fold (bs : bytes) : N :=
  fold_left (fun acc b => N.lor (acc * 2) (Byte.to_N b)) bs 0.

Definition bits2integer (bs : bytes) (signed : bool) : option Z :=
  match bs with
  | [] => None
  | b0 :: _ =>
      let n := bits_fold bs in
      if signed && negb (Byte.to_N b0 =? 0) then Some (Z.of_N n - Z.of_N (2 ^ N.of_nat (length bs)))%Z
      else Some (Z.of_N n)
  end.

Definition bytes2bits (bs : bytes) : bytes :=
  flat_map (fun b => bits_of_N 8 (Byte.to_N b)) bs.

Definition is_bit (b : byte) : bool := match b with x00 | x01 => true | _ => false end.

(* bits2bytes: ErrLen = ValueError (length), ErrKey = KeyError (a chunk with a non-0/1 byte) *)
Inductive b2b_result := B2BOk (bs : bytes) | B2BLen | B2BKey.

Fixpoint chunks8 (fuel : nat) (bs : bytes) : list bytes :=
  match fuel with
  | O => []
  | S f => match bs with
           | [] => []
           | _ => firstn 8 bs :: chunks8 f (skipn 8 bs)
           end
  end.

Definition bits2bytes (bs : bytes) : b2b_result :=
  if negb (Nat.eqb (Nat.modulo (length bs) 8) 0) then B2BLen
  else if forallb is_bit bs then B2BOk (map (fun ch => byte_of_N (bits_fold ch)) (chunks8 (length bs) bs))
  else B2BKey.

Definition swapbytes (bs : bytes) : bytes := rev bs.

(* swapbytesinbits: None = ValueError *)
Definition swapbytesinbits (bs : bytes) : option bytes :=
  if negb (Nat.eqb (Nat.modulo (length bs) 8) 0) then None
  else Some (concat (rev (chunks8 (length bs) bs))).

Definition bitrev8 (b : byte) : byte := byte_of_N (bits_fold (rev (bits_of_N 8 (Byte.to_N b)))).
Definition swapbitsinbytes (bs : bytes) : bytes := map bitrev8 bs.

(* ---- VarInt (LEB128) and ZigZag ---- *)

(* VarInt._build: while x > 127: emit 0x80 | x & 0x7f; x >>= 7.  Fuel = bit size, never exhausted. *)
Fixpoint varint_enc_fuel (fuel : nat) (x : N) : bytes :=
  match fuel with
  | O => [byte_of_N x]
  | S f => if 127 <? x then byte_of_N (128 + x mod 128) :: varint_enc_fuel f (x / 128)
           else [byte_of_N x]
  end.
Definition varint_encode (x : N) : bytes := varint_enc_fuel (N.to_nat (N.size x)) x.

(* VarInt._parse on a byte list: returns value and rest; None = ran out of bytes (StreamError) *)
Fixpoint varint_decode (bs : bytes) : option (N * bytes) :=
  match bs with
  | [] => None
  | b :: t =>
      let n := Byte.to_N b in
      if n <? 128 then Some (n, t)
      else match varint_decode t with
           | Some (hi, rest) => Some (hi * 128 + (n - 128), rest)
           | None => None
           end
  end.

Definition zigzag_enc (z : Z) : N := if (0 <=? z)%Z then Z.to_N (2 * z) else Z.to_N (2 * Z.abs z - 1).
Definition zigzag_dec (n : N) : Z := if N.even n then Z.of_N (n / 2) else (- (Z.of_N (n / 2) + 1))%Z.

(* ---- cyclic xor, rotations (ProcessXor / ProcessRotateLeft) ---- *)

Definition xor_byte (a b : byte) : byte := byte_of_N (N.lxor (Byte.to_N a) (Byte.to_N b)).

Fixpoint xor_cycle_aux (key cur : bytes) (data : bytes) : bytes :=
  match data with
  | [] => []
  | d :: t => match cur with
              | k :: cur' => xor_byte d k :: xor_cycle_aux key cur' t
              | [] => match key with
                      | k :: cur' => xor_byte d k :: xor_cycle_aux key cur' t
                      | [] => []   (* zip with an empty cycle is empty *)
                      end
              end
  end.
Definition xor_cycle (key data : bytes) : bytes := xor_cycle_aux key key data.

(* rotate one byte left by a (1..7): (i << a) & 0xff | i >> (8 - a) *)
Definition rotl8 (a : N) (b : byte) : byte :=
  let i := Byte.to_N b in byte_of_N (N.lor (N.land (N.shiftl i a) 255) (N.shiftr i (8 - a))).

Definition nth_byte (bs : bytes) (i : nat) : byte := nth i bs x00.

(* one group, general branch: out[i] = (g[(i+ab)%G] << a1) & 255 | g[(i+1+ab)%G] >> (8-a1) *)
Definition rot_group (amount : N) (g : bytes) : bytes :=
  let G := length g in
  let ab := N.to_nat (amount / 8) in
  let a1 := amount mod 8 in
  if amount =? 0 then g
  else if Nat.eqb G 1 then map (rotl8 amount) g
  else if a1 =? 0 then map (fun i => nth_byte g (Nat.modulo (i + ab) G)) (seq 0 G)
  else map (fun i =>
         let x := Byte.to_N (nth_byte g (Nat.modulo (i + ab) G)) in
         let y := Byte.to_N (nth_byte g (Nat.modulo (i + 1 + ab) G)) in
         byte_of_N (N.lor (N.land (N.shiftl x a1) 255) (N.shiftr y (8 - a1)))) (seq 0 G).

Fixpoint chunksn (n : nat) (fuel : nat) (bs : bytes) : list bytes :=
  match fuel with
  | O => []
  | S f => match bs with
           | [] => []
           | _ => firstn n bs :: chunksn n f (skipn n bs)
           end
  end.

(* data rotated left by [amount] (already reduced mod 8*group) within groups; None = RotationError *)
Definition rotate_left (amount : N) (group : nat) (data : bytes) : option bytes :=
  match group with
  | O => None
  | _ => if negb (Nat.eqb (Nat.modulo (length data) group) 0) then None
         else Some (concat (map (rot_group amount) (chunksn group (length data) data)))
  end.
