(* Values, error classes, result monad. *)
From Coq Require Import ZArith NArith List Bool.
From Coq Require Import Strings.Byte.
Require Import Bytes Float.
Import ListNotations.

Definition name := list byte.

Definition byte_eqb (a b : byte) : bool := Byte.eqb a b.
Fixpoint bytes_eqb (a b : bytes) : bool :=
  match a, b with
  | [], [] => true
  | x :: a', y :: b' => Byte.eqb x y && bytes_eqb a' b'
  | _, _ => false
  end.
Definition name_eqb := bytes_eqb.

Inductive val :=
| VNone
| VBool (b : bool)
| VInt (z : Z)
| VFloat (bits : N)               (* IEEE binary64 bit pattern *)
| VBytes (b : bytes)
| VStr (cps : list N)             (* code points *)
| VList (l : list val)
| VDict (kv : list (name * val))  (* Container, insertion order; keys are identifiers *)
| VEnum (label : name) (z : Z).   (* EnumIntegerString: a str carrying .intvalue *)

(* One constructor per ConstructError subclass; then foreign Python exceptions; then meta outcomes
   that never stand for a behaviour of the code: EDiverge (fuel exhausted = the code loops for ever),
   EUnsupported (the case is outside the model; the correspondence skips and counts it). *)
Inductive err :=
| EStream | EFormatField | EInteger | EString | EMapping | ERange | ERepeat | EConst | EIndexField
| ECheck | EExplicit | EUnion | ESelect | ESwitch | EStopField | EPadding | ETerminated | ERawCopy
| ERotation | EChecksum | ESizeof | EValidation | EAdaptation | ECancel | EConstruct
| EKey | EType | EAttr | EValue | EIndexErr | EZeroDiv | EOverflow | EForeign
| EDiverge | EUnsupported.

Definition is_construct_error (e : err) : bool :=
  match e with
  | EKey | EType | EAttr | EValue | EIndexErr | EZeroDiv | EOverflow | EForeign
  | EDiverge | EUnsupported => false
  | _ => true
  end.

Definition is_meta (e : err) : bool :=
  match e with EDiverge | EUnsupported => true | _ => false end.

Definition err_eqb (a b : err) : bool :=
  match a, b with
  | EStream, EStream | EFormatField, EFormatField | EInteger, EInteger | EString, EString
  | EMapping, EMapping | ERange, ERange | ERepeat, ERepeat | EConst, EConst
  | EIndexField, EIndexField | ECheck, ECheck | EExplicit, EExplicit | EUnion, EUnion
  | ESelect, ESelect | ESwitch, ESwitch | EStopField, EStopField | EPadding, EPadding
  | ETerminated, ETerminated | ERawCopy, ERawCopy | ERotation, ERotation | EChecksum, EChecksum
  | ESizeof, ESizeof | EValidation, EValidation | EAdaptation, EAdaptation | ECancel, ECancel
  | EConstruct, EConstruct | EKey, EKey | EType, EType | EAttr, EAttr | EValue, EValue
  | EIndexErr, EIndexErr | EZeroDiv, EZeroDiv | EOverflow, EOverflow | EForeign, EForeign
  | EDiverge, EDiverge | EUnsupported, EUnsupported => true
  | _, _ => false
  end.

(* the error path: names appended by Renamed, outermost first; None = raised without path= *)
Definition path := list name.

Inductive res (A : Type) :=
| Ok (a : A)
| Err (e : err) (p : option path).
Arguments Ok {A} a.
Arguments Err {A} e p.

Definition bind {A B} (x : res A) (f : A -> res B) : res B :=
  match x with Ok a => f a | Err e p => Err e p end.
Notation "'let*' x ':=' e 'in' f" := (bind e (fun x => f)) (at level 200, x pattern, right associativity).

Definition raise {A} (e : err) (p : path) : res A := Err e (Some p).
Definition raise_np {A} (e : err) : res A := Err e None.
Definition unsupported {A} : res A := Err EUnsupported None.

(* ---- Python-level helpers on values ---- *)

Fixpoint list_eqb {A} (eqb : A -> A -> bool) (a b : list A) : bool :=
  match a, b with
  | [], [] => true
  | x :: a', y :: b' => eqb x y && list_eqb eqb a' b'
  | _, _ => false
  end.

Fixpoint lookup (k : name) (kv : list (name * val)) : option val :=
  match kv with
  | [] => None
  | (k', v) :: t => if name_eqb k k' then Some v else lookup k t
  end.

(* dict item assignment: keeps the position of an existing key, else appends *)
Fixpoint dict_set (k : name) (v : val) (kv : list (name * val)) : list (name * val) :=
  match kv with
  | [] => [(k, v)]
  | (k', v') :: t => if name_eqb k k' then (k, v) :: t else (k', v') :: dict_set k v t
  end.

Definition dict_update (kv upd : list (name * val)) : list (name * val) :=
  fold_left (fun acc e => dict_set (fst e) (snd e) acc) upd kv.

Definition is_private (k : name) : bool :=
  match k with x5f :: _ => true | _ => false end.   (* starts with "_" *)

(* IEEE binary64 helpers on patterns, enough for == *)
Definition f64_is_nan (b : N) : bool :=
  (N.land (N.shiftr b 52) 2047 =? 2047)%N && negb (N.land b 4503599627370495 =? 0)%N.
Definition f64_is_zero (b : N) : bool := (N.land b 9223372036854775807 =? 0)%N.
Definition f64_eqb (a b : N) : bool :=
  if f64_is_nan a || f64_is_nan b then false
  else if f64_is_zero a && f64_is_zero b then true
  else (a =? b)%N.

(* Python's int == float: exact comparison of the integer with the value of the binary64 pattern *)
Definition f64_int_eqb (z : Z) (b : N) : bool :=
  if is_nan binary64 b || is_inf binary64 b then false
  else
    let '(sig, ex) := f_sig_ex binary64 b in
    let neg := N.eqb (f_sign binary64 b) 1 in
    let mag := Z.to_N (Z.abs z) in
    let sign_ok := if N.eqb sig 0 then true else Bool.eqb neg (z <? 0)%Z in
    sign_ok &&
    (if (0 <=? ex)%Z then N.eqb mag (sig * 2 ^ Z.to_N ex)
     else let k := Z.to_N (- ex) in N.eqb (sig mod 2 ^ k) 0 && N.eqb mag (sig / 2 ^ k)).

Definition int_of_val (v : val) : option Z :=
  match v with
  | VInt z => Some z
  | VBool b => Some (if b then 1 else 0)%Z
  | _ => None
  end.

(* Python == on model values.  Container.__eq__ ignores order and private keys; a str never equals
   bytes; True == 1; an EnumIntegerString compares as the str it is.  int == float is not
   modelled (callers treat VFloat against ints as unequal only when that is exact: never needed). *)
Fixpoint val_eqb (a b : val) {struct a} : bool :=
  match a, b with
  | VNone, VNone => true
  | VBool x, VBool y => Bool.eqb x y
  | VBool x, VInt z | VInt z, VBool x => Z.eqb z (if x then 1 else 0)
  | VInt x, VInt y => Z.eqb x y
  | VFloat x, VFloat y => f64_eqb x y
  | VInt z, VFloat x | VFloat x, VInt z => f64_int_eqb z x
  | VBool t, VFloat x | VFloat x, VBool t => f64_int_eqb (if t then 1 else 0) x
  | VBytes x, VBytes y => bytes_eqb x y
  | VStr x, VStr y => list_eqb N.eqb x y
  | VEnum l _, VEnum l' _ => bytes_eqb l l'
  | VEnum l _, VStr s | VStr s, VEnum l _ => list_eqb N.eqb (map Byte.to_N l) s
  | VList x, VList y =>
      (fix go (x y : list val) : bool :=
         match x, y with
         | [], [] => true
         | u :: x', w :: y' => val_eqb u w && go x' y'
         | _, _ => false
         end) x y
  | VDict x, VDict y =>
      (fix go (x : list (name * val)) : bool :=
         match x with
         | [] => true
         | (k, v) :: t =>
             (if is_private k then true
              else match lookup k y with Some w => val_eqb v w | None => false end) && go t
         end) x
      && forallb (fun kw => is_private (fst kw) ||
                            match lookup (fst kw) x with Some _ => true | None => false end) y
  | _, _ => false
  end.

(* truthiness, bool(v) *)
Definition truthy (v : val) : bool :=
  match v with
  | VNone => false
  | VBool b => b
  | VInt z => negb (Z.eqb z 0)
  | VFloat b => negb (f64_is_zero b)
  | VBytes l => match l with [] => false | _ => true end
  | VStr l => match l with [] => false | _ => true end
  | VList l => match l with [] => false | _ => true end
  | VDict l => match l with [] => false | _ => true end
  | VEnum l _ => match l with [] => false | _ => true end
  end.

Definition is_int (v : val) : bool :=   (* isinstance(obj, int): bools are ints *)
  match v with VInt _ | VBool _ => true | _ => false end.
