(* _parse, class by class, mirroring core.py including its error classes. *)
From Coq Require Import ZArith NArith List Bool.
From Coq Require Import Strings.Byte.
Require Import Bytes Value Expr Codec Float Stream Syntax Sizeof.
Import ListNotations.

Definition parser := ctx -> path -> istream -> res (val * istream).

Definition vint_of (v : val) : res Z :=
  match v with
  | VInt z => Ok z
  | VBool b => Ok (if b then 1 else 0)%Z
  | VFloat _ => unsupported
  | _ => type_error
  end.

(* ---- primitives ---- *)

Definition fmt_of (f : fcode) : fmt :=
  match f with Fe => binary16 | Ff => binary32 | _ => binary64 end.

Definition parse_format (en : endian) (f : fcode) (p : path) (s : istream) : res (val * istream) :=
  let* (d, s') := iread s (Z.of_nat (fcode_size f)) p in
  let d := match en with Big => d | Little => rev d end in
  let n := be_decode d in
  if fcode_float f then Ok (VFloat (widen (fmt_of f) n), s')
  else Ok (VInt (unpattern (fcode_signed f) (8 * N.of_nat (fcode_size f)) n), s').

Fixpoint varint_loop (fuel : nat) (s : istream) (p : path) : res (N * istream) :=
  match fuel with
  | O => Err EDiverge None
  | S f =>
      let* (d, s') := iread s 1 p in
      match d with
      | b :: _ =>
          let n := Byte.to_N b in
          if (n <? 128)%N then Ok (n, s')
          else let* (hi, s'') := varint_loop f s' p in Ok ((hi * 128 + (n - 128))%N, s'')
      | [] => raise EStream p
      end
  end.
Definition parse_varint (s : istream) (p : path) : res (N * istream) :=
  varint_loop (S (length (iavail s))) s p.

(* ---- loops shared by the composites (the recursive call is a parameter) ---- *)

Definition is_stopif (c : con) : bool :=
  match c with CStopIf _ | CRenamed _ (CStopIf _) => true | _ => false end.

Definition struct_loop (P : con -> parser) :=
  fix go (cs : list con) (cx : ctx) (p : path) (acc : list (name * val)) (s : istream)
    : res (list (name * val) * ctx * istream) :=
    match cs with
    | [] => Ok (acc, cx, s)
    | c :: t =>
        match P c cx p s with
        | Ok (v, s') =>
            match name_of c with
            | Some n => go t (ctx_set cx n v) p (dict_set n v acc) s'
            | None => go t cx p acc s'
            end
        | Err EStopField q => if is_stopif c then Ok (acc, cx, s) else unsupported
        | Err e q => Err e q
        end
    end.

Definition seq_loop (P : con -> parser) :=
  fix go (cs : list con) (cx : ctx) (p : path) (s : istream) : res (list val * istream) :=
    match cs with
    | [] => Ok ([], s)
    | c :: t =>
        match P c cx p s with
        | Ok (v, s') =>
            let cx' := match name_of c with Some n => ctx_set cx n v | None => cx end in
            let* (vs, s'') := go t cx' p s' in Ok (v :: vs, s'')
        | Err EStopField q => if is_stopif c then Ok ([], s) else unsupported
        | Err e q => Err e q
        end
    end.

(* FocusedSeq: parse all, remember the value of the member whose name is sel *)
Definition focus_loop (P : con -> parser) (sel : name) :=
  fix go (cs : list con) (cx : ctx) (p : path) (fin : option val) (s : istream)
    : res (option val * istream) :=
    match cs with
    | [] => Ok (fin, s)
    | c :: t =>
        let* (v, s') := P c cx p s in
        match name_of c with
        | Some n => go t (ctx_set cx n v) p (if name_eqb n sel then Some v else fin) s'
        | None => go t cx p fin s'
        end
    end.

(* n-fold iteration with early exit, by recursion on the binary representation: a count of 2^40
   costs 40 steps once the element parser has failed, as `for i in range(count)` does *)
Fixpoint iter_pos {A} (f : A -> res A) (n : positive) (a : A) : res A :=
  match n with
  | xH => f a
  | xO n' => let* a1 := iter_pos f n' a in iter_pos f n' a1
  | xI n' => let* a1 := f a in let* a2 := iter_pos f n' a1 in iter_pos f n' a2
  end.
Definition iter_N {A} (f : A -> res A) (n : N) (a : A) : res A :=
  match n with N0 => Ok a | Npos p => iter_pos f p a end.

Definition count_step (P : parser) (cx : ctx) (p : path) (st : Z * list val * istream)
  : res (Z * list val * istream) :=
  let '(i, acc, s) := st in
  let* (v, s1) := P (ctx_set_index cx i) p s in Ok ((i + 1)%Z, v :: acc, s1).

Definition count_loop (P : parser) (n : N) (cx : ctx) (p : path) (s : istream) : res (list val * istream) :=
  let* (_, acc, s') := iter_N (count_step P cx p) n (0%Z, [], s) in Ok (rev acc, s').

(* an exception GreedyRange / Select swallow: everything but ExplicitError (and the model's meta
   outcomes, which are not behaviours of the code) *)
Definition swallowed (e : err) : bool :=
  match e with EExplicit | EStopField | EDiverge | EUnsupported => false | _ => true end.

(* seeking back to the fallback position after a failure; in a RestreamedBytesIO the failed part
   may have advanced the position, which the model does not track *)
Definition iseek_back (s : istream) (p : path) : res (Z * istream) :=
  if iseekable s then iseek s (itell s) 0 p else unsupported.

Definition greedy_loop (P : parser) :=
  fix go (fuel : nat) (i : Z) (cx : ctx) (p : path) (s : istream) : res (list val * istream) :=
    match fuel with
    | O => Err EDiverge None
    | S f =>
        match P (ctx_set_index cx i) p s with
        | Ok (v, s1) => let* (vs, s2) := go f (i + 1)%Z cx p s1 in Ok (v :: vs, s2)
        | Err EStopField _ => unsupported
        | Err e q =>
            if swallowed e then
              (* stream_seek(stream, fallback, 0, path) *)
              let* (_, s') := iseek_back s p in Ok ([], s')
            else Err e q
        end
    end.

Definition until_loop (P : parser) (pred : expr) :=
  fix go (fuel : nat) (i : Z) (acc : list val) (cx : ctx) (p : path) (s : istream)
    : res (list val * istream) :=
    match fuel with
    | O => Err EDiverge None
    | S f =>
        let cxi := ctx_set_index cx i in
        let* (v, s1) := P cxi p s in
        let acc' := acc ++ [v] in
        let* t := eval_obj cxi v (Some (VList acc')) pred in
        if truthy t then Ok (acc', s1) else go f (i + 1)%Z acc' cx p s1
    end.

Definition select_loop (P : con -> parser) :=
  fix go (cs : list con) (cx : ctx) (p : path) (s : istream) : res (val * istream) :=
    match cs with
    | [] => raise ESelect p
    | c :: t =>
        match P c cx p s with
        | Ok r => Ok r
        | Err e q =>
            if swallowed e then
              let* (_, s') := iseek_back s p in go t cx p s'
            else if err_eqb e EStopField then unsupported
            else Err e q
        end
    end.

(* Union: every member from the same start; remember where each ended *)
Definition union_loop (P : con -> parser) :=
  fix go (cs : list con) (i : Z) (cx : ctx) (p : path) (acc : list (name * val))
         (fw : list (Z * option name * Z)) (s : istream)
    : res (list (name * val) * ctx * list (Z * option name * Z) * istream) :=
    match cs with
    | [] => Ok (acc, cx, fw, s)
    | c :: t =>
        let* (v, s1) := P c cx p s in
        let '(acc', cx') := match name_of c with
                            | Some n => (dict_set n v acc, ctx_set cx n v)
                            | None => (acc, cx) end in
        let* (_, s2) := iseek s1 (itell s) 0 p in
        go t (i + 1)%Z cx' p acc' (fw ++ [(i, name_of c, itell s1)]) s2
    end.

Fixpoint nullterm_scan (fuel : nat) (term : bytes) (incl consume req : bool) (acc : bytes)
         (s : istream) (p : path) : res (bytes * istream) :=
  match fuel with
  | O => Err EDiverge None
  | S f =>
      match iread s (Z.of_nat (length term)) p with
      | Err e q => if req then Err e q else Ok (acc, snd (iread_all s))
      | Ok (b, s') =>
          if bytes_eqb b term then
            let acc' := if incl then acc ++ b else acc in
            if consume then Ok (acc', s')
            else let* (_, s'') := iseek s' (- Z.of_nat (length term)) 1 p in Ok (acc', s'')
          else nullterm_scan f term incl consume req (acc ++ b) s' p
      end
  end.

(* NullStripped: data.rstrip(pad) for unit 1, the unit-wise loop otherwise *)
Fixpoint strip_units (fuel : nat) (pad : bytes) (data : bytes) : bytes :=
  match fuel with
  | O => data
  | S f =>
      let u := length pad in
      let n := length data in
      if Nat.leb u n && bytes_eqb (skipn (n - u) data) pad then strip_units f pad (firstn (n - u) data)
      else data
  end.
Definition null_strip (pad : bytes) (data : bytes) : bytes :=
  let u := length pad in
  let n := length data in
  let tail := Nat.modulo n u in
  let data1 := if negb (Nat.eqb tail 0) && bytes_eqb (skipn (n - tail) data) (firstn tail pad)
               then firstn (n - tail) data else data in
  strip_units (length data1) pad data1.

(* ---- adapters' decode side ---- *)

Fixpoint last_label (z : Z) (table : list (name * Z)) (acc : option name) : option name :=
  match table with
  | [] => acc
  | (l, v) :: t => last_label z t (if Z.eqb v z then Some l else acc)
  end.

Definition n_flagsenum : name :=
  [x5f; x66; x6c; x61; x67; x73; x65; x6e; x75; x6d].   (* _flagsenum *)

(* decmapping = {v: k for k, v in mapping.items()}: for equal encoded values the last key wins *)
Fixpoint mapping_decode (obj : val) (table : list (val * val)) (acc : option val) : option val :=
  match table with
  | [] => acc
  | (k, v) :: t => mapping_decode obj t (if val_eqb v obj then Some k else acc)
  end.

Definition xor_data (pad : val) (data : bytes) (p : path) : res bytes :=
  let pad := match pad with VBytes [b] => VInt (Z.of_N (Byte.to_N b)) | _ => pad end in
  match pad with
  | VInt z =>
      if negb ((0 <=? z) && (z <? 256))%Z then raise EString p      (* integer pad must be in range(256) *)
      else if Z.eqb z 0 then Ok data
      else Ok (map (fun b => xor_byte b (byte_of_N (Z.to_N z))) data)
  | VBool _ => unsupported
  | VBytes k =>
      if Nat.leb (length k) 64 && forallb (fun b => Byte.eqb b x00) k then Ok data
      else Ok (xor_cycle k data)
  | _ => raise EString p
  end.

(* Restreamed: decode the rest of the outer stream unit by unit; None when some unit does not decode *)
Fixpoint decode_units (f : bfun) (units : list bytes) : option (list bytes) :=
  match units with
  | [] => Some []
  | u :: t => match apply_bfun f u, decode_units f t with
              | Ok d, Some r => Some (d :: r)
              | _, _ => None
              end
  end.
(* number of leading units needed to cover k decoded bytes, and the decoded total of those *)
Fixpoint units_needed (k : nat) (dec : list bytes) : nat * nat :=
  match k with
  | O => (O, O)
  | _ => match dec with
         | [] => (O, O)
         | d :: t => let '(j, tot) := units_needed (k - length d) t in (S j, length d + tot)%nat
         end
  end.

Definition oneof_mem (obj : val) (vs : list val) : res bool :=
  if hashable obj then Ok (existsb (fun v => val_eqb obj v) vs) else type_error.

(* ---- lazy parsing: offset table, cache, deferred parse (the recursive calls are parameters) ---- *)

Definition sizer := ctx -> path -> istream -> res Z.

(* _actualsize: sizeof, except that Prefixed measures itself by reading its length field *)
(* sc._actualsize(stream, context, path): the default is the static size; Prefixed measures its region; Renamed and the
   adapters defer to their subcon; a FocusedSeq of the PrefixedArray shape carries the macro's own measure (reify accepts that
   shape in a lazy position only with the instance attribute, and the attribute only on that shape) *)
Definition prefixed_actualsize (P : con -> parser) (lc : con) (incl : bool) : sizer := fun cx p s =>
  let* (lv, s1) := P lc cx p s in
  let* n := vint_of lv in
  let* n := (if incl then let* k := sizeof lc cx p in Ok (n - k)%Z else Ok n) in
  Ok ((itell s1 - itell s) + n)%Z.

(* the _actualsize the PrefixedArray macro attaches to its FocusedSeq: the count field is parsed under the macro's own path *)
Definition counted_actualsize (P : con -> parser) (lc el : con) : sizer := fun cx p s =>
  let* (lv, s1) := P lc cx p s in
  let* n := vint_of lv in
  let* k := sizeof el cx p in
  Ok ((itell s1 - itell s) + n * k)%Z.

Definition actualsize_with (P : con -> parser) : con -> sizer :=
  fix asz (c : con) : sizer := fun cx p s =>
    match c with
    | CPrefixed lc _ incl => prefixed_actualsize P lc incl cx p s
    | CRenamed n c' => asz c' cx (p ++ [n]) s
    | CStringEncoded c' _ | CEnum c' _ | CFlagsEnum c' _ | CMapping c' _ | CHex c' | CHexDump c'
    | CExprValidator c' _ | COneOf c' _ | CNoneOf c' _ | CExprAdapter c' _ _ => asz c' cx p s
    | CFocusedSeq _ [CRenamed _ (CRebuild lc _); CRenamed _ (CArray _ el)] => counted_actualsize P lc el cx p s
    | _ => sizeof c cx p
    end.

(* one member of LazyStruct._parse / LazyArray._parse: skip it when its size can be measured, parse it otherwise.
   state: index, offset, context, stream, offsets so far, cache so far *)
Definition lazy_state := (nat * Z * ctx * istream * list Z * list (nat * val))%type.

Definition lazy_step (Pc : parser) (Ac : sizer) (nm : option name) (p : path) (st : lazy_state) : res lazy_state :=
  let '(i, off, cx, s, offs, cache) := st in
  match Ac cx p s with
  | Ok n =>
      let off' := (off + n)%Z in
      let* (_, s1) := iseek s off' 0 p in
      Ok (S i, off', cx, s1, offs ++ [off'], cache)
  | Err ESizeof _ =>
      let* (_, s0) := iseek s off 0 p in
      let* (v, s1) := Pc cx p s0 in
      let cx' := match nm with Some n => ctx_set cx n v | None => cx end in
      let off' := itell s1 in
      Ok (S i, off', cx', s1, offs ++ [off'], cache ++ [(i, v)])
  | Err e q => Err e q
  end.

Definition lazy_scan_struct (P : con -> parser) :=
  fix go (cs : list con) (p : path) (st : lazy_state) : res lazy_state :=
    match cs with
    | [] => Ok st
    | c :: t => let* st' := lazy_step (P c) (actualsize_with P c) (name_of c) p st in go t p st'
    end.

Fixpoint lazy_scan_array (Pc : parser) (Ac : sizer) (n : nat) (p : path) (st : lazy_state) : res lazy_state :=
  match n with
  | O => Ok st
  | S n' => let* st' := lazy_step Pc Ac None p st in lazy_scan_array Pc Ac n' p st'
  end.

Fixpoint cache_get (i : nat) (cache : list (nat * val)) : option val :=
  match cache with
  | [] => None
  | (j, v) :: t => if Nat.eqb i j then Some v else cache_get i t
  end.

(* the deferred parse of member i: at its recorded offset, with the captured context; the position is restored *)
Definition lazy_force (Pc : parser) (off : Z) (cx : ctx) (p : path) (s : istream) : res (val * istream) :=
  let fallback := itell s in
  let* (_, s1) := iseek s off 0 p in
  let* (v, s2) := Pc cx p s1 in
  let* (_, s3) := iseek s2 fallback 0 p in
  Ok (v, s3).

(* forcing every named member once, in declaration order (what converting a lazy result to a plain value does) *)
Definition force_struct (P : con -> parser) :=
  fix go (cs : list con) (i : nat) (offs : list Z) (cache : list (nat * val)) (cx : ctx) (p : path) (s : istream)
    : res (list (name * val)) :=
    match cs with
    | [] => Ok []
    | c :: t =>
        match name_of c with
        | None => go t (S i) offs cache cx p s
        | Some n =>
            let* v := match cache_get i cache with
                      | Some v => Ok v
                      | None => match nth_error offs i with
                                | Some off => let* (v, _) := lazy_force (P c) off cx p s in Ok v
                                | None => Err EKey None
                                end
                      end in
            let* rest := go t (S i) offs cache cx p s in Ok ((n, v) :: rest)
        end
    end.

Fixpoint force_array (Pc : parser) (n : nat) (i : nat) (offs : list Z) (cache : list (nat * val)) (cx : ctx) (p : path) (s : istream)
  : res (list val) :=
  match n with
  | O => Ok []
  | S n' =>
      let* v := match cache_get i cache with
                | Some v => Ok v
                | None => match nth_error offs i with
                          | Some off => let* (v, _) := lazy_force Pc off cx p s in Ok v
                          | None => Err EKey None
                          end
                end in
      let* rest := force_array Pc n' (S i) offs cache cx p s in Ok (v :: rest)
  end.

(* ---- the interpreter ---- *)

Fixpoint parse (c : con) (cx : ctx) (p : path) (s : istream) {struct c} : res (val * istream) :=
  match c with
  | CFormat en f => parse_format en f p s
  | CBytesInt len signed swapped =>
      let* n := eval_int cx len in
      if (n <=? 0)%Z then raise EInteger p else
      let* (d, s') := iread s n p in
      let d := if swapped then swapbytes d else d in
      match bytes2integer d signed with
      | Some z => Ok (VInt z, s')
      | None => raise EInteger p
      end
  | CBitsInt len signed swapped =>
      let* n := eval_int cx len in
      if (n <=? 0)%Z then raise EInteger p else
      let* (d, s') := iread s n p in
      match (if swapped then swapbytesinbits d else Some d) with
      | None => raise EInteger p
      | Some d' => match bits2integer d' signed with
                   | Some z => Ok (VInt z, s')
                   | None => raise EInteger p
                   end
      end
  | CVarInt => let* (n, s') := parse_varint s p in Ok (VInt (Z.of_N n), s')
  | CZigZag => let* (n, s') := parse_varint s p in Ok (VInt (zigzag_dec n), s')
  | CBytes len =>
      let* n := eval_int cx len in
      let* (d, s') := iread s n p in Ok (VBytes d, s')
  | CGreedyBytes => let '(d, s') := iread_all s in Ok (VBytes d, s')
  | CFlag =>
      let* (d, s') := iread s 1 p in
      Ok (VBool (negb (bytes_eqb d [x00])), s')
  | CPass => Ok (VNone, s)
  | CTerminated =>
      (* stream.read(1) directly *)
      match iavail s with
      | [] => Ok (VNone, s)
      | _ => raise ETerminated p
      end
  | CError => raise EExplicit p
  | CTell => Ok (VInt (itell s), s)
  | CIndex =>
      match c_scopes cx with
      | sc :: _ => Ok (match s_index sc with Some v => v | None => VNone end, s)
      | [] => Ok (match c_topindex cx with Some i => VInt i | None => VNone end, s)
      end
  | CComputed e => let* v := eval cx e in Ok (v, s)
  | CCheck e => let* v := eval cx e in if truthy v then Ok (VNone, s) else raise ECheck p
  | CStopIf e => let* v := eval cx e in if truthy v then raise EStopField p else Ok (VNone, s)
  | CSeek at_ wh =>
      let* a := eval_int cx at_ in
      let* w := eval_int cx wh in
      let* (r, s') := iseek_user s a w p in Ok (VInt r, s')
  | CStringEncoded c' enc =>
      let* (v, s') := parse c' cx p s in
      match v with
      | VBytes d => match decode enc d with
                    | Some cps => Ok (VStr cps, s')
                    | None => raise EString p
                    end
      | _ => raise EString p
      end
  | CEnum c' table =>
      let* (v, s') := parse c' cx p s in
      match v with
      | VInt z | VEnum _ z =>
          match last_label z table None with
          | Some l => Ok (VEnum l z, s')
          | None => Ok (VInt z, s')
          end
      | VBool b => let z := (if b then 1 else 0)%Z in
          match last_label z table None with
          | Some l => Ok (VEnum l z, s')
          | None => Ok (VInt z, s')
          end
      | _ => unsupported
      end
  | CFlagsEnum c' table =>
      let* (v, s') := parse c' cx p s in
      let* z := vint_of v in
      Ok (VDict ((n_flagsenum, VBool true) ::
                 fold_left (fun acc e => dict_set (fst e) (VBool (Z.eqb (Z.land z (snd e)) (snd e))) acc)
                           table []), s')
  | CMapping c' table =>
      let* (v, s') := parse c' cx p s in
      if negb (hashable v) then raise EMapping p else
      match mapping_decode v table None with
      | Some k => Ok (k, s')
      | None => raise EMapping p
      end
  | CHex c' =>
      let* (v, s') := parse c' cx p s in
      match v with
      | VInt _ | VBool _ =>
          (* the display width comes from sizeof; SizeofError falls back to the width of the value *)
          match sizeof c' cx p with
          | Ok _ | Err ESizeof _ => Ok (v, s')
          | Err e q => Err e q
          end
      | _ => Ok (v, s')
      end
  | CHexDump c' => parse c' cx p s
  | CExprValidator c' e =>
      let* (v, s') := parse c' cx p s in
      let* t := eval_obj cx v None e in
      if truthy t then Ok (v, s') else raise EValidation p
  | COneOf c' vs =>
      let* (v, s') := parse c' cx p s in
      let* b := oneof_mem v vs in
      if b then Ok (v, s') else raise EValidation p
  | CNoneOf c' vs =>
      let* (v, s') := parse c' cx p s in
      let* b := oneof_mem v vs in
      if b then raise EValidation p else Ok (v, s')
  | CExprAdapter c' dec _ =>
      let* (v, s') := parse c' cx p s in
      let* r := eval_obj cx v None dec in Ok (r, s')
  | CStruct cs =>
      let* (kv, _, s') := struct_loop parse cs (push_scope cx) p [] s in Ok (VDict kv, s')
  | CSequence cs =>
      let* (vs, s') := seq_loop parse cs (push_scope cx) p s in Ok (VList vs, s')
  | CFocusedSeq sel cs =>
      let* (fin, s') := focus_loop parse sel cs (push_scope cx) p None s in
      match fin with
      | Some v => Ok (v, s')
      | None => Err EForeign None      (* UnboundLocalError: finalret *)
      end
  | CUnion sel cs =>
      let cx' := push_scope cx in
      let* (kv, cx'', fw, s') := union_loop parse cs 0%Z cx' p [] [] s in
      match sel with
      | USNone => Ok (VDict kv, s')
      | USIndex i =>
          match find (fun e => Z.eqb (fst (fst e)) i) fw with
          | Some (_, _, pos) => let* (_, s'') := iseek s' pos 0 p in Ok (VDict kv, s'')
          | None => key_error
          end
      | USName n =>
          match find (fun e => match snd (fst e) with Some m => name_eqb m n | None => false end) (rev fw) with
          | Some (_, _, pos) => let* (_, s'') := iseek s' pos 0 p in Ok (VDict kv, s'')
          | None => key_error
          end
      end
  | CSelect cs => select_loop parse cs cx p s
  | CIfThenElse e a b =>
      let* v := eval cx e in
      if truthy v then parse a cx p s else parse b cx p s
  | CSwitch e cases d =>
      let* k := eval cx e in
      if negb (hashable k) then type_error else
      (fix go (cases : list (val * con)) : res (val * istream) :=
         match cases with
         | [] => parse d cx p s
         | (v, c') :: t => if val_eqb k v then parse c' cx p s else go t
         end) cases
  | CArray count c' =>
      let* n := eval_int cx count in
      if (n <? 0)%Z then raise ERange p else
      let* (vs, s') := count_loop (parse c') (Z.to_N n) cx p s in Ok (VList vs, s')
  | CGreedyRange c' =>
      let* (vs, s') := greedy_loop (parse c') (length (idata s) + 64) 0%Z cx p s in Ok (VList vs, s')
  | CRepeatUntil pred c' =>
      let* (vs, s') := until_loop (parse c') pred (length (idata s) + 64) 0%Z [] cx p s in
      Ok (VList vs, s')
  | CRenamed n c' => parse c' cx (p ++ [n]) s
  | CConst v c' =>
      let* (w, s') := parse c' cx p s in
      if val_eqb w v then Ok (w, s') else raise EConst p
  | CRebuild c' _ | CDefault c' _ => parse c' cx p s
  | CPadded len c' _ =>
      let* n := eval_int cx len in
      if (n <? 0)%Z then raise EPadding p else
      let* (v, s1) := parse c' cx p s in
      let pad := (n - (itell s1 - itell s))%Z in
      if (pad <? 0)%Z then raise EPadding p else
      let* (_, s2) := iread s1 pad p in Ok (v, s2)
  | CAligned m c' _ =>
      let* n := eval_int cx m in
      if (n <? 2)%Z then raise EPadding p else
      let* (v, s1) := parse c' cx p s in
      let pad := ((- (itell s1 - itell s)) mod n)%Z in
      let* (_, s2) := iread s1 pad p in Ok (v, s2)
  | CPointer off c' =>
      let* o := eval_int cx off in
      let* (_, s1) := iseek_user s o (if (o <? 0)%Z then 2 else 0)%Z p in
      let* (v, s2) := parse c' cx p s1 in
      let* (_, s3) := iseek s2 (itell s) 0 p in Ok (v, s3)
  | CPeek c' =>
      let r := parse c' cx p s in
      (* finally: stream_seek(stream, fallback, 0, path) *)
      let back := match r with
                  | Ok (_, s1) => iseek s1 (itell s) 0 p
                  | Err _ _ => iseek_back s p
                  end in
      let* (_, sb) := back in
      match r with
      | Ok (v, _) => Ok (v, sb)
      | Err e q => if err_eqb e EExplicit then Err e q
                   else if is_construct_error e then Ok (VNone, sb) else Err e q
      end
  | COffsettedEnd off c' =>
      let* o := eval_int cx off in
      let* (endpos, s1) := iseek s 0 2 p in
      let* (_, s2) := iseek s1 (itell s) 0 p in
      let len := (endpos + o - itell s)%Z in
      let* (d, s3) := iread s2 len p in
      let* (v, _) := parse c' cx p (substream d (iabs s)) in Ok (v, s3)
  | CRawCopy c' =>
      let* (v, s1) := parse c' cx p s in
      let o1 := itell s in let o2 := itell s1 in
      let* (_, s2) := iseek s1 o1 0 p in
      let* (d, s3) := iread s2 (o2 - o1) p in
      Ok (VDict [([x64; x61; x74; x61], VBytes d);                                   (* data *)
                 ([x76; x61; x6c; x75; x65], v);                                      (* value *)
                 ([x6f; x66; x66; x73; x65; x74; x31], VInt o1);                      (* offset1 *)
                 ([x6f; x66; x66; x73; x65; x74; x32], VInt o2);                      (* offset2 *)
                 ([x6c; x65; x6e; x67; x74; x68], VInt (o2 - o1))], s3)               (* length *)
  | CPrefixed lc c' incl =>
      let* (lv, s1) := parse lc cx p s in
      let* n := vint_of lv in
      let* n := (if incl then let* k := sizeof lc cx p in Ok (n - k)%Z else Ok n) in
      let* (d, s2) := iread s1 n p in
      let* (v, _) := parse c' cx p (substream d (iabs s1)) in Ok (v, s2)
  | CFixedSized len c' =>
      let* n := eval_int cx len in
      if (n <? 0)%Z then raise EPadding p else
      let* (d, s1) := iread s n p in
      let* (v, _) := parse c' cx p (substream d (iabs s)) in Ok (v, s1)
  | CNullTerminated c' term incl consume req =>
      match term with
      | [] => raise EPadding p
      | _ =>
          let* (d, s1) := nullterm_scan (S (length (iavail s))) term incl consume req [] s p in
          let* (v, _) := parse c' cx p (substream d (iabs s)) in Ok (v, s1)
      end
  | CNullStripped c' pad =>
      match pad with
      | [] => raise EPadding p
      | _ =>
          let '(d, s1) := iread_all s in
          let* (v, _) := parse c' cx p (substream (null_strip pad d) (iabs s)) in Ok (v, s1)
      end
  | CTransformed c' df da _ _ =>
      let* (d, s1) := match da with
                      | None => Ok (iread_all s)
                      | Some n => iread s n p
                      end in
      let* d' := apply_bfun df d in
      let* (v, _) := parse c' cx p (istream_of d') in Ok (v, s1)
  | CRestreamed c' df du _ _ _ =>
      if (du <? 1)%Z then unsupported else
      let av := iavail s in
      let units := chunksn (Z.to_nat du) (length av) av in
      match decode_units df units with
      | None => unsupported
      | Some dec =>
          let* (v, si) := parse c' cx p (mkI (concat dec) 0%N 0%N false) in
          let k := N.to_nat (N.min (ipos si) (nlen (concat dec))) in
          let '(j, tot) := units_needed k dec in
          if Nat.eqb tot k then
            Ok (v, iset_pos s (ipos s + nlen (concat (firstn j units)))%N)
          else raise EStream p        (* close(): unread bytes remain -> StreamError *)
      end
  | CProcessXor key c' =>
      let* k := eval cx key in
      match k with
      | VInt _ | VBytes _ | VBool _ =>
          let '(d, s1) := iread_all s in
          let* d' := xor_data k d p in
          let* (v, _) := parse c' cx p (substream d' (iabs s)) in Ok (v, s1)
      | _ => raise EString p
      end
  | CProcessRotl amount group c' =>
      let* a := eval_int cx amount in
      let* g := eval_int cx group in
      if (g <? 1)%Z then raise ERotation p else
      if (alloc_bound <? g)%Z then unsupported else
      let am := Z.to_N (a mod (g * 8)) in
      let '(d, s1) := iread_all s in
      match rotate_left am (Z.to_nat g) d with
      | None => raise ERotation p
      | Some d' => let* (v, _) := parse c' cx p (istream_of d') in Ok (v, s1)
      end
  | CChecksum c' h data =>
      let* (h1, s1) := parse c' cx p s in
      let* d := eval cx data in
      match d with
      | VBytes bs =>
          if val_eqb h1 (apply_hash h bs) then Ok (h1, s1) else raise EChecksum p
      | _ => unsupported
      end
  (* lazy constructs: the interpreter returns the value obtained by forcing every part once, in order, after
     the parse; access histories are the subject of model/Lazy.v, which uses the same loops *)
  | CLazy c' =>
      match actualsize_with parse c' cx p s with
      | Ok n =>
          let* (_, s1) := iseek s (itell s + n) 0 p in
          let* (v, _) := lazy_force (parse c') (itell s) cx p s1 in Ok (v, s1)
      | Err ESizeof _ =>
          let* (_, s0) := iseek s (itell s) 0 p in
          parse c' cx p s0
      | Err e q => Err e q
      end
  | CLazyStruct cs =>
      let cx0 := push_scope cx in
      let off := itell s in
      let* (_, _, cx1, s', offs, cache) := lazy_scan_struct parse cs p (O, off, cx0, s, [off], []) in
      let* kv := force_struct parse cs O offs cache cx1 p s' in
      Ok (VDict kv, s')
  | CLazyArray count c' =>
      let* n := eval_int cx count in
      if (n <? 0)%Z then raise ERange p else
      if (alloc_bound <? n)%Z then unsupported else
      let off := itell s in
      let* (_, _, cx1, s', offs, cache) := lazy_scan_array (parse c') (actualsize_with parse c') (Z.to_nat n) p (O, off, cx, s, [off], []) in
      let* vs := force_array (parse c') (Z.to_nat n) O offs cache cx1 p s' in
      Ok (VList vs, s')
  end.

(* public entry point: d.parse(data, **kw) *)
Definition parse_bytes (c : con) (kw : list (name * val)) (data : bytes) : res val :=
  let* (v, _) := parse c (top_ctx kw MParse) [] (istream_of data) in Ok v.

(* d.parse_stream(io.BytesIO(data) seeked to start, **kw): value and final tell() *)
Definition parse_at (c : con) (kw : list (name * val)) (data : bytes) (start : N) : res (val * Z) :=
  let* (v, s) := parse c (top_ctx kw MParse) [] (mkI data start 0%N true) in Ok (v, itell s).
