(* Lazy results as state machines: (members, offsets, cache, captured context) and the access step.
   The scanning and forcing loops are those of model/Parse.v (lazy_step, lazy_force), so the plain
   interpreter and the access histories share one definition. *)
From Coq Require Import ZArith NArith List Bool.
From Coq Require Import Strings.Byte.
Require Import Bytes Value Expr Codec Float Stream Syntax Sizeof Parse.
Import ListNotations.

Record lazyres := mkLazy {
  l_member : nat -> option con;        (* the construct of member i *)
  l_count : nat;
  l_offsets : list Z;                  (* absolute offset of member i; one more entry for the end *)
  l_cache : list (nat * val);          (* values parsed so far, by member index *)
  l_ctx : ctx;                         (* the context captured by the result *)
  l_path : path
}.

Definition lazy_parse (c : con) (cx : ctx) (p : path) (s : istream) : res (lazyres * istream) :=
  match c with
  | CLazyStruct cs =>
      let cx0 := push_scope cx in
      let off := itell s in
      let* (_, _, cx1, s', offs, cache) := lazy_scan_struct parse cs p (O, off, cx0, s, [off], []) in
      Ok (mkLazy (nth_error cs) (length cs) offs cache cx1 p, s')
  | CLazyArray count c' =>
      let* n := eval_int cx count in
      if (n <? 0)%Z then raise ERange p else
      if (alloc_bound <? n)%Z then unsupported else
      let off := itell s in
      let* (_, _, cx1, s', offs, cache) := lazy_scan_array (parse c') (actualsize_with parse c') (Z.to_nat n) p (O, off, cx, s, [off], []) in
      Ok (mkLazy (fun i => if Nat.ltb i (Z.to_nat n) then Some c' else None) (Z.to_nat n) offs cache cx1 p, s')
  | _ => unsupported
  end.

(* LazyContainer.__getitem__(i) / LazyListContainer.__getitem__(i): value, new result, new stream *)
Definition lazy_access (l : lazyres) (i : nat) (s : istream) : res (val * lazyres * istream) :=
  match cache_get i (l_cache l) with
  | Some v => Ok (v, l, s)
  | None =>
      match l_member l i, nth_error (l_offsets l) i with
      | Some c, Some off =>
          let* (v, s') := lazy_force (parse c) off (l_ctx l) (l_path l) s in
          Ok (v, mkLazy (l_member l) (l_count l) (l_offsets l) ((i, v) :: l_cache l) (l_ctx l) (l_path l), s')
      | _, _ => Err EKey None
      end
  end.

(* a whole history of accesses: the value returned and the stream position after each access; an access
   that raises ends the history (the exception propagates to whoever made the access) *)
Inductive lout := LVal (v : val) (pos : Z) | LErr (e : err).

Fixpoint lazy_history (l : lazyres) (h : list nat) (s : istream) : list lout :=
  match h with
  | [] => []
  | i :: t =>
      match lazy_access l i s with
      | Ok (v, l', s') => LVal v (itell s') :: lazy_history l' t s'
      | Err e _ => [LErr e]
      end
  end.

(* d.parse_stream(stream) followed by the accesses of the history: position after the parse, then the outputs *)
Definition lazy_run (c : con) (kw : list (name * val)) (data : bytes) (start : N) (h : list nat) : res (Z * list lout) :=
  let* (l, s') := lazy_parse c (top_ctx kw MParse) [] (mkI data start 0%N true) in
  Ok (itell s', lazy_history l h s').
