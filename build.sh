#!/bin/bash
# Build the Coq development (full .vo), extract the model and compile the OCaml driver.
set -e
cd "$(dirname "$0")/coq"
export OCAMLRUNPARAM=${OCAMLRUNPARAM:-}
[ -f Makefile ] || coq_makefile -f _CoqProject -o Makefile >/dev/null
if [ _CoqProject -nt Makefile ]; then coq_makefile -f _CoqProject -o Makefile >/dev/null; fi
# -k: a file that no longer compiles (a regenerated table that breaks one proof) must not keep the rest from being rebuilt;
# ./check decides per property whether what it needs was built (it re-checks props/Cxx.v against the fresh .vo files)
set +e
timeout ${VERIF_MAKE_TIMEOUT:-3000} make -k -j${VERIF_JOBS:-16} TIMED= 2>&1 | grep -v '^COQDEP\|conda'
makerc=${PIPESTATUS[0]}
set -e
[ -f model/Run.vo ] || { echo "model/Run.vo missing"; exit 1; }
cd extract
if [ ! -x driver ] || [ ../model/Run.vo -nt driver ] || [ ../../tools/schema.py -nt driver ] || [ base.ml -nt driver ] || [ driver.ml -nt driver ] || [ Extract.v -nt driver ]; then
  timeout 600 coqc -R ../model V Extract.v >/dev/null
  python3 ../../tools/gen_conv.py conv.ml
  timeout 600 ocamlfind ocamlopt -package unix -linkpkg -O2 -w -a -o driver model.mli model.ml base.ml conv.ml driver.ml
fi
echo driver-ok
test "$makerc" = 0
echo build-ok
