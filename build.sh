#!/bin/bash
# Build the Coq development (full .vo), extract the model and compile the OCaml driver.
set -e
cd "$(dirname "$0")/coq"
export OCAMLRUNPARAM=${OCAMLRUNPARAM:-}
[ -f Makefile ] || coq_makefile -f _CoqProject -o Makefile >/dev/null
if [ _CoqProject -nt Makefile ]; then coq_makefile -f _CoqProject -o Makefile >/dev/null; fi
timeout ${VERIF_MAKE_TIMEOUT:-3000} make -j${VERIF_JOBS:-16} TIMED= 2>&1 | grep -v '^COQDEP\|conda' || true
test "${PIPESTATUS[0]}" = 0
cd extract
if [ ! -x driver ] || [ ../model/Run.vo -nt driver ] || [ ../../tools/schema.py -nt driver ] || [ base.ml -nt driver ] || [ driver.ml -nt driver ] || [ Extract.v -nt driver ]; then
  timeout 600 coqc -R ../model V Extract.v >/dev/null
  python3 ../../tools/gen_conv.py conv.ml
  timeout 600 ocamlfind ocamlopt -package unix -linkpkg -O2 -w -a -o driver model.mli model.ml base.ml conv.ml driver.ml
fi
echo build-ok
